(* QrMathFactor.v -- QR::factorize (Qr.v: qr_factorize, port of ZUNG2R) in matrix terms, and the
   theorems  Q R = A,  Q'Q = I  for the model.
   Q(i,j) as returned by the accessor is column j of  H_0 H_1 ... H_(k-1)  (j < k = min(m,n)),
   and 0 for k <= j < n.   (C16 / A6) *)
From Amgcl Require Import Scalar Vec KernelsProofs StaticMatProofs DirectUtil DirectProofs Qr QrProofs
     QrMathAlg QrMathRefl QrMathCompute.
Local Open Scope S_scope.
Local Open Scope nat_scope.

Section ProdR.
Context {S : Scalar}.
Hypothesis Sft : Sfield S.
Let SrtF0 : Sring S := F_R Sft.
Add Ring SRingQrF0 : SrtF0.
Variable m : nat.
Variable taus : nat -> S.
Variable vs : nat -> nat -> S.

(* H_i (H_(i+1) (... H_(i+cnt-1) x)) *)
Fixpoint hprodR (i cnt : nat) (x : nat -> S) : nat -> S :=
  match cnt with
  | O => x
  | Datatypes.S c => happ m (taus i) (vs i) (hprodR (Datatypes.S i) c x)
  end.

Lemma hprodR_ext cnt : forall i x x', (forall l, l < m -> x l = x' l) ->
  forall r, r < m -> hprodR i cnt x r = hprodR i cnt x' r.
Proof.
  induction cnt as [|cnt IH]; intros i x x' Hx r Hr; simpl; [apply Hx; assumption|].
  apply happ_ext; [reflexivity| |assumption]. intros l Hl. apply IH; assumption.
Qed.

Lemma hprodR_last cnt : forall i x r, r < m ->
  hprodR i (Datatypes.S cnt) x r = hprodR i cnt (happ m (taus (i + cnt)) (vs (i + cnt)) x) r.
Proof.
  induction cnt as [|cnt IH]; intros i x r Hr.
  - simpl. rewrite Nat.add_0_r. reflexivity.
  - change (hprodR i (Datatypes.S (Datatypes.S cnt)) x r)
      with (happ m (taus i) (vs i) (hprodR (Datatypes.S i) (Datatypes.S cnt) x) r).
    change (hprodR i (Datatypes.S cnt) (happ m (taus (i + Datatypes.S cnt)) (vs (i + Datatypes.S cnt)) x) r)
      with (happ m (taus i) (vs i) (hprodR (Datatypes.S i) cnt (happ m (taus (i + Datatypes.S cnt)) (vs (i + Datatypes.S cnt)) x)) r).
    apply happ_ext; [reflexivity| |assumption]. intros l Hl. rewrite IH by assumption.
    replace (Datatypes.S i + cnt) with (i + Datatypes.S cnt) by lia. reflexivity.
Qed.

Lemma hprod_hprodR k : forall x r, r < m -> hprod m taus vs k x r = hprodR 0 k x r.
Proof.
  induction k as [|k IH]; intros x r Hr; [reflexivity|].
  rewrite hprodR_last by assumption. simpl. apply IH. assumption.
Qed.

(* a vector orthogonal to all the v_j is left alone *)
Lemma hprodR_fix cnt : forall i x, (forall j, i <= j < i + cnt -> dot m (vs j) x = s0) ->
  forall r, r < m -> hprodR i cnt x r = x r.
Proof.
  induction cnt as [|cnt IH]; intros i x H r Hr; simpl; [reflexivity|].
  transitivity (happ m (taus i) (vs i) x r).
  - apply happ_ext; [reflexivity| |assumption]. intros l Hl. apply IH; [|assumption]. intros j Hj. apply H. lia.
  - apply (happ_fix Sft). apply H. lia.
Qed.

Lemma hprodR_zero cnt : forall i r, r < m -> hprodR i cnt (fun _ => s0) r = s0.
Proof.
  intros i r Hr. apply (hprodR_fix cnt i (fun _ => s0)); [|assumption]. intros j _. apply (dot_zero_r Sft).
Qed.

End ProdR.

Section Factor.
Context {S : Scalar}.
Local Notation vec := (vec S).
Hypothesis Sft : Sfield S.
Hypothesis Seqb : seqb_spec S.
Hypothesis Hadj : forall x : S, sadj x = x.
Hypothesis Habs : forall x : S, (sabs x * sabs x = x * x)%S.
Hypothesis Hsqrt : forall y : S, sos y -> (ssqrt y * ssqrt y = y)%S.
Hypothesis Hreal : forall y x : S, sos y -> (y + x * x = s0)%S -> y = s0.
Let SrtF : Sring S := F_R Sft.
Add Ring SRingQrF : SrtF.

Variables m n rs cs : nat.
Hypothesis Hst : StrideOK m n rs cs.
Local Notation mv := (mv rs cs).
Local Notation vcol := (vcol rs cs).
Local Notation InB := (InB m n rs cs).

Definition delta (c l : nat) : S := if Nat.eqb l c then s1 else s0.

Lemma dot_delta (v : nat -> S) c : c < m -> dot m v (delta c) = v c.
Proof.
  intro Hc. unfold dot, delta. rewrite (sumn_delta_r SrtF). destruct (Nat.ltb_spec c m); [reflexivity|lia].
Qed.

(* H(V column i, t) applied to the columns > i of C (rows i..m-1 are touched) *)
Lemma apply_block_spec i (V C : vec) (t : S) : i < m -> InB C ->
  let C' := apply_reflector (m - i) (n - i - 1) V (i * (rs + cs)) rs t C (i * (rs + cs) + cs) rs cs in
  length C' = length C /\
  (forall r c, r < m -> c < n -> c <= i -> mv C' r c = mv C r c) /\
  (forall c r, i < c -> c < n -> r < m -> mv C' r c = happ m t (vcol V i) (fun l => mv C l c) r).
Proof.
  intros Hi HB. cbv zeta. set (ii := i * (rs + cs)).
  assert (Ec : forall c' j, ii + cs + c' * cs + j * rs = (i + j) * rs + (i + 1 + c') * cs) by (intros; unfold ii; ring).
  assert (Ev : forall j, ii + j * rs = (i + j) * rs + i * cs) by (intros; unfold ii; ring).
  pose proof (apply_reflector_spec Sft Seqb Hadj (m - i) (n - i - 1) V ii rs t C (ii + cs) rs cs) as HA.
  cbv zeta in HA. destruct HA as (HL2 & Hfr2 & Hv2).
  { lia. }
  { intros c j c' j' Hc Hj Hc' Hj' E. rewrite !Ec in E. apply Hst in E; lia. }
  { intros c j Hc Hj. rewrite Ec. apply HB; lia. }
  split; [assumption|]. split.
  - intros r c Hr Hc Hci. unfold QrMathCompute.mv. apply Hfr2. intros c' j Hc' Hj E. rewrite Ec in E. apply Hst in E; lia.
  - intros c r Hic Hc Hr.
    assert (Evv : forall j, j < m - i -> vvec V ii rs j = vcol V i (i + j)).
    { intros j Hj. unfold vvec, QrMathCompute.vcol. destruct (Nat.ltb_spec (i + j) i); [lia|].
      destruct (Nat.eqb_spec j 0) as [->|Hj0].
      - rewrite Nat.add_0_r, Nat.eqb_refl. reflexivity.
      - destruct (Nat.eqb_spec (i + j) i); [lia|]. unfold QrMathCompute.mv. rewrite Ev. reflexivity. }
    assert (Edot : dot m (vcol V i) (fun l => mv C l c)
                 = sumn (fun l => (vvec V ii rs l * vget C (ii + cs + (c - i - 1) * cs + l * rs))%S) (m - i)).
    { unfold dot. replace m with (i + (m - i)) at 1 by lia. rewrite (sumn_app Sft).
      rewrite (sumn_allz Sft) by (intros u Hu; unfold QrMathCompute.vcol; destruct (Nat.ltb_spec u i); [ring|lia]).
      transitivity (sumn (fun u => (vcol V i (i + u) * mv C (i + u) c)%S) (m - i)); [ring|].
      apply sumn_ext. intros u Hu. rewrite Evv by assumption. unfold QrMathCompute.mv. rewrite Ec.
      replace (i + 1 + (c - i - 1)) with c by lia. reflexivity. }
    destruct (Nat.lt_ge_cases r i) as [Hri|Hri].
    + unfold happ. unfold QrMathCompute.vcol at 1. destruct (Nat.ltb_spec r i); [|lia].
      unfold QrMathCompute.mv at 1. rewrite Hfr2.
      * fold (mv C r c). ring.
      * intros c' j Hc' Hj E. rewrite Ec in E. apply Hst in E; lia.
    + unfold QrMathCompute.mv at 1.
      replace (r * rs + c * cs) with (ii + cs + (c - i - 1) * cs + (r - i) * rs)
        by (rewrite Ec; f_equal; f_equal; lia).
      rewrite Hv2 by lia. unfold happ. rewrite Edot. rewrite Evv by lia.
      replace (i + (r - i)) with r by lia. rewrite Ec.
      replace (i + (r - i)) with r by lia. replace (i + 1 + (c - i - 1)) with c by lia. reflexivity.
Qed.

Local Notation k := (Nat.min m n).

(* ---------- the columns k..n-1 (only present when m < n) are zero ---------- *)
Lemma q0_spec (qj : vec) : InB qj ->
  let q0 := for_loop 0 m (fun i q => for_loop k (n - k) (fun j q =>
                lset q (i * rs + j * cs) (if Nat.eqb i j then s1 else s0)) q) qj in
  length q0 = length qj /\ forall r c, r < m -> k <= c -> c < n -> mv q0 r c = s0.
Proof.
  intros HB. cbv zeta.
  pose (P := fun i (q : vec) => length q = length qj /\ forall r c, r < i -> k <= c -> c < n -> mv q r c = s0).
  match goal with |- length ?X = _ /\ _ => assert (H : P (0 + m) X) end.
  { apply (for_loop_inv P).
    - split; [reflexivity|]. intros; lia.
    - intros i q Hi (HL & Hz).
      destruct (loop_lset (fun j => i * rs + j * cs) (fun j _ => if Nat.eqb i j then s1 else s0) k (n - k) q) as (HL1 & Hfr1 & Hv1).
      { intros j j' Hj Hj' E. apply Hst in E; lia. }
      { intros j Hj. rewrite HL. apply HB; lia. }
      cbv beta in HL1, Hfr1, Hv1.
      split; [congruence|]. intros r c Hr Hkc Hc.
      destruct (Nat.eq_dec r i) as [->|Hne].
      + unfold QrMathCompute.mv. rewrite Hv1 by lia. destruct (Nat.eqb_spec i c); [lia|reflexivity].
      + unfold QrMathCompute.mv. rewrite Hfr1 by (intros j Hj E; apply Hst in E; lia). apply Hz; [lia|assumption|assumption]. }
  destruct H as (HL & Hz). split; [assumption|]. intros r c Hr. apply Hz. lia.
Qed.

(* ---------- the three writes that build column i ---------- *)
Lemma column_write_spec i (q1 A' : vec) (ti : S) : i < m -> i < n -> InB q1 ->
  let q2 := for_loop 0 i (fun j q => lset q (j * rs + i * cs) s0) q1 in
  let q3 := lset q2 (i * (rs + cs)) (s1 - ti)%S in
  let q4 := for_loop (i + 1) (m - (i + 1)) (fun j q => lset q (j * rs + i * cs) (- ti * vget A' (j * rs + i * cs))%S) q3 in
  length q4 = length q1 /\
  (forall r c, r < m -> c < n -> c <> i -> mv q4 r c = mv q1 r c) /\
  (forall r, r < m -> mv q4 r i = if Nat.ltb r i then s0 else if Nat.eqb r i then (s1 - ti)%S else (- ti * mv A' r i)%S).
Proof.
  intros Hi Hin HB. cbv zeta.
  destruct (loop_lset (fun j => j * rs + i * cs) (fun _ _ => @s0 S) 0 i q1) as (HL2 & Hfr2 & Hv2).
  { intros j j' Hj Hj' E. apply Hst in E; lia. }
  { intros j Hj. apply HB; lia. }
  cbv beta in HL2, Hfr2, Hv2.
  set (q2 := for_loop 0 i (fun j q => lset q (j * rs + i * cs) s0) q1) in *.
  assert (Eii : i * (rs + cs) = i * rs + i * cs) by ring.
  set (q3 := lset q2 (i * (rs + cs)) (s1 - ti)%S).
  assert (HL3 : length q3 = length q1) by (unfold q3; rewrite lset_length; assumption).
  destruct (loop_lset (fun j => j * rs + i * cs) (fun j _ => (- ti * vget A' (j * rs + i * cs))%S) (i + 1) (m - (i + 1)) q3) as (HL4 & Hfr4 & Hv4).
  { intros j j' Hj Hj' E. apply Hst in E; lia. }
  { intros j Hj. rewrite HL3. apply HB; lia. }
  cbv beta in HL4, Hfr4, Hv4.
  split; [congruence|]. split.
  - intros r c Hr Hc Hne. unfold QrMathCompute.mv.
    rewrite Hfr4 by (intros j Hj E; apply Hst in E; lia).
    unfold q3. rewrite vget_lset_neq by (rewrite Eii; intro E; apply Hst in E; lia).
    apply Hfr2. intros j Hj E. apply Hst in E; lia.
  - intros r Hr. unfold QrMathCompute.mv at 1.
    destruct (Nat.ltb_spec r i) as [Hri|Hri].
    + rewrite Hfr4 by (intros j Hj E; apply Hst in E; lia).
      unfold q3. rewrite vget_lset_neq by (rewrite Eii; intro E; apply Hst in E; lia).
      apply Hv2. lia.
    + destruct (Nat.eqb_spec r i) as [->|Hne].
      * rewrite Hfr4 by (intros j Hj E; apply Hst in E; lia).
        unfold q3. rewrite <- Eii. apply vget_lset_eq. rewrite HL2, Eii. apply HB; assumption.
      * rewrite Hv4 by lia. reflexivity.
Qed.

(* ---------- the backward accumulation ---------- *)
Definition fact_body (A' tau : vec) (i : nat) (q : vec) : vec :=
  let ic := i * cs in
  let ii := i * (rs + cs) in
  let ti := vget tau i in
  let q1 := if Nat.ltb i (n - 1)
            then apply_reflector (m - i) (n - i - 1) A' ii rs ti q (ii + cs) rs cs
            else q in
  let q2 := for_loop 0 i (fun j q => lset q (j * rs + ic) s0) q1 in
  let q3 := lset q2 ii (s1 - ti)%S in
  for_loop (i + 1) (m - (i + 1))
    (fun j q => lset q (j * rs + ic) (- ti * vget A' (j * rs + ic))%S) q3.

Definition QInv (A' tau qj : vec) (i : nat) (q : vec) : Prop :=
  length q = length qj /\
  forall c r, i <= c -> c < n -> r < m ->
    mv q r c = if Nat.ltb c k then hprodR m (vget tau) (vcol A') i (k - i) (delta c) r else s0.

Lemma fact_body_step (A' tau qj : vec) i (q : vec) : InB qj -> i < k ->
  QInv A' tau qj (Datatypes.S i) q -> QInv A' tau qj i (fact_body A' tau i q).
Proof.
  intros HBj Hi (HL & Hq). unfold fact_body. cbv zeta.
  assert (HB : InB q) by (apply (InB_length m n rs cs qj); assumption).
  set (ti := vget tau i).
  (* the reflector applied to the finished columns *)
  set (q1 := if Nat.ltb i (n - 1) then apply_reflector (m - i) (n - i - 1) A' (i * (rs + cs)) rs ti q (i * (rs + cs) + cs) rs cs else q).
  assert (H1 : length q1 = length q /\
     (forall r c, r < m -> c < n -> c <= i -> mv q1 r c = mv q r c) /\
     (forall c r, i < c -> c < n -> r < m -> mv q1 r c = happ m ti (vcol A' i) (fun l => mv q l c) r)).
  { unfold q1. destruct (Nat.ltb_spec i (n - 1)) as [Hn|Hn].
    - apply apply_block_spec; [lia|assumption].
    - split; [reflexivity|]. split; [reflexivity|]. intros; lia. }
  destruct H1 as (HL1 & Hfr1 & Hv1).
  assert (HB1 : InB q1) by (apply (InB_length m n rs cs q); assumption).
  destruct (column_write_spec i q1 A' ti ltac:(lia) ltac:(lia) HB1) as (HL4 & Hfr4 & Hv4).
  cbv zeta in HL4, Hfr4, Hv4.
  split; [congruence|].
  intros c r Hic Hc Hr.
  replace (k - i) with (Datatypes.S (k - Datatypes.S i)) by lia. cbn [hprodR]. fold ti.
  destruct (Nat.eq_dec c i) as [->|Hne].
  - (* the new column: H_i e_i *)
    rewrite Hv4 by assumption. destruct (Nat.ltb_spec i k); [|lia].
    rewrite (happ_ext m ti (vcol A' i) (vcol A' i) _ (delta i) (fun _ _ => eq_refl)
               (hprodR_fix Sft m (vget tau) (vcol A') (k - Datatypes.S i) (Datatypes.S i) (delta i)
                  ltac:(intros j Hj; rewrite dot_delta by lia; unfold QrMathCompute.vcol;
                        destruct (Nat.ltb_spec i j); [reflexivity|lia])) r Hr).
    unfold happ. rewrite dot_delta by lia. unfold delta, QrMathCompute.vcol.
    rewrite Nat.ltb_irrefl, Nat.eqb_refl.
    destruct (Nat.ltb_spec r i); [destruct (Nat.eqb_spec r i); [lia|ring]|].
    destruct (Nat.eqb_spec r i); ring.
  - rewrite Hfr4 by assumption. rewrite Hv1 by (try assumption; lia).
    destruct (Nat.ltb_spec c k) as [Hck|Hck].
    + apply happ_ext; [reflexivity| |assumption]. intros l Hl. rewrite Hq by (try assumption; lia).
      destruct (Nat.ltb_spec c k); [reflexivity|lia].
    + transitivity (happ m ti (vcol A' i) (fun _ => s0) r); [|apply (happ_zero Sft)].
      apply happ_ext; [reflexivity| |assumption]. intros l Hl. rewrite Hq by (try assumption; lia).
      destruct (Nat.ltb_spec c k); [lia|reflexivity].
Qed.

Lemma qr_factorize_unfold (A qj : vec) :
  qr_factorize m n rs cs A qj =
  let A' := fst (qr_compute m n rs cs A) in
  let tau := snd (qr_compute m n rs cs A) in
  let q0 := for_loop 0 m (fun i q => for_loop k (n - k) (fun j q =>
                lset q (i * rs + j * cs) (if Nat.eqb i j then s1 else s0)) q) qj in
  (A', tau, for_down 0 k (fact_body A' tau) q0).
Proof.
  unfold qr_factorize. destruct (qr_compute m n rs cs A) as [A' tau]. reflexivity.
Qed.

(* Q(i,j) of the accessor = entry (i,j) of H_0 ... H_(k-1) for j < k, and 0 for j >= k *)
Theorem qr_factorize_Q (A qj : vec) : InB A -> InB qj ->
  let A' := fst (fst (qr_factorize m n rs cs A qj)) in
  let tau := snd (fst (qr_factorize m n rs cs A qj)) in
  let q := snd (qr_factorize m n rs cs A qj) in
  A' = fst (qr_compute m n rs cs A) /\ tau = snd (qr_compute m n rs cs A) /\ length q = length qj /\
  forall r c, r < m -> c < n ->
    qr_Q rs cs q r c = if Nat.ltb c k then hprod m (vget tau) (vcol A') k (delta c) r else s0.
Proof.
  intros HBA HBq. rewrite qr_factorize_unfold. cbv zeta. cbn [fst snd].
  split; [reflexivity|]. split; [reflexivity|].
  set (A' := fst (qr_compute m n rs cs A)). set (tau := snd (qr_compute m n rs cs A)).
  destruct (q0_spec qj HBq) as (HL0 & Hz0). cbv zeta in HL0, Hz0.
  match type of HL0 with length ?X = _ => set (q0 := X) in * end.
  assert (H : QInv A' tau qj 0 (for_down 0 k (fact_body A' tau) q0)).
  { apply (for_down_inv (QInv A' tau qj)).
    - split; [assumption|]. intros c r Hkc Hc Hr. rewrite Hz0 by (try assumption; lia).
      destruct (Nat.ltb_spec c k); [lia|reflexivity].
    - intros i q Hi HI. apply fact_body_step; [assumption|lia|assumption]. }
  destruct H as (HL & Hq). split; [assumption|].
  intros r c Hr Hc. unfold qr_Q. fold (mv (for_down 0 k (fact_body A' tau) q0) r c).
  rewrite Hq by (try assumption; lia). rewrite Nat.sub_0_r.
  destruct (Nat.ltb c k); [|reflexivity]. symmetry. apply (hprod_hprodR m). assumption.
Qed.

Lemma sumn_cut (f : nat -> S) a b : a <= b -> (forall u, a <= u -> u < b -> f u = s0) -> sumn f b = sumn f a.
Proof.
  intros Hab Hz. replace b with (a + (b - a)) by lia. rewrite (sumn_app Sft).
  rewrite (sumn_allz Sft (fun u => f (a + u))) by (intros u Hu; apply Hz; lia). ring.
Qed.

(* ---------- Q R = A  and  Q'Q = I ---------- *)
Theorem qr_QR_eq_A (A qj : vec) : InB A -> InB qj ->
  let A' := fst (fst (qr_factorize m n rs cs A qj)) in
  let q := snd (qr_factorize m n rs cs A qj) in
  forall i j, i < m -> j < n ->
    sumn (fun l => (qr_Q rs cs q i l * qr_R rs cs A' l j)%S) k = mv A i j.
Proof.
  intros HBA HBq. destruct (qr_factorize_Q A qj HBA HBq) as (EA & Et & _ & HQ). cbv zeta in *.
  set (A' := fst (fst (qr_factorize m n rs cs A qj))) in *.
  set (tau := snd (fst (qr_factorize m n rs cs A qj))) in *.
  set (q := snd (qr_factorize m n rs cs A qj)) in *.
  destruct (qr_compute_spec Sft Seqb Hadj Habs Hsqrt Hreal m n rs cs Hst A HBA) as (_ & _ & _ & HA).
  cbv zeta in HA. rewrite <- EA, <- Et in HA.
  intros i j Hi Hj. rewrite (HA j i Hj Hi).
  (* the column of R as a combination of unit vectors *)
  assert (Ecol : forall l, l < m -> qr_R rs cs A' l j = sumn (fun p => (qr_R rs cs A' p j * delta p l)%S) m).
  { intros l Hl. unfold delta.
    transitivity (sumn (fun p => (qr_R rs cs A' p j * (if Nat.eqb p l then s1 else s0))%S) m).
    - rewrite (sumn_delta_r SrtF l (fun p => qr_R rs cs A' p j) m). destruct (Nat.ltb_spec l m); [reflexivity|lia].
    - apply sumn_ext. intros p _. rewrite (Nat.eqb_sym p l). reflexivity. }
  rewrite (hprod_ext m (vget tau) (vcol A') (vget tau) (vcol A') k (fun _ _ => eq_refl) (fun _ _ _ _ => eq_refl)
             (fun l => qr_R rs cs A' l j) (fun l => sumn (fun p => (qr_R rs cs A' p j * delta p l)%S) m) Ecol i Hi).
  rewrite (hprod_sumn Sft) by assumption.
  rewrite (sumn_cut _ k m (Nat.le_min_l m n)).
  2:{ intros u Hu1 Hu2. unfold qr_R. destruct (Nat.ltb_spec j u); [ring|lia]. }
  apply sumn_ext. intros l Hl. rewrite HQ by (try assumption; lia).
  destruct (Nat.ltb_spec l k); [ring|lia].
Qed.

Theorem qr_QtQ_eq_I (A qj : vec) : InB A -> InB qj ->
  let q := snd (qr_factorize m n rs cs A qj) in
  forall i j, i < k -> j < k ->
    sumn (fun l => (qr_Q rs cs q l i * qr_Q rs cs q l j)%S) m = if Nat.eqb i j then s1 else s0.
Proof.
  intros HBA HBq. destruct (qr_factorize_Q A qj HBA HBq) as (EA & Et & _ & HQ). cbv zeta in *.
  set (A' := fst (fst (qr_factorize m n rs cs A qj))) in *.
  set (tau := snd (fst (qr_factorize m n rs cs A qj))) in *.
  set (q := snd (qr_factorize m n rs cs A qj)) in *.
  destruct (qr_compute_spec Sft Seqb Hadj Habs Hsqrt Hreal m n rs cs Hst A HBA) as (_ & _ & HR & _).
  cbv zeta in HR. rewrite <- EA, <- Et in HR.
  intros i j Hi Hj.
  transitivity (dot m (hprod m (vget tau) (vcol A') k (delta i)) (hprod m (vget tau) (vcol A') k (delta j))).
  - unfold dot. apply sumn_ext. intros l Hl. rewrite !HQ by (try assumption; lia).
    destruct (Nat.ltb_spec i k), (Nat.ltb_spec j k); try lia. reflexivity.
  - rewrite (hprod_orth Sft) by assumption. rewrite dot_delta by lia. unfold delta. rewrite Nat.eqb_sym. reflexivity.
Qed.

End Factor.
