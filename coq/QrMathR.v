(* QrMathR.v -- the hypotheses of the QR theorems are satisfiable: they hold for the real numbers of
   Coq's standard library with the true square root (Reals; its axioms are listed by Print
   Assumptions).  Closed instances of the QR theorems at R.   (C16 / A6) *)
From Coq Require Import Reals Lra Qreals RealField.
From Amgcl Require Import Scalar Vec DirectUtil Qr QrMathAlg QrMathRefl QrMathCompute QrMathFactor QrMathMain QrMathLsq QrMathRank.
Local Open Scope R_scope.

Definition RS : Scalar :=
  mkScalar R 0 1 Rplus Rmult Rminus Ropp Rdiv Rinv (fun x => x) Rabs sqrt
           (fun x y => if Req_EM_T x y then true else false)
           (fun x y => if Rlt_dec x y then true else false)
           (/ IZR (2 ^ 52)) Q2R.

Lemma RS_field : Sfield RS.
Proof. exact Rfield. Qed.

Lemma RS_eqb : seqb_spec RS.
Proof.
  intros x y. simpl. destruct (Req_EM_T x y); split; intro H; try reflexivity; try assumption; try discriminate.
  contradiction.
Qed.

Lemma RS_adj : forall x : RS, sadj x = x.
Proof. reflexivity. Qed.

Lemma RS_abs : forall x : RS, (sabs x * sabs x = x * x)%S.
Proof. intro x. simpl. fold (Rsqr (Rabs x)). fold (Rsqr x). symmetry. apply Rsqr_abs. Qed.

Lemma RS_sos_nonneg (y : RS) : sos y -> 0 <= y.
Proof.
  induction 1 as [|y x _ IH]; simpl; [lra|]. pose proof (Rle_0_sqr x) as Hx. unfold Rsqr in Hx. lra.
Qed.

Lemma RS_sqrt : forall y : RS, sos y -> (ssqrt y * ssqrt y = y)%S.
Proof. intros y H. simpl. apply sqrt_sqrt. apply RS_sos_nonneg. assumption. Qed.

Lemma RS_real : forall y x : RS, sos y -> (y + x * x = s0)%S -> y = s0.
Proof.
  intros y x H E. simpl in *. pose proof (RS_sos_nonneg y H) as Hy. pose proof (Rle_0_sqr x) as Hx. unfold Rsqr in Hx. lra.
Qed.

(* closed instances *)
Theorem qr_factorize_correct_R (cm : bool) m n (A q : vec RS) :
  length A = (m * n)%nat -> length q = (m * n)%nat ->
  let rs := qr_rs cm m n in let cs := qr_cs cm m n in
  let A' := fst (fst (qr_factorize m n rs cs A q)) in
  let Q := snd (qr_factorize m n rs cs A q) in
  let k := Nat.min m n in
  (forall i j, (i < m)%nat -> (j < n)%nat ->
     sumn (fun l => (qr_Q rs cs Q i l * qr_R rs cs A' l j)%S) k = vget A (i * rs + j * cs)) /\
  (forall i j, (i < k)%nat -> (j < k)%nat ->
     sumn (fun l => (qr_Q rs cs Q l i * qr_Q rs cs Q l j)%S) m = if Nat.eqb i j then 1 else 0) /\
  (forall i j, (j < i)%nat -> qr_R rs cs A' i j = 0).
Proof.
  intros HA Hq. cbv zeta.
  destruct (qr_factorize_correct RS_field RS_eqb RS_adj RS_abs RS_sqrt RS_real cm m n A q HA Hq) as (H1 & H2 & H3 & _).
  split; [exact H1|]. split; [exact H2|exact H3].
Qed.

Lemma RS_ring : Sring RS.
Proof. exact (F_R RS_field). Qed.

Lemma nrm2_nonneg k (e : nat -> RS) : 0 <= @nrm2 RS k e.
Proof.
  unfold nrm2. induction k as [|k IH]; simpl in *; [lra|]. pose proof (Rle_0_sqr (e k)) as H. unfold Rsqr in H. lra.
Qed.

(* tall systems: the result of solve() minimises |A z - b|^2 *)
Theorem qr_solve_least_squares_R (cm : bool) m n (A b : vec RS) :
  length A = (m * n)%nat -> (m <= length b)%nat -> (n <= m)%nat ->
  let rs := qr_rs cm m n in let cs := qr_cs cm m n in
  (forall i, (i < n)%nat -> qr_R rs cs (fst (qr_compute m n rs cs A)) i i <> 0) ->
  let x := qr_solve m n rs cs A b in
  let a := fun r c => vget A (r * rs + c * cs) in
  length x = n /\
  (forall c, (c < n)%nat -> sumn (fun r => (a r c * (mulv n a (vget x) r - vget b r))%S) m = 0) /\
  forall z : nat -> RS,
    @nrm2 RS m (fun r => (mulv n a (vget x) r - vget b r)%S) <= @nrm2 RS m (fun r => (mulv n a z r - vget b r)%S).
Proof.
  intros HLA HLb Hnm rs cs Hd x a.
  destruct (qr_solve_tall_correct RS_field RS_eqb RS_adj RS_abs RS_sqrt RS_real cm m n A b HLA HLb Hnm Hd) as (HL & Hne).
  split; [exact HL|]. split; [exact Hne|]. intro z.
  pose proof (lsq_pythagoras RS_ring m n a (vget x) (vget b) Hne z) as HP.
  pose proof (nrm2_nonneg m (fun r => @mulv RS n a (fun j => (z j - vget x j)%R) r)) as H0.
  simpl in HP. simpl in H0. simpl. lra.
Qed.

(* wide systems: the result of solve() solves A x = b and has the smallest |x|^2 among all solutions *)
Theorem qr_solve_min_norm_R (cm : bool) m n (A b : vec RS) :
  length A = (m * n)%nat -> (m <= length b)%nat -> (m < n)%nat ->
  let rs := qr_rs cm m n in let cs := qr_cs cm m n in
  (forall i, (i < m)%nat -> qr_R cs rs (fst (qr_compute n m cs rs A)) i i <> 0) ->
  let x := qr_solve m n rs cs A b in
  let a := fun r c => vget A (r * rs + c * cs) in
  length x = n /\
  (forall r, (r < m)%nat -> mulv n a (vget x) r = vget b r) /\
  forall z : nat -> R, (forall r, (r < m)%nat -> @mulv RS n a z r = vget b r) -> @nrm2 RS n (vget x) <= @nrm2 RS n z.
Proof.
  intros HLA HLb Hmn rs cs Hd x a.
  destruct (qr_solve_wide_correct RS_field RS_eqb RS_adj RS_abs RS_sqrt RS_real cm m n A b HLA HLb Hmn Hd) as (HL & Hsol & Hker).
  split; [exact HL|]. split; [exact Hsol|]. intros z Hz.
  pose proof (minnorm_pythagoras RS_ring m n a (vget x) (vget b) Hsol Hker z Hz) as HP.
  pose proof (nrm2_nonneg n (fun c => (z c - vget x c)%R)) as H0.
  simpl in HP. simpl in H0. simpl. lra.
Qed.

(* the same with "full rank" in the literal sense (linearly independent columns / rows) *)
Theorem qr_solve_least_squares_full_rank_R (cm : bool) m n (A b : vec RS) :
  length A = (m * n)%nat -> (m <= length b)%nat -> (n <= m)%nat ->
  let rs := qr_rs cm m n in let cs := qr_cs cm m n in
  let a := fun r c => vget A (r * rs + c * cs) in
  col_independent m n a ->
  let x := qr_solve m n rs cs A b in
  length x = n /\
  forall z : nat -> RS,
    @nrm2 RS m (fun r => (mulv n a (vget x) r - vget b r)%S) <= @nrm2 RS m (fun r => (mulv n a z r - vget b r)%S).
Proof.
  intros HLA HLb Hnm rs cs a Hind x.
  assert (Hd : forall i, (i < n)%nat -> qr_R rs cs (fst (qr_compute m n rs cs A)) i i <> 0).
  { intros i Hi. unfold qr_R. rewrite Nat.ltb_irrefl.
    exact (qr_full_rank_diag RS_field RS_eqb RS_adj RS_abs RS_sqrt RS_real m n _ _ A (stride_ok cm m n) Hnm
             (inb_ok cm m n A HLA) Hind i Hi). }
  destruct (qr_solve_least_squares_R cm m n A b HLA HLb Hnm Hd) as (H1 & _ & H3). split; [exact H1|exact H3].
Qed.

Theorem qr_solve_min_norm_full_rank_R (cm : bool) m n (A b : vec RS) :
  length A = (m * n)%nat -> (m <= length b)%nat -> (m < n)%nat ->
  let rs := qr_rs cm m n in let cs := qr_cs cm m n in
  let a := fun r c => vget A (r * rs + c * cs) in
  col_independent n m (fun c r => a r c) ->
  let x := qr_solve m n rs cs A b in
  length x = n /\
  (forall r, (r < m)%nat -> mulv n a (vget x) r = vget b r) /\
  forall z : nat -> RS, (forall r, (r < m)%nat -> @mulv RS n a z r = vget b r) -> @nrm2 RS n (vget x) <= @nrm2 RS n z.
Proof.
  intros HLA HLb Hmn rs cs a Hind x.
  assert (Hd : forall i, (i < m)%nat -> qr_R cs rs (fst (qr_compute n m cs rs A)) i i <> 0).
  { intros i Hi. unfold qr_R. rewrite Nat.ltb_irrefl.
    apply (qr_full_rank_diag RS_field RS_eqb RS_adj RS_abs RS_sqrt RS_real n m _ _ A
             (StrideOK_swap _ _ _ _ (stride_ok cm m n)) (Nat.lt_le_incl _ _ Hmn)
             (InB_swap _ _ _ _ A (inb_ok cm m n A HLA))); [|assumption].
    intros y Hy j Hj. apply (Hind y); [|assumption].
    intros r Hr. rewrite <- (Hy r Hr). apply sumn_ext. intros c Hc. unfold a, mv. f_equal. f_equal. lia. }
  exact (qr_solve_min_norm_R cm m n A b HLA HLb Hmn Hd).
Qed.
