(* AmgScale6.v -- the hypotheses of AmgScale5 (Chebyshev) at the exact rationals. *)
From Coq Require Import QArith Qcanon.
From Amgcl Require Import Scalar QcInst Vec Crs Kernels Amg AmgProofs10 AmgOrder AmgOrderQc AmgScale5.
Local Close Scope Qc_scope.
Local Close Scope Q_scope.
Local Open Scope S_scope.

Lemma qc_abs_sltb (v : T QcS) : sabs v = if sltb v s0 then sopp v else v.
Proof.
  change (@sabs QcS v) with (qc_abs v). change (@sltb QcS v s0) with (qc_ltb v (Q2Qc 0)).
  unfold qc_abs, qc_ltb. change (Qnum (this (Q2Qc 0))) with 0%Z. change (Zpos (Qden (this (Q2Qc 0)))) with 1%Z.
  rewrite Z.mul_1_r, Z.mul_0_l. reflexivity.
Qed.

Lemma QcS_abs_mul (c : T QcS) : olt s0 c -> forall v : T QcS, sabs (smul v c) = smul (sabs v) c.
Proof.
  intros Hc v. rewrite !qc_abs_sltb.
  replace (@s0 QcS) with (smul (@s0 QcS) c) at 1 by (change (Qcmult (Q2Qc 0) c = Q2Qc 0); ring).
  rewrite (sltb_scale QcS_ordered c Hc v s0).
  destruct (sltb v s0); [|reflexivity]. change (Qcopp (Qcmult v c) = Qcmult (Qcopp v) c). ring.
Qed.

Lemma QcS_inv0 : sinv (@s0 QcS) = s0.
Proof. reflexivity. Qed.
