(* CompositeProofs.v -- C18-A2: the block LDU identity behind schur_pressure_correction::apply,
   on split vectors, with the inner solvers as functions. *)
From Coq Require Import ZifyBool.
From Amgcl Require Import Scalar Vec Crs Kernels KernelsProofs MatOps Adapters Composite.
Local Open Scope S_scope.

Section Ring.
Context {S : Scalar}.
Local Notation vec := (vec S).
Hypothesis Srt : Sring S.
Add Ring SRingK : Srt.

(* ---- vectors: extensionality and the pointwise operations ---- *)
Lemma vec_ext (a b : vec) : length a = length b -> (forall i, i < length a -> vget a i = vget b i) -> a = b.
Proof.
  revert b; induction a as [|x a IH]; intros [|y b] Hl H; simpl in *; try lia; [reflexivity|].
  f_equal.
  - apply (H 0%nat). lia.
  - apply IH; [lia|]. intros i Hi. apply (H (Datatypes.S i)). lia.
Qed.

Lemma map2_length {X Y Z} (f : X -> Y -> Z) a b : length a = length b -> length (map2 f a b) = length a.
Proof. revert b; induction a as [|x a IH]; intros [|y b] H; simpl in *; try lia. rewrite IH; lia. Qed.

Lemma map2_get (f : S -> S -> S) (a b : vec) i : length a = length b -> i < length a ->
  vget (map2 f a b) i = f (vget a i) (vget b i).
Proof.
  unfold vget. revert b i; induction a as [|x a IH]; intros [|y b] i Hl Hi; simpl in *; try lia.
  destruct i; [reflexivity|]. apply IH; lia.
Qed.

Lemma vsub_length (a b : vec) : length a = length b -> length (vsub a b) = length a.
Proof. apply map2_length. Qed.
Lemma vadd_length (a b : vec) : length a = length b -> length (vadd a b) = length a.
Proof. apply map2_length. Qed.
Lemma vsub_get (a b : vec) i : length a = length b -> i < length a -> vget (vsub a b) i = vget a i - vget b i.
Proof. apply map2_get. Qed.
Lemma vadd_get (a b : vec) i : length a = length b -> i < length a -> vget (vadd a b) i = vget a i + vget b i.
Proof. apply map2_get. Qed.

Lemma vadd_vsub_cancel (a b : vec) : length a = length b -> vadd (vsub a b) b = a.
Proof.
  intro H. apply vec_ext.
  - rewrite vadd_length; rewrite vsub_length; auto.
  - intros i Hi. rewrite vadd_length, vsub_length in Hi by (rewrite ?vsub_length; auto).
    rewrite vadd_get, vsub_get by (rewrite ?vsub_length; auto; lia). ring.
Qed.

(* d - c = f - a  ==>  (a - c) + d = f   (all of one length) *)
Lemma schur_pointwise (a c d f : vec) n :
  length a = n -> length c = n -> length d = n -> length f = n ->
  vsub d c = vsub f a -> vadd (vsub a c) d = f.
Proof.
  intros Ha Hc Hd Hf E. apply vec_ext.
  - rewrite vadd_length; rewrite vsub_length; congruence.
  - intros i Hi. rewrite vadd_length, vsub_length in Hi by (rewrite ?vsub_length; congruence).
    assert (Ei : vget (vsub d c) i = vget (vsub f a) i) by (rewrite E; reflexivity).
    rewrite !vsub_get in Ei by (try congruence; lia).
    rewrite vadd_get, vsub_get by (rewrite ?vsub_length; try congruence; lia).
    assert (G : vget a i - vget c i + vget d i = (vget d i - vget c i) + vget a i) by ring.
    rewrite G, Ei. ring.
Qed.

(* ---- the abstract block identity ---- *)
Section Blocks.
Variables (nu np : nat).
Variables (Auu Aup Apu App : vec -> vec).       (* the four sub-blocks as linear maps *)
Variables (solveU solveS : vec -> vec).
Definition Lu (v : vec) := length v = nu.
Definition Lp (v : vec) := length v = np.
(* shapes *)
Hypothesis Auu_len : forall v, Lu v -> Lu (Auu v).
Hypothesis Aup_len : forall v, Lp v -> Lu (Aup v).
Hypothesis Apu_len : forall v, Lu v -> Lp (Apu v).
Hypothesis App_len : forall v, Lp v -> Lp (App v).
Hypothesis solveU_len : forall v, Lu v -> Lu (solveU v).
Hypothesis solveS_len : forall v, Lp v -> Lp (solveS v).
(* linearity of the blocks (matrix-vector products: mv_sub below) *)
Hypothesis Auu_sub : forall a b, Lu a -> Lu b -> Auu (vsub a b) = vsub (Auu a) (Auu b).
Hypothesis Apu_sub : forall a b, Lu a -> Lu b -> Apu (vsub a b) = vsub (Apu a) (Apu b).
(* exact inner solves: solveU is the inverse of Kuu, solveS of the Schur complement *)
Hypothesis solveU_right : forall v, Lu v -> Auu (solveU v) = v.
Hypothesis solveU_left  : forall v, Lu v -> solveU (Auu v) = v.
Definition Sop (x : vec) : vec := vsub (App x) (Apu (solveU (Aup x))).
Hypothesis solveS_right : forall v, Lp v -> Sop (solveS v) = v.

Lemma solveU_sub a b : Lu a -> Lu b -> solveU (vsub a b) = vsub (solveU a) (solveU b).
Proof.
  intros Ha Hb.
  rewrite <- (solveU_right a Ha) at 1. rewrite <- (solveU_right b Hb) at 1.
  rewrite <- Auu_sub by (apply solveU_len; assumption).
  apply solveU_left. unfold Lu. rewrite vsub_length; [apply solveU_len; exact Ha|].
  rewrite (solveU_len a Ha), (solveU_len b Hb). reflexivity.
Qed.

(* type 1: u = U(fu - Kup p), p = S^-1 (fp - Kpu U fu)  solves the full block system *)
Theorem schur_type1_exact (fu fp : vec) : Lu fu -> Lp fp ->
  let u1 := solveU fu in
  let p := solveS (vsub fp (Apu u1)) in
  let u := solveU (vsub fu (Aup p)) in
  vadd (Auu u) (Aup p) = fu /\ vadd (Apu u) (App p) = fp.
Proof.
  intros Hfu Hfp. cbv zeta.
  set (u1 := solveU fu). set (rp := vsub fp (Apu u1)). set (p := solveS rp).
  assert (Hu1 : Lu u1) by (apply solveU_len; exact Hfu).
  assert (Hrp : Lp rp).
  { unfold Lp, rp. rewrite vsub_length; [exact Hfp|]. rewrite Hfp. symmetry. apply Apu_len. exact Hu1. }
  assert (Hp : Lp p) by (apply solveS_len; exact Hrp).
  assert (Hkp : Lu (Aup p)) by (apply Aup_len; exact Hp).
  assert (Hru : Lu (vsub fu (Aup p))).
  { unfold Lu. rewrite vsub_length; [exact Hfu|]. rewrite Hfu, Hkp. reflexivity. }
  split.
  - rewrite solveU_right by exact Hru. apply vadd_vsub_cancel. rewrite Hfu, Hkp. reflexivity.
  - rewrite solveU_sub by assumption. rewrite Apu_sub by (apply solveU_len; assumption).
    apply (schur_pointwise _ _ _ _ np).
    + apply Apu_len, solveU_len; exact Hfu.
    + apply Apu_len, solveU_len; exact Hkp.
    + apply App_len; exact Hp.
    + exact Hfp.
    + pose proof (solveS_right rp Hrp) as E. unfold Sop in E. fold p in E. exact E.
Qed.

(* type 2: p = S^-1 fp, u = U(fu - Kup p) solves [[Kuu, Kup],[0, S]] (u,p) = (fu,fp) *)
Theorem schur_type2_exact (fu fp : vec) : Lu fu -> Lp fp ->
  let p := solveS fp in
  let u := solveU (vsub fu (Aup p)) in
  vadd (Auu u) (Aup p) = fu /\ Sop p = fp.
Proof.
  intros Hfu Hfp. cbv zeta.
  assert (Hp : Lp (solveS fp)) by (apply solveS_len; exact Hfp).
  assert (Hkp : Lu (Aup (solveS fp))) by (apply Aup_len; exact Hp).
  split.
  - rewrite solveU_right.
    + apply vadd_vsub_cancel. rewrite Hfu, Hkp. reflexivity.
    + unfold Lu. rewrite vsub_length; [exact Hfu|]. rewrite Hfu, Hkp. reflexivity.
  - apply solveS_right. exact Hfp.
Qed.
End Blocks.

(* ---- matrix-vector products are such linear maps ---- *)
Lemma mv_length (A : crs S) x : length (mv A x) = nrows A.
Proof. unfold mv, nrows. apply map_length. Qed.

Lemma dotrow_sub (r : row S) (a b : vec) : length a = length b -> row_wf (length a) r = true ->
  dotrow r (vsub a b) = dotrow r a - dotrow r b.
Proof.
  intros Hl Hwf. induction r as [|e r IH]; [unfold dotrow; simpl; ring|].
  simpl in Hwf. apply andb_prop in Hwf as [He Hr]. apply Nat.ltb_lt in He.
  rewrite !(dotrow_cons Srt), IH by exact Hr.
  rewrite vsub_get by assumption. ring.
Qed.

Theorem mv_sub (A : crs S) (a b : vec) : wf A = true -> length a = ncols A -> length b = ncols A ->
  mv A (vsub a b) = vsub (mv A a) (mv A b).
Proof.
  intros Hwf Ha Hb. unfold mv, vsub at 2.
  unfold wf in Hwf. rewrite forallb_forall in Hwf.
  induction (rows A) as [|r rs IH]; [reflexivity|]. simpl. f_equal.
  - apply dotrow_sub; [congruence|]. rewrite Ha. apply Hwf. left; reflexivity.
  - apply IH. intros x Hx. apply Hwf. right; exact Hx.
Qed.

(* A3: the CPR apply formula, as computed *)
Theorem cpr_apply_formula (A Fpp Scatter : crs S) (sprecond pprecond : vec -> vec) (f : vec) :
  cpr_apply A Fpp Scatter sprecond pprecond f =
  vadd (sprecond f) (mv Scatter (pprecond (mv Fpp (vsub f (mv A (sprecond f)))))).
Proof. reflexivity. Qed.

End Ring.

(* "%start:stride" with stride = 0 (what a start of two or more digits parses to, because the
   stride is read at the fixed offset 3): the loop  for(i = start; i < n; i += stride)  never
   terminates, whatever the number of steps allowed *)
Section Pattern.
Theorem pattern_stride0_never_terminates fuel n start (mask : list bool) :
  start < n -> pattern_loop fuel n 0 start mask = None.
Proof.
  intro H. revert mask; induction fuel as [|k IH]; intro mask; [reflexivity|].
  simpl. replace (Nat.ltb start n) with true by (symmetry; apply Nat.ltb_lt; exact H).
  rewrite Nat.add_0_r. apply IH.
Qed.

(* with a positive stride n - start + 1 steps suffice *)
Theorem pattern_terminates fuel n stride start (mask : list bool) :
  0 < stride -> n - start < fuel -> exists m, pattern_loop fuel n stride start mask = Some m.
Proof.
  intros Hs. revert start mask; induction fuel as [|k IH]; intros start mask Hf; [lia|].
  simpl. destruct (Nat.ltb_spec start n); [|eexists; reflexivity].
  apply IH. lia.
Qed.
End Pattern.

