(* Properties_C16.v -- C16: direct and dense kernels are exact.  (work in progress) *)
From Amgcl Require Import Scalar QcInst Vec Crs DirectUtil CuthillMcKee Direct Inverse StaticMat Qr.
Local Open Scope S_scope.

Theorem C16_placeholder : cuthill_mckee false [[0]]%nat = CmOk [0]%nat.
Proof. reflexivity. Qed.
Print Assumptions C16_placeholder.
