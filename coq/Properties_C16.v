(* Properties_C16.v -- C16: direct and dense kernels are exact (skyline LU, small inverse,
   QR, reordering).  Statements only; proofs live in CuthillMcKeeProofs.v, DirectProofs.v,
   InverseProofs.v, StaticMatProofs.v.
   "any S": holds for every Scalar record (so also for floats with NaN/Inf);
   "ring"/"field": Section hypotheses, closed at Qc below. *)
From Coq Require Import Permutation.
From Amgcl Require Import Scalar QcInst Vec Crs KernelsProofs DirectUtil CuthillMcKee Direct Inverse StaticMat Qr DirectSpec
     CuthillMcKeeProofs DirectProofs InverseProofs StaticMatProofs CroutProofs InverseExact QrProofs
     QrMathAlg QrMathRefl QrMathCompute QrMathFactor QrMathSolve QrMathMain QrMathLsq QrMathRank QrMathR QrMathEx
     InversePivot InversePivotQc.
Local Open Scope S_scope.

(* ------------------------------------------------------------------------------------ *)
(* A4.  Cuthill-McKee (either degree order) terminates within the model's fuel and returns a
   permutation of 0..n-1 for EVERY square pattern with n >= 1: non-symmetric, disconnected,
   duplicate entries, unsorted rows; node 0 is never expanded ([while (node > 0)]) and the
   fallback for unreachable components is what makes the result complete. *)
Theorem C16_cuthill_mckee_permutation (reverse : bool) (G : graph) :
  graph_wf G = true -> length G <> 0%nat ->
  exists p, cuthill_mckee reverse G = CmOk p /\ Permutation p (seq 0 (length G)).
Proof. exact (cuthill_mckee_permutation reverse G). Qed.
Print Assumptions C16_cuthill_mckee_permutation.

(* ------------------------------------------------------------------------------------ *)
(* A1 (any S).  skyline_lu::operator(): the solution AND the scratch vector y left behind do
   not depend on the previous content of y (reuse of one solver object, C15 clause). *)
Theorem C16_skyline_solve_junk_independent (S : Scalar) (f : skyline S) rhs x (y y' : vec S) :
  profile_wf (sk_n f) (sk_ptr f) -> length y = sk_n f -> length y' = sk_n f ->
  sky_solve f rhs x y = sky_solve f rhs x y'.
Proof. exact (sky_solve_junk_independent f rhs x y y'). Qed.
Print Assumptions C16_skyline_solve_junk_independent.

Theorem C16_skyline_scratch_keeps_size (S : Scalar) (f : skyline S) rhs x (y : vec S) :
  length (snd (sky_solve f rhs x y)) = length y.
Proof. exact (sky_solve_scratch_length f rhs x y). Qed.
Print Assumptions C16_skyline_scratch_keeps_size.


(* every solver object returned by the constructor (any ordering result) has a well-formed
   skyline profile: 0 <= len_i <= i, ptr monotone -- the shape the index arithmetic of
   factorize() and operator() relies on *)
Theorem C16_skyline_profile_wellformed (S : Scalar) (A : crs S) perm f :
  sky_build_perm A perm = SkyOk f ->
  sk_n f = nrows A /\ sk_perm f = perm /\ profile_wf (sk_n f) (sk_ptr f).
Proof. exact (sky_build_perm_wf A perm f). Qed.
Print Assumptions C16_skyline_profile_wellformed.

(* detail::inverse: the result does not depend on the uninitialised scratch array t. *)
Theorem C16_inverse_junk_independent (S : Scalar) n (A t t' : vec S) :
  length t = (n * n)%nat -> length t' = (n * n)%nat -> inverse n A t = inverse n A t'.
Proof. exact (inverse_junk_independent n A t t'). Qed.
Print Assumptions C16_inverse_junk_independent.

Section Field.
Variable S : Scalar.
Hypothesis Sft : Sfield S.
Hypothesis Seqb : seqb_spec S.

(* A1 (field).  Solve phase, for ARBITRARY factors in skyline storage with a well-formed
   profile: with L' = strictly lower part L plus the diagonal of UN-inverted pivots 1/D[i]
   (D holds the inverted pivots), U' = unit upper triangular part U,
        L' (U' x') = b'     where x'[t] = x[perm[t]], b'[i] = rhs[perm[i]]. *)
Theorem C16_skyline_solve_exact (f : skyline S) (rhs x y : vec S) :
  profile_wf (sk_n f) (sk_ptr f) -> length y = sk_n f ->
  NoDup (sk_perm f) -> length (sk_perm f) = sk_n f ->
  (forall i, i < sk_n f -> pget (sk_perm f) i < length x) ->
  (forall i, i < sk_n f -> vget (sk_D f) i <> s0) ->
  let xo := fst (sky_solve f rhs x y) in
  forall i, i < sk_n f ->
    sumn (fun j => Lfull f i j *
                   sumn (fun t => Ufull f j t * vget xo (pget (sk_perm f) t)) (sk_n f)) (sk_n f)
    = vget rhs (pget (sk_perm f) i).
Proof. exact (sky_solve_exact Sft f rhs x y). Qed.

(* A2 (field), error branch and pivots: a zero pivot makes the constructor return the error
   value (C++: precondition throws); a successful factorisation leaves only non-zero inverted
   pivots in D (the hypothesis of the solve theorem). *)
Theorem C16_skyline_zero_first_pivot (A : crs S) perm :
  is_zero (vget (snd (fill (nrows A) (inverse_perm (nrows A) perm)
                           (profile_ptr (nrows A) (profile_heights (nrows A) (inverse_perm (nrows A) perm) A)) A)) 0) = true ->
  sky_build_perm A perm = SkyZeroPivot.
Proof. exact (sky_build_zero_first_pivot A perm). Qed.

Theorem C16_skyline_pivots_nonzero n ptr (lud : vec S * vec S * vec S) L U D :
  (0 < n)%nat -> length (snd lud) = n ->
  factorize n ptr lud = Some (L, U, D) -> forall i, i < n -> vget D i <> s0.
Proof. exact (factorize_pivots_nonzero Sft Seqb n ptr lud L U D). Qed.


(* End to end (field): for EVERY square matrix with n >= 1 rows -- any pattern, either degree
   order -- whenever the constructor succeeds (no zero pivot) the object holds a permutation, a
   well-formed profile and non-zero pivots, and every call of operator() (whatever y contains)
   returns x with L'(U' x') = b' for the stored factors. *)
Theorem C16_skyline_built_solver_exact reverse (A : crs S) f (rhs x y : vec S) :
  graph_wf (map (map fst) (rows A)) = true -> (0 < nrows A)%nat ->
  sky_build reverse A = SkyOk f -> length y = nrows A -> length x = nrows A ->
  sk_n f = nrows A /\ Permutation (sk_perm f) (seq 0 (nrows A)) /\
  forall i, i < nrows A ->
    sumn (fun j => Lfull f i j *
                   sumn (fun t => Ufull f j t * vget (fst (sky_solve f rhs x y)) (pget (sk_perm f) t))
                        (sk_n f)) (sk_n f)
    = vget rhs (pget (sk_perm f) i).
Proof. exact (sky_build_solve_exact Sft Seqb reverse A f rhs x y). Qed.

(* A2 (field), partial: dense Crout (full profile) for n = 3: the factors stored by factorize()
   multiply to the matrix that was filled in, L' U' = A, whenever no pivot is zero. *)
Theorem C16_crout_dense_3_partial (d0 d1 d2 l10 l20 l21 u01 u02 u12 : S) perm L U D :
  factorize 3 [0; 0; 1; 3]%nat ([l10; l20; l21], [u01; u02; u12], [d0; d1; d2]) = Some (L, U, D) ->
  forall i j, i < 3 -> j < 3 ->
    sumn (fun t => Lfull (mkSky 3 perm [0; 0; 1; 3]%nat L U D) i t * Ufull (mkSky 3 perm [0; 0; 1; 3]%nat L U D) t j) 3
    = dense3 d0 d1 d2 l10 l20 l21 u01 u02 u12 i j.
Proof. exact (crout_dense_3 Sft Seqb d0 d1 d2 l10 l20 l21 u01 u02 u12 perm L U D). Qed.

(* A2 (field): Crout factorisation in skyline storage, for EVERY n and EVERY well-formed profile:
   the factors stored by factorize() multiply to the dense view M0 of the arrays it was given
   (M0 = strictly lower part from L0, diagonal D0, strictly upper part from U0; zero outside the
   profile -- and the product is zero there too: entries outside the profile stay zero). *)
Theorem C16_crout_factors_exact n ptr (L0 U0 D0 L U D : vec S) perm :
  profile_wf n ptr -> (0 < n)%nat ->
  length L0 = pget ptr n -> length U0 = pget ptr n -> length D0 = n ->
  factorize n ptr (L0, U0, D0) = Some (L, U, D) ->
  forall i j, i < n -> j < n ->
    sumn (fun t => Lfull (mkSky n perm ptr L U D) i t * Ufull (mkSky n perm ptr L U D) t j) n
    = M0 ptr L0 U0 D0 i j.
Proof.
  intros Hwf Hn HL HU HD HF.
  exact (crout_product Sft n ptr L0 U0 D0 HL HU HD perm L U D
           (factorize_CInv Sft Seqb n ptr Hwf L0 U0 D0 HL HU HD L U D Hn HF)).
Qed.

(* the arrays the constructor hands to factorize() are the dense matrix P A P^T; GUARD: rows have
   distinct columns (a duplicate entry is overwritten here, added by spmv) *)
Theorem C16_skyline_fill_is_PAPt n (A : crs S) perm :
  nrows A = n -> ncols A = n -> wf A = true -> rows_distinct A -> Permutation perm (seq 0 n) ->
  let ip := inverse_perm n perm in
  let ptr := profile_ptr n (profile_heights n ip A) in
  let lud := fill n ip ptr A in
  forall i j, i < n -> j < n ->
    M0 ptr (fst (fst lud)) (snd (fst lud)) (snd lud) i j = mget A (pget perm i) (pget perm j).
Proof.
  intros Hnr Hnc Hw Hd Hp. exact (proj2 (fill_view Sft Seqb n A perm Hnr Hnc Hw Hd Hp)).
Qed.

(* C16, first sentence.  For EVERY square matrix with n >= 1 (any sparsity pattern, connectivity,
   either degree order; rows with distinct columns): if the constructor succeeds, i.e. no pivot is
   zero ("needs no pivoting"), every call of operator() -- whatever the scratch vector holds --
   returns x with  A x = rhs  exactly (Ax = dense semantics of CRS, the spec of spmv in C07). *)
Theorem C16_skyline_lu_solves reverse (A : crs S) f (rhs x y : vec S) :
  wf A = true -> ncols A = nrows A -> (0 < nrows A)%nat -> rows_distinct A ->
  sky_build reverse A = SkyOk f -> length y = nrows A -> length x = nrows A ->
  forall r, r < nrows A -> Ax A (fst (sky_solve f rhs x y)) r = vget rhs r.
Proof. exact (skyline_lu_solves Sft Seqb reverse A f rhs x y). Qed.

(* A3 (field): detail::inverse returns a right inverse whenever it returns at all (every chosen
   pivot non-zero), for EVERY n, whatever the uninitialised scratch array t contains.  Proof: invariant
   P A0 = L U over the elimination steps (partial pivoting through the index vector p, inverted
   pivots stored on the diagonal), then the two triangular solves per column.
   [sinv s0 = s0] is how the exact instance (and vq::Q) totalise 1/0; it makes the C++ assertion
   [!is_zero(d)] equivalent to "pivot non-zero". *)
Hypothesis sinv_0 : sinv (@s0 S) = s0.
Theorem C16_inverse_exact n (A t B : vec S) :
  length A = (n * n)%nat -> length t = (n * n)%nat ->
  inverse n A t = Some B ->
  forall i j, i < n -> j < n -> mat_mul_get n A B i j = if Nat.eqb i j then s1 else s0.
Proof. intros HA Ht. exact (inverse_exact Sft Seqb sinv_0 n A HA t B Ht). Qed.

(* A3-B (ordered field): A non-singular -> inverse n A t <> None: proved at the end of this file
   (section InversePivoting, C16_inverse_nonsingular; closed at Qc). *)
End Field.

(* ------------------------------------------------------------------------------------ *)
(* A5 (ring).  static_matrix blocks over a commutative ring: (non-commutative) ring identities,
   as equalities of the row-major buffers; dimensions N x K, K x M as in the templates. *)
Section Ring.
Variable S : Scalar.
Hypothesis Srt : Sring S.

Theorem C16_sm_mul_assoc N K1 K2 M (a b c : vec S) :
  sm_mul N K2 M (sm_mul N K1 K2 a b) c = sm_mul N K1 M a (sm_mul K1 K2 M b c).
Proof. exact (sm_mul_assoc Srt N K1 K2 M a b c). Qed.

Theorem C16_sm_mul_add_distr_l N K M (a b c : vec S) :
  length b = (K * M)%nat -> length c = (K * M)%nat ->
  sm_mul N K M a (sm_add b c) = sm_add (sm_mul N K M a b) (sm_mul N K M a c).
Proof. exact (sm_mul_add_distr_l Srt N K M a b c). Qed.

Theorem C16_sm_mul_add_distr_r N K M (a b c : vec S) :
  length a = (N * K)%nat -> length b = (N * K)%nat ->
  sm_mul N K M (sm_add a b) c = sm_add (sm_mul N K M a c) (sm_mul N K M b c).
Proof. exact (sm_mul_add_distr_r Srt N K M a b c). Qed.

Theorem C16_sm_mul_identity N M (a : vec S) : length a = (N * M)%nat ->
  sm_mul N N M (sm_id N) a = a /\ sm_mul N M M a (sm_id M) = a.
Proof. intro H. split; [exact (sm_mul_id_l Srt N M a H)|exact (sm_mul_id_r Srt N M a H)]. Qed.

Theorem C16_sm_additive_group N M (a b c : vec S) :
  length a = (N * M)%nat -> length b = (N * M)%nat -> length c = (N * M)%nat ->
  sm_add a b = sm_add b a /\ sm_add (sm_add a b) c = sm_add a (sm_add b c) /\
  sm_add a (sm_zero N M) = a /\ sm_add a (sm_neg a) = sm_zero N M /\
  sm_sub a b = sm_add a (sm_neg b).
Proof.
  intros Ha Hb Hc. repeat split.
  - exact (sm_add_comm Srt N M a b Ha Hb).
  - exact (sm_add_assoc Srt N M a b c Ha Hb Hc).
  - exact (sm_add_zero_r Srt N M a Ha).
  - exact (sm_add_neg_r Srt N M a Ha).
  - exact (sm_sub_def Srt N M a b Ha Hb).
Qed.

Theorem C16_sm_scaling N K M s (a b c : vec S) :
  length a = (N * K)%nat -> length c = (N * K)%nat ->
  sm_scale s (sm_mul N K M a b) = sm_mul N K M (sm_scale s a) b /\
  sm_scale s (sm_add a c) = sm_add (sm_scale s a) (sm_scale s c).
Proof.
  intros Ha Hc. split; [exact (sm_scale_mul Srt N K M s a b Ha)|exact (sm_scale_add Srt N K s a c Ha Hc)].
Qed.

(* adjoint: anti-multiplicative involution, provided the scalar adjoint is a ring involution
   (identity for real scalars, conjugation for complex ones) *)
Hypothesis sadj_add : forall x y : S, sadj (x + y) = sadj x + sadj y.
Hypothesis sadj_mul : forall x y : S, sadj (x * y) = sadj x * sadj y.
Hypothesis sadj_invol : forall x : S, sadj (sadj x) = x.

Theorem C16_sm_adjoint_mul N K M (a b : vec S) :
  sm_adjoint N M (sm_mul N K M a b) = sm_mul M K N (sm_adjoint K M b) (sm_adjoint N K a).
Proof. exact (sm_adjoint_mul Srt sadj_add sadj_mul N K M a b). Qed.

Theorem C16_sm_adjoint_involutive N M (a : vec S) : length a = (N * M)%nat ->
  sm_adjoint M N (sm_adjoint N M a) = a.
Proof. exact (sm_adjoint_invol sadj_invol N M a). Qed.

Theorem C16_sm_adjoint_add N M (a b : vec S) : length a = (N * M)%nat -> length b = (N * M)%nat ->
  sm_adjoint N M (sm_add a b) = sm_add (sm_adjoint N M a) (sm_adjoint N M b).
Proof. exact (sm_adjoint_add sadj_add N M a b). Qed.
End Ring.

(* ------------------------------------------------------------------------------------ *)
(* A6 QR, the part that needs no square root (any Scalar record): array sizes, tau has
   min(m,n) entries, the accessor R is upper triangular for every shape and storage order, and
   factorize() -- hence Q(i,j) -- does not depend on what the member vector q held before
   (q.resize keeps old content when a QR object is reused). *)
Theorem C16_qr_sizes (S : Scalar) m n rs cs (A : vec S) :
  length (fst (qr_compute m n rs cs A)) = length A /\ length (snd (qr_compute m n rs cs A)) = Nat.min m n.
Proof. exact (qr_compute_lengths m n rs cs A). Qed.
Print Assumptions C16_qr_sizes.

Theorem C16_qr_R_upper_triangular (S : Scalar) rs cs (A' : vec S) i j : j < i -> qr_R rs cs A' i j = s0.
Proof. exact (qr_R_upper rs cs A' i j). Qed.

Theorem C16_qr_factorize_junk_independent (S : Scalar) m n rs cs (A q q' : vec S) : length q = length q' ->
  fst (qr_factorize m n rs cs A q) = fst (qr_factorize m n rs cs A q') /\
  forall i j, i < m -> j < n ->
    qr_Q rs cs (snd (qr_factorize m n rs cs A q)) i j = qr_Q rs cs (snd (qr_factorize m n rs cs A q')) i j.
Proof. exact (qr_factorize_junk_independent m n rs cs A q q'). Qed.
Print Assumptions C16_qr_factorize_junk_independent.

(* A6 QR, correctness: proved at the end of this file (section QrCorrect, theorems C16_qr_...), over any
   field with the hypotheses that a real square root satisfies; closed at the reals R. *)

(* ------------------------------------------------------------------------------------ *)
(* closed instances at the exact rationals: no hypotheses left *)
Theorem C16_skyline_solve_exact_Qc (f : skyline QcS) (rhs x y : vec QcS) :
  profile_wf (sk_n f) (sk_ptr f) -> length y = sk_n f ->
  NoDup (sk_perm f) -> length (sk_perm f) = sk_n f ->
  (forall i, i < sk_n f -> pget (sk_perm f) i < length x) ->
  (forall i, i < sk_n f -> vget (sk_D f) i <> s0) ->
  forall i, i < sk_n f ->
    sumn (fun j => Lfull f i j *
                   sumn (fun t => Ufull f j t * vget (fst (sky_solve f rhs x y)) (pget (sk_perm f) t))
                        (sk_n f)) (sk_n f)
    = vget rhs (pget (sk_perm f) i).
Proof. exact (C16_skyline_solve_exact QcS QcS_field f rhs x y). Qed.
Print Assumptions C16_skyline_solve_exact_Qc.


Theorem C16_skyline_built_solver_exact_Qc reverse (A : crs QcS) f (rhs x y : vec QcS) :
  graph_wf (map (map fst) (rows A)) = true -> (0 < nrows A)%nat ->
  sky_build reverse A = SkyOk f -> length y = nrows A -> length x = nrows A ->
  sk_n f = nrows A /\ Permutation (sk_perm f) (seq 0 (nrows A)) /\
  forall i, i < nrows A ->
    sumn (fun j => Lfull f i j *
                   sumn (fun t => Ufull f j t * vget (fst (sky_solve f rhs x y)) (pget (sk_perm f) t))
                        (sk_n f)) (sk_n f)
    = vget rhs (pget (sk_perm f) i).
Proof. exact (C16_skyline_built_solver_exact QcS QcS_field QcS_eqb reverse A f rhs x y). Qed.
Print Assumptions C16_skyline_built_solver_exact_Qc.

Theorem C16_skyline_lu_solves_Qc reverse (A : crs QcS) f (rhs x y : vec QcS) :
  wf A = true -> ncols A = nrows A -> (0 < nrows A)%nat -> rows_distinct A ->
  sky_build reverse A = SkyOk f -> length y = nrows A -> length x = nrows A ->
  forall r, r < nrows A -> Ax A (fst (sky_solve f rhs x y)) r = vget rhs r.
Proof. exact (C16_skyline_lu_solves QcS QcS_field QcS_eqb reverse A f rhs x y). Qed.
Print Assumptions C16_skyline_lu_solves_Qc.

Theorem C16_inverse_exact_Qc n (A t B : vec QcS) :
  length A = (n * n)%nat -> length t = (n * n)%nat ->
  inverse n A t = Some B ->
  forall i j, i < n -> j < n -> mat_mul_get n A B i j = if Nat.eqb i j then s1 else s0.
Proof. exact (C16_inverse_exact QcS QcS_field QcS_eqb eq_refl n A t B). Qed.
Print Assumptions C16_inverse_exact_Qc.

Theorem C16_sm_ring_Qc N K1 K2 M (a b c : vec QcS) :
  sm_mul N K2 M (sm_mul N K1 K2 a b) c = sm_mul N K1 M a (sm_mul K1 K2 M b c) /\
  sm_adjoint N K2 (sm_mul N K1 K2 a b) = sm_mul K2 K1 N (sm_adjoint K1 K2 b) (sm_adjoint N K1 a).
Proof.
  split; [exact (C16_sm_mul_assoc QcS QcS_ring N K1 K2 M a b c)|].
  exact (C16_sm_adjoint_mul QcS QcS_ring (fun _ _ => eq_refl) (fun _ _ => eq_refl) N K1 K2 a b).
Qed.
Print Assumptions C16_sm_ring_Qc.

(* non-vacuity: a concrete structurally non-symmetric 3x3 system is factorised by the model
   with a well-formed profile and non-zero pivots, and the solve returns the exact solution *)
Example C16_nonvacuous :
  let A : crs QcS := mkCrs 3 [[(0, qc 4 1); (2, qc 1 1)]; [(1, qc 3 1)]; [(0, qc 1 1); (1, qc 1 1); (2, qc 5 1)]]%nat in
  match sky_build false A with
  | SkyOk f =>
      sk_perm f = [0; 1; 2]%nat /\ sk_ptr f = [0; 0; 0; 2]%nat /\
      DirectSpec.vec_eqb
        (fst (sky_solve f [qc 5 1; qc 3 1; qc 7 1] [qc 9 1; qc 9 1; qc 9 1] [qc 8 1; qc 8 1; qc 8 1]))
        [qc 1 1; qc 1 1; qc 1 1] = true
  | _ => False
  end.
Proof. vm_compute. repeat split; reflexivity. Qed.

(* why the guard "no duplicate column inside a row" is needed: the second traversal of the
   constructor OVERWRITES (U[...] = v, D[newi] = v) where spmv ADDS duplicate entries.  Row 0 =
   {(0,2),(0,2),(1,1)} is the matrix [[4,1],[1,3]] for spmv, but skyline_lu solves [[2,1],[1,3]]:
   (same output [3 -1] from the implementation, see the final report) *)
Example C16_duplicate_entries_overwrite :
  let A : crs QcS := mkCrs 2 [[(0, qc 2 1); (0, qc 2 1); (1, qc 1 1)]; [(0, qc 1 1); (1, qc 3 1)]]%nat in
  match sky_build false A with
  | SkyOk f =>
      let x := fst (sky_solve f [qc 5 1; qc 0 1] [qc 0 1; qc 0 1] [qc 0 1; qc 0 1]) in
      DirectSpec.vec_eqb x [qc 3 1; qc (-1) 1] = true /\ DirectSpec.solves_b A x [qc 5 1; qc 0 1] = false
  | _ => False
  end.
Proof. vm_compute. split; reflexivity. Qed.

(* ------------------------------------------------------------------------------------ *)
(* A6 QR, correctness (amgcl/detail/qr.hpp; model Qr.v).  Over ANY Scalar that is a field and whose
   sadj / sabs / ssqrt satisfy what is TRUE of a real square root:
     Hadj : sadj x = x                      (real scalars)
     Habs : sabs x * sabs x = x * x
     Hsqrt: ssqrt y * ssqrt y = y           for y a sum of squares (sos; the only arguments met)
     Hreal: y + x*x = 0 -> y = 0            for y a sum of squares (formally real field)
   Neither the sign of the root nor the sign choice of beta (sltb alpha 0) is used: they do not
   matter for exactness.  The zero-column branch (xnorm2 = 0 => tau = 0, H = I) is covered: Hreal
   shows that the column is then already zero below the diagonal.
   Matrices are read through the strides of the storage order: row_major (n,1), col_major (1,m). *)
Section QrCorrect.
Variable S : Scalar.
Hypothesis Sft : Sfield S.
Hypothesis Seqb : seqb_spec S.
Hypothesis Hadj : forall x : S, sadj x = x.
Hypothesis Habs : forall x : S, sabs x * sabs x = x * x.
Hypothesis Hsqrt : forall y : S, sos y -> ssqrt y * ssqrt y = y.
Hypothesis Hreal : forall y x : S, sos y -> y + x * x = s0 -> y = s0.

(* one step of compute(): the reflector H = I - tau v v' generated for column i (v = unit vector
   stored below the diagonal) is symmetric, H H = I, orthogonal, and maps column i of the current
   array to (.., beta, 0, .., 0): the entries above row i are kept, row i holds the new diagonal
   entry, everything below is annihilated *)
Theorem C16_qr_reflector (cm : bool) m n i (A : vec S) :
  length A = (m * n)%nat -> i < m -> i < n ->
  let rs := qr_rs cm m n in let cs := qr_cs cm m n in
  let A2 := fst (compute_step m n rs cs i A) in
  let t := snd (compute_step m n rs cs i A) in
  let H := happ m t (vcol rs cs A2 i) in
  (forall x y, dot m (H x) y = dot m x (H y)) /\
  (forall x r, H (H x) r = x r) /\
  (forall x y, dot m (H x) (H y) = dot m x y) /\
  (forall r, r < m -> H (fun l => mv rs cs A l i) r = if Nat.ltb i r then s0 else mv rs cs A2 r i).
Proof. exact (qr_reflector_correct Sft Seqb Hadj Habs Hsqrt Hreal cm m n i A). Qed.

(* factorize(): Q R = A, Q'Q = I (k x k), R upper triangular, every stored reflector satisfies
   tau = 0 or tau v'v = 2, and Q(i,j) is entry (i,j) of the product H_0 H_1 ... H_(k-1) of the stored
   reflectors (0 in the columns k..n-1 of a wide matrix); whatever the member q held before *)
Theorem C16_qr_factorize_correct (cm : bool) m n (A q : vec S) :
  length A = (m * n)%nat -> length q = (m * n)%nat ->
  let rs := qr_rs cm m n in let cs := qr_cs cm m n in
  let A' := fst (fst (qr_factorize m n rs cs A q)) in
  let tau := snd (fst (qr_factorize m n rs cs A q)) in
  let Q := snd (qr_factorize m n rs cs A q) in
  let k := Nat.min m n in
  (forall i j, i < m -> j < n ->
     sumn (fun l => qr_Q rs cs Q i l * qr_R rs cs A' l j) k = vget A (i * rs + j * cs)) /\
  (forall i j, i < k -> j < k ->
     sumn (fun l => qr_Q rs cs Q l i * qr_Q rs cs Q l j) m = if Nat.eqb i j then s1 else s0) /\
  (forall i j, j < i -> qr_R rs cs A' i j = s0) /\
  (forall j, j < k -> ReflOK m (vget tau j) (vcol rs cs A' j)) /\
  (forall i j, i < m -> j < n ->
     qr_Q rs cs Q i j = if Nat.ltb j k then hprod m (vget tau) (vcol rs cs A') k (delta j) i else s0).
Proof. exact (qr_factorize_correct Sft Seqb Hadj Habs Hsqrt Hreal cm m n A q). Qed.

(* solve(), rows >= cols: if R has no zero on its diagonal (full column rank) the result satisfies the
   normal equations A'(A x - b) = 0, i.e. it is the least-squares solution *)
Theorem C16_qr_solve_normal_equations (cm : bool) m n (A b : vec S) :
  length A = (m * n)%nat -> m <= length b -> n <= m ->
  let rs := qr_rs cm m n in let cs := qr_cs cm m n in
  (forall i, i < n -> qr_R rs cs (fst (qr_compute m n rs cs A)) i i <> s0) ->
  let x := qr_solve m n rs cs A b in
  length x = n /\
  forall c, c < n ->
    sumn (fun r => vget A (r * rs + c * cs) *
                   (sumn (fun j => vget A (r * rs + j * cs) * vget x j) n - vget b r)) m = s0.
Proof. exact (qr_solve_tall_correct Sft Seqb Hadj Habs Hsqrt Hreal cm m n A b). Qed.

(* solve(), rows < cols: if the R of A' has no zero on its diagonal (full row rank), A x = b and x is
   orthogonal to the kernel of A, i.e. it is the minimum-norm solution *)
Theorem C16_qr_solve_minimum_norm (cm : bool) m n (A b : vec S) :
  length A = (m * n)%nat -> m <= length b -> m < n ->
  let rs := qr_rs cm m n in let cs := qr_cs cm m n in
  (forall i, i < m -> qr_R cs rs (fst (qr_compute n m cs rs A)) i i <> s0) ->
  let x := qr_solve m n rs cs A b in
  length x = n /\
  (forall r, r < m -> sumn (fun c => vget A (r * rs + c * cs) * vget x c) n = vget b r) /\
  (forall z : nat -> S, (forall r, r < m -> sumn (fun c => vget A (r * rs + c * cs) * z c) n = s0) ->
     sumn (fun c => vget x c * z c) n = s0).
Proof. exact (qr_solve_wide_correct Sft Seqb Hadj Habs Hsqrt Hreal cm m n A b). Qed.
(* "full rank" literally: linearly independent columns leave no zero on the diagonal of R ... *)
Theorem C16_qr_full_rank_diag (cm : bool) m n (A : vec S) :
  length A = (m * n)%nat -> n <= m ->
  let rs := qr_rs cm m n in let cs := qr_cs cm m n in
  col_independent m n (fun r c => vget A (r * rs + c * cs)) ->
  forall i, i < n -> qr_R rs cs (fst (qr_compute m n rs cs A)) i i <> s0.
Proof. exact (qr_full_rank_diag_cm Sft Seqb Hadj Habs Hsqrt Hreal cm m n A). Qed.

(* ... hence solve() returns the least-squares solution for EVERY matrix of full column rank (rows >= cols)
   and the minimum-norm solution for EVERY matrix of full row rank (rows < cols) *)
Theorem C16_qr_solve_full_column_rank (cm : bool) m n (A b : vec S) :
  length A = (m * n)%nat -> m <= length b -> n <= m ->
  let rs := qr_rs cm m n in let cs := qr_cs cm m n in
  col_independent m n (fun r c => vget A (r * rs + c * cs)) ->
  let x := qr_solve m n rs cs A b in
  length x = n /\
  forall c, c < n ->
    sumn (fun r => vget A (r * rs + c * cs) *
                   (sumn (fun j => vget A (r * rs + j * cs) * vget x j) n - vget b r)) m = s0.
Proof. exact (qr_solve_full_column_rank Sft Seqb Hadj Habs Hsqrt Hreal cm m n A b). Qed.

Theorem C16_qr_solve_full_row_rank (cm : bool) m n (A b : vec S) :
  length A = (m * n)%nat -> m <= length b -> m < n ->
  let rs := qr_rs cm m n in let cs := qr_cs cm m n in
  col_independent n m (fun c r => vget A (r * rs + c * cs)) ->
  let x := qr_solve m n rs cs A b in
  length x = n /\
  (forall r, r < m -> sumn (fun c => vget A (r * rs + c * cs) * vget x c) n = vget b r) /\
  (forall z : nat -> S, (forall r, r < m -> sumn (fun c => vget A (r * rs + c * cs) * z c) n = s0) ->
     sumn (fun c => vget x c * z c) n = s0).
Proof. exact (qr_solve_full_row_rank Sft Seqb Hadj Habs Hsqrt Hreal cm m n A b). Qed.
End QrCorrect.

(* the hypotheses are satisfiable: closed instances at the real numbers of the standard library with
   the true square root.  Print Assumptions lists the axioms of Coq's classical reals
   (ClassicalDedekindReals.sig_forall_dec, sig_not_dec, functional_extensionality_dep). *)
Theorem C16_qr_factorize_correct_R (cm : bool) m n (A q : vec RS) :
  length A = (m * n)%nat -> length q = (m * n)%nat ->
  let rs := qr_rs cm m n in let cs := qr_cs cm m n in
  let A' := fst (fst (qr_factorize m n rs cs A q)) in
  let Q := snd (qr_factorize m n rs cs A q) in
  let k := Nat.min m n in
  (forall i j, i < m -> j < n ->
     sumn (fun l => qr_Q rs cs Q i l * qr_R rs cs A' l j) k = vget A (i * rs + j * cs)) /\
  (forall i j, i < k -> j < k ->
     sumn (fun l => qr_Q rs cs Q l i * qr_Q rs cs Q l j) m = if Nat.eqb i j then s1 else s0) /\
  (forall i j, j < i -> qr_R rs cs A' i j = s0).
Proof. exact (qr_factorize_correct_R cm m n A q). Qed.
Print Assumptions C16_qr_factorize_correct_R.

(* least squares, literally: for every matrix of full column rank, |A x - b|^2 <= |A z - b|^2 for every z *)
Theorem C16_qr_solve_least_squares_R (cm : bool) m n (A b : vec RS) :
  length A = (m * n)%nat -> m <= length b -> n <= m ->
  let rs := qr_rs cm m n in let cs := qr_cs cm m n in
  let a := fun r c => vget A (r * rs + c * cs) in
  col_independent m n a ->
  let x := qr_solve m n rs cs A b in
  length x = n /\
  forall z : nat -> RS,
    Rdefinitions.Rle (@nrm2 RS m (fun r => mulv n a (vget x) r - vget b r)) (@nrm2 RS m (fun r => mulv n a z r - vget b r)).
Proof. exact (qr_solve_least_squares_full_rank_R cm m n A b). Qed.
Print Assumptions C16_qr_solve_least_squares_R.

(* minimum norm, literally: for every matrix of full row rank, A x = b and |x|^2 <= |z|^2 for every z with A z = b *)
Theorem C16_qr_solve_minimum_norm_R (cm : bool) m n (A b : vec RS) :
  length A = (m * n)%nat -> m <= length b -> m < n ->
  let rs := qr_rs cm m n in let cs := qr_cs cm m n in
  let a := fun r c => vget A (r * rs + c * cs) in
  col_independent n m (fun c r => a r c) ->
  let x := qr_solve m n rs cs A b in
  length x = n /\
  (forall r, r < m -> mulv n a (vget x) r = vget b r) /\
  forall z : nat -> RS, (forall r, r < m -> mulv n a z r = vget b r) -> Rdefinitions.Rle (@nrm2 RS n (vget x)) (@nrm2 RS n z).
Proof. exact (qr_solve_min_norm_full_rank_R cm m n A b). Qed.
Print Assumptions C16_qr_solve_minimum_norm_R.

(* non-vacuity over the exact rationals: a 3x2 matrix (both storage orders) whose column norms met by
   the algorithm are perfect squares (3 and 3), so that the pseudo-root of QcS is exact on every
   argument met: the model's Q and R satisfy Q R = A and Q'Q = I exactly (vm_compute) *)
Example C16_qr_nonvacuous :
  qr_check false 3 2 qr_ex_row (repeat (qc 7 1) 6) = true /\
  qr_check true 3 2 qr_ex_col (repeat (qc 7 1) 6) = true.
Proof. vm_compute. split; reflexivity. Qed.

(* ------------------------------------------------------------------------------------ *)
(* A3-B.  detail::inverse with partial pivoting by |.|: in a field with a strict order for which
   sabs behaves like an absolute value (Oabs_0, Oabs_pos) the pivot search returns an entry of largest
   magnitude of the remaining column; a zero pivot therefore means that the remaining column is zero,
   which makes the matrix singular (invariant P A0 = L U + remaining block).  Hence: non-singular
   (linearly independent columns; implied by the existence of a left or two-sided inverse)
   => every chosen pivot is non-zero => inverse() returns, and A * inverse(A) = I. *)
Section InversePivoting.
Variable S : Scalar.
Hypothesis Sft : Sfield S.
Hypothesis Seqb : seqb_spec S.
Hypothesis sinv_0 : sinv (@s0 S) = s0.
Hypothesis Olt_irrefl : forall a : S, sltb a a = false.
Hypothesis Olt_trans : forall a b c : S, sltb a b = true -> sltb b c = true -> sltb a c = true.
Hypothesis Oabs_0 : sabs (@s0 S) = s0.
Hypothesis Oabs_pos : forall x : S, x <> s0 -> sltb s0 (sabs x) = true.

Theorem C16_inverse_pivot_is_largest n (A : vec S) p col : col < n ->
  let m := find_pivot n A p col in
  (forall j, col <= j < n -> sltb (sabs (view n A p m col)) (sabs (view n A p j col)) = false) /\
  (view n A p m col = s0 -> forall j, col <= j < n -> view n A p j col = s0).
Proof. exact (find_pivot_max Seqb Olt_irrefl Olt_trans Oabs_0 Oabs_pos n A p col). Qed.

Theorem C16_inverse_nonsingular n (A t : vec S) :
  length A = (n * n)%nat -> length t = (n * n)%nat -> nonsingular n A ->
  exists B, inverse n A t = Some B /\
    forall i j, i < n -> j < n -> mat_mul_get n A B i j = if Nat.eqb i j then s1 else s0.
Proof. exact (inverse_nonsingular Sft Seqb sinv_0 Olt_irrefl Olt_trans Oabs_0 Oabs_pos n A t). Qed.

Theorem C16_left_inverse_nonsingular n (A : vec S) (X : nat -> nat -> S) :
  (forall i j, i < n -> j < n -> sumn (fun k => X i k * mat_get n A k j) n = if Nat.eqb i j then s1 else s0) ->
  nonsingular n A.
Proof. exact (left_inverse_nonsingular Sft n A X). Qed.
End InversePivoting.

Theorem C16_inverse_nonsingular_Qc n (A t : vec QcS) :
  length A = (n * n)%nat -> length t = (n * n)%nat -> nonsingular n A ->
  exists B, inverse n A t = Some B /\
    forall i j, i < n -> j < n -> mat_mul_get n A B i j = if Nat.eqb i j then s1 else s0.
Proof. exact (inverse_nonsingular_Qc n A t). Qed.
Print Assumptions C16_inverse_nonsingular_Qc.

(* non-vacuity: [[0,1],[1,1]] is non-singular (explicit left inverse [[-1,1],[1,0]]) and needs the row
   exchange (the first candidate pivot is zero); the model returns its inverse *)
Example C16_inverse_pivot_nonvacuous :
  let A : vec QcS := [qc 0 1; qc 1 1; qc 1 1; qc 1 1] in
  nonsingular 2 A /\
  match inverse 2 A [qc 9 1; qc 9 1; qc 9 1; qc 9 1] with
  | Some B => DirectSpec.vec_eqb B [qc (-1) 1; qc 1 1; qc 1 1; qc 0 1] = true
  | None => False
  end.
Proof.
  split.
  - apply (left_inverse_nonsingular QcS_field 2 _ (fun i k => vget [qc (-1) 1; qc 1 1; qc 1 1; qc 0 1] (i * 2 + k))).
    intros [|[|i]] [|[|j]] Hi Hj; try lia; apply QcS_eqb; vm_compute; reflexivity.
  - vm_compute. reflexivity.
Qed.

(* ====================================================================================== *)
(* A6, reuse of ONE QR object (models QrObj.v, proofs QrObjProofs.v).  Every data member of detail::QR
   (the pointer r into the caller's array; the vectors tau, f, q that are resize()d and never cleared; the
   shape stored by factorize) is a field of [qr_obj], which every member function receives and returns.
   tools/props/C16.py (qrseq) runs sequences of compute / factorize / solve calls of different shapes and
   storage orders on one QR<vq::Q> / QR<double> object against these functions and against fresh objects. *)
From Amgcl Require Import QrObj QrObjProofs.

(* solve(..., computed = false) on an object in ANY state returns what the single-call model Qr.qr_solve
   returns: the theorems C16_qr_solve_* (least squares / minimum norm) hold for every call of a sequence *)
Theorem C16_qr_solve_any_object (S : Scalar) rows cols rs cs (A b : vec S) (o : @qr_obj S) :
  rows <= length b ->
  fst (fst (obj_solve rows cols rs cs A b false o)) = qr_solve rows cols rs cs A b.
Proof. exact (obj_solve_eq_qr_solve rows cols rs cs A b o). Qed.
Print Assumptions C16_qr_solve_any_object.

(* the result of solve does not depend on the previous content of the object (tau, f, q, r, stored shape) *)
Theorem C16_qr_solve_junk_independent (S : Scalar) rows cols rs cs (A b : vec S) (o o' : @qr_obj S) :
  rows <= length b ->
  fst (fst (obj_solve rows cols rs cs A b false o)) = fst (fst (obj_solve rows cols rs cs A b false o')).
Proof. exact (obj_solve_junk_independent rows cols rs cs A b o o'). Qed.
Print Assumptions C16_qr_solve_junk_independent.

(* neither does the array handed back to the caller (R and the reflectors) *)
Theorem C16_qr_solve_array_junk_independent (S : Scalar) rows cols rs cs (A b : vec S) (o o' : @qr_obj S) :
  snd (fst (obj_solve rows cols rs cs A b false o)) = snd (fst (obj_solve rows cols rs cs A b false o')).
Proof. exact (obj_solve_array_junk_independent rows cols rs cs A b o o'). Qed.
Print Assumptions C16_qr_solve_array_junk_independent.

(* solve(..., computed = true): the solution for the matrix whose factorisation the object holds, whatever
   f and q hold and whatever array is passed; the factorisation is left there by a solve (any shape), by
   compute / factorize (rows >= cols) or by the caller's own adjoint + transposed compute (rows < cols),
   and further computed = true solves keep it *)
Theorem C16_qr_solve_computed (S : Scalar) rows cols rs cs (A A2 b : vec S) (o : @qr_obj S) :
  rows <= length b -> holds_factorisation o rows cols rs cs A ->
  fst (fst (obj_solve rows cols rs cs A2 b true o)) = qr_solve rows cols rs cs A b.
Proof. exact (obj_solve_computed rows cols rs cs A A2 b o). Qed.
Print Assumptions C16_qr_solve_computed.

Theorem C16_qr_factorisation_stored (S : Scalar) rows cols rs cs (A : vec S) (o : @qr_obj S) :
  (forall b, 0 < Nat.min rows cols ->
     holds_factorisation (snd (obj_solve rows cols rs cs A b false o)) rows cols rs cs A) /\
  (0 < cols <= rows -> holds_factorisation (snd (obj_compute rows cols rs cs A o)) rows cols rs cs A) /\
  (0 < cols <= rows -> holds_factorisation (snd (obj_factorize rows cols rs cs A o)) rows cols rs cs A) /\
  (0 < rows < cols ->
     holds_factorisation
       (snd (obj_compute cols rows cs rs (map sadj (firstn (cols * rows) A) ++ skipn (cols * rows) A) o)) rows cols rs cs A) /\
  (forall rows' cols' rs' cs' A2 b, holds_factorisation o rows cols rs cs A ->
     holds_factorisation (snd (obj_solve rows' cols' rs' cs' A2 b true o)) rows cols rs cs A).
Proof.
  exact (conj (fun b H => obj_solve_holds rows cols rs cs A b o H)
        (conj (obj_compute_holds rows cols rs cs A o)
        (conj (obj_factorize_holds rows cols rs cs A o)
        (conj (obj_compute_holds_wide rows cols rs cs A o)
              (fun rows' cols' rs' cs' A2 b => obj_solve_computed_keeps rows cols rs cs rows' cols' rs' cs' A A2 b o))))).
Qed.
Print Assumptions C16_qr_factorisation_stored.

(* a second right-hand side on the factorisation left by a first solve *)
Theorem C16_qr_solve_again (S : Scalar) rows cols rs cs (A A2 b1 b2 : vec S) (o : @qr_obj S) :
  0 < Nat.min rows cols -> rows <= length b2 ->
  fst (fst (obj_solve rows cols rs cs A2 b2 true (snd (obj_solve rows cols rs cs A b1 false o)))) =
  qr_solve rows cols rs cs A b2.
Proof. exact (obj_solve_again rows cols rs cs A A2 b1 b2 o). Qed.
Print Assumptions C16_qr_solve_again.

(* factorize() on an object in any state: the array, R(i,j) and Q(i,j) (inside the m x n shape) are those of a
   fresh object; the object model agrees with Qr.qr_factorize started from the resized old q *)
Theorem C16_qr_factorize_any_object (S : Scalar) m n rs cs (A : vec S) (o o' : @qr_obj S) : 0 < Nat.min m n ->
  fst (obj_factorize m n rs cs A o) = fst (obj_factorize m n rs cs A o') /\
  (forall i j, obj_R (snd (obj_factorize m n rs cs A o)) i j = obj_R (snd (obj_factorize m n rs cs A o')) i j) /\
  (forall i j, i < m -> j < n ->
     obj_Q (snd (obj_factorize m n rs cs A o)) i j = obj_Q (snd (obj_factorize m n rs cs A o')) i j).
Proof. exact (obj_factorize_junk_independent m n rs cs A o o'). Qed.
Print Assumptions C16_qr_factorize_any_object.

Theorem C16_qr_factorize_object_is_model (S : Scalar) m n rs cs (A : vec S) (o : @qr_obj S) : 0 < Nat.min m n ->
  obj_factorize m n rs cs A o =
  (fst (fst (qr_factorize m n rs cs A (vresize (m * n) (o_q o)))),
   mkQrObj (fst (fst (qr_factorize m n rs cs A (vresize (m * n) (o_q o)))))
           (snd (fst (qr_factorize m n rs cs A (vresize (m * n) (o_q o)))))
           (o_f o)
           (snd (qr_factorize m n rs cs A (vresize (m * n) (o_q o)))) m n rs cs).
Proof. exact (obj_factorize_eq m n rs cs A o). Qed.
Print Assumptions C16_qr_factorize_object_is_model.

(* non-vacuity: a 2 x 3 (wide) system solved on an object that has just solved a 3 x 3 system -- its work
   vector f is longer than the 2 rows of the new system -- gives the solution of a fresh object, (1, 2, 2)/3 * 3,
   the minimum-norm solution of x0 + 2 x1 + 2 x2 = 9, x1 - x2 = 0 *)
Example C16_qr_object_reuse_nonvacuous :
  let A1 : vec QcS := [qc 3 1; qc 0 1; qc 0 1; qc 0 1; qc 4 1; qc 0 1; qc 0 1; qc 0 1; qc 5 1] in
  let b1 : vec QcS := [qc 7 1; qc 7 1; qc 7 1] in
  let A2 : vec QcS := [qc 1 1; qc 2 1; qc 2 1; qc 0 1; qc 1 1; qc (-1) 1] in
  let b2 : vec QcS := [qc 9 1; qc 0 1] in
  let o1 := snd (obj_solve 3 3 3 1 A1 b1 false qr_new) in
  length (o_f o1) = 3 /\
  DirectSpec.vec_eqb (fst (fst (obj_solve 2 3 3 1 A2 b2 false o1))) [qc 1 1; qc 2 1; qc 2 1] = true /\
  DirectSpec.vec_eqb (fst (fst (obj_solve 2 3 3 1 A2 b2 false qr_new))) [qc 1 1; qc 2 1; qc 2 1] = true.
Proof. vm_compute. repeat split; reflexivity. Qed.

(* ====================================================================================== *)
(* A3-C.  The small-matrix inverse is TWO-SIDED (proofs: InverseTwoSided.v).
   Over a field with decidable equality a right inverse of an n x n matrix is a left inverse; hence whenever
   detail::inverse passes its assertion the returned array B satisfies B A = I as well as A B = I
   (C16_inverse_exact), for every n, every scratch array, every pivot sequence.  No order, no hypothesis about
   sabs/sltb: the "injective => surjective" step runs the verified elimination itself on B over the same field
   re-equipped with the pivot order 0 < (everything else) (InverseTwoSided.PivS).
   With the order hypotheses of A3-B (true at Qc) inverse() also succeeds on its own result and returns the
   original array.  At the block value type static_matrix<T,b,b> (BlockInst.BlockS) this removes the hypothesis
   "sinv (sinv x) <> 0" of NcRingBlockInv.BlockS_inv_two_sided. *)
From Amgcl Require Import BlockInst NcRing NcRingBlock NcRingBlockInv InverseTwoSided.

Theorem C16_right_inverse_is_left_inverse (S : Scalar) (Sft : Sfield S) (Seqb : seqb_spec S) n (A B : nat -> nat -> S) :
  (forall i j, i < n -> j < n -> sumn (fun k => A i k * B k j) n = if Nat.eqb i j then s1 else s0) ->
  forall i j, i < n -> j < n -> sumn (fun k => B i k * A k j) n = if Nat.eqb i j then s1 else s0.
Proof. exact (right_inverse_is_left_inverse S Sft Seqb n A B). Qed.
Print Assumptions C16_right_inverse_is_left_inverse.

Theorem C16_inverse_exact_left (S : Scalar) (Sft : Sfield S) (Seqb : seqb_spec S) (sinv_0 : sinv (@s0 S) = s0)
  n (A t B : vec S) :
  length A = (n * n)%nat -> length t = (n * n)%nat -> inverse n A t = Some B ->
  forall i j, i < n -> j < n -> mat_mul_get n B A i j = if Nat.eqb i j then s1 else s0.
Proof. exact (inverse_exact_left S Sft Seqb sinv_0 n A t B). Qed.
Print Assumptions C16_inverse_exact_left.

Theorem C16_inverse_two_sided_field (S0 : Scalar) (b : nat) (Sft : Sfield S0) (Seqb : seqb_spec S0)
  (sinv_0 : sinv (@s0 S0) = s0) (x : BlockS S0 b) :
  sinv x <> s0 -> x * sinv x = s1 /\ sinv x * x = s1.
Proof. exact (BlockS_inv_two_sided_field S0 b Sft Seqb sinv_0 x). Qed.
Print Assumptions C16_inverse_two_sided_field.

Theorem C16_inverse_of_inverse_Qc n (A t B t' : vec QcS) :
  length A = (n * n)%nat -> length t = (n * n)%nat -> length t' = (n * n)%nat ->
  inverse n A t = Some B -> inverse n B t' = Some A.
Proof.
  exact (inverse_of_inverse QcS_field QcS_eqb eq_refl QcS_lt_irrefl QcS_lt_trans QcS_abs_0 QcS_abs_pos n A t B t').
Qed.
Print Assumptions C16_inverse_of_inverse_Qc.

(* BlockS_inv_two_sided without its second hypothesis, closed at the exact rationals for every block size *)
Theorem C16_inverse_two_sided (b : nat) (x : BlockS QcS b) :
  sinv x <> s0 -> x * sinv x = s1 /\ sinv x * x = s1 /\ sinv (sinv x) <> s0 /\ sinv (sinv x) = x.
Proof.
  exact (BlockS_inv_two_sided_ord QcS b QcS_field QcS_eqb eq_refl QcS_lt_irrefl QcS_lt_trans QcS_abs_0 QcS_abs_pos x).
Qed.
Print Assumptions C16_inverse_two_sided.

(* non-vacuity: the non-symmetric 3 x 3 block [[0,2,1],[1,1,0],[3,0,1]] (det = -5).  Its (0,0) entry is zero and
   the pivot search of column 0 selects row 2 (|3| is largest), so the elimination exchanges rows; math::inverse
   passes its assertion, returns [[-1,2,1],[1,3,-1],[3,-6,2]]/5, and this block is a left inverse, a right
   inverse, and is inverted back to the original block *)
Example C16_inverse_two_sided_nonvacuous :
  let x : BlockS QcS 3 :=
    mk_blk QcS 3 [qc 0 1; qc 2 1; qc 1 1;  qc 1 1; qc 1 1; qc 0 1;  qc 3 1; qc 0 1; qc 1 1] eq_refl in
  find_pivot 3 (blk_list x) (seq 0 3) 0 = 2 /\
  sinv x <> s0 /\
  DirectSpec.vec_eqb (blk_list (sinv x))
    [qc (-1) 5; qc 2 5; qc 1 5;  qc 1 5; qc 3 5; qc (-1) 5;  qc 3 5; qc (-6) 5; qc 2 5] = true /\
  seqb (sinv x * x) s1 = true /\ seqb (x * sinv x) s1 = true /\ seqb (sinv (sinv x)) x = true /\
  seqb (sadj x) x = false.
Proof.
  cbv zeta. split; [vm_compute; reflexivity|]. split.
  - intro H. apply (BlockS_eqb QcS 3 QcS_eqb) in H. vm_compute in H. discriminate H.
  - vm_compute. repeat split; reflexivity.
Qed.
