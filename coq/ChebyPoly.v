(* ChebyPoly.v -- the error propagation polynomial of the Chebyshev smoother (model: Cheby.v,
   amgcl/relaxation/chebyshev.hpp:170-205).

   With B = A (or diag(A)^-1 A when scale), Z = (d I - B)/c, T_k the Chebyshev polynomials
   (T_0 = 1, T_1 = z, T_{k+2} = 2 z T_{k+1} - T_k) and tau_k = T_k(d/c):
       tau_k (x* - x_k) = T_k(Z) (x* - x_0)        for every exact solution x* of A x = b,
   i.e. the sweep of degree k multiplies the error by E_k(B) = T_k((d I - B)/c) / T_k(d/c).
   The three-term recurrence of the code (alpha_0 = 1/d; alpha_1 = 2d/(2d^2 - c^2);
   alpha_k = 1/(d - alpha_{k-1} c^2/4); beta_k = alpha_k d - 1) IS the Chebyshev recurrence:
       alpha_k = 2 tau_k / (c tau_{k+1}),   beta_k = tau_{k-1} / tau_{k+1}     (k >= 1).
   Operators are functions on vectors (lists of length nrows A, read pointwise with vget, as in
   ChebyProofs.v); T_k(Z) v is defined by the recurrence applied to the vector v, so no
   commutation of operator polynomials is needed.  Field laws as Section hypotheses; the
   non-vanishing of c, 1+1 and tau_1..tau_k is a hypothesis, discharged in an ordered field for
   0 < c <= d (cheb_ge_one), which is what the constructor produces for 0 <= lower < higher. *)
From Amgcl Require Import Scalar Vec Crs Kernels KernelsProofs MatOps Cheby ChebyProofs AmgOrder.
Local Open Scope S_scope.
Local Notation SS := Datatypes.S.

Section ChebyPoly.
Context {S : Scalar}.
Local Notation vec := (vec S).
Local Notation crs := (crs S).
Hypothesis Sft : Sfield S.
Hypothesis Seqb : seqb_spec S.
Add Field SFieldCP : Sft.
Let Srt : Sring S := F_R Sft.

(* ---------- vectors given by their entries ---------- *)
Definition mkvec (n : nat) (f : nat -> S) : vec := map f (seq 0 n).
Lemma mkvec_len n f : length (mkvec n f) = n.
Proof. unfold mkvec. rewrite map_length, seq_length. reflexivity. Qed.
Lemma mkvec_get n f i : i < n -> vget (mkvec n f) i = f i.
Proof.
  intro H. unfold vget, mkvec.
  rewrite (nth_indep _ s0 (f 0)) by (rewrite map_length, seq_length; exact H).
  rewrite map_nth, seq_nth by exact H. reflexivity.
Qed.

(* ---------- scalar Chebyshev polynomials by their recurrence ---------- *)
Fixpoint cheb (z : S) (k : nat) : S :=
  match k with
  | O => s1
  | SS k' => match k' with
             | O => z
             | SS k'' => c_two * z * cheb z k' - cheb z k''
             end
  end.
Lemma cheb_SS z k : cheb z (SS (SS k)) = c_two * z * cheb z (SS k) - cheb z k.
Proof. reflexivity. Qed.

Variables (c d : S) (M : option vec) (A : crs).
Local Notation n := (nrows A).
Definition tau (k : nat) : S := cheb (d / c) k.

(* ---------- the operators ---------- *)
(* B v = A v, or diag(A)^-1 A v when scale *)
Definition Bop (v : vec) : vec := mkvec n (fun i => ch_prec M i (Ax A v i)).
(* Z v = (d v - B v) / c *)
Definition Zop (v : vec) : vec := mkvec n (fun i => (d * vget v i - vget (Bop v) i) / c).
(* T_k(Z) v *)
Fixpoint Tz (k : nat) (v : vec) : vec :=
  match k with
  | O => v
  | SS k' => match k' with
             | O => Zop v
             | SS k'' => mkvec n (fun i => c_two * vget (Zop (Tz k' v)) i - vget (Tz k'' v) i)
             end
  end.
Lemma Tz_SS k v : Tz (SS (SS k)) v = mkvec n (fun i => c_two * vget (Zop (Tz (SS k) v)) i - vget (Tz k v) i).
Proof. reflexivity. Qed.
Lemma Tz_len k v : length v = n -> length (Tz k v) = n.
Proof.
  intro L. destruct k as [|[|k]]; [exact L|apply mkvec_len|rewrite Tz_SS; apply mkvec_len].
Qed.

(* B is linear (pointwise form) *)
Lemma Bop_linear (a1 a2 : S) (x x1 x2 : vec) i :
  length x = n -> length x1 = n -> length x2 = n ->
  (forall j, j < n -> vget x j = a1 * vget x1 j + a2 * vget x2 j) -> i < n ->
  vget (Bop x) i = a1 * vget (Bop x1) i + a2 * vget (Bop x2) i.
Proof.
  intros Lx L1 L2 H Hi. unfold Bop. rewrite !mkvec_get by exact Hi.
  rewrite (ch_Ax_linear Srt A a1 a2 x x1 x2 n i Lx L1 L2 H). apply (ch_prec_linear Srt).
Qed.
Lemma Bop_scal (a : S) (x y : vec) i : length x = n -> length y = n ->
  (forall j, j < n -> vget x j = a * vget y j) -> i < n -> vget (Bop x) i = a * vget (Bop y) i.
Proof.
  intros Lx Ly H Hi. rewrite (Bop_linear a s0 x y y i Lx Ly Ly); [ring| |exact Hi].
  intros j Hj. rewrite (H j Hj). ring.
Qed.

(* ---------- eigenvectors: T_k(Z) v = T_k((d - lambda)/c) v ---------- *)
Theorem Tz_eigenvector (lam : S) (v : vec) : length v = n ->
  (forall i, i < n -> vget (Bop v) i = lam * vget v i) ->
  forall k i, i < n -> vget (Tz k v) i = cheb ((d - lam) / c) k * vget v i.
Proof.
  intros Lv Hev.
  assert (Z1 : forall (a : S) (w : vec), length w = n -> (forall j, j < n -> vget w j = a * vget v j) ->
               forall i, i < n -> vget (Zop w) i = ((d - lam) / c) * a * vget v i).
  { intros a w Lw Hw i Hi. unfold Zop. rewrite mkvec_get by exact Hi.
    rewrite (Bop_scal a w v i Lw Lv Hw Hi), (Hev i Hi), (Hw i Hi).
    unfold sdiv. rewrite !(Fdiv_def Sft). ring. }
  assert (Both : forall k, (forall i, i < n -> vget (Tz k v) i = cheb ((d - lam) / c) k * vget v i) /\
                           (forall i, i < n -> vget (Tz (SS k) v) i = cheb ((d - lam) / c) (SS k) * vget v i)).
  { induction k as [|k (IH0 & IH1)].
    - split.
      + intros i Hi. simpl. ring.
      + intros i Hi. cbn [Tz cheb]. rewrite (Z1 s1 v Lv) by (intros; try ring; assumption). ring.
    - split; [exact IH1|].
      intros i Hi. rewrite Tz_SS, cheb_SS, mkvec_get by exact Hi.
      rewrite (Z1 (cheb ((d - lam) / c) (SS k)) (Tz (SS k) v) (Tz_len _ _ Lv) IH1 i Hi), (IH0 i Hi). ring. }
  intro k. apply (proj1 (Both k)).
Qed.

(* ---------- the coefficients of the code are the Chebyshev coefficients ---------- *)
Hypothesis Nc : c <> s0.
Hypothesis N2 : @c_two S <> s0.

Lemma four_neq0 : @c_two S + c_two <> s0.
Proof.
  intro E. apply (F_1_neq_0 Sft).
  transitivity ((@c_two S + c_two) * (sinv c_two * sinv c_two)); [|rewrite E; ring].
  unfold c_two. field. exact N2.
Qed.

Lemma quarter_is : @c_quarter S = s1 / (c_two * c_two).
Proof.
  unfold c_quarter. replace (@c_two S + c_two) with (@c_two S * c_two) by (unfold c_two; ring).
  field. exact N2.
Qed.

Lemma tau_SS k : tau (SS (SS k)) = c_two * (d / c) * tau (SS k) - tau k.
Proof. reflexivity. Qed.

(* k = 1 *)
Lemma coef_1 (alpha : S) : tau 2 <> s0 ->
  cheby_coef c_two c_quarter c d 1 alpha =
  (c_two * tau 1 / (c * tau 2), c_two * tau 1 / (c * tau 2) * d - s1).
Proof.
  intro T2. cbn [cheby_coef].
  assert (E2 : tau 2 = (c_two * d * d - c * c) / (c * c)) by (unfold tau; cbn [cheb]; field; exact Nc).
  assert (N : c_two * d * d - c * c <> s0).
  { intro E. apply T2. rewrite E2, E. field. exact Nc. }
  assert (Ea : c_two * d * sinv (c_two * d * d - c * c) = c_two * tau 1 / (c * tau 2)).
  { rewrite E2. unfold tau. cbn [cheb]. field. repeat split; assumption. }
  rewrite Ea. reflexivity.
Qed.
(* k >= 2 *)
Lemma coef_k K k (alpha : S) : tau (SS k) <> s0 -> tau (SS (SS k)) <> s0 ->
  alpha = c_two * tau k / (c * tau (SS k)) ->
  cheby_coef c_two c_quarter c d (SS (SS K)) alpha =
  (c_two * tau (SS k) / (c * tau (SS (SS k))), c_two * tau (SS k) / (c * tau (SS (SS k))) * d - s1).
Proof.
  intros Tk Tn Ea. cbn [cheby_coef].
  pose proof (tau_SS k) as Hn.
  set (tp := tau k) in *. set (tk := tau (SS k)) in *. set (tn := tau (SS (SS k))) in *.
  assert (D : d - c_quarter * alpha * c * c = c * tn / (c_two * tk)).
  { rewrite Ea, Hn, quarter_is. field. repeat split; assumption. }
  assert (E : sinv (d - c_quarter * alpha * c * c) = c_two * tk / (c * tn)).
  { rewrite D. field. repeat split; assumption. }
  rewrite E. reflexivity.
Qed.

(* ---------- the error propagation of the sweep ---------- *)
Variables (b xs x0 : vec).
Hypothesis Hwf : wf A = true.
Hypothesis Lb : length b = n.
Hypothesis Lxs : length xs = n.
Hypothesis Lx0 : length x0 = n.
Hypothesis HM : forall m, M = Some m -> length m = n.
Hypothesis Hsol : forall i, i < n -> Ax A xs i = vget b i.       (* xs is an exact solution *)
Hypothesis Nd : d <> s0.

Definition errv (x : vec) : vec := mkvec n (fun i => vget xs i - vget x i).
Lemma errv_len x : length (errv x) = n.
Proof. apply mkvec_len. Qed.
Lemma errv_get x i : i < n -> vget (errv x) i = vget xs i - vget x i.
Proof. apply mkvec_get. Qed.

(* the preconditioned residual of x is B applied to the error of x *)
Lemma prec_residual_is_B_error (x : vec) i : length x = n -> i < n ->
  ch_prec M i (vget b i - Ax A x i) = vget (Bop (errv x)) i.
Proof.
  intros Lx Hi. unfold Bop. rewrite mkvec_get by exact Hi. f_equal.
  rewrite <- (Hsol i Hi).
  rewrite (ch_Ax_linear Srt A s1 (- s1) (errv x) xs x n i (errv_len x) Lxs Lx).
  - ring.
  - intros j Hj. rewrite errv_get by exact Hj. ring.
Qed.

(* the loop invariant at the entry of iteration k >= 1: x = x_k, p = x_k - x_{k-1}, alpha = alpha_{k-1} *)
Definition Inv (k : nat) (x p : vec) (alpha : S) : Prop :=
  length x = n /\ length p = n /\
  (forall i, i < n -> tau (SS k) * (vget xs i - vget x i) = vget (Tz (SS k) (errv x0)) i) /\
  (exists xp, length xp = n /\ (forall i, i < n -> vget p i = vget x i - vget xp i) /\
     (forall i, i < n -> tau k * (vget xs i - vget xp i) = vget (Tz k (errv x0)) i)) /\
  (1 <= k -> alpha = c_two * tau k / (c * tau (SS k))).

(* iteration 0 establishes the invariant *)
Lemma step_0 (p r : vec) (alpha : S) : length p = n -> length r = n ->
  exists x' p' r' alpha',
    cheby_step c_two c_quarter c d M A b (x0, p, r, alpha) 0 = (x', p', r', alpha') /\
    length r' = n /\ Inv 0 x' p' alpha'.
Proof.
  intros Lp Lr.
  destruct (ch_step_spec Srt Seqb c_two c_quarter c d M A b x0 p r alpha 0 Hwf Lb Lx0 Lp Lr HM)
    as (x' & p' & r' & E & Lx' & Lp' & Lr' & Gp' & Gx').
  exists x', p', r', (fst (cheby_coef c_two c_quarter c d 0 alpha)).
  split; [exact E|]. split; [exact Lr'|].
  cbn [cheby_coef fst snd] in Gp'.
  assert (Px : forall i, i < n -> vget p' i = vget x' i - vget x0 i) by (intros i Hi; rewrite (Gx' i Hi); ring).
  split; [exact Lx'|]. split; [exact Lp'|]. split; [|split].
  - intros i Hi. rewrite (Gx' i Hi), (Gp' i Hi), (prec_residual_is_B_error x0 i Lx0 Hi).
    cbn [Tz]. unfold Zop. rewrite mkvec_get, errv_get by exact Hi.
    unfold tau. cbn [cheb]. field. split; assumption.
  - exists x0. split; [exact Lx0|]. split; [exact Px|].
    intros i Hi. cbn [Tz]. rewrite errv_get by exact Hi. unfold tau. cbn [cheb]. ring.
  - intro H. lia.
Qed.

(* iteration k + 1 preserves it *)
Lemma step_S k (x p r : vec) (alpha : S) : length r = n ->
  tau (SS k) <> s0 -> tau (SS (SS k)) <> s0 -> Inv k x p alpha ->
  exists x' p' r' alpha',
    cheby_step c_two c_quarter c d M A b (x, p, r, alpha) (SS k) = (x', p', r', alpha') /\
    length r' = n /\ Inv (SS k) x' p' alpha'.
Proof.
  intros Lr Tk Tn (Lx & Lp & Ek & (xp & Lxp & Pp & Ep) & Ha).
  destruct (ch_step_spec Srt Seqb c_two c_quarter c d M A b x p r alpha (SS k) Hwf Lb Lx Lp Lr HM)
    as (x' & p' & r' & E & Lx' & Lp' & Lr' & Gp' & Gx').
  assert (Co : cheby_coef c_two c_quarter c d (SS k) alpha =
               (c_two * tau (SS k) / (c * tau (SS (SS k))), c_two * tau (SS k) / (c * tau (SS (SS k))) * d - s1)).
  { destruct k as [|k]; [apply coef_1; exact Tn|apply coef_k; try assumption]. apply Ha. lia. }
  rewrite Co in E, Gp'. cbn [fst snd] in E, Gp'.
  exists x', p', r', (c_two * tau (SS k) / (c * tau (SS (SS k)))).
  split; [exact E|]. split; [exact Lr'|].
  split; [exact Lx'|]. split; [exact Lp'|]. split; [|split].
  - intros i Hi.
    rewrite Tz_SS, mkvec_get by exact Hi. unfold Zop. rewrite mkvec_get by exact Hi.
    (* B (T_{k+1}(Z) e0) = tau_{k+1} B e_k *)
    assert (EB : vget (Bop (Tz (SS k) (errv x0))) i = tau (SS k) * vget (Bop (errv x)) i).
    { apply Bop_scal; [apply Tz_len, errv_len|apply errv_len| |exact Hi].
      intros j Hj. rewrite <- (Ek j Hj), errv_get by exact Hj. reflexivity. }
    rewrite EB, <- (Ek i Hi), <- (Ep i Hi).
    rewrite (Gx' i Hi), (Gp' i Hi), (prec_residual_is_B_error x i Lx Hi), (Pp i Hi).
    pose proof (tau_SS k) as Hn.
    set (tp := tau k) in *. set (tk := tau (SS k)) in *. set (tn := tau (SS (SS k))) in *.
    replace tp with (c_two * (d / c) * tk - tn) by (rewrite Hn; ring).
    field. split; assumption.
  - exists x. split; [exact Lx|]. split; [|exact Ek].
    intros i Hi. rewrite (Gx' i Hi). ring.
  - intros _. reflexivity.
Qed.

(* all iterations k = 1 .. *)
Lemma steps_from (len : nat) : forall k (x p r : vec) (alpha : S), length r = n ->
  (forall m, k < m -> m <= SS (k + len) -> tau m <> s0) -> tau (SS k) <> s0 ->
  Inv k x p alpha ->
  exists x' p' r' alpha',
    fold_left (cheby_step c_two c_quarter c d M A b) (seq (SS k) len) (x, p, r, alpha) = (x', p', r', alpha') /\
    Inv (k + len) x' p' alpha'.
Proof.
  induction len as [|len IH]; intros k x p r alpha Lr NT Tk I.
  - exists x, p, r, alpha. rewrite Nat.add_0_r. split; [reflexivity|exact I].
  - cbn [seq fold_left].
    destruct (step_S k x p r alpha Lr Tk (NT (SS (SS k)) ltac:(lia) ltac:(lia)) I) as (x1 & p1 & r1 & a1 & E1 & Lr1 & I1).
    rewrite E1.
    destruct (IH (SS k) x1 p1 r1 a1 Lr1) as (x' & p' & r' & a' & E & I'); try assumption.
    + intros m H1 H2. apply NT; lia.
    + apply NT; lia.
    + exists x', p', r', a'. split; [exact E|]. replace (k + SS len)%nat with (SS k + len)%nat by lia. exact I'.
Qed.

(* THE THEOREM: tau_k (x* - sweep_k(b, x0)) = T_k(Z) (x* - x0) *)
Theorem cheby_solve_error_polynomial degree (p r : vec) : length p = n -> length r = n ->
  (forall m, 1 <= m -> m <= degree -> tau m <> s0) ->
  forall i, i < n ->
    tau degree * (vget xs i - vget (fst (fst (fst (cheby_solve c_two c_quarter c d M degree A b x0 p r)))) i)
    = vget (Tz degree (errv x0)) i.
Proof.
  intros Lp Lr NT i Hi. unfold cheby_solve. destruct degree as [|deg].
  - cbn [seq fold_left fst Tz]. rewrite errv_get by exact Hi. unfold tau. cbn [cheb]. ring.
  - cbn [seq fold_left].
    destruct (step_0 p r s0 Lp Lr) as (x1 & p1 & r1 & a1 & E1 & Lr1 & I1). rewrite E1.
    destruct (steps_from deg 0 x1 p1 r1 a1 Lr1) as (x' & p' & r' & a' & E & I'); try assumption.
    + apply NT; lia.
    + rewrite E. cbn [fst]. destruct I' as (_ & _ & Ek & _). simpl Nat.add in Ek. apply Ek, Hi.
Qed.

Theorem cheby_sweep_error_polynomial degree (p r : vec) : length p = n -> length r = n ->
  (forall m, 1 <= m -> m <= degree -> tau m <> s0) ->
  forall i, i < n ->
    tau degree * (vget xs i - vget (cheby_sweep (c, d, M) degree A b x0 p r) i) = vget (Tz degree (errv x0)) i.
Proof. intros. rewrite ch_sweep_solve. apply cheby_solve_error_polynomial; assumption. Qed.

(* corollary: an error that is an eigenvector of B for lambda is multiplied by T_k((d - lambda)/c) / T_k(d/c) *)
Corollary cheby_sweep_eigenvector degree (lam : S) (p r : vec) : length p = n -> length r = n ->
  (forall m, 1 <= m -> m <= degree -> tau m <> s0) ->
  (forall i, i < n -> vget (Bop (errv x0)) i = lam * (vget xs i - vget x0 i)) ->
  forall i, i < n ->
    vget xs i - vget (cheby_sweep (c, d, M) degree A b x0 p r) i
    = cheb ((d - lam) / c) degree / tau degree * (vget xs i - vget x0 i).
Proof.
  intros Lp Lr NT Hev i Hi.
  pose proof (cheby_sweep_error_polynomial degree p r Lp Lr NT i Hi) as E.
  rewrite (Tz_eigenvector lam (errv x0) (errv_len x0)) in E.
  2:{ intros j Hj. rewrite (Hev j Hj), errv_get by exact Hj. reflexivity. }
  2:exact Hi.
  rewrite errv_get in E by exact Hi.
  assert (T : tau degree <> s0).
  { destruct degree as [|deg]; [exact (F_1_neq_0 Sft)|apply NT; lia]. }
  set (L := vget xs i - vget (cheby_sweep (c, d, M) degree A b x0 p r) i) in *.
  replace L with (tau degree * L / tau degree) by (field; exact T).
  rewrite E. field. exact T.
Qed.
End ChebyPoly.

(* ================================================================== *)
(* the sweep is affine in x with linear part E_k(B), no exact solution needed *)
Section ChebyAffine.
Context {S : Scalar}.
Local Notation vec := (vec S).
Local Notation crs := (crs S).
Hypothesis Sft : Sfield S.
Hypothesis Seqb : seqb_spec S.
Add Field SFieldCA : Sft.
Let Srt : Sring S := F_R Sft.
Variables (c d : S) (M : option vec) (A : crs).
Local Notation n := (nrows A).

(* T_k(Z) commutes with scalar multiples (pointwise form) *)
Lemma Tz_scal (a : S) (w v : vec) : length w = n -> length v = n ->
  (forall j, j < n -> vget w j = a * vget v j) ->
  forall k i, i < n -> vget (Tz c d M A k w) i = a * vget (Tz c d M A k v) i.
Proof.
  intros Lw Lv H.
  assert (Z1 : forall (w' v' : vec), length w' = n -> length v' = n -> (forall j, j < n -> vget w' j = a * vget v' j) ->
               forall i, i < n -> vget (Zop c d M A w') i = a * vget (Zop c d M A v') i).
  { intros w' v' Lw' Lv' H' i Hi. unfold Zop. rewrite !mkvec_get by exact Hi.
    rewrite (Bop_scal Sft M A a w' v' i Lw' Lv' H' Hi), (H' i Hi).
    unfold sdiv. rewrite !(Fdiv_def Sft). ring. }
  assert (Both : forall k, (forall i, i < n -> vget (Tz c d M A k w) i = a * vget (Tz c d M A k v) i) /\
                           (forall i, i < n -> vget (Tz c d M A (SS k) w) i = a * vget (Tz c d M A (SS k) v) i)).
  { induction k as [|k (IH0 & IH1)].
    - split; [exact H|]. intros i Hi. cbn [Tz]. apply Z1; assumption.
    - split; [exact IH1|]. intros i Hi. rewrite !Tz_SS, !mkvec_get by exact Hi.
      rewrite (Z1 _ _ (Tz_len c d M A _ _ Lw) (Tz_len c d M A _ _ Lv) IH1 i Hi), (IH0 i Hi). ring. }
  intro k. apply (proj1 (Both k)).
Qed.

Hypothesis Nc : c <> s0.
Hypothesis N2 : @c_two S <> s0.
Hypothesis Nd : d <> s0.
Hypothesis Hwf : wf A = true.
Hypothesis HM : forall m, M = Some m -> length m = n.

(* the homogeneous sweep applied to e is E_k(B) e *)
Theorem cheby_sweep_homogeneous degree (z e p r : vec) :
  length z = n -> length e = n -> length p = n -> length r = n ->
  (forall i, i < n -> vget z i = s0) ->
  (forall m, 1 <= m -> m <= degree -> tau c d m <> s0) ->
  forall i, i < n ->
    tau c d degree * vget (cheby_sweep (c, d, M) degree A z e p r) i = vget (Tz c d M A degree e) i.
Proof.
  intros Lz Le Lp Lr Hz NT i Hi.
  assert (Hsol : forall j, j < n -> Ax A z j = vget z j).
  { intros j Hj. rewrite (Hz j Hj).
    rewrite (ch_Ax_linear Srt A s0 s0 z z z n j Lz Lz Lz); [ring|].
    intros l Hl. rewrite (Hz l Hl). ring. }
  pose proof (cheby_sweep_error_polynomial Sft Seqb c d M A Nc N2 z z e Hwf Lz Lz Le HM Hsol Nd degree p r Lp Lr NT i Hi) as E.
  rewrite (Tz_scal (- s1) (errv A z e) e (errv_len A z e) Le) in E.
  - rewrite (Hz i Hi) in E.
    transitivity (- (tau c d degree * (s0 - vget (cheby_sweep (c, d, M) degree A z e p r) i))); [ring|].
    rewrite E. ring.
  - intros j Hj. rewrite errv_get by exact Hj. rewrite (Hz j Hj). ring.
  - exact Hi.
Qed.

(* two sweeps with the same right-hand side differ by E_k(B) applied to the difference of the initial vectors *)
Theorem cheby_sweep_affine_polynomial degree (b x y p r p1 r1 : vec) :
  length b = n -> length x = n -> length y = n -> length p = n -> length r = n -> length p1 = n -> length r1 = n ->
  (forall m, 1 <= m -> m <= degree -> tau c d m <> s0) ->
  forall i, i < n ->
    tau c d degree * (vget (cheby_sweep (c, d, M) degree A b x p r) i - vget (cheby_sweep (c, d, M) degree A b y p1 r1) i)
    = vget (Tz c d M A degree (mkvec n (fun j => vget x j - vget y j))) i.
Proof.
  intros Lb Lx Ly Lp Lr Lp1 Lr1 NT i Hi.
  set (z := mkvec n (fun _ => @s0 S)). set (e := mkvec n (fun j => vget x j - vget y j)).
  assert (Lz : length z = n) by apply mkvec_len. assert (Le : length e = n) by apply mkvec_len.
  assert (Hz : forall j, j < n -> vget z j = s0) by (intros j Hj; unfold z; rewrite mkvec_get by exact Hj; reflexivity).
  assert (Hxe : forall j, j < n -> vget x j = vget y j + vget e j)
    by (intros j Hj; unfold e; rewrite mkvec_get by exact Hj; ring).
  pose proof (cheby_sweep_affine Srt Seqb c d M degree A b z x y e p r p1 r1 p r Hwf Lb Lz Lx Ly Le Lp Lr Lp1 Lr1 Lp Lr
                HM Hz Hxe i Hi) as AF.
  pose proof (cheby_sweep_homogeneous degree z e p r Lz Le Lp Lr Hz NT i Hi) as HH.
  unfold Vec.vec in *. rewrite AF, <- HH. ring.
Qed.
End ChebyAffine.

(* ================================================================== *)
(* ordered field: 0 < c <= d  =>  tau_k >= 1, so none of the non-vanishing hypotheses can fail;
   this is what the constructor produces for hi0 > 0 and 0 <= lower < higher *)
Section ChebyOrd.
Context {S : Scalar}.
Hypothesis Sft : Sfield S.
Hypothesis Ord : ordered S.
Add Field SFieldCO : Sft.
Let Srt : Sring S := F_R Sft.

Lemma one_pos : olt s0 (@s1 S).
Proof. replace (@s1 S) with (@s1 S * s1) by ring. apply (sq_pos Srt Ord). exact (F_1_neq_0 Sft). Qed.
Lemma two_pos : olt s0 (@c_two S).
Proof.
  unfold c_two. replace (@s0 S) with (@s0 S + s0) by ring.
  apply (olt_ole_add Srt Ord); [exact one_pos|apply (olt_ole Ord), one_pos].
Qed.
Lemma pos_neq0 (x : S) : olt s0 x -> x <> s0.
Proof. intros H E. rewrite E in H. unfold olt in H. rewrite (o_irrefl S Ord) in H. discriminate. Qed.
Lemma two_neq0 : @c_two S <> s0.
Proof. apply pos_neq0, two_pos. Qed.
Lemma inv_pos (x : S) : olt s0 x -> olt s0 (sinv x).
Proof.
  intro H. destruct (olt_or_ole s0 (sinv x)) as [L|L]; [exact L|exfalso].
  pose proof (ole_mul_nonneg Srt Ord (sinv x) s0 x (olt_ole Ord _ _ H) L) as Q.
  replace (sinv x * x) with (@s1 S) in Q by (field; apply pos_neq0, H).
  replace (s0 * x) with (@s0 S) in Q by ring.
  exact (olt_not_ole s0 s1 one_pos Q).
Qed.

Lemma cheb_ge_one (z : S) : ole s1 z -> forall k, ole s1 (cheb z k) /\ ole (cheb z k) (cheb z (SS k)).
Proof.
  intros Hz. induction k as [|k (H1 & H2)].
  - split; [apply (ole_refl Ord)|exact Hz].
  - assert (H3 : ole s1 (cheb z (SS k))) by (apply (ole_trans Ord _ (cheb z k)); assumption).
    split; [exact H3|]. rewrite cheb_SS.
    set (a := cheb z k) in *. set (b := cheb z (SS k)) in *.
    apply (proj2 (ole_0_sub Srt Ord b (c_two * z * b - a))).
    replace (c_two * z * b - a - b) with ((z - s1) * b + ((z - s1) * b + (b - a))) by (unfold c_two; ring).
    assert (Pz : ole s0 (z - s1)) by (apply (proj1 (ole_0_sub Srt Ord s1 z)); exact Hz).
    assert (Pb : ole s0 b) by (apply (ole_trans Ord _ s1); [apply (olt_ole Ord), one_pos|exact H3]).
    assert (Pm : ole s0 ((z - s1) * b)) by (apply (mul_nonneg Srt Ord); assumption).
    assert (Pd : ole s0 (b - a)) by (apply (proj1 (ole_0_sub Srt Ord a b)); exact H2).
    replace (@s0 S) with (@s0 S + (s0 + s0)) by ring.
    apply (ole_add Srt Ord); [exact Pm|apply (ole_add Srt Ord); assumption].
Qed.

Theorem tau_nonzero (c d : S) : olt s0 c -> ole c d -> forall k, ole s1 (tau c d k) /\ tau c d k <> s0.
Proof.
  intros Hc Hcd k.
  assert (Hz : ole s1 (d / c)).
  { unfold ole. destruct (sltb (d / c) s1) eqn:E; [exfalso|reflexivity].
    pose proof (olt_mul_pos Ord (d / c) s1 c Hc E) as Q.
    replace (d / c * c) with d in Q by (field; apply pos_neq0, Hc).
    replace (s1 * c) with c in Q by ring.
    exact (olt_not_ole d c Q Hcd). }
  destruct (cheb_ge_one (d / c) Hz k) as (H1 & _). split; [exact H1|].
  apply pos_neq0. apply (olt_ole_trans Ord s0 s1); [exact one_pos|exact H1].
Qed.

(* the constructor: hi0 > 0 (spectral radius estimate), 0 <= lower < higher  =>  0 < c <= d *)
Theorem cheby_cd_ordered (hi0 lower higher : S) : olt s0 hi0 -> ole s0 lower -> olt lower higher ->
  let '(c, d) := cheby_cd c_half hi0 lower higher in olt s0 c /\ ole c d /\ d <> s0.
Proof.
  intros Hh Hl Hlh. unfold cheby_cd.
  assert (Ph : olt s0 (@c_half S)) by (apply inv_pos, two_pos).
  assert (Pc : olt s0 (c_half * (hi0 * higher - hi0 * lower))).
  { apply (mul_pos Srt Ord); [exact Ph|].
    replace (hi0 * higher - hi0 * lower) with (hi0 * (higher - lower)) by ring.
    apply (mul_pos Srt Ord); [exact Hh|apply (proj1 (olt_0_sub Srt Ord lower higher)); exact Hlh]. }
  assert (Pcd : ole (c_half * (hi0 * higher - hi0 * lower)) (c_half * (hi0 * higher + hi0 * lower))).
  { apply (proj2 (ole_0_sub Srt Ord _ _)).
    replace (c_half * (hi0 * higher + hi0 * lower) - c_half * (hi0 * higher - hi0 * lower))
      with (c_half * c_two * (hi0 * lower)) by (unfold c_two; ring).
    apply (mul_nonneg Srt Ord); [|apply (mul_nonneg Srt Ord); [apply (olt_ole Ord), Hh|exact Hl]].
    apply (mul_nonneg Srt Ord); apply (olt_ole Ord); [exact Ph|exact two_pos]. }
  split; [exact Pc|]. split; [exact Pcd|].
  apply pos_neq0. apply (olt_ole_trans Ord _ _ _ Pc Pcd).
Qed.
Theorem cheby_hypotheses_ordered (hi0 lower higher : S) : olt s0 hi0 -> ole s0 lower -> olt lower higher ->
  let '(c, d) := cheby_cd c_half hi0 lower higher in
  c <> s0 /\ d <> s0 /\ @c_two S <> s0 /\ forall k, ole s1 (tau c d k) /\ tau c d k <> s0.
Proof.
  intros Hh Hl Hlh. pose proof (cheby_cd_ordered hi0 lower higher Hh Hl Hlh) as H.
  destruct (cheby_cd c_half hi0 lower higher) as [c d]. destruct H as (Hc & Hcd & Hd).
  split; [apply pos_neq0, Hc|]. split; [exact Hd|]. split; [exact two_neq0|].
  intro k. apply tau_nonzero; assumption.
Qed.
End ChebyOrd.
