(* DistMove.v -- the life cycle of ONE distributed_matrix object: constructor, move_to_backend(bprm, keep_src),
   copy to another backend, and the consumers that read the object afterwards
   (amgcl/mpi/distributed_matrix.hpp:327-368, 442-456, 494-547).  Definitions only; proofs: DistMoveProofs.v.

   A distributed_matrix holds, on every rank, FOUR shared pointers and a communication pattern:
     a_loc, a_rem : the build matrices ("source"); a_rem carries GLOBAL column numbers.  Every consumer other than
                    mul/residual reads these through local()/remote(): the copy constructor to another backend,
                    transpose, product, remote_rows, scale, sort_rows, spectral_radius, mpi::amg::rebuild;
     A_loc, A_rem : the backend matrices read by mul/residual; A_rem is a_rem RENUMBERED through the pattern's idx map
                    (global remote column -> position in the receive buffer, Dist.renumber), it exists only when the
                    rank has remote entries (a_rem->nnz > 0);
     C            : the pattern, built once by the constructor from the GLOBAL column numbers of a_rem; C->x_rem (the
                    ghost vector handed to the backend) is created by the first move_to_backend with recv.count() entries.
   move_to_backend(bprm, keep_src):
     if (!A_loc) A_loc = copy(a_loc);
     if (!A_rem && a_rem && a_rem->nnz > 0)  A_rem = copy(renumber(keep_src ? a COPY of a_rem : a_rem itself));
     C->move_to_backend();  if (!keep_src) { a_loc.reset(); a_rem.reset(); }
   so the two views are: [ob_src] (global ids; untouched when keep_src) and [ob_bloc]/[ob_brem] (backend view). *)
From Amgcl Require Import Scalar Vec Crs Kernels MatOps Cheby Dist.
Local Open Scope S_scope.

Section DistMove.
Context {S : Scalar}.
Local Notation vec := (vec S).
Local Notation crs := (crs S).

(* one rank's object *)
Record rank_obj := mkObj {
  ob_src  : option (rank_mat S);  (* a_loc, a_rem (global column ids); None after reset() *)
  ob_bloc : option crs;           (* A_loc *)
  ob_brem : option crs;           (* A_rem: renumbered, ncols = recv.count(); None while the rank has no remote entry *)
  ob_xrem : option nat            (* size of C->x_rem; None before the first move_to_backend *)
}.
(* the world: the column partition, the patterns computed by the constructor, one object per rank *)
Record dobj := mkDobj { do_cparts : list nat; do_pats : list cpat; do_ranks : list rank_obj }.
Definition dflt_obj : rank_obj := mkObj None None None None.

(* the constructors distributed_matrix(comm, A, n_loc_cols) / (comm, a_loc, a_rem): pattern from the global ids *)
Definition fresh_obj (M : rank_mat S) : rank_obj := mkObj (Some M) None None None.
Definition construct (D : dmat S) : dobj :=
  mkDobj (dm_cparts D) (dm_pattern D) (map fresh_obj (dm_ranks D)).

(* distributed_matrix::move_to_backend on one rank; [rc] = the keys of idx in idx order *)
Definition move_rank (rc : list nat) (keep : bool) (o : rank_obj) : rank_obj :=
  mkObj (if keep then ob_src o else None)
        (match ob_bloc o with Some L => Some L | None => option_map (@rm_loc S) (ob_src o) end)
        (match ob_brem o, ob_src o with
         | Some R, _ => Some R
         | None, Some M => if Nat.eqb (nnz (rm_rem M)) 0 then None else Some (renumber rc (rm_rem M))
         | None, None => None
         end)
        (match ob_xrem o with Some k => Some k | None => Some (length rc) end).

Definition rank_rc (pats : list cpat) (r : nat) : list nat := cp_rc (nth r pats dflt_cpat).

Definition move_to_backend (keep : bool) (O : dobj) : dobj :=
  mkDobj (do_cparts O) (do_pats O)
         (map (fun ro => move_rank (rank_rc (do_pats O) (fst ro)) keep (snd ro)) (indexed (do_ranks O))).

(* a history of calls *)
Definition moves (ks : list bool) (O : dobj) : dobj := fold_left (fun o k => move_to_backend k o) ks O.

(* ---- the two views ---- *)
Fixpoint all_some {X} (l : list (option X)) : option (list X) :=
  match l with
  | [] => Some []
  | None :: _ => None
  | Some x :: t => match all_some t with Some t' => Some (x :: t') | None => None end
  end.
(* what local()/remote() give on every rank: the source matrix, when no rank has released it *)
Definition source (O : dobj) : option (dmat S) :=
  option_map (mkDmat (do_cparts O)) (all_some (map ob_src (do_ranks O))).
Definition released (O : dobj) : Prop := forall o, In o (do_ranks O) -> ob_src o = None.
(* what mul/residual read *)
Definition backend (O : dobj) : list (option crs * option crs * option nat) :=
  map (fun o => (ob_bloc o, ob_brem o, ob_xrem o)) (do_ranks O).

(* ---- mul / residual on the backend view (lines 520-547); None = a null backend pointer or a ghost vector of the
   wrong size would be dereferenced ---- *)
Definition obj_rank_spmv (alpha : S) (o : rank_obj) (rc : list nat) (ghost x : vec) (beta : S) (y : vec) : option vec :=
  match ob_bloc o, ob_xrem o with
  | Some L, Some k =>
      if Nat.eqb k (length rc) then
        let y1 := spmv alpha L x beta y in
        if is_nil rc then Some y1
        else match ob_brem o with Some R => Some (spmv alpha R ghost s1 y1) | None => None end
      else None
  | _, _ => None
  end.
Definition obj_rank_residual (f : vec) (o : rank_obj) (rc : list nat) (ghost x res : vec) : option vec :=
  match ob_bloc o, ob_xrem o with
  | Some L, Some k =>
      if Nat.eqb k (length rc) then
        let r1 := residual f L x res in
        if is_nil rc then Some r1
        else match ob_brem o with Some R => Some (spmv (- s1) R ghost s1 r1) | None => None end
      else None
  | _, _ => None
  end.
Definition obj_spmv (alpha : S) (O : dobj) (xs : list vec) (beta : S) (ys : list vec) : list (option vec) :=
  let pats := do_pats O in
  map (fun r => obj_rank_spmv alpha (nth r (do_ranks O) dflt_obj) (rank_rc pats r)
                              (exchange pats xs r) (nth r xs []) beta (nth r ys []))
      (seq 0 (length (do_cparts O))).
Definition obj_residual (fs : list vec) (O : dobj) (xs ress : list vec) : list (option vec) :=
  let pats := do_pats O in
  map (fun r => obj_rank_residual (nth r fs []) (nth r (do_ranks O) dflt_obj) (rank_rc pats r)
                                  (exchange pats xs r) (nth r xs []) (nth r ress []))
      (seq 0 (length (do_cparts O))).

(* ---- copy to another backend (lines 352-368): the source matrices are copied, the pattern is COPIED (idx, send/recv
   tables; not recomputed), no backend matrices yet.  The value conversion is not modelled.  None: the source has been
   released (the C++ dereferences a null pointer). ---- *)
Definition copy_obj (O : dobj) : option dobj :=
  option_map (fun D => mkDobj (do_cparts O) (do_pats O) (map fresh_obj (dm_ranks D))) (source O).

(* ---- the seeded regression C11-2: keep_src no longer copies, the kept remote part is renumbered IN PLACE ---- *)
Definition move_rank_inplace (rc : list nat) (keep : bool) (o : rank_obj) : rank_obj :=
  match ob_brem o, ob_src o with
  | None, Some M =>
      if Nat.eqb (nnz (rm_rem M)) 0 then move_rank rc keep o
      else let M' := mkRankMat (rm_loc M) (renumber rc (rm_rem M)) in
           mkObj (if keep then Some M' else None)
                 (match ob_bloc o with Some L => Some L | None => Some (rm_loc M) end)
                 (Some (rm_rem M'))
                 (match ob_xrem o with Some k => Some k | None => Some (length rc) end)
  | _, _ => move_rank rc keep o
  end.
Definition move_to_backend_inplace (keep : bool) (O : dobj) : dobj :=
  mkDobj (do_cparts O) (do_pats O)
         (map (fun ro => move_rank_inplace (rank_rc (do_pats O) (fst ro)) keep (snd ro)) (indexed (do_ranks O))).

(* a remote column of a source matrix that is not a key of idx: C.renumber / C.local_index throw std::out_of_range *)
Definition bad_remote_cols (rc : list nat) (M : rank_mat S) : list nat :=
  filter (fun c => Nat.eqb (index_of c rc) (length rc)) (flat_map (fun r : row S => map fst r) (rows (rm_rem M))).

End DistMove.
Arguments rank_obj : clear implicits.
Arguments dobj : clear implicits.
