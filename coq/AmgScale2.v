(* AmgScale2.v -- property C02-B2, part 2 (commutative ring, c invertible: c * ci = 1):
   two hierarchies in lock step.  If every level matrix of lvls' is c times the one of lvls, the
   transfer operators are the same, and smoothers / coarse solver of lvls' applied to (f, x) give
   what those of lvls give on (f/c, x), then
       cycle lvls' f x = cycle lvls (f/c) x      (any npre, npost, ncycle)
       apply lvls' f   = apply lvls (f/c)        (any pre_cycles >= 1)
   and, for a linear hierarchy, apply lvls' f = (1/c) * apply lvls f.
   pre_cycles = 0 is excluded: then apply copies f (B = I), which does not scale. *)
From Amgcl Require Import Scalar Vec Crs Kernels KernelsProofs MatOps MatOpsProofs Relax DenseSolve
  Amg AmgExec AmgProofs AmgProofs2 AmgProofs3 AmgProofs4 AmgScale.
Local Open Scope S_scope.

Section Sim.
Context {S : Scalar}.
Local Notation vec := (vec S).
Local Notation crs := (crs S).
Local Notation level := (@level S).
Local Notation scratch := (@scratch S).
Local Notation sweep := (@sweep S).
Hypothesis Srt : Sring S.
Hypothesis Seqb : seqb_spec S.
Add Ring SRingSc2 : Srt.

Lemma zero_is_zero' : is_zero (@s0 S) = true.
Proof. apply Seqb. reflexivity. Qed.

(* a * v *)
Definition vsc (a : S) (v : vec) : vec := map (fun y => a * y) v.

Lemma vsc_length a (v : vec) : length (vsc a v) = length v.
Proof. apply map_length. Qed.

Lemma vsc_get a (v : vec) i : vget (vsc a v) i = a * vget v i.
Proof.
  unfold vget, vsc. revert i; induction v as [|y v IH]; intro i; simpl.
  - destruct i; ring.
  - destruct i as [|i]; [reflexivity|apply IH].
Qed.

Lemma vsc_vsc a b (v : vec) : a * b = s1 -> vsc a (vsc b v) = v.
Proof.
  intro H. unfold vsc. rewrite map_map. rewrite <- (map_id v) at 2. apply map_ext. intro y.
  transitivity ((a * b) * y); [ring|]. rewrite H. ring.
Qed.

Lemma vsc_vlin a (v : vec) : vlin a v s0 v = vsc a v.
Proof.
  apply vec_ext.
  - rewrite (vlin_length a v s0 v (length v)), vsc_length; reflexivity.
  - intros i _. rewrite (vlin_get Srt), vsc_get by reflexivity. ring.
Qed.

Variables c ci : S.
Hypothesis Hci : c * ci = s1.

Lemma Hic : ci * c = s1.
Proof. rewrite (Rmul_comm Srt). exact Hci. Qed.

(* --- the kernels of one level --- *)
Lemma Ax_mscale (A : crs) (x : vec) i : Ax (mscale A c) x i = c * Ax A x i.
Proof.
  unfold Ax. rewrite mscale_ncols, <- (sumn_scal Srt). apply sumn_ext. intros j _.
  rewrite (mscale_dense Srt). ring.
Qed.

Lemma Ax_vsc (A : crs) a (x : vec) i : Ax A (vsc a x) i = a * Ax A x i.
Proof.
  unfold Ax. rewrite <- (sumn_scal Srt). apply sumn_ext. intros j _. rewrite vsc_get. ring.
Qed.

Lemma residual_mscale (A : crs) (f x t t' : vec) : wf A = true ->
  length f = nrows A -> length t = nrows A -> length t' = nrows A ->
  residual f (mscale A c) x t' = vsc c (residual (vsc ci f) A x t).
Proof.
  intros WA Lf Lt Lt'.
  assert (WA' : wf (mscale A c) = true) by (apply mscale_wf, WA).
  assert (NA' : nrows (mscale A c) = nrows A) by apply mscale_nrows.
  apply vec_ext.
  - rewrite vsc_length, !residual_length; rewrite ?vsc_length, ?NA'; congruence.
  - rewrite residual_length by (rewrite ?NA'; congruence). rewrite NA'. intros i Hi.
    rewrite vsc_get, !(residual_spec Srt) by (rewrite ?vsc_length, ?NA'; auto; congruence).
    rewrite Ax_mscale, vsc_get.
    transitivity ((c * ci) * vget f i - c * Ax A x i); [rewrite Hci; ring|ring].
Qed.

Lemma restrict_vsc (R : crs) (t y y' : vec) : wf R = true ->
  length y = nrows R -> length y' = nrows R ->
  spmv s1 R (vsc c t) s0 y' = vsc c (spmv s1 R t s0 y).
Proof.
  intros WR Ly Ly'. apply vec_ext.
  - rewrite vsc_length, !spmv_length_any. congruence.
  - rewrite spmv_length_any, Ly'. intros i Hi.
    rewrite vsc_get, !(spmv_spec Srt Seqb) by assumption. rewrite Ax_vsc. ring.
Qed.

(* --- relations between the two hierarchies --- *)
Definition sweep_sim (n : nat) (sw' sw : sweep) : Prop :=
  forall f x t t', length f = n -> length x = n -> length t = n -> length t' = n ->
    fst (sw' f x t') = fst (sw (vsc ci f) x t).
Definition solve_sim (n : nat) (sv' sv : vec -> vec -> vec) : Prop :=
  forall f x, length f = n -> length x = n -> sv' f x = sv (vsc ci f) x.

Fixpoint hier_sim (lvls' lvls : list level) : Prop :=
  match lvls', lvls with
  | [], [] => True
  | l' :: rest', l :: rest =>
    let n := nrows (lA l) in
    lA l' = mscale (lA l) c /\ wf (lA l) = true /\ lP l' = lP l /\ lR l' = lR l /\
    sweep_sim n (lpre l') (lpre l) /\ sweep_sim n (lpost l') (lpost l) /\
    match lsolve l', lsolve l with
    | Some sv', Some sv => solve_sim n sv' sv
    | None, None => True
    | _, _ => False
    end /\
    (rest <> [] -> wf (lR l) = true) /\
    hier_sim rest' rest
  | _, _ => False
  end.

Lemma sweeps_sim n (sw' sw : sweep) k : sweep_ok n sw' -> sweep_ok n sw -> sweep_sim n sw' sw ->
  forall f x t t', length f = n -> length x = n -> length t = n -> length t' = n ->
  fst (sweeps k sw' f (x, t')) = fst (sweeps k sw (vsc ci f) (x, t)) /\
  length (fst (sweeps k sw (vsc ci f) (x, t))) = n /\
  length (snd (sweeps k sw' f (x, t'))) = n /\ length (snd (sweeps k sw (vsc ci f) (x, t))) = n.
Proof.
  intros Ok' Ok Hs. induction k as [|k IH]; intros f x t t' Lf Lx Lt Lt'.
  - cbn. auto.
  - change (sweeps (Datatypes.S k) sw' f (x, t')) with (sweeps k sw' f (sw' f x t')).
    change (sweeps (Datatypes.S k) sw (vsc ci f) (x, t)) with (sweeps k sw (vsc ci f) (sw (vsc ci f) x t)).
    assert (Lfc : length (vsc ci f) = n) by (rewrite vsc_length; exact Lf).
    destruct (Ok' f x t' Lf Lx Lt') as (A1 & A2 & _).
    destruct (Ok (vsc ci f) x t Lfc Lx Lt) as (B1 & B2 & _).
    pose proof (Hs f x t t' Lf Lx Lt Lt') as E.
    destruct (sw' f x t') as [x1' t1']. destruct (sw (vsc ci f) x t) as [x1 t1].
    cbn [fst snd] in *. subst x1'. apply IH; assumption.
Qed.

Lemma sweeps_sim' n (sw' sw : sweep) k : sweep_ok n sw' -> sweep_ok n sw -> sweep_sim n sw' sw ->
  forall f (xt xt' : vec * vec), length f = n -> fst xt' = fst xt ->
  length (fst xt) = n -> length (snd xt) = n -> length (snd xt') = n ->
  fst (sweeps k sw' f xt') = fst (sweeps k sw (vsc ci f) xt) /\
  length (fst (sweeps k sw (vsc ci f) xt)) = n /\
  length (snd (sweeps k sw' f xt')) = n /\ length (snd (sweeps k sw (vsc ci f) xt)) = n.
Proof.
  intros Ok' Ok Hs f [x t] [x' t'] Lf E Lx Lt Lt'. cbn [fst snd] in *. subst x'.
  apply sweeps_sim; assumption.
Qed.

Section WithParams.
Variables npre npost ncycle : nat.
Local Notation cycle := (cycle npre npost ncycle).

Theorem cycle_sim : forall lvls' lvls, hier_sim lvls' lvls -> hier_wf lvls' -> hier_wf lvls ->
  forall scr' scr f x, scratch_wf lvls' scr' -> scratch_wf lvls scr ->
  length f = top_n lvls -> length x = top_n lvls ->
  fst (cycle lvls' scr' f x) = fst (cycle lvls scr (vsc ci f) x).
Proof.
  induction lvls' as [|l' rest' IH]; intros [|l rest] Hsim Hw' Hw scr' scr f x Hs' Hs Lf Lx;
    try (destruct Hsim; fail).
  - rewrite !cycle_nil. reflexivity.
  - cbn [hier_sim] in Hsim.
    destruct Hsim as (EA & WA & EP & ER & Spre & Spost & Ssol & WRr & Srest).
    cbn [top_n] in Lf, Lx. set (n := nrows (lA l)) in *.
    assert (NA' : nrows (lA l') = n) by (rewrite EA; apply mscale_nrows).
    pose proof Hw' as (Okpre' & Okpost' & Hm' & Hwr'). rewrite NA' in Okpre', Okpost'.
    pose proof Hw as (Okpre & Okpost & Hm & Hwr). fold n in Okpre, Okpost.
    assert (Lfc : length (vsc ci f) = n) by (rewrite vsc_length; exact Lf).
    destruct rest' as [|nxt' rest2']; destruct rest as [|nxt rest2]; try (destruct Srest; fail).
    + (* coarsest level *)
      destruct scr' as [|s' sr']; [destruct Hs'|]. destruct scr as [|s sr]; [destruct Hs|].
      cbn [scratch_wf] in Hs', Hs. destruct Hs' as [(_ & _ & Lt') _]. destruct Hs as [(_ & _ & Lt) _].
      rewrite NA' in Lt'. fold n in Lt.
      rewrite !cycle_last.
      destruct (lsolve l') as [sv'|]; destruct (lsolve l) as [sv|]; try (destruct Ssol; fail).
      * cbn [fst]. apply Ssol; assumption.
      * cbv zeta. cbn [fst].
        destruct (sweeps_sim n (lpre l') (lpre l) npre Okpre' Okpre Spre f x (st s) (st s') Lf Lx Lt Lt')
          as (E1 & L1 & L2' & L2).
        apply (sweeps_sim' n (lpost l') (lpost l) npost Okpost' Okpost Spost f _ _ Lf E1 L1 L2 L2').
    + (* level with a coarser one below *)
      set (n' := nrows (lA nxt)) in *.
      assert (WR : wf (lR l) = true) by (apply WRr; discriminate).
      pose proof Srest as Srest0. cbn [hier_sim] in Srest0. destruct Srest0 as (EAn & _).
      assert (NAn' : nrows (lA nxt') = n') by (rewrite EAn; apply mscale_nrows).
      assert (NR : nrows (lR l) = n') by exact Hm.
      destruct scr' as [|s' [|sn' sr']]; try (cbn in Hs'; tauto).
      destruct scr as [|s [|sn sr]]; try (cbn in Hs; tauto).
      cbn [scratch_wf] in Hs', Hs.
      destruct Hs' as ((_ & _ & Lt') & Hsr'). destruct Hs as ((_ & _ & Lt) & Hsr).
      rewrite NA' in Lt'. fold n in Lt.
      rewrite !cycle_mid_proj. cbv zeta. cbn [fst].
      (* the ncycle loop *)
      assert (G : forall m (y t t' : vec) sc sc', length y = n -> length t = n -> length t' = n ->
                scratch_wf (nxt :: rest2) sc -> scratch_wf (nxt' :: rest2') sc' ->
                fst (fst (iter m (cyc_body npre npost (cycle (nxt' :: rest2')) l' f) (y, t', sc'))) =
                fst (fst (iter m (cyc_body npre npost (cycle (nxt :: rest2)) l (vsc ci f)) (y, t, sc)))).
      { induction m as [|m IHm]; intros y t t' sc sc' Ly Lt0 Lt0' Hsc Hsc'; [reflexivity|].
        cbn [iter].
        destruct sc as [|sn0 sc0]; [destruct Hsc|]. destruct sc' as [|sn0' sc0']; [destruct Hsc'|].
        pose proof Hsc as Hsc1. pose proof Hsc' as Hsc1'.
        cbn [scratch_wf] in Hsc, Hsc'.
        destruct Hsc as [(Lsf & Lsu & Lst) Hsc0]. destruct Hsc' as [(Lsf' & Lsu' & Lst') Hsc0'].
        fold n' in Lsf, Lsu, Lst. rewrite NAn' in Lsf', Lsu', Lst'.
        rewrite !cyc_body_proj. cbv zeta.
        destruct (sweeps_sim n (lpre l') (lpre l) npre Okpre' Okpre Spre f y t t' Lf Ly Lt0 Lt0')
          as (E1 & L1 & L2' & L2).
        unfold Vec.vec in *.
        set (xt1' := sweeps npre (lpre l') f (y, t')) in *.
        set (xt1 := sweeps npre (lpre l) (vsc ci f) (y, t)) in *.
        rewrite E1.
        (* residual *)
        assert (Et2 : residual f (lA l') (fst xt1) (snd xt1') =
                      vsc c (residual (vsc ci f) (lA l) (fst xt1) (snd xt1))).
        { rewrite EA. apply residual_mscale; assumption. }
        unfold Vec.vec in *. rewrite Et2.
        set (t2 := residual (vsc ci f) (lA l) (fst xt1) (snd xt1)).
        assert (Lt2 : length t2 = n) by (unfold t2; apply residual_length; assumption).
        (* restriction *)
        rewrite ER.
        assert (Ef : spmv s1 (lR l) (vsc c t2) s0 (sf sn0') = vsc c (spmv s1 (lR l) t2 s0 (sf sn0))).
        { apply restrict_vsc; [exact WR|congruence|congruence]. }
        unfold Vec.vec in *. rewrite Ef.
        set (fc := spmv s1 (lR l) t2 s0 (sf sn0)).
        assert (Lfcn : length fc = n') by (unfold fc; rewrite spmv_length_any; exact Lsf).
        assert (Eu : vclear (su sn0') = vclear (su sn0)) by (apply vclear_eq; congruence).
        unfold Vec.vec in *. rewrite Eu. set (u0 := vclear (su sn0)).
        assert (Lu0 : length u0 = n') by (unfold u0; rewrite vclear_length; exact Lsu).
        (* recursion *)
        set (scn' := mkScratch (vsc c fc) u0 (st sn0') :: sc0').
        set (scn := mkScratch fc u0 (st sn0) :: sc0).
        assert (Hscn' : scratch_wf (nxt' :: rest2') scn').
        { unfold scn'. cbn [scratch_wf]. split; [|exact Hsc0']. unfold scr_ok; cbn [sf su st].
          rewrite NAn', vsc_length. auto. }
        assert (Hscn : scratch_wf (nxt :: rest2) scn).
        { unfold scn. cbn [scratch_wf]. split; [|exact Hsc0]. unfold scr_ok; cbn [sf su st]. auto. }
        assert (Er : fst (cycle (nxt' :: rest2') scn' (vsc c fc) u0) = fst (cycle (nxt :: rest2) scn fc u0)).
        { transitivity (fst (cycle (nxt :: rest2) scn (vsc ci (vsc c fc)) u0)).
          - apply (IH (nxt :: rest2) Srest Hwr' Hwr scn' scn (vsc c fc) u0 Hscn' Hscn).
            + cbn [top_n]. rewrite vsc_length. exact Lfcn.
            + exact Lu0.
          - rewrite (vsc_vsc ci c fc Hic). reflexivity. }
        unfold Vec.vec in *. rewrite Er. rewrite EP.
        set (r := cycle (nxt :: rest2) scn fc u0).
        set (r' := cycle (nxt' :: rest2') scn' (vsc c fc) u0).
        destruct (cycle_history_indep zero_is_zero' npre npost ncycle (nxt :: rest2) Hwr scn scn fc u0
                    Hscn Hscn Lfcn Lu0) as (_ & Lr & Hsr2).
        destruct (cycle_history_indep zero_is_zero' npre npost ncycle (nxt' :: rest2') Hwr' scn' scn'
                    (vsc c fc) u0 Hscn' Hscn') as (_ & Lr' & Hsr2').
        { cbn [top_n]. rewrite NAn', vsc_length. exact Lfcn. }
        { cbn [top_n]. rewrite NAn'. exact Lu0. }
        fold r in Lr, Hsr2. fold r' in Lr', Hsr2'. cbn [top_n] in Lr, Lr'. fold n' in Lr. rewrite NAn' in Lr'.
        set (x2 := spmv s1 (lP l) (fst r) s1 (fst xt1)).
        assert (Lx2 : length x2 = n) by (unfold x2; rewrite spmv_length_any; exact L1).
        assert (Lt2' : length (vsc c t2) = n) by (rewrite vsc_length; exact Lt2).
        destruct (sweeps_sim n (lpost l') (lpost l) npost Okpost' Okpost Spost f x2 t2 (vsc c t2)
                    Lf Lx2 Lt2 Lt2') as (E3 & L3 & L4' & L4).
        unfold Vec.vec in *. fold x2. rewrite E3.
        apply IHm.
        - exact L3.
        - exact L4.
        - exact L4'.
        - apply set_u_wf; [exact Hsr2|exact Lr].
        - apply set_u_wf; [exact Hsr2'|]. cbn [top_n]. rewrite NAn'. exact Lr. }
      apply G; assumption.
Qed.

(* apply = clear x, then pre_cycles >= 1 cycles *)
Theorem apply_sim pc : forall lvls' lvls, hier_sim lvls' lvls -> hier_wf lvls' -> hier_wf lvls ->
  lvls <> [] ->
  forall scr' scr f x x', scratch_wf lvls' scr' -> scratch_wf lvls scr ->
  length f = top_n lvls -> length x = top_n lvls -> length x' = top_n lvls ->
  fst (apply npre npost ncycle (Datatypes.S pc) lvls' scr' f x') =
  fst (apply npre npost ncycle (Datatypes.S pc) lvls scr (vsc ci f) x).
Proof.
  intros lvls' lvls Hsim Hw' Hw Hne scr' scr f x x' Hs' Hs Lf Lx Lx'.
  assert (Etop : top_n lvls' = top_n lvls).
  { destruct lvls' as [|l' r']; destruct lvls as [|l r]; try (destruct Hsim; fail); [reflexivity|].
    cbn [hier_sim] in Hsim. destruct Hsim as (EA & _). cbn [top_n]. rewrite EA. apply mscale_nrows. }
  unfold apply. rewrite (vclear_eq x' x) by congruence.
  assert (Lfc : length (vsc ci f) = top_n lvls) by (rewrite vsc_length; exact Lf).
  assert (G : forall m (y : vec) sc sc', length y = top_n lvls -> scratch_wf lvls sc -> scratch_wf lvls' sc' ->
            fst (iter m (fun xs => cycle lvls' (snd xs) f (fst xs)) (y, sc')) =
            fst (iter m (fun xs => cycle lvls (snd xs) (vsc ci f) (fst xs)) (y, sc))).
  { induction m as [|m IH]; intros y sc sc' Ly Hsc Hsc'; [reflexivity|]. cbn [iter fst snd].
    destruct (cycle_history_indep zero_is_zero' npre npost ncycle lvls Hw sc sc (vsc ci f) y Hsc Hsc Lfc Ly)
      as (_ & L1 & W1).
    destruct (cycle_history_indep zero_is_zero' npre npost ncycle lvls' Hw' sc' sc' f y Hsc' Hsc')
      as (_ & L1' & W1'); [congruence|congruence|].
    pose proof (cycle_sim lvls' lvls Hsim Hw' Hw sc' sc f y Hsc' Hsc Lf Ly) as E.
    rewrite (surjective_pairing (cycle lvls' sc' f y)), (surjective_pairing (cycle lvls sc (vsc ci f) y)).
    rewrite E. apply IH; assumption. }
  apply G; [rewrite vclear_length; exact Lx|exact Hs|exact Hs'].
Qed.

(* with linearity: B' f = (1/c) B f *)
Theorem apply_scaled pc : forall lvls' lvls, hier_sim lvls' lvls -> hier_wf lvls' -> hier_lin lvls ->
  lvls <> [] ->
  forall scr' scr f x x', scratch_wf lvls' scr' -> scratch_wf lvls scr ->
  length f = top_n lvls -> length x = top_n lvls -> length x' = top_n lvls ->
  fst (apply npre npost ncycle (Datatypes.S pc) lvls' scr' f x') =
  vsc ci (fst (apply npre npost ncycle (Datatypes.S pc) lvls scr f x)).
Proof.
  intros lvls' lvls Hsim Hw' Hl Hne scr' scr f x x' Hs' Hs Lf Lx Lx'.
  rewrite (apply_sim pc lvls' lvls Hsim Hw' (hier_lin_wf lvls Hl) Hne scr' scr f x x')
    by assumption.
  rewrite <- (vsc_vlin ci f).
  rewrite (apply_linear Srt Seqb npre npost ncycle (Datatypes.S pc) lvls Hl Hne ci s0 scr scr scr f f x x x)
    by assumption.
  apply vsc_vlin.
Qed.

End WithParams.
End Sim.
