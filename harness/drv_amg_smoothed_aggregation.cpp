#define VQ_COARSENING amgcl::coarsening::smoothed_aggregation
#define VQ_COARSENING_NAME "smoothed_aggregation"
#include "amg_driver.hpp"
