// block-valued amg hierarchies, plain aggregation (block route and as_scalar route)
#define AMGB_STATIC_AGG
#include "amgb_driver.hpp"
