// drv_adapters3p.cpp -- C17: adapters for third-party containers (Eigen, Boost.uBlas).
// The containers are not modelled; the adapter must expose exactly the source matrix.
// double build, dyadic values (every operation exact), printed as exact rationals.
#include "vq_io.hpp"
#include <Eigen/SparseCore>
#include <amgcl/adapter/eigen.hpp>
#include <amgcl/adapter/ublas.hpp>
using vq::Tok; using vq::show;
namespace be = amgcl::backend;

struct Arr {
    long n, m; std::vector<int> ptr, col; std::vector<double> val;
    Arr(Tok &t) {
        n = t.i(); m = t.i(); ptr.push_back(0);
        for (long r = 0; r < n; ++r) { long k = t.i(); for (long e = 0; e < k; ++e) { col.push_back((int)t.i()); val.push_back(t.d()); } ptr.push_back((int)col.size()); }
    }
};
template <class M> static std::string dump_rows(const M &A) {
    std::ostringstream os; size_t n = be::rows(A), m = be::cols(A);
    os << "{" << n << " " << m;
    for (size_t i = 0; i < n; ++i) {
        os << " |";
        for (auto a = be::row_begin(A, i); a; ++a) {
            if ((size_t)a.col() >= m) return "BADCRS col-out-of-range";
            os << " " << (long)a.col() << ":" << show((double)a.value());
        }
    }
    os << "}"; return os.str();
}
template <class M> static std::string view(const M &A, const std::vector<double> &x) {
    std::ostringstream os; os << be::rows(A) << " " << be::cols(A) << " " << be::nonzeros(A) << " " << dump_rows(A);
    be::crs<double> C(A);
    std::vector<double> y(be::rows(A), 7.0);
    be::spmv(1.0, C, x, 0.0, y);
    os << " " << vq::show_crs(C) << " " << show(y);
    return os.str();
}
#define AD_OP(name) static std::string body_##name(vq::Tok &t); \
    VQ_OP(name) { try { return body_##name(t); } catch (const std::exception &e) { return "EXC " + vq::exc_kind(e); } } \
    static std::string body_##name(vq::Tok &t)

typedef Eigen::SparseMatrix<double, Eigen::RowMajor, int> ESM;
AD_OP(eigen) {
    Arr a(t); std::vector<double> x = t.vecT<double>();
    std::vector< Eigen::Triplet<double> > tr;
    for (long i = 0; i < a.n; ++i) for (int j = a.ptr[i]; j < a.ptr[i + 1]; ++j) tr.push_back(Eigen::Triplet<double>((int)i, a.col[j], a.val[j]));
    ESM E(a.n, a.m); E.setFromTriplets(tr.begin(), tr.end()); E.makeCompressed();
    return view(E, x);
}
AD_OP(eigen_map) {
    Arr a(t); std::vector<double> x = t.vecT<double>();
    Eigen::Map<ESM> M(a.n, a.m, (long)a.col.size(), a.ptr.data(), a.col.data(), a.val.data());
    return view(M, x);
}
// an Eigen matrix in UNCOMPRESSED mode (reserve + insert, never makeCompressed): a row occupies
// [outer[i], outer[i] + innerNonZeros[i]) and is followed by reserved, unused slots (poisoned below so that a row
// iterator that walks outer[i] .. outer[i+1] is seen)
AD_OP(eigen_unc) {
    Arr a(t); std::vector<double> x = t.vecT<double>();
    ESM E(a.n, a.m);
    std::vector<int> res(a.n);
    for (long i = 0; i < a.n; ++i) res[i] = (a.ptr[i + 1] - a.ptr[i]) + 1 + (int)(i % 3);
    E.reserve(res);
    for (long i = 0; i < a.n; ++i) for (int j = a.ptr[i]; j < a.ptr[i + 1]; ++j) E.insert((int)i, a.col[j]) = a.val[j];
    if (E.isCompressed()) return "EXC harness: matrix is compressed";
    for (long i = 0; i < a.n; ++i)
        for (int j = E.outerIndexPtr()[i] + E.innerNonZeroPtr()[i]; j < E.outerIndexPtr()[i + 1]; ++j) { E.valuePtr()[j] = 0.375; E.innerIndexPtr()[j] = 0; }
    return view(E, x);
}
AD_OP(ublas) {
    Arr a(t); std::vector<double> x = t.vecT<double>();
    namespace ub = boost::numeric::ublas;
    ub::compressed_matrix<double, ub::row_major> U(a.n, a.m, a.col.size());
    for (long i = 0; i < a.n; ++i) for (int j = a.ptr[i]; j < a.ptr[i + 1]; ++j) U.push_back(i, a.col[j], a.val[j]);
    U.complete_index1_data();
    auto A = be::map(U);
    return view(A, x);
}
// nested <op> ... : the same operation called from inside an ACTIVE parallel region of the caller (nested parallelism off, the
// default): the library's own parallel regions then run with a team of ONE thread while omp_get_max_threads() still reports the
// configured count -- an application that solves independent systems in an outer parallel loop does exactly this
#include <omp.h>
VQ_OP(nested) {
    std::string op = t.s(); auto it = vq::registry().find(op);
    if (it == vq::registry().end()) return "UNSUPPORTED";
    std::string r; int team = 0;
    #pragma omp parallel num_threads(2)
    {
        #pragma omp master
        { team = omp_get_num_threads(); try { r = it->second(t); } catch (const std::exception &e) { r = "EXC " + vq::exc_kind(e); } }
    }
    if (team != 2 || omp_get_max_threads() < 3) return "HARNESS no-enclosing-team";
    return r;
}
int main() { return vq::driver_main(); }
