// block-valued amg hierarchies, b = 3, every coarsening route, two relaxations
#define AMGB_B 3
#define AMGB_FEW_RELAX
#define AMGB_STATIC_AGG
#define AMGB_STATIC_SA
#define AMGB_RUNTIME
#include "amgb_driver.hpp"
