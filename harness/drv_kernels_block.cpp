// drv_kernels_block.cpp -- C07 for BLOCK and COMPLEX value types: the builtin backend primitives of amgcl
// instantiated with
//   value_type = amgcl::static_matrix<vq::Q,b,b>, rhs_type = amgcl::static_matrix<vq::Q,b,1>, b = 2, 3   (ops "bk.*")
//   value_type = amgcl::static_matrix<double,b,b> on small dyadic rationals (every operation exact in binary64), with
//                "nan"/"inf" junk tokens in outputs that must be overwritten                                (ops "bkd.*")
//   value_type = std::complex<double> on small dyadic Gaussian rationals (exact + - *)                     (ops "cx.*")
// Model side: ocaml/kernels/ops_kernels_block.ml runs the SAME extracted models (Kernels.v) at the Scalar instances
// BlockInst.BlockS QcS b / ComplexInst.ComplexS QcS (plus BlockKernels.v for the inner products of block entries).
// Block products do NOT commute, so the operand order of every product in the templates is observable.
//
// Token types (b = first argument of every bk.* op):
//   blk   = q^(b*b) row-major          bcrs = nrows ncols (k (col blk)*k)*nrows (storage order, duplicates allowed)
//   bvec  = n q^(n*b)    n entries of type static_matrix<Q,b,1>          bmvec = n q^(n*b*b)  n entries static_matrix<Q,b,b>
//   coefficient: kind letter in the <kinds> token, 's' = base scalar q (scalar_type), 'm' = blk (value_type)
//   vector kind letter in <vk>: 'b' = std::vector<static_matrix<Q,b,1>>, 's' = std::vector<Q> of length n*b holding the
//     SAME numbers (backend::reinterpret_as_rhs; "scalar vectors may be passed where block vectors are expected")
// Ops (output = the overwritten vector, flat [q ...]):
//   bk.spmv <b> <kinds:2> <vk:2> alpha A x beta y          bk.residual <b> <vk:3> f A x r
//   bk.axpby <b> <kinds:2> a x b y                         bk.axpbypcz <b> <kinds:3> a x b y c z
//   bk.vmul <b> <kinds:2> <vk:2> a X:bmvec y b z           bk.vmul_mm <b> <kinds:2> a X:bmvec Y:bmvec b Z:bmvec
//   bk.copy <b> x y    bk.clear <b> x    bk.inner <b> x y -> q    bk.inner_mm <b> X:bmvec Y:bmvec -> [q^(b*b)]
//   bk.lin_comb <b> <kinds:2 = coefficient kind of all c_j, kind of alpha> n (c_j v_j)*n alpha y
//   bk.mul <b> blk blk -> operator* ;  bk.adjoint <b> blk -> math::adjoint ; bk.norm <b> blk -> math::norm
// Complex: tokens "re im" per value, printed "re,im"; coefficient kinds 'c' (complex) / 'r' (real scalar_type):
//   cx.spmv <kinds:2> alpha A x beta y | cx.residual f A x r | cx.axpby <kinds:2> .. | cx.axpbypcz <kinds:3> .. |
//   cx.vmul <kinds:2> a x y b z | cx.copy x y | cx.clear x | cx.inner x y | cx.lin_comb <kinds:2> n (c v)*n alpha y
#include "vq_io.hpp"
#include <amgcl/backend/interface.hpp>
#include <amgcl/backend/builtin.hpp>
#include <amgcl/value_type/static_matrix.hpp>
#include <amgcl/value_type/complex.hpp>
#include <complex>

using vq::Q; using vq::Tok;
namespace be = amgcl::backend;

// ------------------------------------------------------------------------------------------------ blocks
template <class T, int N> struct BK {
    typedef amgcl::static_matrix<T, N, N> V;
    typedef amgcl::static_matrix<T, N, 1> R;
    typedef amgcl::backend::crs<V, ptrdiff_t, ptrdiff_t> M;
    typedef std::vector<R> BV;      // block vector
    typedef std::vector<T> SV;      // scalar vector holding the same numbers
    typedef std::vector<V> MV;      // vector of blocks

    static V blk(Tok &t) { V v; for (int k = 0; k < N * N; ++k) v(k) = t.val<T>(); return v; }
    static std::shared_ptr<M> bcrs(Tok &t) {
        long n = t.i(), m = t.i();
        std::vector<ptrdiff_t> ptr(1, 0), col; std::vector<V> vl;
        for (long r = 0; r < n; ++r) {
            long k = t.i();
            for (long e = 0; e < k; ++e) { col.push_back(t.i()); vl.push_back(blk(t)); }
            ptr.push_back((ptrdiff_t)col.size());
        }
        auto A = std::make_shared<M>();
        A->set_size(n, m, false);
        A->ptr[0] = 0;
        for (long r = 0; r < n; ++r) A->ptr[r+1] = ptr[r+1];
        A->set_nonzeros(col.size(), true);
        for (size_t e = 0; e < col.size(); ++e) { A->col[e] = col[e]; A->val[e] = vl[e]; }
        return A;
    }
    static void pv(Tok &t, BV &v) { long n = t.i(); v.resize(n); for (long i = 0; i < n; ++i) for (int k = 0; k < N; ++k) v[i](k) = t.val<T>(); }
    static void pv(Tok &t, SV &v) { long n = t.i(); v.resize(n * N); for (long i = 0; i < n * N; ++i) v[i] = t.val<T>(); }
    static void pv(Tok &t, MV &v) { long n = t.i(); v.resize(n); for (long i = 0; i < n; ++i) v[i] = blk(t); }
    static std::string show(const BV &v) {
        std::ostringstream os; os << "[";
        for (size_t i = 0; i < v.size(); ++i) for (int k = 0; k < N; ++k) { if (i || k) os << " "; os << vq::show(v[i](k)); }
        os << "]"; return os.str();
    }
    static std::string show(const SV &v) { return vq::show(v); }
    static std::string show(const MV &v) {
        std::ostringstream os; os << "[";
        for (size_t i = 0; i < v.size(); ++i) for (int k = 0; k < N * N; ++k) { if (i || k) os << " "; os << vq::show(v[i](k)); }
        os << "]"; return os.str();
    }
    // coefficient kinds
    struct CS { typedef T type; static T get(Tok &t) { return t.val<T>(); } };
    struct CM { typedef V type; static V get(Tok &t) { return blk(t); } };

    // ---- dispatch helpers: F has  template <class...> static std::string run(Tok&)
    template <class F> static std::string coef2(const std::string &k, Tok &t) {
        if (k == "ss") return F::template run<CS, CS>(t);
        if (k == "sm") return F::template run<CS, CM>(t);
        if (k == "ms") return F::template run<CM, CS>(t);
        if (k == "mm") return F::template run<CM, CM>(t);
        return "BADKIND";
    }
    template <class F> static std::string coef3(const std::string &k, Tok &t) {
        if (k == "sss") return F::template run<CS, CS, CS>(t);
        if (k == "mmm") return F::template run<CM, CM, CM>(t);
        if (k == "smm") return F::template run<CS, CM, CM>(t);
        if (k == "msm") return F::template run<CM, CS, CM>(t);
        if (k == "mms") return F::template run<CM, CM, CS>(t);
        if (k == "ssm") return F::template run<CS, CS, CM>(t);
        if (k == "sms") return F::template run<CS, CM, CS>(t);
        if (k == "mss") return F::template run<CM, CS, CS>(t);
        return "BADKIND";
    }

    template <class VX, class VY> struct SpmvF {
        template <class CA, class CB> static std::string run(Tok &t) {
            typename CA::type alpha = CA::get(t); auto A = bcrs(t); VX x; pv(t, x);
            typename CB::type beta = CB::get(t); VY y; pv(t, y);
            be::spmv(alpha, *A, x, beta, y); return show(y);
        }
    };
    static std::string spmv(Tok &t) {
        std::string k = t.s(), vk = t.s();
        if (vk == "bb") return coef2< SpmvF<BV, BV> >(k, t);
        if (vk == "ss") return coef2< SpmvF<SV, SV> >(k, t);
        if (vk == "sb") return coef2< SpmvF<SV, BV> >(k, t);
        if (vk == "bs") return coef2< SpmvF<BV, SV> >(k, t);
        return "BADKIND";
    }
    template <class VF, class VX, class VR> static std::string residual_(Tok &t) {
        VF f; pv(t, f); auto A = bcrs(t); VX x; pv(t, x); VR r; pv(t, r);
        be::residual(f, *A, x, r); return show(r);
    }
    static std::string residual(Tok &t) {
        std::string vk = t.s();
        if (vk == "bbb") return residual_<BV, BV, BV>(t);
        if (vk == "sss") return residual_<SV, SV, SV>(t);
        if (vk == "sbb") return residual_<SV, BV, BV>(t);
        if (vk == "bsb") return residual_<BV, SV, BV>(t);
        if (vk == "bbs") return residual_<BV, BV, SV>(t);
        return "BADKIND";
    }
    struct AxpbyF {
        template <class CA, class CB> static std::string run(Tok &t) {
            typename CA::type a = CA::get(t); BV x; pv(t, x); typename CB::type b = CB::get(t); BV y; pv(t, y);
            be::axpby(a, x, b, y); return show(y);
        }
    };
    static std::string axpby(Tok &t) { std::string k = t.s(); return coef2<AxpbyF>(k, t); }
    struct AxpbypczF {
        template <class CA, class CB, class CC> static std::string run(Tok &t) {
            typename CA::type a = CA::get(t); BV x; pv(t, x); typename CB::type b = CB::get(t); BV y; pv(t, y);
            typename CC::type c = CC::get(t); BV z; pv(t, z);
            be::axpbypcz(a, x, b, y, c, z); return show(z);
        }
    };
    static std::string axpbypcz(Tok &t) { std::string k = t.s(); return coef3<AxpbypczF>(k, t); }
    template <class VY, class VZ> struct VmulF {
        template <class CA, class CB> static std::string run(Tok &t) {
            typename CA::type a = CA::get(t); MV x; pv(t, x); VY y; pv(t, y); typename CB::type b = CB::get(t); VZ z; pv(t, z);
            be::vmul(a, x, y, b, z); return show(z);
        }
    };
    static std::string vmul(Tok &t) {
        std::string k = t.s(), vk = t.s();
        if (vk == "bb") return coef2< VmulF<BV, BV> >(k, t);
        if (vk == "ss") return coef2< VmulF<SV, SV> >(k, t);
        return "BADKIND";
    }
    static std::string vmul_mm(Tok &t) { std::string k = t.s(); return coef2< VmulF<MV, MV> >(k, t); }
    static std::string copy(Tok &t) { BV x, y; pv(t, x); pv(t, y); be::copy(x, y); return show(y); }
    static std::string clear(Tok &t) { BV x; pv(t, x); be::clear(x); return show(x); }
    static std::string inner(Tok &t) { BV x, y; pv(t, x); pv(t, y); T r = be::inner_product(x, y); return vq::show(r); }
    static std::string inner_mm(Tok &t) { MV x, y; pv(t, x); pv(t, y); V r = be::inner_product(x, y); return show(MV(1, r)); }
    struct LinCombF {
        template <class CC, class CA> static std::string run(Tok &t) {
            long n = t.i(); std::vector<typename CC::type> c(n); std::vector<BV> v(n); std::vector<BV*> vp(n);
            for (long k = 0; k < n; ++k) { c[k] = CC::get(t); pv(t, v[k]); vp[k] = &v[k]; }
            typename CA::type alpha = CA::get(t); BV y; pv(t, y);
            be::lin_comb(n, c, vp, alpha, y); return show(y);
        }
    };
    static std::string lin_comb(Tok &t) { std::string k = t.s(); return coef2<LinCombF>(k, t); }
    static std::string mul(Tok &t) { V a = blk(t); V c = blk(t); V r = a * c; return show(MV(1, r)); }
    static std::string adjoint(Tok &t) { V a = blk(t); V r = amgcl::math::adjoint(a); return show(MV(1, r)); }
    static std::string norm(Tok &t) { V a = blk(t); T r = amgcl::math::norm(a); return vq::show(r); }
};

#define BOP(name) \
    static std::string bop_##name(vq::Tok &t) { long b = t.i(); \
        if (b == 2) return BK<Q, 2>::name(t); if (b == 3) return BK<Q, 3>::name(t); return "UNSUPPORTED-BLOCK-SIZE"; } \
    static vq::Reg breg_##name("bk." #name, bop_##name); \
    static std::string bopd_##name(vq::Tok &t) { long b = t.i(); \
        if (b == 2) return BK<double, 2>::name(t); if (b == 3) return BK<double, 3>::name(t); return "UNSUPPORTED-BLOCK-SIZE"; } \
    static vq::Reg bregd_##name("bkd." #name, bopd_##name);
BOP(spmv) BOP(residual) BOP(axpby) BOP(axpbypcz) BOP(vmul) BOP(vmul_mm) BOP(copy) BOP(clear) BOP(inner) BOP(inner_mm)
BOP(lin_comb) BOP(mul) BOP(adjoint) BOP(norm)

// ------------------------------------------------------------------------------------------------ complex
typedef std::complex<double> Cx;
namespace vq {
template <> inline Cx Tok::val<Cx>() { double re = d(); double im = d(); return Cx(re, im); }
inline std::string show(const Cx &z) { return show(z.real()) + "," + show(z.imag()); }
inline std::string show(const std::vector<Cx> &v) {
    std::ostringstream os; os << "[";
    for (size_t k = 0; k < v.size(); ++k) { if (k) os << " "; os << show(v[k]); }
    os << "]"; return os.str();
}
}
struct CK {
    typedef std::vector<Cx> vec;
    struct CC { typedef Cx type; static Cx get(Tok &t) { return t.val<Cx>(); } };
    struct CR { typedef double type; static double get(Tok &t) { return t.d(); } };
    template <class F> static std::string coef2(const std::string &k, Tok &t) {
        if (k == "cc") return F::template run<CC, CC>(t);
        if (k == "cr") return F::template run<CC, CR>(t);
        if (k == "rc") return F::template run<CR, CC>(t);
        if (k == "rr") return F::template run<CR, CR>(t);
        return "BADKIND";
    }
    struct SpmvF { template <class CA, class CB> static std::string run(Tok &t) {
        typename CA::type alpha = CA::get(t); auto A = t.crsT<Cx>(); vec x = t.vecT<Cx>(); typename CB::type beta = CB::get(t); vec y = t.vecT<Cx>();
        be::spmv(alpha, *A, x, beta, y); return vq::show(y); } };
    struct AxpbyF { template <class CA, class CB> static std::string run(Tok &t) {
        typename CA::type a = CA::get(t); vec x = t.vecT<Cx>(); typename CB::type b = CB::get(t); vec y = t.vecT<Cx>();
        be::axpby(a, x, b, y); return vq::show(y); } };
    struct VmulF { template <class CA, class CB> static std::string run(Tok &t) {
        typename CA::type a = CA::get(t); vec x = t.vecT<Cx>(); vec y = t.vecT<Cx>(); typename CB::type b = CB::get(t); vec z = t.vecT<Cx>();
        be::vmul(a, x, y, b, z); return vq::show(z); } };
    struct LinCombF { template <class C1, class CA> static std::string run(Tok &t) {
        long n = t.i(); std::vector<typename C1::type> c(n); std::vector<vec> v(n); std::vector<vec*> vp(n);
        for (long k = 0; k < n; ++k) { c[k] = C1::get(t); v[k] = t.vecT<Cx>(); vp[k] = &v[k]; }
        typename CA::type alpha = CA::get(t); vec y = t.vecT<Cx>();
        be::lin_comb(n, c, vp, alpha, y); return vq::show(y); } };
    template <class CA, class CB, class C3> static std::string axpbypcz_(Tok &t) {
        typename CA::type a = CA::get(t); vec x = t.vecT<Cx>(); typename CB::type b = CB::get(t); vec y = t.vecT<Cx>();
        typename C3::type c = C3::get(t); vec z = t.vecT<Cx>();
        be::axpbypcz(a, x, b, y, c, z); return vq::show(z); }
};
VQ_OP(cx_spmv)     { std::string k = t.s(); return CK::coef2<CK::SpmvF>(k, t); }
VQ_OP(cx_axpby)    { std::string k = t.s(); return CK::coef2<CK::AxpbyF>(k, t); }
VQ_OP(cx_vmul)     { std::string k = t.s(); return CK::coef2<CK::VmulF>(k, t); }
VQ_OP(cx_lin_comb) { std::string k = t.s(); return CK::coef2<CK::LinCombF>(k, t); }
VQ_OP(cx_axpbypcz) { std::string k = t.s();
    if (k == "ccc") return CK::axpbypcz_<CK::CC, CK::CC, CK::CC>(t);
    if (k == "rrr") return CK::axpbypcz_<CK::CR, CK::CR, CK::CR>(t);
    if (k == "crc") return CK::axpbypcz_<CK::CC, CK::CR, CK::CC>(t);
    if (k == "rcr") return CK::axpbypcz_<CK::CR, CK::CC, CK::CR>(t);
    return "BADKIND"; }
VQ_OP(cx_residual) { auto f = t.vecT<Cx>(); auto A = t.crsT<Cx>(); auto x = t.vecT<Cx>(); auto r = t.vecT<Cx>();
    be::residual(f, *A, x, r); return vq::show(r); }
VQ_OP(cx_copy)  { auto x = t.vecT<Cx>(); auto y = t.vecT<Cx>(); be::copy(x, y); return vq::show(y); }
VQ_OP(cx_clear) { auto x = t.vecT<Cx>(); be::clear(x); return vq::show(x); }
VQ_OP(cx_inner) { auto x = t.vecT<Cx>(); auto y = t.vecT<Cx>(); Cx r = be::inner_product(x, y); return vq::show(r); }

// blocks of complex numbers: std::vector<static_matrix<std::complex<double>,b,1>> holding the numbers of a complex vector of length
// n*b; backend::inner_product must equal the scalar complex inner product of the flattened data (conjugate on the SECOND argument)
template <int N> static std::string cxb_inner(const std::vector<Cx> &x, const std::vector<Cx> &y) {
    typedef amgcl::static_matrix<Cx, N, 1> R;
    if (x.size() % N || x.size() != y.size()) return "UNSUPPORTED";
    std::vector<R> X(x.size() / N), Y(x.size() / N);
    for (size_t i = 0; i < X.size(); ++i) for (int k = 0; k < N; ++k) { X[i](k) = x[i * N + k]; Y[i](k) = y[i * N + k]; }
    Cx r = be::inner_product(X, Y); Cx e = amgcl::math::inner_product(X.empty() ? R() : X[0], Y.empty() ? R() : Y[0]);
    return vq::show(r) + " " + vq::show(X.empty() ? Cx(0) : e);
}
VQ_OP(cxb_inner) { long b = t.i(); auto x = t.vecT<Cx>(); auto y = t.vecT<Cx>();
    return b == 2 ? cxb_inner<2>(x, y) : b == 3 ? cxb_inner<3>(x, y) : b == 4 ? cxb_inner<4>(x, y) : std::string("UNSUPPORTED"); }

int main() {
    // "cx_name" handlers are published as "cx.name"
    auto &r = vq::registry();
    std::vector<std::string> names;
    for (auto &kv : r) if (kv.first.compare(0, 3, "cx_") == 0) names.push_back(kv.first);
    for (auto &n : names) { r["cx." + n.substr(3)] = r[n]; r.erase(n); }
    if (r.count("cxb_inner")) { r["cxb.inner"] = r["cxb_inner"]; r.erase("cxb_inner"); }
    return vq::driver_main();
}
