// drv_fileio.cpp -- C19: amgcl::io (MatrixMarket and binary files) on real temporary files.
//
// Every case (and every damaged-file variant of a fuzz case) runs in a forked child, so a
// sanitizer abort / segfault of one read is the OUTCOME of that read ("CRASH <summary>")
// and hides nothing else.  Built with -fsanitize=address,undefined -fno-sanitize-recover=all.
// Files live in a private directory (mkdtemp under $VERIF_C19_DIR or $TMPDIR), one file
// per case, removed after the case; the directory is removed at exit.
//
// Values never travel as decimal floating point: double = 16 hex digits of the bit
// pattern, float = 8, complex = re,im; integers decimal.  Files travel as hex strings.
//
// Allocation cap: operator new above 16 MiB throws std::bad_alloc (the model's
// MMFormat.alloc_cap), so "resize(garbage from the file)" is a deterministic EXC alloc
// instead of an ASan out-of-memory abort or a 30 GiB memset.
#include <cstdlib>
#include <cstdio>
#include <cstring>
#include <new>
#include <unistd.h>
#include <sys/wait.h>
#include <sys/stat.h>
#include <signal.h>
#include <dirent.h>
#include <complex>
#include <tuple>
#include <iostream>
#include <sstream>
#include <fstream>
#include <vector>
#include <string>
#include <map>
#include <functional>
#include <stdexcept>

static const std::size_t ALLOC_CAP = 16777216;
void* operator new(std::size_t n) { if (n > ALLOC_CAP) throw std::bad_alloc(); void *p = std::malloc(n ? n : 1); if (!p) throw std::bad_alloc(); return p; }
void* operator new[](std::size_t n) { return operator new(n); }
void operator delete(void *p) noexcept { std::free(p); }
void operator delete[](void *p) noexcept { std::free(p); }
void operator delete(void *p, std::size_t) noexcept { std::free(p); }
void operator delete[](void *p, std::size_t) noexcept { std::free(p); }

#include <amgcl/backend/builtin.hpp>
#include <amgcl/value_type/complex.hpp>
#include <amgcl/io/mm.hpp>
#include <amgcl/io/binary.hpp>

namespace io = amgcl::io;
typedef std::complex<double> cplx;

// ------------------------------------------------------------------ tokens
struct Tok {
    std::vector<std::string> t; size_t p;
    Tok(const std::string &line) : p(0) { std::istringstream is(line); std::string s; while (is >> s) t.push_back(s); }
    const std::string& next() { if (p >= t.size()) throw std::invalid_argument("case: out of tokens"); return t[p++]; }
    long i() { return std::stol(next()); }
    std::string s() { return next(); }
};

static std::string hex_of(const std::string &b) {
    static const char *d = "0123456789abcdef"; std::string o; o.reserve(2 * b.size() + 1);
    for (unsigned char c : b) { o += d[c >> 4]; o += d[c & 15]; }
    return o.empty() ? std::string("-") : o;
}
static std::string unhex(const std::string &h) {
    if (h == "-") return std::string();
    std::string o; o.reserve(h.size() / 2);
    auto v = [](char c) -> int { return c <= '9' ? c - '0' : c - 'a' + 10; };
    for (size_t k = 0; k + 1 < h.size(); k += 2) o += (char)(v(h[k]) * 16 + v(h[k + 1]));
    return o;
}
static unsigned long long hex_u64(const std::string &s) { return std::stoull(s, 0, 16); }
static std::string u64_hex(unsigned long long x, int w) { char b[32]; std::snprintf(b, sizeof b, "%0*llx", w, x); return b; }

// ------------------------------------------------------------------ value types
template <class T> struct VT;
template <> struct VT<double> {
    static double parse(const std::string &s) { unsigned long long b = hex_u64(s); double x; std::memcpy(&x, &b, 8); return x; }
    static std::string show(double x) { unsigned long long b; std::memcpy(&b, &x, 8); return u64_hex(b, 16); }
};
template <> struct VT<float> {
    static float parse(const std::string &s) { unsigned b = (unsigned)hex_u64(s); float x; std::memcpy(&x, &b, 4); return x; }
    static std::string show(float x) { unsigned b; std::memcpy(&b, &x, 4); return u64_hex(b, 8); }
};
template <> struct VT<cplx> {
    static cplx parse(const std::string &s) { size_t c = s.find(','); return cplx(VT<double>::parse(s.substr(0, c)), VT<double>::parse(s.substr(c + 1))); }
    static std::string show(cplx x) { return VT<double>::show(x.real()) + "," + VT<double>::show(x.imag()); }
};
template <> struct VT<int> {
    static int parse(const std::string &s) { return (int)std::stol(s); }
    static std::string show(int x) { return std::to_string(x); }
};
template <> struct VT<long long> {
    static long long parse(const std::string &s) { return std::stoll(s); }
    static std::string show(long long x) { return std::to_string(x); }
};
template <> struct VT<char> {
    static char parse(const std::string &s) { return (char)std::stol(s); }
    static std::string show(char x) { return std::to_string((int)x); }
};

// ------------------------------------------------------------------ temp files
static std::string g_dir;
static std::string tmp_path() { return g_dir + "/f"; }
static void put_file(const std::string &bytes) {
    std::ofstream f(tmp_path().c_str(), std::ios::binary | std::ios::trunc);
    f.write(bytes.data(), (std::streamsize)bytes.size());
}
static std::string get_file() {
    std::ifstream f(tmp_path().c_str(), std::ios::binary);
    std::ostringstream os; os << f.rdbuf(); return os.str();
}
static void rm_dir() {
    if (g_dir.empty()) return;
    if (DIR *d = opendir(g_dir.c_str())) {
        while (struct dirent *e = readdir(d)) {
            std::string n = e->d_name; if (n == "." || n == "..") continue;
            unlink((g_dir + "/" + n).c_str());
        }
        closedir(d);
    }
    rmdir(g_dir.c_str());
}

// ------------------------------------------------------------------ canonical printing
template <class T>
static std::string show_rows(size_t n, size_t m, const std::vector<ptrdiff_t> &ptr, const std::vector<ptrdiff_t> &col, const std::vector<T> &val) {
    std::ostringstream os;
    if (ptr.size() != n + 1 || col.size() != val.size()) return "BAD shape";
    if (ptr[0] != 0 || ptr[n] != (ptrdiff_t)col.size()) return "BAD ptr-ends";
    for (size_t i = 0; i < n; ++i) if (ptr[i + 1] < ptr[i]) return "BAD nonmonotone-ptr";
    os << "OK " << n << " " << m;
    for (size_t i = 0; i < n; ++i) {
        os << " |";
        for (ptrdiff_t j = ptr[i]; j < ptr[i + 1]; ++j) os << " " << col[j] << ":" << VT<T>::show(val[j]);
    }
    return os.str();
}
template <class T>
static std::string show_flat(unsigned long long n, const std::vector<ptrdiff_t> &ptr, const std::vector<ptrdiff_t> &col, const std::vector<T> &val) {
    std::ostringstream os;
    if (col.size() != val.size()) return "BAD shape";
    os << "OK " << n << " ptr=[";
    for (size_t i = 0; i < ptr.size(); ++i) os << (i ? " " : "") << ptr[i];
    os << "] cv=[";
    for (size_t j = 0; j < col.size(); ++j) os << (j ? " " : "") << col[j] << ":" << VT<T>::show(val[j]);
    os << "]"; return os.str();
}
template <class T>
static std::string show_dense(unsigned long long n, unsigned long long m, const std::vector<T> &v) {
    std::ostringstream os; os << "OK " << n << " " << m << " [";
    for (size_t i = 0; i < v.size(); ++i) os << (i ? " " : "") << VT<T>::show(v[i]);
    os << "]"; return os.str();
}

template <class T>
struct Mat { size_t n, m; std::vector<ptrdiff_t> ptr, col; std::vector<T> val; };
template <class T> static Mat<T> parse_crs(Tok &t) {
    Mat<T> A; A.n = t.i(); A.m = t.i(); A.ptr.push_back(0);
    for (size_t r = 0; r < A.n; ++r) {
        long k = t.i();
        for (long e = 0; e < k; ++e) { A.col.push_back(t.i()); A.val.push_back(VT<T>::parse(t.s())); }
        A.ptr.push_back((ptrdiff_t)A.col.size());
    }
    return A;
}
template <class T> static void parse_dense(Tok &t, size_t &n, size_t &m, std::vector<T> &v) {
    n = t.i(); m = t.i(); v.resize(n * m); for (size_t k = 0; k < n * m; ++k) v[k] = VT<T>::parse(t.s());
}

// ------------------------------------------------------------------ the operations on a file
template <class T> static void do_mm_write(const Mat<T> &A) {
    amgcl::backend::crs<T, ptrdiff_t, ptrdiff_t> M;
    M.set_size(A.n, A.m, false);
    M.ptr[0] = 0; for (size_t r = 0; r < A.n; ++r) M.ptr[r + 1] = A.ptr[r + 1];
    M.set_nonzeros(A.col.size(), true);
    for (size_t e = 0; e < A.col.size(); ++e) { M.col[e] = A.col[e]; M.val[e] = A.val[e]; }
    io::mm_write(tmp_path(), M);
}
// the output vectors a caller hands in are in general USED ones (a loader that loops over files or row ranges reuses its work
// vectors): every reader must return the same arrays whatever they held before.  The length varies with the call.
template <class V> static void used(V &v, size_t len) { typedef typename V::value_type E; v.assign(len, E(3)); for (size_t i = 0; i < len; i += 2) v[i] = E(1); }
static size_t used_len() {      // 0 (fresh), 7, 14 -- from the size of the file (each evaluation runs in a forked child: no counter survives)
    std::ifstream f(tmp_path().c_str(), std::ios::binary | std::ios::ate); long z = f ? (long)f.tellg() : 0; return (size_t)((z + 1) % 3) * 7;
}
template <class T> static std::string do_mm_read(long r0, long r1) {
    io::mm_reader rd(tmp_path());
    std::vector<ptrdiff_t> ptr, col; std::vector<T> val; size_t n, m;
    { size_t u = used_len(); used(ptr, u); used(col, u + (u ? 2 : 0)); used(val, u ? u - 3 : 0); }
    std::tie(n, m) = rd(ptr, col, val, r0, r1);
    return show_rows(n, m, ptr, col, val);
}
template <class T> static std::string do_mm_readd(long r0, long r1) {
    io::mm_reader rd(tmp_path());
    std::vector<T> val; size_t n, m; used(val, used_len());
    std::tie(n, m) = rd(val, r0, r1);
    return show_dense(n, m, val);
}
// binary CRS as examples/mm2bin.cpp writes it
template <class T> static void do_bin_write(const Mat<T> &A) {
    std::ofstream f(tmp_path().c_str(), std::ios::binary | std::ios::trunc);
    size_t rows = A.n;
    amgcl::precondition(io::write(f, rows), "File I/O error.");
    amgcl::precondition(io::write(f, A.ptr), "File I/O error.");
    amgcl::precondition(io::write(f, A.col), "File I/O error.");
    amgcl::precondition(io::write(f, A.val), "File I/O error.");
}
template <class T, class SizeT> static std::string do_bin_read(long r0, long r1) {
    SizeT n = 0; std::vector<ptrdiff_t> ptr, col; std::vector<T> val;
    { size_t u = used_len(); used(ptr, u); used(col, u + (u ? 2 : 0)); used(val, u ? u - 3 : 0); }
    io::read_crs(tmp_path(), n, ptr, col, val, r0, r1);
    return show_flat((unsigned long long)n, ptr, col, val);
}
template <class T> static void do_bin_writed(size_t n, size_t m, const std::vector<T> &v) {
    std::ofstream f(tmp_path().c_str(), std::ios::binary | std::ios::trunc);
    amgcl::precondition(io::write(f, n), "File I/O error.");
    amgcl::precondition(io::write(f, m), "File I/O error.");
    amgcl::precondition(io::write(f, v), "File I/O error.");
}
template <class T, class SizeT> static std::string do_bin_readd(long r0, long r1) {
    SizeT n = 0, m = 0; std::vector<T> v; used(v, used_len());
    io::read_dense(tmp_path(), n, m, v, r0, r1);
    return show_dense((unsigned long long)n, (unsigned long long)m, v);
}

// ------------------------------------------------------------------ isolation: fork per evaluation
// Sanitizer reports are produced with symbolize=0 (symbolizing in every dying child costs
// ~0.2 s); frames "(<module>+0x<off>)" of this executable are resolved here, in the parent,
// through a cache: `addr2line -i` and the first location inside the library under test.
static std::string self_exe() { char b[4096]; ssize_t n = readlink("/proc/self/exe", b, sizeof b - 1); return n > 0 ? std::string(b, (size_t)n) : std::string(); }
static std::string resolve_frame(const std::string &off) {
    static std::map<std::string, std::string> cache;
    auto it = cache.find(off); if (it != cache.end()) return it->second;
    std::string res, cmd = "addr2line -i -e '" + self_exe() + "' " + off + " 2>/dev/null";
    if (FILE *f = popen(cmd.c_str(), "r")) {
        char line[4096];
        while (fgets(line, sizeof line, f)) {
            std::string l = line; while (!l.empty() && (l.back() == '\n' || l.back() == ' ')) l.pop_back();
            size_t a = l.find("/amgcl/");
            if (a != std::string::npos && res.empty()) { res = l.substr(a + 1); size_t sp = res.find(' '); if (sp != std::string::npos) res = res.substr(0, sp); }
        }
        pclose(f);
    }
    if (!res.empty()) cache[off] = res;   // failures (e.g. popen under memory pressure) are retried
    return res;
}
static std::string first_amgcl_frame(const std::string &err, size_t from) {
    std::string exe = self_exe(); size_t q = from; int frames = 0;
    while ((q = err.find("(" + exe + "+0x", q)) != std::string::npos && frames < 12) {
        size_t b = q + exe.size() + 2, e = err.find(')', b);
        if (e == std::string::npos) break;
        std::string loc = resolve_frame(err.substr(b, e - b));
        if (!loc.empty()) return loc;
        q = e; ++frames;
    }
    // already symbolized report (symbolize=1)
    q = from;
    while ((q = err.find("/amgcl/", q)) != std::string::npos) {
        size_t le = err.find_first_of(" \n", q); std::string l2 = err.substr(q + 1, le - q - 1);
        if (l2.find(':') != std::string::npos) return l2;
        q = le;
    }
    return std::string();
}
static std::string summarize_crash(int status, const std::string &err) {
    // UBSan: "<file>:<line>:<col>: runtime error: <msg>"  (or "<module>+0x..: runtime error" unsymbolized)
    size_t p = err.find("runtime error: ");
    if (p != std::string::npos) {
        size_t e = err.find('\n', p); std::string msg = err.substr(p + 15, e == std::string::npos ? std::string::npos : e - p - 15);
        std::string loc = first_amgcl_frame(err, p);
        for (auto &c : msg) if (c == ' ') c = '_';
        return "CRASH ubsan " + msg.substr(0, 80) + " @" + (loc.empty() ? "?" : loc);
    }
    p = err.find("ERROR: AddressSanitizer: ");
    if (p != std::string::npos) {
        size_t e = err.find_first_of(" \n", p + 25); std::string kind = err.substr(p + 25, e - p - 25);
        std::string where = first_amgcl_frame(err, p);
        return "CRASH asan " + kind + " @" + (where.empty() ? "?" : where);
    }
    std::ostringstream os;
    if (WIFSIGNALED(status)) os << "CRASH signal " << WTERMSIG(status);
    else os << "CRASH exit " << WEXITSTATUS(status);
    return os.str();
}

static std::string guarded(const std::function<std::string()> &f) {
    try { return f(); }
    catch (const std::bad_alloc &) { return "EXC alloc"; }
    catch (const std::length_error &) { return "EXC alloc"; }
    catch (const std::runtime_error &) { return "EXC error"; }
    catch (const std::exception &e) { return std::string("EXC other"); }
}

// Run f(0..n-1) in forked children: one child handles consecutive indices and streams framed
// results back; when it dies at index k the crash is the result of k and a new child
// continues with k+1 (fork under ASan is expensive, crashes are the minority).
static bool write_all(int fd, const std::string &r) {
    size_t off = 0; while (off < r.size()) { ssize_t w = write(fd, r.data() + off, r.size() - off); if (w <= 0) return false; off += (size_t)w; }
    return true;
}
static std::vector<std::string> isolated_batch(size_t n, const std::function<std::string(size_t)> &f) {
    std::vector<std::string> res;
    while (res.size() < n) {
        std::cout.flush(); std::fflush(stdout);
        int po[2], pe[2];
        if (pipe(po) || pipe(pe)) { res.push_back("HARNESS pipe"); continue; }
        pid_t pid = fork();
        if (pid < 0) { res.push_back("HARNESS fork"); close(po[0]); close(po[1]); close(pe[0]); close(pe[1]); continue; }
        if (pid == 0) {
            close(po[0]); close(pe[0]); dup2(pe[1], 2); close(pe[1]);
            for (size_t k = res.size(); k < n; ++k) {
                alarm(20);
                std::string r = guarded([&]() { return f(k); });
                char hd[32]; int hl = std::snprintf(hd, sizeof hd, "%zu\n", r.size());
                if (!write_all(po[1], std::string(hd, (size_t)hl) + r)) _exit(3);
            }
            close(po[1]);
            _exit(0);
        }
        close(po[1]); close(pe[1]);
        std::string out, err; char buf[65536]; ssize_t k;
        while ((k = read(po[0], buf, sizeof buf)) > 0) out.append(buf, (size_t)k);
        while ((k = read(pe[0], buf, sizeof buf)) > 0) { if (err.size() < (1u << 20)) err.append(buf, (size_t)k); }
        close(po[0]); close(pe[0]);
        int status = 0; waitpid(pid, &status, 0);
        size_t pos = 0;
        while (pos < out.size() && res.size() < n) {
            size_t nl = out.find('\n', pos); if (nl == std::string::npos) break;
            size_t len = (size_t)std::strtoull(out.substr(pos, nl - pos).c_str(), 0, 10);
            if (nl + 1 + len > out.size()) break;
            res.push_back(out.substr(nl + 1, len)); pos = nl + 1 + len;
        }
        if (res.size() < n) res.push_back(summarize_crash(status, err));   // the index the child died on
    }
    return res;
}
static std::string isolated(const std::function<std::string()> &f) {
    return isolated_batch(1, [&](size_t) { return f(); })[0];
}
static std::string join(const std::vector<std::string> &v) {
    std::string out; for (size_t k = 0; k < v.size(); ++k) { if (k) out += " ; "; out += v[k]; } return out;
}

// ------------------------------------------------------------------ op table
typedef std::function<std::string(Tok&)> Handler;
static std::map<std::string, Handler>& registry() { static std::map<std::string, Handler> r; return r; }

// damaged variants of a file: "tr" = every truncation length 0..len-1; "fz off n b1..bn" = byte at off replaced
template <class F> static std::string over_truncations(const std::string &file, F readf) {
    return join(isolated_batch(file.size(), [&](size_t cut) { put_file(file.substr(0, cut)); return readf(); }));
}
template <class F> static std::string over_bytes(const std::string &file, Tok &t, F readf) {
    long off = t.i(), nb = t.i(); std::vector<long> bs; for (long k = 0; k < nb; ++k) bs.push_back(t.i());
    return join(isolated_batch(bs.size(), [&](size_t k) { std::string d = file; d[(size_t)off] = (char)bs[k]; put_file(d); return readf(); }));
}

template <class T> static void reg_type(const std::string &tg) {
    auto &r = registry();
    r["mm.write." + tg] = [](Tok &t) { Mat<T> A = parse_crs<T>(t);
        return isolated([&]() { do_mm_write(A); return "OK " + hex_of(get_file()); }); };
    r["mm.writed." + tg] = [](Tok &t) { size_t n, m; std::vector<T> v; parse_dense(t, n, m, v);
        return isolated([&]() { io::mm_write(tmp_path(), v.data(), n, m); return "OK " + hex_of(get_file()); }); };
    r["mm.read." + tg] = [](Tok &t) { long r0 = t.i(), r1 = t.i(); std::string file = unhex(t.s());
        return isolated([&]() { put_file(file); return do_mm_read<T>(r0, r1); }); };
    r["mm.readd." + tg] = [](Tok &t) { long r0 = t.i(), r1 = t.i(); std::string file = unhex(t.s());
        return isolated([&]() { put_file(file); return do_mm_readd<T>(r0, r1); }); };
    r["mm.rt." + tg] = [](Tok &t) { long r0 = t.i(), r1 = t.i(); Mat<T> A = parse_crs<T>(t);
        return isolated([&]() { do_mm_write(A); return do_mm_read<T>(r0, r1); }); };
    r["mm.rtd." + tg] = [](Tok &t) { long r0 = t.i(), r1 = t.i(); size_t n, m; std::vector<T> v; parse_dense(t, n, m, v);
        return isolated([&]() { io::mm_write(tmp_path(), v.data(), n, m); return do_mm_readd<T>(r0, r1); }); };
    r["mm.tr." + tg] = [](Tok &t) { long r0 = t.i(), r1 = t.i(); std::string file = unhex(t.s());
        return over_truncations(file, [&]() { return do_mm_read<T>(r0, r1); }); };
    r["mm.trd." + tg] = [](Tok &t) { long r0 = t.i(), r1 = t.i(); std::string file = unhex(t.s());
        return over_truncations(file, [&]() { return do_mm_readd<T>(r0, r1); }); };
    r["mm.fz." + tg] = [](Tok &t) { long r0 = t.i(), r1 = t.i(); std::string file = unhex(t.s());
        return over_bytes(file, t, [&]() { return do_mm_read<T>(r0, r1); }); };
    r["mm.fzd." + tg] = [](Tok &t) { long r0 = t.i(), r1 = t.i(); std::string file = unhex(t.s());
        return over_bytes(file, t, [&]() { return do_mm_readd<T>(r0, r1); }); };
}
template <class T> static void reg_bin(const std::string &tg) {
    auto &r = registry();
    r["bin.write." + tg] = [](Tok &t) { Mat<T> A = parse_crs<T>(t);
        return isolated([&]() { do_bin_write(A); return "OK " + hex_of(get_file()); }); };
    r["bin.writed." + tg] = [](Tok &t) { size_t n, m; std::vector<T> v; parse_dense(t, n, m, v);
        return isolated([&]() { do_bin_writed(n, m, v); return "OK " + hex_of(get_file()); }); };
    r["bin.rt." + tg] = [](Tok &t) { long r0 = t.i(), r1 = t.i(); Mat<T> A = parse_crs<T>(t);
        return isolated([&]() { do_bin_write(A); return do_bin_read<T, size_t>(r0, r1); }); };
    r["bin.rtd." + tg] = [](Tok &t) { long r0 = t.i(), r1 = t.i(); size_t n, m; std::vector<T> v; parse_dense(t, n, m, v);
        return isolated([&]() { do_bin_writed(n, m, v); return do_bin_readd<T, size_t>(r0, r1); }); };
    // the same file with a size header WIDER than the index types (size_t n; std::vector<int> ptr, col): every integer must be
    // read with the width it was written with
    r["bin.rt32." + tg] = [](Tok &t) { long r0 = t.i(), r1 = t.i(); Mat<T> A = parse_crs<T>(t);
        return isolated([&]() {
            { std::ofstream f(tmp_path().c_str(), std::ios::binary | std::ios::trunc);
              size_t rows = A.n; std::vector<int> p32(A.ptr.begin(), A.ptr.end()), c32(A.col.begin(), A.col.end());
              amgcl::precondition(io::write(f, rows), "File I/O error."); amgcl::precondition(io::write(f, p32), "File I/O error.");
              amgcl::precondition(io::write(f, c32), "File I/O error."); amgcl::precondition(io::write(f, A.val), "File I/O error."); }
            size_t n = 0; std::vector<int> ptr, col; std::vector<T> val;
            io::read_crs(tmp_path(), n, ptr, col, val, r0, r1);
            return show_flat((unsigned long long)n, std::vector<ptrdiff_t>(ptr.begin(), ptr.end()), std::vector<ptrdiff_t>(col.begin(), col.end()), val); }); };
    for (int sg = 0; sg < 2; ++sg) {
        std::string s = sg ? "s" : "u";
        auto rd  = [sg](long r0, long r1) { return sg ? do_bin_read<T, ptrdiff_t>(r0, r1) : do_bin_read<T, size_t>(r0, r1); };
        auto rdd = [sg](long r0, long r1) { return sg ? do_bin_readd<T, ptrdiff_t>(r0, r1) : do_bin_readd<T, size_t>(r0, r1); };
        r["bin.read." + tg + "." + s] = [rd](Tok &t) { long r0 = t.i(), r1 = t.i(); std::string file = unhex(t.s());
            return isolated([&]() { put_file(file); return rd(r0, r1); }); };
        r["bin.readd." + tg + "." + s] = [rdd](Tok &t) { long r0 = t.i(), r1 = t.i(); std::string file = unhex(t.s());
            return isolated([&]() { put_file(file); return rdd(r0, r1); }); };
        r["bin.tr." + tg + "." + s] = [rd](Tok &t) { long r0 = t.i(), r1 = t.i(); std::string file = unhex(t.s());
            return over_truncations(file, [&]() { return rd(r0, r1); }); };
        r["bin.trd." + tg + "." + s] = [rdd](Tok &t) { long r0 = t.i(), r1 = t.i(); std::string file = unhex(t.s());
            return over_truncations(file, [&]() { return rdd(r0, r1); }); };
        r["bin.fz." + tg + "." + s] = [rd](Tok &t) { long r0 = t.i(), r1 = t.i(); std::string file = unhex(t.s());
            return over_bytes(file, t, [&]() { return rd(r0, r1); }); };
        r["bin.fzd." + tg + "." + s] = [rdd](Tok &t) { long r0 = t.i(), r1 = t.i(); std::string file = unhex(t.s());
            return over_bytes(file, t, [&]() { return rdd(r0, r1); }); };
    }
}

int main() {
    const char *base = std::getenv("VERIF_C19_DIR");
    if (!base || !*base) base = std::getenv("TMPDIR");
    if (!base || !*base) base = "/tmp";
    std::string tmpl = std::string(base) + "/c19-XXXXXX";
    std::vector<char> buf(tmpl.begin(), tmpl.end()); buf.push_back(0);
    if (!mkdtemp(buf.data())) { std::perror("mkdtemp"); return 2; }
    g_dir = buf.data();
    signal(SIGPIPE, SIG_IGN);

    reg_type<double>("d"); reg_type<float>("f"); reg_type<cplx>("z"); reg_type<int>("i"); reg_type<long long>("l");
    reg_bin<double>("d"); reg_bin<float>("f"); reg_bin<cplx>("z"); reg_bin<int>("i"); reg_bin<long long>("l");
    // char: the reader has a special case (8-bit integers); only the dense round trip is exercised
    registry()["mm.rtd.c"] = [](Tok &t) { long r0 = t.i(), r1 = t.i(); size_t n, m; std::vector<char> v; parse_dense(t, n, m, v);
        return isolated([&]() { io::mm_write(tmp_path(), v.data(), n, m); return do_mm_readd<char>(r0, r1); }); };
    registry()["mm.readd.c"] = [](Tok &t) { long r0 = t.i(), r1 = t.i(); std::string file = unhex(t.s());
        return isolated([&]() { put_file(file); return do_mm_readd<char>(r0, r1); }); };
    registry()["bin.size.u"] = [](Tok &t) { std::string file = unhex(t.s());
        return isolated([&]() { put_file(file); return "OK " + std::to_string((unsigned long long)io::crs_size<size_t>(tmp_path())); }); };
    registry()["bin.size.s"] = [](Tok &t) { std::string file = unhex(t.s());
        return isolated([&]() { put_file(file); return "OK " + std::to_string((unsigned long long)io::crs_size<ptrdiff_t>(tmp_path())); }); };

    std::string line;
    while (std::getline(std::cin, line)) {
        if (line.empty() || line[0] == '#') continue;
        Tok t(line);
        std::string id = t.s(), op = t.s(), res;
        auto it = registry().find(op);
        if (it == registry().end()) res = "UNSUPPORTED";
        else { try { res = it->second(t); } catch (const std::exception &e) { res = std::string("HARNESS ") + e.what(); } }
        unlink(tmp_path().c_str());
        std::cout << id << " " << op << " " << res << std::endl;
    }
    rm_dir();
    return 0;
}
