// double-instantiated amg driver (C10: poisoned heap, sanitizers; C02 float cross-check)
#define VQ_VALUE double
#define VQ_COARSENING amgcl::coarsening::aggregation
#define VQ_COARSENING_NAME "aggregation"
#include "amg_driver.hpp"
