// drv_kernels.cpp -- C07: backend primitives of the builtin backend.
// Ops are registered twice: exact rational value type ("spmv", ...) and double
// ("d.spmv", ...; inputs are small dyadic rationals so every operation is exact in
// binary64, outputs are printed as exact rationals; "nan"/"inf" tokens put junk into
// overwritten outputs).
#include "vq_io.hpp"
#include <amgcl/backend/interface.hpp>
using vq::Q; using vq::Tok; using vq::show;
namespace be = amgcl::backend;

template <class V> struct K {
    typedef std::vector<V> vec;
    static std::string spmv(Tok &t) {
        V alpha = t.val<V>(); auto A = t.crsT<V>(); vec x = t.vecT<V>(); V beta = t.val<V>(); vec y = t.vecT<V>();
        be::spmv(alpha, *A, x, beta, y); return show(y); }
    static std::string residual(Tok &t) {
        vec f = t.vecT<V>(); auto A = t.crsT<V>(); vec x = t.vecT<V>(); vec r = t.vecT<V>();
        be::residual(f, *A, x, r); return show(r); }
    static std::string axpby(Tok &t) {
        V a = t.val<V>(); vec x = t.vecT<V>(); V b = t.val<V>(); vec y = t.vecT<V>();
        be::axpby(a, x, b, y); return show(y); }
    static std::string axpbypcz(Tok &t) {
        V a = t.val<V>(); vec x = t.vecT<V>(); V b = t.val<V>(); vec y = t.vecT<V>(); V c = t.val<V>(); vec z = t.vecT<V>();
        be::axpbypcz(a, x, b, y, c, z); return show(z); }
    static std::string vmul(Tok &t) {
        V a = t.val<V>(); vec x = t.vecT<V>(); vec y = t.vecT<V>(); V b = t.val<V>(); vec z = t.vecT<V>();
        be::vmul(a, x, y, b, z); return show(z); }
    static std::string copy(Tok &t) { vec x = t.vecT<V>(); vec y = t.vecT<V>(); be::copy(x, y); return show(y); }
    static std::string clear(Tok &t) { vec x = t.vecT<V>(); be::clear(x); return show(x); }
    static std::string inner(Tok &t) { vec x = t.vecT<V>(); vec y = t.vecT<V>(); return show(be::inner_product(x, y)); }
    static std::string lin_comb(Tok &t) {
        long n = t.i(); std::vector<V> c(n); std::vector<vec> v(n); std::vector<vec*> vp(n);
        for (long k = 0; k < n; ++k) { c[k] = t.val<V>(); v[k] = t.vecT<V>(); vp[k] = &v[k]; }
        V alpha = t.val<V>(); vec y = t.vecT<V>();
        be::lin_comb(n, c, vp, alpha, y); return show(y); }
    static void reg(const std::string &pfx) {
        auto &r = vq::registry();
        r[pfx + "spmv"] = spmv; r[pfx + "residual"] = residual; r[pfx + "axpby"] = axpby; r[pfx + "axpbypcz"] = axpbypcz;
        r[pfx + "vmul"] = vmul; r[pfx + "copy"] = copy; r[pfx + "clear"] = clear; r[pfx + "inner"] = inner;
        r[pfx + "lin_comb"] = lin_comb;
    }
};
VQ_OP(norm) { auto x = t.vec(); return show(Q(sqrt(amgcl::math::norm(be::inner_product(x, x))))); }
int main() { K<Q>::reg(""); K<double>::reg("d."); return vq::driver_main(); }
