// drv_kernels.cpp -- C07: backend primitives of the builtin backend.
// Ops are registered twice: exact rational value type ("spmv", ...) and double
// ("d.spmv", ...; inputs are small dyadic rationals so every operation is exact in
// binary64, outputs are printed as exact rationals; "nan"/"inf" tokens put junk into
// overwritten outputs).
#include "vq_io.hpp"
#include <amgcl/backend/interface.hpp>
#include <amgcl/backend/block_crs.hpp>
#include <amgcl/backend/builtin_hybrid.hpp>
#include <amgcl/value_type/static_matrix.hpp>
#include <amgcl/adapter/block_matrix.hpp>
#include <amgcl/backend/eigen.hpp>
using vq::Q; using vq::Tok; using vq::show;
namespace be = amgcl::backend;

template <class V> struct K {
    typedef std::vector<V> vec;
    static std::string spmv(Tok &t) {
        V alpha = t.val<V>(); auto A = t.crsT<V>(); vec x = t.vecT<V>(); V beta = t.val<V>(); vec y = t.vecT<V>();
        be::spmv(alpha, *A, x, beta, y); return show(y); }
    static std::string residual(Tok &t) {
        vec f = t.vecT<V>(); auto A = t.crsT<V>(); vec x = t.vecT<V>(); vec r = t.vecT<V>();
        be::residual(f, *A, x, r); return show(r); }
    static std::string axpby(Tok &t) {
        V a = t.val<V>(); vec x = t.vecT<V>(); V b = t.val<V>(); vec y = t.vecT<V>();
        be::axpby(a, x, b, y); return show(y); }
    static std::string axpbypcz(Tok &t) {
        V a = t.val<V>(); vec x = t.vecT<V>(); V b = t.val<V>(); vec y = t.vecT<V>(); V c = t.val<V>(); vec z = t.vecT<V>();
        be::axpbypcz(a, x, b, y, c, z); return show(z); }
    static std::string vmul(Tok &t) {
        V a = t.val<V>(); vec x = t.vecT<V>(); vec y = t.vecT<V>(); V b = t.val<V>(); vec z = t.vecT<V>();
        be::vmul(a, x, y, b, z); return show(z); }
    static std::string copy(Tok &t) { vec x = t.vecT<V>(); vec y = t.vecT<V>(); be::copy(x, y); return show(y); }
    static std::string clear(Tok &t) { vec x = t.vecT<V>(); be::clear(x); return show(x); }
    static std::string inner(Tok &t) { vec x = t.vecT<V>(); vec y = t.vecT<V>(); return show(be::inner_product(x, y)); }
    static std::string lin_comb(Tok &t) {
        long n = t.i(); std::vector<V> c(n); std::vector<vec> v(n); std::vector<vec*> vp(n);
        for (long k = 0; k < n; ++k) { c[k] = t.val<V>(); v[k] = t.vecT<V>(); vp[k] = &v[k]; }
        V alpha = t.val<V>(); vec y = t.vecT<V>();
        be::lin_comb(n, c, vp, alpha, y); return show(y); }
    // block_crs backend: same operator as the scalar matrix for ANY block size (sizes need
    // not be divisible); requires distinct columns per row (the converter overwrites duplicates)
    static std::string bcrs_spmv(Tok &t) {
        long b = t.i(); V alpha = t.val<V>(); auto A = t.crsT<V>(); vec x = t.vecT<V>(); V beta = t.val<V>(); vec y = t.vecT<V>();
        amgcl::backend::bcrs<V, ptrdiff_t, ptrdiff_t> B(*A, b);
        be::spmv(alpha, B, x, beta, y); return show(y); }
    static std::string bcrs_residual(Tok &t) {
        long b = t.i(); vec f = t.vecT<V>(); auto A = t.crsT<V>(); vec x = t.vecT<V>(); vec r = t.vecT<V>();
        amgcl::backend::bcrs<V, ptrdiff_t, ptrdiff_t> B(*A, b);
        be::residual(f, B, x, r); return show(r); }
    static void reg(const std::string &pfx) {
        vq::registry()[pfx + "bcrs.spmv"] = bcrs_spmv; vq::registry()[pfx + "bcrs.residual"] = bcrs_residual;
        auto &r = vq::registry();
        r[pfx + "spmv"] = spmv; r[pfx + "residual"] = residual; r[pfx + "axpby"] = axpby; r[pfx + "axpbypcz"] = axpbypcz;
        r[pfx + "vmul"] = vmul; r[pfx + "copy"] = copy; r[pfx + "clear"] = clear; r[pfx + "inner"] = inner;
        r[pfx + "lin_comb"] = lin_comb;
    }
};
// hybrid backend (double): block-valued matrix built by the block_matrix adapter, scalar vectors
template <int B> static std::string hyb_spmv_b(Tok &t) {
    typedef amgcl::static_matrix<double, B, B> Blk;
    double alpha = t.d(); auto A = t.crsT<double>(); auto x = t.vecT<double>(); double beta = t.d(); auto y = t.vecT<double>();
    auto Ab = std::make_shared< amgcl::backend::crs<Blk, ptrdiff_t, ptrdiff_t> >(amgcl::adapter::block_matrix<Blk>(*A));
    be::spmv(alpha, *Ab, x, beta, y); return show(y);
}
template <int B> static std::string hyb_residual_b(Tok &t) {
    typedef amgcl::static_matrix<double, B, B> Blk;
    auto f = t.vecT<double>(); auto A = t.crsT<double>(); auto x = t.vecT<double>(); auto r = t.vecT<double>();
    auto Ab = std::make_shared< amgcl::backend::crs<Blk, ptrdiff_t, ptrdiff_t> >(amgcl::adapter::block_matrix<Blk>(*A));
    be::residual(f, *Ab, x, r); return show(r);
}
VQ_OP(hyb_spmv) { long b = t.i(); if (b == 2) return hyb_spmv_b<2>(t); if (b == 3) return hyb_spmv_b<3>(t); if (b == 4) return hyb_spmv_b<4>(t); return "UNSUPPORTED"; }
VQ_OP(hyb_residual) { long b = t.i(); if (b == 2) return hyb_residual_b<2>(t); if (b == 3) return hyb_residual_b<3>(t); if (b == 4) return hyb_residual_b<4>(t); return "UNSUPPORTED"; }
// Eigen backend (double)
static std::vector<double> from_eigen(const Eigen::VectorXd &v) { return std::vector<double>(v.data(), v.data() + v.size()); }
static Eigen::VectorXd to_eigen(const std::vector<double> &v) { Eigen::VectorXd e(v.size()); for (size_t i = 0; i < v.size(); ++i) e[i] = v[i]; return e; }
VQ_OP(eig_spmv) {
    typedef amgcl::backend::eigen<double> EB;
    double alpha = t.d(); auto A = t.crsT<double>(); auto x = t.vecT<double>(); double beta = t.d(); auto y = t.vecT<double>();
    std::shared_ptr< amgcl::backend::crs<double, ptrdiff_t, ptrdiff_t> > As = A;
    auto Ae = EB::copy_matrix(As, EB::params());
    Eigen::VectorXd xe = to_eigen(x), ye = to_eigen(y);
    be::spmv(alpha, *Ae, xe, beta, ye); return show(from_eigen(ye));
}
VQ_OP(eig_residual) {
    typedef amgcl::backend::eigen<double> EB;
    auto f = t.vecT<double>(); auto A = t.crsT<double>(); auto x = t.vecT<double>(); auto r = t.vecT<double>();
    std::shared_ptr< amgcl::backend::crs<double, ptrdiff_t, ptrdiff_t> > As = A;
    auto Ae = EB::copy_matrix(As, EB::params());
    Eigen::VectorXd fe = to_eigen(f), xe = to_eigen(x), re = to_eigen(r);
    be::residual(fe, *Ae, xe, re); return show(from_eigen(re));
}
VQ_OP(eig_vec) {   // axpby, axpbypcz, vmul, inner product, copy, clear on Eigen vectors
    std::string what = t.s();
    if (what == "axpby") { double a = t.d(); auto x = to_eigen(t.vecT<double>()); double b = t.d(); auto y = to_eigen(t.vecT<double>()); be::axpby(a, x, b, y); return show(from_eigen(y)); }
    if (what == "axpbypcz") { double a = t.d(); auto x = to_eigen(t.vecT<double>()); double b = t.d(); auto y = to_eigen(t.vecT<double>()); double c = t.d(); auto z = to_eigen(t.vecT<double>()); be::axpbypcz(a, x, b, y, c, z); return show(from_eigen(z)); }
    if (what == "vmul") { double a = t.d(); auto x = to_eigen(t.vecT<double>()); auto y = to_eigen(t.vecT<double>()); double b = t.d(); auto z = to_eigen(t.vecT<double>()); be::vmul(a, x, y, b, z); return show(from_eigen(z)); }
    if (what == "inner") { auto x = to_eigen(t.vecT<double>()); auto y = to_eigen(t.vecT<double>()); return show((double)be::inner_product(x, y)); }
    return "UNSUPPORTED";
}
VQ_OP(norm) { auto x = t.vec(); return show(Q(sqrt(amgcl::math::norm(be::inner_product(x, x))))); }
int main() { K<Q>::reg(""); K<double>::reg("d."); return vq::driver_main(); }
