// block-valued amg hierarchies, smoothed aggregation (block route and as_scalar route)
#define AMGB_STATIC_SA
#include "amgb_driver.hpp"
