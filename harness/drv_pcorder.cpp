// drv_pcorder.cpp -- C17: "a preconditioner built from a matrix whose row entries are
// listed in arbitrary order equals the one built from the sorted matrix".
// Op:  pc <kind> <crs A>   ->  {n n | dense operator: row i = apply(e_i)}   (exact arithmetic)
// The matrix is handed over as a std::tuple of CRS ranges (the documented way), so each
// class goes through its own "template <class Matrix> ctor(const Matrix&)" entry point.
// The python side runs every case twice (rows shuffled / rows sorted) and compares.
#include "vq_io.hpp"
#include <amgcl/adapter/crs_tuple.hpp>
#include <amgcl/adapter/zero_copy.hpp>
#include <amgcl/amg.hpp>
#include <amgcl/make_solver.hpp>
#include <amgcl/solver/preonly.hpp>
#include <amgcl/coarsening/smoothed_aggregation.hpp>
#include <amgcl/coarsening/aggregation.hpp>
#include <amgcl/relaxation/as_preconditioner.hpp>
#include <amgcl/relaxation/damped_jacobi.hpp>
#include <amgcl/relaxation/spai0.hpp>
#include <amgcl/relaxation/spai1.hpp>
#include <amgcl/relaxation/gauss_seidel.hpp>
#include <amgcl/relaxation/ilu0.hpp>
#include <amgcl/relaxation/iluk.hpp>
#include <amgcl/relaxation/ilup.hpp>
#include <amgcl/relaxation/ilut.hpp>
#include <amgcl/relaxation/chebyshev.hpp>
#include <amgcl/preconditioner/dummy.hpp>
using vq::Q; using vq::Tok; using vq::show;
namespace be = amgcl::backend;
typedef be::builtin<Q> B;

struct Arrays {
    ptrdiff_t n; std::vector<ptrdiff_t> ptr, col; std::vector<Q> val;
    Arrays(Tok &t) {
        n = t.i(); long m = t.i(); if (m != n) throw std::invalid_argument("square");
        ptr.push_back(0);
        for (long r = 0; r < n; ++r) { long k = t.i(); for (long e = 0; e < k; ++e) { col.push_back(t.i()); val.push_back(t.q()); } ptr.push_back(col.size()); }
    }
};

template <class P> static std::string dense_apply(const P &p, long n) {
    std::ostringstream os; os << "{" << n << " " << n;
    for (long i = 0; i < n; ++i) {
        std::vector<Q> e(n, Q(0)), x(n, Q(0)); e[i] = Q(1);
        p.apply(e, x);
        os << " |"; for (long j = 0; j < n; ++j) os << " " << j << ":" << x[j].str();
    }
    os << "}"; return os.str();
}

template <class P> static std::string build_apply(Arrays &a, typename P::params prm = typename P::params()) {
    auto A = std::tie(a.n, a.ptr, a.col, a.val);
    P p(A, prm);
    return dense_apply(p, a.n);
}

template <template <class> class R> static std::string asp(Arrays &a) {
    return build_apply< amgcl::relaxation::as_preconditioner<B, R> >(a);
}

static std::string slug(const std::exception &e) {
    std::string w = e.what(), o; for (char c : w) o += (isalnum((unsigned char)c) ? c : '_'); return o.substr(0, 60);
}
static std::string pc_body(Tok &t);
VQ_OP(pc) {
    try { return pc_body(t); }
    catch (const std::exception &e) { return "EXC " + vq::exc_kind(e) + " " + slug(e); }
}
static std::string pc_body(Tok &t) {
    std::string kind = t.s();
    Arrays a(t);
    using namespace amgcl;
    if (kind == "asp_damped_jacobi") return asp<relaxation::damped_jacobi>(a);
    if (kind == "asp_spai0")         return asp<relaxation::spai0>(a);
    if (kind == "asp_spai1")         return asp<relaxation::spai1>(a);
    if (kind == "asp_gauss_seidel")  return asp<relaxation::gauss_seidel>(a);
    if (kind == "asp_ilu0")          return asp<relaxation::ilu0>(a);
    if (kind == "asp_iluk")          return asp<relaxation::iluk>(a);
    if (kind == "asp_ilup")          return asp<relaxation::ilup>(a);
    if (kind == "asp_ilut")          return asp<relaxation::ilut>(a);
    if (kind == "asp_chebyshev")     return asp<relaxation::chebyshev>(a);
    if (kind == "dummy")             return build_apply< preconditioner::dummy<B> >(a);
    if (kind == "amg_sa_ilu0") {
        typedef amg<B, coarsening::smoothed_aggregation, relaxation::ilu0> P;
        P::params prm; prm.coarse_enough = 2;
        return build_apply<P>(a, prm);
    }
    if (kind == "amg_agg_gs") {
        typedef amg<B, coarsening::aggregation, relaxation::gauss_seidel> P;
        P::params prm; prm.coarse_enough = 2;
        return build_apply<P>(a, prm);
    }
    if (kind == "amg_direct") {   // single level: skyline LU of the whole matrix
        typedef amg<B, coarsening::aggregation, relaxation::damped_jacobi> P;
        P::params prm; prm.coarse_enough = 1000000;
        return build_apply<P>(a, prm);
    }
    if (kind == "amg_zc_ilu0") {  // zero-copy view handed over as shared_ptr (internal format entry point)
        typedef amg<B, coarsening::smoothed_aggregation, relaxation::ilu0> P;
        P::params prm; prm.coarse_enough = 2;
        auto Z = adapter::zero_copy((size_t)a.n, a.ptr.data(), a.col.data(), a.val.data());
        P p(Z, prm);
        return dense_apply(p, a.n);
    }
    throw std::invalid_argument("kind");
}
int main() { return vq::driver_main(); }
