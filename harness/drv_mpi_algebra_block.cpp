// drv_mpi_algebra_block.cpp -- C11 at BLOCK value types: distributed matrix algebra (amgcl/mpi/distributed_matrix.hpp,
// util.hpp, inner_product.hpp, coarsening/detail/galerkin.hpp) on the real templates with
//     value_type = amgcl::static_matrix<double,b,b>,  rhs_type = amgcl::static_matrix<double,b,1>,  b = 2 (3).
// Block products do NOT commute: the operand order of every product in mpi::product (local x local, local x remote,
// remote x rows received from the neighbours), the adjoint taken by mpi::transpose and the side on which the ghost
// values enter the remote part of mul/residual are observable here and only here (at double / complex they are not).
//
// MPI ships a block as b*b doubles (amgcl::mpi::datatype<static_matrix<double,b,b>> = MPI_Type_contiguous(b*b, MPI_DOUBLE),
// util.hpp:49-63; op b.dtype checks size and extent).  As in drv_mpi_algebra.cpp the run is in binary64 on small
// dyadic inputs (every +,-,* exact), results are printed as exact rationals and compared byte for byte with the
// SAME extracted Dist.v model functions run at the Scalar instance BlockInst.BlockS QcS b (ocaml/dist/ops_dist_block.ml)
// and with the serial block kernels (MatOps.v / Kernels.v at BlockS QcS b).
//
// Protocol, gathering, PMPI request-discipline monitor: exactly as drv_mpi_algebra.cpp.
// Token types (b = first argument of every op):
//   blk = q^(b*b) row-major     bcrs = nrows ncols (k (col blk)*k)*nrows     bvec = n q^(n*b)   (n block entries)
// Output: block matrices {n m | c:v;v;v;v ... | ...}, block vectors flattened [q ...].
#include "vq_io.hpp"
#include "pmpi_trace.hpp"   // defines MPI_Isend/Irecv/Wait*/Test*: request-discipline monitor (PMPI)
#include <amgcl/backend/builtin.hpp>
#include <amgcl/value_type/static_matrix.hpp>
#include <amgcl/mpi/util.hpp>
#include <amgcl/mpi/distributed_matrix.hpp>
#include <amgcl/mpi/inner_product.hpp>
#include <amgcl/coarsening/detail/galerkin.hpp>
#include <limits>
#include <cstring>

using vq::Tok; using vq::show;

static amgcl::mpi::communicator world;

struct Parts { std::vector<long> sz, beg; long total;
    Parts() : total(0) {}
    explicit Parts(const std::vector<long> &s) : sz(s), beg(s.size() + 1, 0) {
        for (size_t k = 0; k < s.size(); ++k) beg[k+1] = beg[k] + s[k];
        total = beg.back(); }
    long b(int r) const { return beg[r]; } long e(int r) const { return beg[r+1]; } long n(int r) const { return sz[r]; } };

static Parts parts(Tok &t) {
    std::vector<long> s = t.ivec();
    if ((int)s.size() != world.size) throw std::runtime_error("partition size != number of ranks");
    return Parts(s);
}

static const double NaN = std::numeric_limits<double>::quiet_NaN();

template <int N> struct BD {
    typedef amgcl::static_matrix<double, N, N> V;
    typedef amgcl::static_matrix<double, N, 1> R;
    typedef amgcl::static_matrix<float, N, N>  VF;
    typedef amgcl::static_matrix<float, N, 1>  RF;
    typedef amgcl::backend::builtin<V>  Backend;
    typedef amgcl::backend::builtin<VF> FBackend;
    typedef amgcl::mpi::distributed_matrix<Backend> DM;
    typedef amgcl::backend::crs<V> Mat;
    typedef amgcl::backend::crs<V, ptrdiff_t, ptrdiff_t> GMat;

    static V blk(Tok &t) { V v; for (int k = 0; k < N * N; ++k) v(k) = t.d(); return v; }
    static std::shared_ptr<GMat> bcrs(Tok &t) {
        long n = t.i(), m = t.i();
        std::vector<ptrdiff_t> ptr(1, 0), col; std::vector<V> vl;
        for (long r = 0; r < n; ++r) {
            long k = t.i();
            for (long e = 0; e < k; ++e) { col.push_back(t.i()); vl.push_back(blk(t)); }
            ptr.push_back((ptrdiff_t)col.size());
        }
        auto A = std::make_shared<GMat>();
        A->set_size(n, m, false);
        A->ptr[0] = 0;
        for (long r = 0; r < n; ++r) A->ptr[r+1] = ptr[r+1];
        A->set_nonzeros(col.size(), true);
        for (size_t e = 0; e < col.size(); ++e) { A->col[e] = col[e]; A->val[e] = vl[e]; }
        return A;
    }
    static std::vector<R> bvec(Tok &t) {
        long n = t.i(); std::vector<R> v(n);
        for (long i = 0; i < n; ++i) for (int k = 0; k < N; ++k) v[i](k) = t.d();
        return v;
    }
    template <class B> static std::string show_blk(const B &v) {
        std::ostringstream os; for (int k = 0; k < N * N; ++k) { if (k) os << ";"; os << show((double)v(k)); } return os.str();
    }
    template <class RV> static std::string show_bvec(const std::vector<RV> &v) {
        std::ostringstream os; os << "[";
        for (size_t i = 0; i < v.size(); ++i) for (int k = 0; k < N; ++k) { if (i || k) os << " "; os << show((double)v[i](k)); }
        os << "]"; return os.str();
    }
    template <class MM> static std::string show_bcrs(const MM &A) {
        std::ostringstream os;
        long n = (long)A.nrows, m = (long)A.ncols;
        os << "{" << n << " " << m;
        if ((n > 0 || A.ptr) && A.ptr[0] != 0) return "BADCRS ptr0";
        for (long i = 0; i < n; ++i) {
            if (A.ptr[i+1] < A.ptr[i]) return "BADCRS nonmonotone-ptr";
            os << " |";
            for (ptrdiff_t j = A.ptr[i]; j < (ptrdiff_t)A.ptr[i+1]; ++j) {
                if (A.col[j] < 0 || (long)A.col[j] >= m) return "BADCRS col-out-of-range";
                os << " " << (long)A.col[j] << ":" << show_blk(A.val[j]);
            }
        }
        os << "}"; return os.str();
    }

    // rows [rb, re) of the global matrix as a strip with GLOBAL column numbers
    static std::shared_ptr<Mat> strip(const GMat &A, long rb, long re) {
        auto S = std::make_shared<Mat>();
        S->set_size(re - rb, A.ncols, false);
        S->ptr[0] = 0;
        for (long i = rb; i < re; ++i) S->ptr[i - rb + 1] = S->ptr[i - rb] + (A.ptr[i+1] - A.ptr[i]);
        S->set_nonzeros(S->ptr[re - rb], true);
        for (long i = rb, h = 0; i < re; ++i)
            for (ptrdiff_t j = A.ptr[i]; j < A.ptr[i+1]; ++j, ++h) { S->col[h] = A.col[j]; S->val[h] = A.val[j]; }
        return S;
    }
    static std::shared_ptr<DM> dist(const GMat &A, const Parts &rp, const Parts &cp) {
        if (rp.total != (long)A.nrows || cp.total != (long)A.ncols) throw std::runtime_error("partition does not cover the matrix");
        auto S = strip(A, rp.b(world.rank), rp.e(world.rank));
        return std::make_shared<DM>(world, *S, cp.n(world.rank));
    }
    static std::vector<R> slice(const std::vector<R> &v, const Parts &p) {
        if ((long)v.size() != p.total) throw std::runtime_error("vector size");
        return std::vector<R>(v.begin() + p.b(world.rank), v.begin() + p.e(world.rank));
    }
    static std::vector<R> junk(long n) { R j; for (int k = 0; k < N; ++k) j(k) = NaN; return std::vector<R>(n, j); }

    // strip of a distributed matrix with global columns: local entries (shifted) then remote entries, each in storage
    // order ("assembled storage order"); canon: sorted by (col, printed block)
    template <class DMT>
    static std::string show_strip(const DMT &A, bool canon, long glob_cols) {
        const typename DMT::build_matrix &L = *A.local(); const typename DMT::build_matrix &Rm = *A.remote();
        long n = A.loc_rows(), shift = A.loc_col_shift();
        std::ostringstream os; os << "{" << n << " " << glob_cols;
        if ((long)L.nrows != n || (long)Rm.nrows != n) return "BADDM nrows";
        for (long i = 0; i < n; ++i) {
            os << " |";
            std::vector<std::pair<long, std::string> > es;
            if (L.ptr[i+1] < L.ptr[i] || Rm.ptr[i+1] < Rm.ptr[i]) return "BADDM ptr";
            for (ptrdiff_t j = L.ptr[i]; j < L.ptr[i+1]; ++j) {
                if (L.col[j] < 0 || L.col[j] >= (ptrdiff_t)L.ncols) return "BADDM local-col-out-of-range";
                es.push_back(std::make_pair((long)L.col[j] + shift, show_blk(L.val[j]))); }
            for (ptrdiff_t j = Rm.ptr[i]; j < Rm.ptr[i+1]; ++j) {
                long c = Rm.col[j];
                if (c < 0 || c >= glob_cols) return "BADDM remote-col-out-of-range";
                if (c >= shift && c < shift + (long)L.ncols) return "BADDM remote-col-is-local";
                es.push_back(std::make_pair(c, show_blk(Rm.val[j]))); }
            if (canon) std::sort(es.begin(), es.end());
            for (auto &e : es) os << " " << e.first << ":" << e.second;
        }
        os << "}"; return os.str();
    }
    template <class DMT> static std::string sizes(const DMT &A) {
        std::ostringstream os; os << " " << A.glob_rows() << " " << A.glob_cols() << " " << A.glob_nonzeros(); return os.str();
    }

    // ---------------------------------------------------------------- ops
    // b.dtype: what MPI ships for one block / one rhs entry: (type size, extent) in bytes and sizeof
    static std::string dtype(Tok &) {
        int sv = 0, sr = 0; MPI_Aint lb = 0, ev = 0, er = 0;
        MPI_Type_size(amgcl::mpi::datatype<V>(), &sv); MPI_Type_get_extent(amgcl::mpi::datatype<V>(), &lb, &ev);
        MPI_Type_size(amgcl::mpi::datatype<R>(), &sr); MPI_Type_get_extent(amgcl::mpi::datatype<R>(), &lb, &er);
        std::ostringstream os; os << "blk " << sv << " " << (long)ev << " " << sizeof(V) << " rhs " << sr << " " << (long)er << " " << sizeof(R);
        return os.str();
    }
    // b.split A rparts cparts
    static std::string split(Tok &t) {
        auto A = bcrs(t); Parts rp = parts(t), cp = parts(t);
        auto D = dist(*A, rp, cp);
        return show_strip(*D, false, cp.total) + sizes(*D);
    }
    // b.spmv alpha A rparts cparts x beta y        (alpha, beta: scalar_type = double)
    static std::string spmv(Tok &t) {
        double alpha = t.d(); auto A = bcrs(t); Parts rp = parts(t), cp = parts(t);
        std::vector<R> x = bvec(t); double beta = t.d(); std::vector<R> y = bvec(t);
        auto D = dist(*A, rp, cp); D->move_to_backend();
        std::vector<R> xl = slice(x, cp), yl = slice(y, rp);
        amgcl::backend::spmv(alpha, *D, xl, beta, yl);
        return show_bvec(yl);
    }
    // b.residual f A rparts cparts x   (the output vector starts as NaN junk)
    static std::string residual(Tok &t) {
        std::vector<R> f = bvec(t); auto A = bcrs(t); Parts rp = parts(t), cp = parts(t);
        std::vector<R> x = bvec(t);
        auto D = dist(*A, rp, cp); D->move_to_backend();
        std::vector<R> xl = slice(x, cp), fl = slice(f, rp), r = junk((long)fl.size());
        amgcl::backend::residual(fl, *D, xl, r);
        return show_bvec(r);
    }
    // b.spmvres A rparts cparts x1 f x2 x3 : product, residual, product on the SAME matrix (exchange buffers of rhs blocks reused)
    static std::string spmvres(Tok &t) {
        auto A = bcrs(t); Parts rp = parts(t), cp = parts(t);
        std::vector<R> x1 = bvec(t), f = bvec(t), x2 = bvec(t), x3 = bvec(t);
        auto D = dist(*A, rp, cp); D->move_to_backend();
        long n = rp.n(world.rank);
        std::vector<R> a = slice(x1, cp), b = slice(x2, cp), c = slice(x3, cp), fl = slice(f, rp), y1 = junk(n), r2 = junk(n), y3 = junk(n);
        amgcl::backend::spmv(1.0, *D, a, 0.0, y1);
        amgcl::backend::residual(fl, *D, b, r2);
        amgcl::backend::spmv(1.0, *D, c, 0.0, y3);
        return show_bvec(y1) + " " + show_bvec(r2) + " " + show_bvec(y3);
    }
    // b.inner parts x y : mpi::inner_product of rhs-block vectors (scalar result, the same on every rank)
    static std::string inner(Tok &t) {
        Parts p = parts(t); std::vector<R> x = bvec(t), y = bvec(t);
        std::vector<R> xl = slice(x, p), yl = slice(y, p);
        amgcl::mpi::inner_product ip(world);
        return show((double)ip(xl, yl));
    }
    // b.transpose A rparts cparts (canonical) / b.transpose_s (storage order)
    static std::string transpose(Tok &t) {
        auto A = bcrs(t); Parts rp = parts(t), cp = parts(t);
        auto D = dist(*A, rp, cp);
        auto T = amgcl::mpi::transpose(*D);
        return show_strip(*T, true, rp.total) + sizes(*T);
    }
    static std::string transpose_s(Tok &t) {
        auto A = bcrs(t); Parts rp = parts(t), cp = parts(t);
        auto D = dist(*A, rp, cp);
        auto T = amgcl::mpi::transpose(*D);
        return show_strip(*T, false, rp.total);
    }
    // b.product A rpA cpA B cpB (canonical) / b.product_s (storage order)
    static std::string product(Tok &t) {
        auto A = bcrs(t); Parts rpA = parts(t), cpA = parts(t);
        auto B = bcrs(t); Parts cpB = parts(t);
        auto DA = dist(*A, rpA, cpA); auto DB = dist(*B, cpA, cpB);
        auto C = amgcl::mpi::product(*DA, *DB);
        return show_strip(*C, true, cpB.total) + sizes(*C);
    }
    static std::string product_s(Tok &t) {
        auto A = bcrs(t); Parts rpA = parts(t), cpA = parts(t);
        auto B = bcrs(t); Parts cpB = parts(t);
        auto DA = dist(*A, rpA, cpA); auto DB = dist(*B, cpA, cpB);
        auto C = amgcl::mpi::product(*DA, *DB);
        return show_strip(*C, false, cpB.total);
    }
    // b.galerkin A p P kp : R = transpose(P); A_c = coarsening::detail::galerkin(A, P, R) = product(R, product(A, P)), the
    // call made by mpi::coarsening::{aggregation,smoothed_aggregation}::coarse_operator.  Prints R, A*P and A_c in storage order,
    // then A_c canonically (Cc: compared with the SERIAL triple product cut along the partition).
    static std::string galerkin(Tok &t) {
        auto A = bcrs(t); Parts p = parts(t);
        auto P = bcrs(t); Parts kp = parts(t);
        auto DA = dist(*A, p, p); auto DP = dist(*P, p, kp);
        auto DR = amgcl::mpi::transpose(*DP);
        auto AP = amgcl::mpi::product(*DA, *DP);
        auto Ac = amgcl::coarsening::detail::galerkin(*DA, *DP, *DR);
        return "R" + show_strip(*DR, false, p.total) + " AP" + show_strip(*AP, false, kp.total)
             + " C" + show_strip(*Ac, false, kp.total) + sizes(*Ac) + " Cc" + show_strip(*Ac, true, kp.total);
    }
    // b.rrows A rpA cpA B cpB : remote_rows(A.cpat(), B)
    static std::string rrows(Tok &t) {
        auto A = bcrs(t); Parts rpA = parts(t), cpA = parts(t);
        auto B = bcrs(t); Parts cpB = parts(t);
        auto DA = dist(*A, rpA, cpA); auto DB = dist(*B, cpA, cpB);
        auto Nb = amgcl::mpi::remote_rows(DA->cpat(), *DB, true);
        Nb->ncols = cpB.total;
        return show_bcrs(*Nb);
    }
    // b.scale A rparts cparts s   (s: scalar_type)
    static std::string scale(Tok &t) {
        auto A = bcrs(t); Parts rp = parts(t), cp = parts(t); double s = t.d();
        auto D = dist(*A, rp, cp);
        amgcl::mpi::scale(*D, s);
        return show_strip(*D, false, cp.total);
    }
    static std::string sort_rows(Tok &t) {
        auto A = bcrs(t); Parts rp = parts(t), cp = parts(t);
        auto D = dist(*A, rp, cp);
        amgcl::mpi::sort_rows(*D);
        return show_strip(*D, false, cp.total);
    }
    // b.tspmv A rparts cparts x : (A^T) x through transpose + move_to_backend + spmv
    static std::string tspmv(Tok &t) {
        auto A = bcrs(t); Parts rp = parts(t), cp = parts(t); std::vector<R> x = bvec(t);
        auto D = dist(*A, rp, cp);
        auto T = amgcl::mpi::transpose(*D); T->move_to_backend();
        std::vector<R> xl = slice(x, rp), y = junk(cp.n(world.rank));
        amgcl::backend::spmv(1.0, *T, xl, 0.0, y);
        return show_bvec(y);
    }
    // b.pspmv A rpA cpA B cpB x : (A B) x through product + move_to_backend + spmv
    static std::string pspmv(Tok &t) {
        auto A = bcrs(t); Parts rpA = parts(t), cpA = parts(t);
        auto B = bcrs(t); Parts cpB = parts(t); std::vector<R> x = bvec(t);
        auto DA = dist(*A, rpA, cpA); auto DB = dist(*B, cpA, cpB);
        auto C = amgcl::mpi::product(*DA, *DB); C->move_to_backend();
        std::vector<R> xl = slice(x, cpB), y = junk(rpA.n(world.rank));
        amgcl::backend::spmv(1.0, *C, xl, 0.0, y);
        return show_bvec(y);
    }
    // b.copyf A rparts cparts x : copy to another backend (builtin<static_matrix<float,b,b>>), its source strip, then spmv there
    static std::string copyf(Tok &t) {
        auto A = bcrs(t); Parts rp = parts(t), cp = parts(t); std::vector<R> x = bvec(t);
        auto D = dist(*A, rp, cp);
        amgcl::mpi::distributed_matrix<FBackend> F(*D);
        std::string src = show_strip(F, false, cp.total);
        F.move_to_backend();
        std::vector<R> xd = slice(x, cp);
        std::vector<RF> xl(xd.size()), y(rp.n(world.rank));
        for (size_t i = 0; i < xd.size(); ++i) for (int k = 0; k < N; ++k) xl[i](k) = (float)xd[i](k);
        for (size_t i = 0; i < y.size(); ++i) for (int k = 0; k < N; ++k) y[i](k) = std::numeric_limits<float>::quiet_NaN();
        amgcl::backend::spmv(1.0f, F, xl, 0.0f, y);
        return show_bvec(y) + sizes(F) + " " + src;
    }
};

typedef std::string (*Op)(Tok&);
static std::map<std::string, Op>& ops() { static std::map<std::string, Op> m; return m; }
struct RegOp { RegOp(const char *n, Op f) { ops()[n] = f; } };
#ifndef VQ_BLOCK3
#define BOP(name) \
    static std::string bop_##name(Tok &t) { long b = t.i(); \
        if (b == 2) return BD<2>::name(t); return "UNSUPPORTED-BLOCK-SIZE"; } \
    static RegOp breg_##name("b." #name, bop_##name);
#else
#define BOP(name) \
    static std::string bop_##name(Tok &t) { long b = t.i(); \
        if (b == 2) return BD<2>::name(t); if (b == 3) return BD<3>::name(t); return "UNSUPPORTED-BLOCK-SIZE"; } \
    static RegOp breg_##name("b." #name, bop_##name);
#endif
BOP(dtype) BOP(split) BOP(spmv) BOP(residual) BOP(spmvres) BOP(inner) BOP(transpose) BOP(transpose_s) BOP(product) BOP(product_s)
BOP(galerkin) BOP(rrows) BOP(scale) BOP(sort_rows) BOP(tspmv) BOP(pspmv) BOP(copyf)

// ---------------------------------------------------------------- main loop (as drv_mpi_algebra.cpp)
int main(int argc, char **argv) {
    MPI_Init(&argc, &argv);
    {
        world = amgcl::mpi::communicator(MPI_COMM_WORLD);
        for (;;) {
            std::string line; long len = -1;
            if (world.rank == 0) { if (std::getline(std::cin, line)) len = (long)line.size(); }
            MPI_Bcast(&len, 1, MPI_LONG, 0, world);
            if (len < 0) break;
            line.resize(len);
            if (len) MPI_Bcast(&line[0], (int)len, MPI_CHAR, 0, world);
            if (line.empty() || line[0] == '#') continue;
            Tok t(line);
            std::string id = t.s(), op = t.s(), out;
            bool want_trace = op.compare(0, 3, "tr:") == 0;
            auto it = ops().find(want_trace ? op.substr(3) : op);
            if (it == ops().end()) out = "UNSUPPORTED";
            else {
                pmpi::begin_op();
                try { out = it->second(t); if (want_trace) out = pmpi::trace(); }
                catch (const std::exception &e) { out = std::string("EXC ") + vq::exc_kind(e); }
                out += " PMPI " + pmpi::end_op();
            }
            int mylen = (int)out.size();
            std::vector<int> lens(world.size), displ(world.size + 1, 0);
            MPI_Gather(&mylen, 1, MPI_INT, lens.data(), 1, MPI_INT, 0, world);
            std::string all;
            if (world.rank == 0) { for (int r = 0; r < world.size; ++r) displ[r+1] = displ[r] + lens[r]; all.resize(displ[world.size]); }
            MPI_Gatherv(const_cast<char*>(out.data()), mylen, MPI_CHAR, world.rank == 0 ? &all[0] : 0, lens.data(), displ.data(), MPI_CHAR, 0, world);
            if (world.rank == 0) {
                std::cout << id << " " << op << " ";
                for (int r = 0; r < world.size; ++r) { if (r) std::cout << " ; "; std::cout << all.substr(displ[r], lens[r]); }
                std::cout << " $" << std::endl;      // end-of-record mark
            }
        }
    }
    MPI_Finalize();
    return 0;
}
