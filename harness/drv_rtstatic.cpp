// drv_rtstatic.cpp -- C14 (ii),(iii): a solver assembled through the run-time interface
//   make_solver< runtime::preconditioner<B>, runtime::solver::wrapper<B> >
// against the same components composed at compile time, double build, bit for bit.
// One source, several translation units (drv_rtstatic_a/b/c.cpp are symlinks; VQ_PART is
// set by tools/props/C14.py) so that the template-heavy instantiations compile in parallel:
//   VQ_PART 1: class=amg, coarsening in {ruge_stuben, aggregation} x every relaxation, bicgstab
//   VQ_PART 2: class=amg, coarsening in {smoothed_aggregation, smoothed_aggr_emin} x every relaxation, bicgstab
//   VQ_PART 3: amg<smoothed_aggregation, spai0> x every solver; class=relaxation / dummy / nested
//
//   <id> cmp <grid k> <seed> <tree>    -> RT it=<n> res=<exact> x=<fnv64 of the solution bytes> U=[..] | ST ... | EQ or NE
//   <id> keys                          -> the static configurations compiled into this part
// Tree token as in drv_params.cpp.  The static side gets the same tree with the
// "class"/"type" keys erased.
#include <string>
#include <vector>
namespace vqp { inline std::vector<std::string>& unknown_log() { static std::vector<std::string> v; return v; } }
#define AMGCL_PARAM_UNKNOWN(name) vqp::unknown_log().push_back(name)

#include <boost/property_tree/ptree.hpp>
#include "vq_io.hpp"
#include <amgcl/backend/builtin.hpp>
#include <amgcl/adapter/crs_tuple.hpp>
#include <amgcl/make_solver.hpp>
#include <amgcl/amg.hpp>
#include <amgcl/coarsening/runtime.hpp>
#include <amgcl/relaxation/runtime.hpp>
#include <amgcl/solver/runtime.hpp>
#include <amgcl/preconditioner/runtime.hpp>
#include <amgcl/relaxation/as_preconditioner.hpp>
#include <amgcl/preconditioner/dummy.hpp>

#ifndef VQ_PART
#  define VQ_PART 3
#endif

using boost::property_tree::ptree;
typedef amgcl::backend::builtin<double> B;
typedef amgcl::backend::crs<double, ptrdiff_t, ptrdiff_t> Mat;
typedef amgcl::make_solver< amgcl::runtime::preconditioner<B>, amgcl::runtime::solver::wrapper<B> > RT;

// ---------------------------------------------------------------- tree tokens
static ptree parse_tree(const std::string &s, size_t &i) {
    ptree t;
    size_t j = i;
    while (j < s.size() && s[j] != '[') ++j;
    if (j >= s.size()) throw std::runtime_error("tree: missing [");
    t.data() = s.substr(i, j - i);
    i = j + 1;
    if (s[i] == ']') { ++i; return t; }
    for (;;) {
        size_t e = s.find('=', i);
        if (e == std::string::npos) throw std::runtime_error("tree: missing =");
        std::string k = s.substr(i, e - i);
        i = e + 1;
        ptree c = parse_tree(s, i);
        t.push_back(std::make_pair(k, c));
        if (s[i] == ',') { ++i; continue; }
        if (s[i] == ']') { ++i; break; }
        throw std::runtime_error("tree: expected , or ]");
    }
    return t;
}
static ptree parse_tree(const std::string &s) { size_t i = 0; return parse_tree(s, i); }

// ---------------------------------------------------------------- test systems
// SPD 5-point operator on a k x k grid with seeded dyadic coefficient jumps, plus a seeded rhs
static std::shared_ptr<Mat> system(long k, unsigned seed, std::vector<double> &rhs) {
    unsigned s = seed * 2654435761u + 12345u;
    auto rnd = [&s]() { s = s * 1664525u + 1013904223u; return (s >> 16) & 0xff; };
    long n = k * k;
    std::vector<double> cx((k + 1) * k), cy((k + 1) * k);
    for (auto &c : cx) c = 1.0 + (rnd() % 8) / 4.0;
    for (auto &c : cy) c = 1.0 + (rnd() % 8) / 4.0;
    std::vector<ptrdiff_t> ptr(1, 0), col; std::vector<double> val;
    for (long j = 0; j < k; ++j) for (long i = 0; i < k; ++i) {
        double w = cx[j * (k + 1) + i], e = cx[j * (k + 1) + i + 1], so = cy[i * (k + 1) + j], no = cy[i * (k + 1) + j + 1];
        long r = j * k + i;
        if (j > 0) { col.push_back(r - k); val.push_back(-so); }
        if (i > 0) { col.push_back(r - 1); val.push_back(-w); }
        col.push_back(r); val.push_back(w + e + so + no + (rnd() % 4) / 8.0);
        if (i + 1 < k) { col.push_back(r + 1); val.push_back(-e); }
        if (j + 1 < k) { col.push_back(r + k); val.push_back(-no); }
        ptr.push_back((ptrdiff_t)col.size());
    }
    rhs.resize(n);
    for (auto &v : rhs) v = ((int)(rnd() % 33) - 16) / 8.0;
    return std::make_shared<Mat>(std::make_tuple((size_t)n, ptr, col, val));
}

static std::string fnv(const std::vector<double> &x) {
    unsigned long long h = 1469598103934665603ull;
    const unsigned char *p = reinterpret_cast<const unsigned char*>(x.data());
    for (size_t i = 0; i < x.size() * sizeof(double); ++i) { h ^= p[i]; h *= 1099511628211ull; }
    char buf[32]; snprintf(buf, sizeof buf, "%016llx", h); return buf;
}
static std::string unknowns() {
    std::vector<std::string> u = vqp::unknown_log(); std::sort(u.begin(), u.end());
    std::string r = "[";
    for (size_t k = 0; k < u.size(); ++k) { if (k) r += " "; r += u[k]; }
    return r + "]";
}

template <class S>
static std::string solve_with(std::shared_ptr<Mat> A, const ptree &prm, const std::vector<double> &rhs) {
    vqp::unknown_log().clear();
    try {
        S solve(A, typename S::params(prm));
        std::vector<double> x(rhs.size(), 0.0);
        size_t it; double res;
        std::tie(it, res) = solve(rhs, x);
        return "it=" + std::to_string(it) + " res=" + vq::show(res) + " x=" + fnv(x) + " x0=" + vq::show(x[0]) + " U=" + unknowns();
    } catch (const std::exception &e) { return "EXC " + vq::exc_kind(e); }
}
// the run-time make_solver takes the tree itself
static std::string solve_rt(std::shared_ptr<Mat> A, const ptree &prm, const std::vector<double> &rhs) {
    vqp::unknown_log().clear();
    try {
        RT solve(A, prm);
        std::vector<double> x(rhs.size(), 0.0);
        size_t it; double res;
        std::tie(it, res) = solve(rhs, x);
        return "it=" + std::to_string(it) + " res=" + vq::show(res) + " x=" + fnv(x) + " x0=" + vq::show(x[0]) + " U=" + unknowns();
    } catch (const std::exception &e) { return "EXC " + vq::exc_kind(e); }
}

// ---------------------------------------------------------------- static configurations
typedef std::function<std::string(std::shared_ptr<Mat>, const ptree&, const std::vector<double>&)> Run;
static std::map<std::string, Run>& table() { static std::map<std::string, Run> t; return t; }

#define CFG_AMG(C, R, S) table()["amg/" #C "/" #R "/" #S] = \
    solve_with< amgcl::make_solver< amgcl::amg<B, amgcl::coarsening::C, amgcl::relaxation::R>, amgcl::solver::S<B> > >
#define CFG_ALL_RELAX(C, S) \
    CFG_AMG(C, gauss_seidel, S); CFG_AMG(C, ilu0, S); CFG_AMG(C, iluk, S); CFG_AMG(C, ilup, S); CFG_AMG(C, ilut, S); \
    CFG_AMG(C, damped_jacobi, S); CFG_AMG(C, spai0, S); CFG_AMG(C, spai1, S); CFG_AMG(C, chebyshev, S)

static void register_all() {
#if VQ_PART == 1
    CFG_ALL_RELAX(ruge_stuben, bicgstab);
    CFG_ALL_RELAX(aggregation, bicgstab);
#elif VQ_PART == 2
    CFG_ALL_RELAX(smoothed_aggregation, bicgstab);
    CFG_ALL_RELAX(smoothed_aggr_emin, bicgstab);
#else
    CFG_AMG(smoothed_aggregation, spai0, cg);
    CFG_AMG(smoothed_aggregation, spai0, bicgstab);
    CFG_AMG(smoothed_aggregation, spai0, bicgstabl);
    CFG_AMG(smoothed_aggregation, spai0, gmres);
    CFG_AMG(smoothed_aggregation, spai0, lgmres);
    CFG_AMG(smoothed_aggregation, spai0, fgmres);
    CFG_AMG(smoothed_aggregation, spai0, idrs);
    CFG_AMG(smoothed_aggregation, spai0, richardson);
    CFG_AMG(smoothed_aggregation, spai0, preonly);
#define CFG_REL(R, S) table()["relaxation//" #R "/" #S] = \
    solve_with< amgcl::make_solver< amgcl::relaxation::as_preconditioner<B, amgcl::relaxation::R>, amgcl::solver::S<B> > >
    CFG_REL(spai0, cg); CFG_REL(ilu0, bicgstab); CFG_REL(damped_jacobi, gmres); CFG_REL(gauss_seidel, fgmres); CFG_REL(chebyshev, cg);
    table()["dummy///cg"] = solve_with< amgcl::make_solver< amgcl::preconditioner::dummy<B>, amgcl::solver::cg<B> > >;
    table()["dummy///bicgstab"] = solve_with< amgcl::make_solver< amgcl::preconditioner::dummy<B>, amgcl::solver::bicgstab<B> > >;
    // nested: the preconditioner is itself a (preconditioned) solver
    table()["nested:amg/smoothed_aggregation/spai0/cg///fgmres"] = solve_with< amgcl::make_solver<
        amgcl::make_solver< amgcl::amg<B, amgcl::coarsening::smoothed_aggregation, amgcl::relaxation::spai0>, amgcl::solver::cg<B> >,
        amgcl::solver::fgmres<B> > >;
#endif
}

// key of a run-time tree and the tree without the dispatch keys
static std::string key_of(const ptree &p) {
    std::string cls = p.get("precond.class", std::string("amg"));
    std::string s = p.get("solver.type", std::string("bicgstab"));
    if (cls == "nested") {
        return "nested:" + p.get("precond.precond.class", std::string("amg")) + "/" + p.get("precond.precond.coarsening.type", std::string("smoothed_aggregation")) + "/" +
            p.get("precond.precond.relax.type", std::string("spai0")) + "/" + p.get("precond.solver.type", std::string("bicgstab")) + "///" + s;
    }
    std::string c = cls == "amg" ? p.get("precond.coarsening.type", std::string("smoothed_aggregation")) : std::string();
    std::string r = cls == "amg" ? p.get("precond.relax.type", std::string("spai0"))
                  : cls == "relaxation" ? p.get("precond.type", std::string("spai0")) : std::string();
    return cls + "/" + c + "/" + r + "/" + s;
}
static void strip(ptree &p, const std::string &path, const char *key) {
    if (path.empty()) { p.erase(key); return; }
    auto c = p.get_child_optional(path);
    if (c) c->erase(key);
}
static ptree static_tree(ptree p) {
    std::string cls = p.get("precond.class", std::string("amg"));
    strip(p, "precond", "class"); strip(p, "solver", "type");
    if (cls == "amg") { strip(p, "precond.coarsening", "type"); strip(p, "precond.relax", "type"); }
    else if (cls == "relaxation") strip(p, "precond", "type");
    else if (cls == "nested") {
        strip(p, "precond.precond", "class"); strip(p, "precond.solver", "type");
        strip(p, "precond.precond.coarsening", "type"); strip(p, "precond.precond.relax", "type");
    }
    return p;
}

VQ_OP(keys) { (void)t; std::string r; for (auto &e : table()) r += (r.empty() ? "" : " ") + e.first; return r; }
VQ_OP(cmp) {
    long k = t.i(); unsigned seed = (unsigned)t.i();
    ptree prm = parse_tree(t.s());
    std::vector<double> rhs; auto A = system(k, seed, rhs);
    std::string rt = solve_rt(A, prm, rhs);
    std::string key;
    try { key = key_of(prm); } catch (const std::exception &e) { key = "?"; }
    auto it = table().find(key);
    if (it == table().end()) return "RT " + rt + " | ST NOTCOMPILED " + key;
    std::string st = it->second(A, static_tree(prm), rhs);
    // the numerical observables must agree bit for bit; the unknown-key logs are compared as sets by
    // the runner (a run-time relaxation wrapper re-imports its tree on every level, so a key can be
    // reported once per level there and once in total on the compile-time side)
    auto num = [](const std::string &o) { size_t u = o.find(" U="); return u == std::string::npos ? o : o.substr(0, u); };
    return "RT " + rt + " | ST " + st + " | " + (num(rt) == num(st) ? "EQ" : "NE");
}

int main() { register_all(); return vq::driver_main(); }
