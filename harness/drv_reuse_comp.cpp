// drv_reuse_comp.cpp -- C15 (objects): call histories on ONE object vs FRESH objects (protocol: reuse_common.hh) for the
// composite preconditioners and the block solver:
//   rcpr   : preconditioner::cpr / cpr_drs <PPrecond = amg<aggregation, spai0>, SPrecond = as_preconditioner<spai0 | ilu0>>
//            bare or inside make_solver<., S>; command "update A" = partial_update(A, true)
//   rschur : preconditioner::schur_pressure_correction<USolver, PSolver>
//            variant a: U = make_solver<as_preconditioner<spai0>, bicgstab>, P = make_solver<as_preconditioner<spai0>, cg>
//            variant b: U = make_solver<amg<aggregation, spai0>, cg>,         P = make_solver<amg<aggregation, spai0>, gmres>
//   rmbs   : make_block_solver<amg<builtin<static_matrix<V,2,2>>, aggregation, spai0>, S>, S in cg bicgstab gmres
//
//   [d.]rcpr   <cpr|cprdrs> <spai0|ilu0> <block_size> <active_rows> <p.coarse_enough> <p.max_levels> <solver|none> <side> <prm16> A <nscript> cmds
//   [d.]rschur <a|b> <type> <approx_schur> <adjust_p> <simplec_dia> <mask: il:k|ct:k|hd:k> <inner maxiter> <solver|none> <side> <prm16> A <nscript> cmds
//   [d.]rmbs   <cg|bicgstab|gmres> <side> <prm16> <p.coarse_enough> <p.max_levels> A <nscript> cmds        (commands: solve f x0)
#include "poison_new.hpp"
#include "reuse_common.hh"
#include <amgcl/amg.hpp>
#include <amgcl/adapter/block_matrix.hpp>
#include <amgcl/value_type/static_matrix.hpp>
#include <amgcl/make_block_solver.hpp>
#include <amgcl/coarsening/aggregation.hpp>
#include <amgcl/relaxation/as_preconditioner.hpp>
#include <amgcl/relaxation/spai0.hpp>
#include <amgcl/relaxation/ilu0.hpp>
#include <amgcl/preconditioner/cpr.hpp>
#include <amgcl/preconditioner/cpr_drs.hpp>
#include <amgcl/preconditioner/schur_pressure_correction.hpp>
using namespace ru;
namespace rx = amgcl::relaxation;
namespace pc = amgcl::preconditioner;

// partial_update for the two CPR variants
namespace ru {
template <class PP, class SPc> struct POps< pc::cpr<PP, SPc> > {
    typedef pc::cpr<PP, SPc> P;
    template <class V> static void cycle(P &, const std::vector<V> &, std::vector<V> &) { throw unsupported_cmd(); }
    template <class M> static void rebuild(P &, const M &) { throw unsupported_cmd(); }
    template <class M> static void update(P &p, const M &A) { p.partial_update(A, true); }
    static std::string dump(const P &) { throw unsupported_cmd(); }
};
template <class PP, class SPc> struct POps< pc::cpr_drs<PP, SPc> > {
    typedef pc::cpr_drs<PP, SPc> P;
    template <class V> static void cycle(P &, const std::vector<V> &, std::vector<V> &) { throw unsupported_cmd(); }
    template <class M> static void rebuild(P &, const M &) { throw unsupported_cmd(); }
    template <class M> static void update(P &p, const M &A) { p.partial_update(A, true); }
    static std::string dump(const P &) { throw unsupported_cmd(); }
};
}

template <class V, class P> std::string run_cpr(Tok &t) {
    long bs = t.i(), active = t.i(), ce = t.i(), ml = t.i();
    std::string solver = t.s(); Prm sp; sp.left = (t.s() == "left"); sp.read(t);
    Mat<V> A; A.A = t.crsT<V>();
    typename P::params prm; prm.block_size = (int)bs; prm.active_rows = (size_t)active;
    prm.pprecond.coarse_enough = ce; prm.pprecond.max_levels = ml;
    auto script = read_script<V>(t);
    return run_history<V>(Factory<V, P>::get(solver, A, prm, sp), A.A, script);
}
template <class V> std::string op_rcpr(Tok &t) {
    typedef be::builtin<V> B;
    typedef amgcl::amg<B, amgcl::coarsening::aggregation, rx::spai0> PP;
    std::string kind = t.s(), sk = t.s();
    if (kind == "cpr" && sk == "spai0")    return run_cpr<V, pc::cpr<PP, rx::as_preconditioner<B, rx::spai0> > >(t);
    if (kind == "cpr" && sk == "ilu0")     return run_cpr<V, pc::cpr<PP, rx::as_preconditioner<B, rx::ilu0> > >(t);
    if (kind == "cprdrs" && sk == "spai0") return run_cpr<V, pc::cpr_drs<PP, rx::as_preconditioner<B, rx::spai0> > >(t);
    if (kind == "cprdrs" && sk == "ilu0")  return run_cpr<V, pc::cpr_drs<PP, rx::as_preconditioner<B, rx::ilu0> > >(t);
    return "UNSUPPORTED";
}

// ------------------------------------------------------------ Schur pressure correction
static std::vector<char> parse_mask(const std::string &spec, long n) {
    std::vector<char> m(n, 0);
    if (spec.substr(0, 3) == "il:") { long k = std::stol(spec.substr(3)); for (long i = 0; i < n; ++i) m[i] = (i % k == k - 1); }
    else if (spec.substr(0, 3) == "ct:") { long k = std::stol(spec.substr(3)); for (long i = 0; i < n; ++i) m[i] = (i >= n - k); }
    else if (spec.substr(0, 3) == "hd:") { long k = std::stol(spec.substr(3)); for (long i = 0; i < n; ++i) m[i] = (i < k); }
    else throw std::invalid_argument("mask");
    return m;
}
// inner amg hierarchies: two levels, the coarsest one relaxed (so that the scratch of the inner object matters)
template <class P> struct Small { static void set(typename P::params &) {} };
template <class B, template <class> class C, template <class> class R> struct Small< amgcl::amg<B, C, R> > {
    static void set(typename amgcl::amg<B, C, R>::params &p) { p.coarse_enough = 1; p.max_levels = 2; }
};
template <class MS> struct PrecondOf { typedef typename std::decay<decltype(std::declval<MS&>().precond())>::type type; };

template <class V, class US, class PS> std::string run_schur(Tok &t, bool amg_inside) {
    typedef pc::schur_pressure_correction<US, PS> P;
    long type = t.i(), approx = t.i(), adjust_p = t.i(), simplec = t.i(); std::string mask = t.s(); long inner = t.i();
    std::string solver = t.s(); Prm sp; sp.left = (t.s() == "left"); sp.read(t);
    Mat<V> A; A.A = t.crsT<V>();
    typename P::params prm;
    prm.type = (int)type; prm.approx_schur = approx != 0; prm.adjust_p = (int)adjust_p; prm.simplec_dia = simplec != 0;
    prm.pmask = parse_mask(mask, (long)A.A->nrows);
    prm.usolver.solver.maxiter = inner; prm.usolver.solver.tol = cv<V>(Q(0));
    prm.psolver.solver.maxiter = inner; prm.psolver.solver.tol = cv<V>(Q(0));
    (void)amg_inside;
    Small<typename PrecondOf<US>::type>::set(prm.usolver.precond);
    Small<typename PrecondOf<PS>::type>::set(prm.psolver.precond);
    auto script = read_script<V>(t);
    return run_history<V>(Factory<V, P>::get(solver, A, prm, sp), A.A, script);
}
template <class V> std::string op_rschur(Tok &t) {
    typedef be::builtin<V> B;
    typedef rx::as_preconditioner<B, rx::spai0> Spai0;
    typedef amgcl::amg<B, amgcl::coarsening::aggregation, rx::spai0> Amg;
    std::string variant = t.s();
    if (variant == "a") return run_schur<V, amgcl::make_solver<Spai0, sv::bicgstab<B> >, amgcl::make_solver<Spai0, sv::cg<B> > >(t, false);
    if (variant == "b") return run_schur<V, amgcl::make_solver<Amg, sv::cg<B> >, amgcl::make_solver<Amg, sv::gmres<B> > >(t, true);
    return "UNSUPPORTED";
}

// ------------------------------------------------------------ make_block_solver, block size 2
template <class V, class S> struct MbsObj : Obj<V> {
    typedef amgcl::static_matrix<V, 2, 2> BT; typedef be::builtin<BT> BB;
    typedef amgcl::make_block_solver< amgcl::amg<BB, amgcl::coarsening::aggregation, rx::spai0>, S > MBS;
    MBS s;
    template <class M> MbsObj(const M &A, const typename MBS::params &p) : s(A, p) {}
    std::string run(const Cmd<V> &c, std::vector<V> &x) {
        if (c.kind == "solve") { auto r = s(c.f, x); return fmt(r, x); }
        throw unsupported_cmd();
    }
};
template <class V, template <class, class> class SolverT> std::string run_mbs(Tok &t) {
    typedef amgcl::static_matrix<V, 2, 2> BT; typedef be::builtin<BT> BB;
    typedef SolverT<BB, sv::detail::default_inner_product> S;
    typedef MbsObj<V, S> O;
    Prm sp; sp.left = (t.s() == "left"); sp.read(t);
    long ce = t.i(), ml = t.i();
    Mat<V> A; A.A = t.crsT<V>();
    typename O::MBS::params prm;
    prm.precond.coarse_enough = ce; prm.precond.max_levels = ml;
    prm.solver.maxiter = sp.maxiter; prm.solver.tol = cv<V>(sp.tol); prm.solver.abstol = cv<V>(sp.abstol);
    auto script = read_script<V>(t);
    return run_history<V>([A, prm]() { return std::shared_ptr< Obj<V> >(new O(A.tup(), prm)); }, A.A, script);
}
template <class V> std::string op_rmbs(Tok &t) {
    std::string s = t.s();
    if (s == "cg")       return run_mbs<V, sv::cg>(t);
    if (s == "bicgstab") return run_mbs<V, sv::bicgstab>(t);
    if (s == "gmres")    return run_mbs<V, sv::gmres>(t);
    return "UNSUPPORTED";
}

static void reg_all() {
    auto &r = vq::registry();
    r["rcpr"] = op_rcpr<Q>;     r["d.rcpr"] = op_rcpr<double>;
    r["rschur"] = op_rschur<Q>; r["d.rschur"] = op_rschur<double>;
    r["rmbs"] = op_rmbs<Q>;     r["d.rmbs"] = op_rmbs<double>;
}
int main() { reg_all(); return vq::driver_main(); }
