// drv_mpi_solve.cpp -- C12: distributed solve (amgcl/mpi/make_solver.hpp, amg.hpp, coarsening/*,
// relaxation/*, direct_solver/{solver_base,skyline_lu}.hpp, partition/merge.hpp, solver/runtime.hpp)
// on the real templates, value type double (MPI cannot ship bignum rationals).
//
// Protocol as in drv_mpi_algebra.cpp: rank 0 reads case lines and broadcasts them, every rank
// builds its strip, runs the op, the per-rank strings are gathered and printed by rank 0 as
//   <id> <op> <s_0> ; <s_1> ; ...
// Every rank reports what IT saw: (iters, residual as exact rational and as bit pattern), its
// slice of x, and -- for the AMG preconditioner -- its strips of A, P, R, A_c of every level,
// recorded by a coarsening wrapper passed as template argument (no hook in /repo needed).
// The checks (rank consistency, true residual, Galerkin, partition, direct solve) are done
// outside, on these outputs, by the extracted Coq specification functions.
#include "vq_io.hpp"
#include <amgcl/backend/builtin.hpp>
#include <amgcl/mpi/util.hpp>
#include <amgcl/mpi/distributed_matrix.hpp>
#include <amgcl/mpi/inner_product.hpp>
#include <amgcl/mpi/make_solver.hpp>
#include <amgcl/mpi/amg.hpp>
#include <amgcl/mpi/coarsening/runtime.hpp>
#include <amgcl/mpi/coarsening/smoothed_aggregation.hpp>
#include <amgcl/mpi/coarsening/pmis.hpp>
#include <amgcl/mpi/relaxation/runtime.hpp>
#include <amgcl/mpi/relaxation/as_preconditioner.hpp>
#include <amgcl/mpi/direct_solver/skyline_lu.hpp>
#include <amgcl/mpi/partition/merge.hpp>
#include <amgcl/mpi/solver/runtime.hpp>
#include <boost/property_tree/ptree.hpp>
#include <limits>
#include <cstring>

using vq::Tok; using vq::show;
typedef amgcl::backend::builtin<double> Backend;
typedef amgcl::mpi::distributed_matrix<Backend> DM;
typedef amgcl::backend::crs<double> Mat;

static amgcl::mpi::communicator world;

struct Parts { std::vector<long> sz, beg; long total;
    Parts() : total(0) {}
    explicit Parts(const std::vector<long> &s) : sz(s), beg(s.size() + 1, 0) {
        for (size_t k = 0; k < s.size(); ++k) beg[k+1] = beg[k] + s[k];
        total = beg.back(); }
    long b(int r) const { return beg[r]; } long e(int r) const { return beg[r+1]; } long n(int r) const { return sz[r]; } };
static Parts parts(Tok &t) {
    std::vector<long> s = t.ivec();
    if ((int)s.size() != world.size) throw std::runtime_error("partition size != number of ranks");
    return Parts(s);
}
static std::shared_ptr<Mat> strip(const Mat &A, long rb, long re) {
    auto S = std::make_shared<Mat>();
    S->set_size(re - rb, A.ncols, false);
    S->ptr[0] = 0;
    for (long i = rb; i < re; ++i) S->ptr[i - rb + 1] = S->ptr[i - rb] + (A.ptr[i+1] - A.ptr[i]);
    S->set_nonzeros(S->ptr[re - rb], true);
    for (long i = rb, h = 0; i < re; ++i)
        for (ptrdiff_t j = A.ptr[i]; j < A.ptr[i+1]; ++j, ++h) { S->col[h] = A.col[j]; S->val[h] = A.val[j]; }
    return S;
}
static std::shared_ptr<DM> dist(const Mat &A, const Parts &rp, const Parts &cp) {
    if (rp.total != (long)A.nrows || cp.total != (long)A.ncols) throw std::runtime_error("partition does not cover the matrix");
    auto S = strip(A, rp.b(world.rank), rp.e(world.rank));
    return std::make_shared<DM>(world, *S, cp.n(world.rank));
}
static std::vector<double> slice(const std::vector<double> &v, const Parts &p) {
    if ((long)v.size() != p.total) throw std::runtime_error("vector size");
    return std::vector<double>(v.begin() + p.b(world.rank), v.begin() + p.e(world.rank));
}
// strip with global columns, entries sorted by column (values of equal columns are not merged)
template <class AnyDM>
static std::string show_strip(const AnyDM &A, bool pattern_only = false) {
    if (!A.local() || !A.remote()) return "{gone}";
    auto &L = *A.local(); auto &R = *A.remote();
    long n = A.loc_rows(), shift = A.loc_col_shift(), gc = A.glob_cols();
    std::ostringstream os; os << "{" << n << " " << gc;
    for (long i = 0; i < n; ++i) {
        os << " |";
        std::vector<std::pair<long, std::string> > es;
        for (ptrdiff_t j = L.ptr[i]; j < L.ptr[i+1]; ++j)
            es.push_back(std::make_pair((long)L.col[j] + shift, pattern_only ? std::string("1") : show((double)L.val[j])));
        for (ptrdiff_t j = R.ptr[i]; j < R.ptr[i+1]; ++j) {
            long c = R.col[j];
            if (c < 0 || c >= gc || (c >= shift && c < shift + (long)L.ncols)) return "BADDM remote-col";
            es.push_back(std::make_pair(c, pattern_only ? std::string("1") : show((double)R.val[j]))); }
        std::sort(es.begin(), es.end());
        for (auto &e : es) os << " " << e.first << ":" << e.second;
    }
    os << "}"; return os.str();
}
static std::vector<double> csv(const std::string &w) {
    std::vector<double> v; size_t a = 0;
    while (a <= w.size()) { size_t b = w.find(',', a); if (b == std::string::npos) b = w.size();
        if (b > a) v.push_back((double)vq::parse(w.substr(a, b - a))); a = b + 1; }
    return v;
}
static std::string bits(double r) { unsigned long long b; std::memcpy(&b, &r, 8); std::ostringstream os; os << std::hex << b; return os.str(); }

// ---------------------------------------------------------------- recording coarsening wrapper
static std::vector<std::string>& level_log() { static std::vector<std::string> l; return l; }

// near-null space held by the coarsening object (pmis::params::nullspace): before transfer_operators it
// is the B of the level being coarsened (local rows, row-major), afterwards the coarse B (R factors)
typedef amgcl::coarsening::nullspace_params NS;
typedef amgcl::runtime::mpi::coarsening::wrapper<Backend> RtCoarsening;
static NS* nullspace_of(RtCoarsening &w) {
    switch (w.c) {
        case amgcl::runtime::mpi::coarsening::aggregation:
            return &static_cast<amgcl::mpi::coarsening::aggregation<Backend>*>(w.handle)->prm.aggr.nullspace;
        case amgcl::runtime::mpi::coarsening::smoothed_aggregation:
            return &static_cast<amgcl::mpi::coarsening::smoothed_aggregation<Backend>*>(w.handle)->prm.aggr.nullspace;
        default: return 0;
    }
}
template <class C> static NS* nullspace_of(C &) { return 0; }
// smoothed aggregation only: the aggregation parameters the NEXT call of transfer_operators will use (eps_strong is halved
// inside every call).  The recording wrapper runs amgcl::mpi::coarsening::pmis itself on a COPY of them right before the
// call: PMIS is deterministic (no random weights), so this is the P_tent / strength pattern the coarsening computes inside.
template <class B>
static typename amgcl::mpi::coarsening::pmis<B>::params* sa_aggr_params(amgcl::runtime::mpi::coarsening::wrapper<B> &w) {
    if (w.c == amgcl::runtime::mpi::coarsening::smoothed_aggregation)
        return &static_cast<amgcl::mpi::coarsening::smoothed_aggregation<B>*>(w.handle)->prm.aggr;
    return 0;
}
template <class B>
static typename amgcl::mpi::coarsening::pmis<B>::params* sa_aggr_params(amgcl::mpi::coarsening::smoothed_aggregation<B> &c) { return &c.prm.aggr; }
// dense rows x cols block as "{rows cols | 0:v 1:v ... | ...}"; the number of rows is what the object HOLDS
// (B.size() / cols), the caller compares it with the number of rows the level has
static std::string show_dense(const std::vector<double> &B, int cols) {
    long rows = cols ? (long)(B.size() / cols) : 0;
    std::ostringstream os; os << "{" << rows << " " << cols;
    for (long i = 0; i < rows; ++i) { os << " |"; for (int c = 0; c < cols; ++c) os << " " << c << ":" << show(B[i * cols + c]); }
    os << "}"; return os.str();
}

// number of rows of the near-null space this rank passed in (-1: none).  The parameter parser of amgcl wants
// rows >= 1 and a non-null pointer, so an EMPTY rank has to pass one dummy row; it is cut off again here.
static long& ns_true_rows() { static long r = -1; return r; }

template <class C>
struct recording {
    typedef typename C::params params;
    C base;
    recording(const params &prm = params()) : base(prm) {
        NS *ns = nullspace_of(base);
        if (ns && ns->cols > 0 && ns_true_rows() >= 0) ns->B.resize(ns_true_rows() * ns->cols);
    }
    std::tuple< std::shared_ptr<DM>, std::shared_ptr<DM> >
    transfer_operators(const DM &A) {
        std::string a = show_strip(A);      // before the call: sort_rows inside may reorder, never change
        NS *ns = nullspace_of(base);
        std::string b; if (ns && ns->cols > 0) b = show_dense(ns->B, ns->cols);
        std::string tent, conn;
        if (auto *ap = sa_aggr_params(base)) if (ap->nullspace.cols == 0) {
            typename amgcl::mpi::coarsening::pmis<Backend>::params cp = *ap;
            amgcl::mpi::coarsening::pmis<Backend> aggr(A, cp);
            tent = show_strip(*aggr.p_tent); conn = show_strip(*aggr.conn, true);
        }
        auto PR = base.transfer_operators(A);
        level_log().push_back("A" + a);
        if (!tent.empty()) { level_log().push_back("T" + tent); level_log().push_back("S" + conn); }
        if (ns && ns->cols > 0) level_log().push_back("B" + b);
        level_log().push_back("P" + show_strip(*std::get<0>(PR)));
        level_log().push_back("R" + show_strip(*std::get<1>(PR)));
        if (ns && ns->cols > 0) level_log().push_back("N" + show_dense(ns->B, ns->cols));
        return PR;
    }
    std::shared_ptr<DM> coarse_operator(const DM &A, const DM &P, const DM &R) const {
        auto Ac = base.coarse_operator(A, P, R);
        level_log().push_back("C" + show_strip(*Ac));
        return Ac;
    }
};
template <class C> unsigned block_size(const recording<C> &c) { return block_size(c.base); }

// ---------------------------------------------------------------- configuration
typedef boost::property_tree::ptree ptree;
// tokens k=v ... "--"
static ptree config(Tok &t, std::string &cls) {
    ptree p; cls = "amg";
    for (;;) {
        std::string w = t.s();
        if (w == "--") break;
        size_t e = w.find('=');
        if (e == std::string::npos) throw std::runtime_error("bad config token " + w);
        std::string k = w.substr(0, e), v = w.substr(e + 1);
        if (k == "precond.class") cls = v; else p.put(k, v);
    }
    return p;
}

typedef amgcl::runtime::mpi::solver::wrapper<Backend> Solver;
typedef amgcl::mpi::amg<Backend,
        recording< amgcl::runtime::mpi::coarsening::wrapper<Backend> >,
        amgcl::runtime::mpi::relaxation::wrapper<Backend>,
        amgcl::mpi::direct::skyline_lu<double>,
        amgcl::mpi::partition::merge<Backend> > AMG;
typedef amgcl::mpi::relaxation::as_preconditioner< amgcl::runtime::mpi::relaxation::wrapper<Backend> > RelaxP;

struct quiet_cout {     // merge partitioner and AMGCL_PARAM_MISSING write to std::cout / cerr
    std::ostringstream sink; std::streambuf *o;
    quiet_cout() : sink(), o(std::cout.rdbuf(sink.rdbuf())) {}
    ~quiet_cout() { std::cout.rdbuf(o); }
};

template <class S>
static std::string run_solver(S &solve, const std::vector<double> &f, std::vector<double> &x, int repeat) {
    size_t it = 0; double res = 0;
    std::ostringstream os;
    for (int k = 0; k < repeat; ++k) {
        if (k) std::fill(x.begin(), x.end(), 0.0);
        std::tie(it, res) = solve(f, x);
        os << (k ? " again " : "") << "it=" << it << " res=" << show(res) << " bits=" << bits(res);
    }
    os << " x=" << show(x);
    return os.str();
}

typedef std::string (*Op)(Tok&);
static std::map<std::string, Op>& ops() { static std::map<std::string, Op> m; return m; }
struct RegOp { RegOp(const char *n, Op f) { ops()[n] = f; } };
#define MOP(name) static std::string mop_##name(Tok &t); static RegOp rop_##name(#name, mop_##name); static std::string mop_##name(Tok &t)

// solve <k=v ...> -- A parts f x0 repeat
MOP(solve) {
    std::string cls; ptree prm = config(t, cls);
    auto A = t.crsT<double>(); Parts p = parts(t);
    std::vector<double> f = t.vecT<double>(), x0 = t.vecT<double>(); long repeat = t.i();
    std::vector<double> fl = slice(f, p), xl = slice(x0, p);
    auto D = dist(*A, p, p);
    // near-null space: ns.cols=K ns.B=v,v,...  (global, row-major n x K); every rank passes ITS rows
    std::vector<double> Bl;
    ns_true_rows() = -1;
    if (prm.count("ns")) {
        int K = prm.get<int>("ns.cols"); std::vector<double> Bg = csv(prm.get<std::string>("ns.B"));
        prm.erase("ns");
        if ((long)Bg.size() != p.total * K) throw std::runtime_error("ns.B size");
        Bl.assign(Bg.begin() + p.b(world.rank) * K, Bg.begin() + p.e(world.rank) * K);
        if ((int)Bl.size() < K) Bl.resize(K, 0.0);  // empty rank: the parameter parser wants a pointer and rows >= 1
        ns_true_rows() = p.n(world.rank);
        prm.put("precond.coarsening.aggr.nullspace.cols", K);
        prm.put("precond.coarsening.aggr.nullspace.rows", std::max<long>(1, p.n(world.rank)));
        prm.put("precond.coarsening.aggr.nullspace.B", static_cast<double*>(Bl.data()));
    }
    level_log().clear();
    quiet_cout q;
    std::string out;
    if (cls == "amg") {
        amgcl::mpi::make_solver<AMG, Solver> solve(world, D, prm);
        out = run_solver(solve, fl, xl, (int)repeat);
    } else if (cls == "relaxation") {
        amgcl::mpi::make_solver<RelaxP, Solver> solve(world, D, prm);
        out = run_solver(solve, fl, xl, (int)repeat);
    } else throw std::invalid_argument("precond.class");
    std::ostringstream os; os << out << " L " << level_log().size();
    for (auto &s : level_log()) os << " " << s;
    return os.str();
}

// pmis <eps_strong=q block_size=k> -- A parts K B : amgcl::mpi::coarsening::pmis<Backend> itself (the aggregation +
// tentative prolongation used by both distributed coarsenings).  Every rank reports the number of its
// aggregates' columns, its strip of P_tent (global columns), the coarse near-null space it holds afterwards,
// and the pattern of the strength-of-connection matrix (global columns).
MOP(pmis) {
    std::string cls; ptree cfg = config(t, cls);
    auto A = t.crsT<double>(); Parts p = parts(t);
    long K = t.i(); std::vector<double> Bg = t.vecT<double>();
    if ((long)Bg.size() != p.total * K) throw std::runtime_error("B size");
    auto D = dist(*A, p, p);
    typedef amgcl::mpi::coarsening::pmis<Backend> PMIS;
    PMIS::params prm;
    prm.eps_strong = (double)vq::parse(cfg.get<std::string>("eps_strong", "2/25"));
    prm.block_size = cfg.get<unsigned>("block_size", 1u);
    prm.nullspace.cols = (int)K;
    prm.nullspace.B.assign(Bg.begin() + p.b(world.rank) * K, Bg.begin() + p.e(world.rank) * K);
    quiet_cout q;
    PMIS aggr(*D, prm);
    std::ostringstream os;
    os << "na=" << aggr.p_tent->local()->ncols << " P" << show_strip(*aggr.p_tent);
    if (K > 0) os << " N" << show_dense(prm.nullspace.B, (int)K);
    os << " S" << show_strip(*aggr.conn, true);
    return os.str();
}

// direct A parts f : distributed direct solver (coarse-level consolidation on the master rank)
MOP(direct) {
    auto A = t.crsT<double>(); Parts p = parts(t); std::vector<double> f = t.vecT<double>();
    std::vector<double> fl = slice(f, p), xl(fl.size(), std::numeric_limits<double>::quiet_NaN());
    auto D = dist(*A, p, p);
    amgcl::mpi::direct::skyline_lu<double> S(world, *D);
    S(fl, xl);
    std::vector<double> x2(fl.size(), std::numeric_limits<double>::quiet_NaN());
    S(fl, x2);                                   // the solver object is reusable
    return "x=" + show(xl) + " again x=" + show(x2);
}

// ---------------------------------------------------------------- block value types (static_matrix<double,2,2>)
// bsolve <k=v ...> -- <b> A parts f x0 repeat : the same make_solver< mpi::amg<...>, runtime solver > at
//   Backend = builtin<static_matrix<double,2,2>>, rhs entries static_matrix<double,2,1>
// (recording<runtime coarsening>, runtime relaxation, skyline_lu<block>, merge).  A: block crs (nrows ncols (k (col q^4)*k)*nrows),
// parts: partition of the BLOCK rows, f / x0: n*b numbers.  Report as for `solve`: it / res / bits (twice), the rank's slice of x
// (flattened), and the strips of A, P, R, A_c of every level as BLOCK matrices {n m | c:v,v,v,v ...} (sorted by column).
// Block products do not commute: the distributed Galerkin product R (A P) with smoothed aggregation depends on the operand
// order inside mpi::product (local x local, local x remote, remote x rows received from the neighbours).
#include <amgcl/value_type/static_matrix.hpp>
namespace blk {
static const int N = 2;
typedef amgcl::static_matrix<double, N, N> V;
typedef amgcl::static_matrix<double, N, 1> Rh;
typedef amgcl::backend::builtin<V> BBackend;
typedef amgcl::mpi::distributed_matrix<BBackend> BDM;
typedef amgcl::backend::crs<V> BMat;

static std::shared_ptr<BMat> bcrs(Tok &t) {
    long n = t.i(), m = t.i();
    std::vector<ptrdiff_t> ptr(1, 0), col; std::vector<V> vl;
    for (long r = 0; r < n; ++r) {
        long k = t.i();
        for (long e = 0; e < k; ++e) { col.push_back(t.i()); V v; for (int c = 0; c < N * N; ++c) v(c) = t.d(); vl.push_back(v); }
        ptr.push_back((ptrdiff_t)col.size());
    }
    auto A = std::make_shared<BMat>();
    A->set_size(n, m, false);
    A->ptr[0] = 0;
    for (long r = 0; r < n; ++r) A->ptr[r+1] = ptr[r+1];
    A->set_nonzeros(col.size(), true);
    for (size_t e = 0; e < col.size(); ++e) { A->col[e] = col[e]; A->val[e] = vl[e]; }
    return A;
}
static std::vector<Rh> bvec(Tok &t) {
    long n = t.i(); if (n % N) throw std::runtime_error("block vector length");
    std::vector<Rh> v(n / N);
    for (long i = 0; i < n / N; ++i) for (int k = 0; k < N; ++k) v[i](k) = t.d();
    return v;
}
static std::string show_blk(const V &v) {
    std::ostringstream os; for (int k = 0; k < N * N; ++k) { if (k) os << ","; os << show((double)v(k)); } return os.str();   // ';' separates the ranks
}
static std::string show_bvec(const std::vector<Rh> &v) {
    std::ostringstream os; os << "[";
    for (size_t i = 0; i < v.size(); ++i) for (int k = 0; k < N; ++k) { if (i || k) os << " "; os << show((double)v[i](k)); }
    os << "]"; return os.str();
}
static std::shared_ptr<BDM> dist(const BMat &A, const Parts &p) {
    if (p.total != (long)A.nrows || p.total != (long)A.ncols) throw std::runtime_error("partition does not cover the matrix");
    long rb = p.b(world.rank), re = p.e(world.rank);
    BMat S; S.set_size(re - rb, A.ncols, false); S.ptr[0] = 0;
    for (long i = rb; i < re; ++i) S.ptr[i - rb + 1] = S.ptr[i - rb] + (A.ptr[i+1] - A.ptr[i]);
    S.set_nonzeros(S.ptr[re - rb], true);
    for (long i = rb, h = 0; i < re; ++i)
        for (ptrdiff_t j = A.ptr[i]; j < A.ptr[i+1]; ++j, ++h) { S.col[h] = A.col[j]; S.val[h] = A.val[j]; }
    return std::make_shared<BDM>(world, S, p.n(world.rank));
}
// strip with global columns, entries sorted by (column, printed block)
static std::string show_strip(const BDM &A) {
    if (!A.local() || !A.remote()) return "{gone}";
    auto &L = *A.local(); auto &R = *A.remote();
    long n = A.loc_rows(), shift = A.loc_col_shift(), gc = A.glob_cols();
    std::ostringstream os; os << "{" << n << " " << gc;
    for (long i = 0; i < n; ++i) {
        os << " |";
        std::vector<std::pair<long, std::string> > es;
        for (ptrdiff_t j = L.ptr[i]; j < L.ptr[i+1]; ++j) es.push_back(std::make_pair((long)L.col[j] + shift, show_blk(L.val[j])));
        for (ptrdiff_t j = R.ptr[i]; j < R.ptr[i+1]; ++j) {
            long c = R.col[j];
            if (c < 0 || c >= gc || (c >= shift && c < shift + (long)L.ncols)) return "BADDM remote-col";
            es.push_back(std::make_pair(c, show_blk(R.val[j]))); }
        std::sort(es.begin(), es.end());
        for (auto &e : es) os << " " << e.first << ":" << e.second;
    }
    os << "}"; return os.str();
}
template <class C>
struct recording {
    typedef typename C::params params;
    C base;
    recording(const params &prm = params()) : base(prm) {}
    std::tuple< std::shared_ptr<BDM>, std::shared_ptr<BDM> >
    transfer_operators(const BDM &A) {
        std::string a = show_strip(A);
        std::string tent, conn;
        if (auto *ap = sa_aggr_params(base)) if (ap->nullspace.cols == 0) {
            typename amgcl::mpi::coarsening::pmis<BBackend>::params cp = *ap;
            amgcl::mpi::coarsening::pmis<BBackend> aggr(A, cp);
            tent = show_strip(*aggr.p_tent); conn = ::show_strip(*aggr.conn, true);
        }
        auto PR = base.transfer_operators(A);
        level_log().push_back("A" + a);
        if (!tent.empty()) { level_log().push_back("T" + tent); level_log().push_back("S" + conn); }
        level_log().push_back("P" + show_strip(*std::get<0>(PR)));
        level_log().push_back("R" + show_strip(*std::get<1>(PR)));
        return PR;
    }
    std::shared_ptr<BDM> coarse_operator(const BDM &A, const BDM &P, const BDM &R) const {
        auto Ac = base.coarse_operator(A, P, R);
        level_log().push_back("C" + show_strip(*Ac));
        return Ac;
    }
};
template <class C> unsigned block_size(const recording<C> &c) { return block_size(c.base); }

typedef amgcl::runtime::mpi::solver::wrapper<BBackend> BSolver;
typedef amgcl::mpi::amg<BBackend,
        recording< amgcl::runtime::mpi::coarsening::wrapper<BBackend> >,
        amgcl::runtime::mpi::relaxation::wrapper<BBackend>,
        amgcl::mpi::direct::skyline_lu<V>,
        amgcl::mpi::partition::merge<BBackend> > BAMG;
} // namespace blk

MOP(bsolve) {
    std::string cls; ptree prm = config(t, cls);
    long b = t.i(); if (b != blk::N) return "UNSUPPORTED-BLOCK-SIZE";
    auto A = blk::bcrs(t); Parts p = parts(t);
    std::vector<blk::Rh> f = blk::bvec(t), x0 = blk::bvec(t); long repeat = t.i();
    if ((long)f.size() != p.total || (long)x0.size() != p.total) throw std::runtime_error("vector size");
    std::vector<blk::Rh> fl(f.begin() + p.b(world.rank), f.begin() + p.e(world.rank)), xl(x0.begin() + p.b(world.rank), x0.begin() + p.e(world.rank));
    auto D = blk::dist(*A, p);
    level_log().clear();
    quiet_cout q;
    if (cls != "amg") throw std::invalid_argument("precond.class");
    amgcl::mpi::make_solver<blk::BAMG, blk::BSolver> solve(world, D, prm);
    size_t it = 0; double res = 0;
    std::ostringstream os;
    for (int k = 0; k < (int)repeat; ++k) {
        if (k) { blk::Rh z; for (int c = 0; c < blk::N; ++c) z(c) = 0.0; std::fill(xl.begin(), xl.end(), z); }
        std::tie(it, res) = solve(fl, xl);
        os << (k ? " again " : "") << "it=" << it << " res=" << show(res) << " bits=" << bits(res);
    }
    os << " x=" << blk::show_bvec(xl) << " L " << level_log().size();
    for (auto &s : level_log()) os << " " << s;
    return os.str();
}

// bdirect <b> A parts f : distributed direct solver on a block system (consolidation of block rows / rhs blocks on the master rank)
MOP(bdirect) {
    long b = t.i(); if (b != blk::N) return "UNSUPPORTED-BLOCK-SIZE";
    auto A = blk::bcrs(t); Parts p = parts(t); std::vector<blk::Rh> f = blk::bvec(t);
    if ((long)f.size() != p.total) throw std::runtime_error("vector size");
    std::vector<blk::Rh> fl(f.begin() + p.b(world.rank), f.begin() + p.e(world.rank));
    blk::Rh nanv; for (int c = 0; c < blk::N; ++c) nanv(c) = std::numeric_limits<double>::quiet_NaN();
    std::vector<blk::Rh> xl(fl.size(), nanv), x2(fl.size(), nanv);
    auto D = blk::dist(*A, p);
    amgcl::mpi::direct::skyline_lu<blk::V> S(world, *D);
    S(fl, xl);
    S(fl, x2);                                   // the solver object is reusable
    return "x=" + blk::show_bvec(xl) + " again x=" + blk::show_bvec(x2);
}

// ---------------------------------------------------------------- distributed smoothed aggregation on its own
// sa  <eps_strong=q relax=q esr=0|1 levels=k> -- A parts
// bsa <eps_strong=q relax=q levels=k> -- <b> A(block crs) parts
//   amgcl::mpi::coarsening::smoothed_aggregation<Backend> itself: ONE coarsening object, transfer_operators called `levels`
//   times on the same distributed matrix (the way mpi::amg uses the object level after level: eps_strong is halved inside
//   every call).  Before every call pmis<Backend> is run on a copy of the aggregation parameters (= what the call computes
//   inside).  Per call every rank reports  na=<its aggregates> T<strip of P_tent> S<strength pattern> P<strip> R<strip>.
template <class B, class Show>
static std::string run_sa(const amgcl::mpi::distributed_matrix<B> &D, ptree &cfg, Show show_m) {
    typedef amgcl::mpi::coarsening::smoothed_aggregation<B> SA;
    typedef amgcl::mpi::coarsening::pmis<B> PMIS;
    typename SA::params prm;
    prm.aggr.eps_strong = (double)vq::parse(cfg.get<std::string>("eps_strong", "2/25"));
    prm.relax = (double)vq::parse(cfg.get<std::string>("relax", "1"));
    prm.estimate_spectral_radius = cfg.get<int>("esr", 0) != 0;
    prm.power_iters = 0;
    int levels = cfg.get<int>("levels", 1);
    quiet_cout q;
    SA sa(prm);
    std::ostringstream os;
    for (int l = 0; l < levels; ++l) {
        {
            typename PMIS::params cp = sa.prm.aggr;
            PMIS aggr(D, cp);
            os << (l ? " " : "") << "na=" << aggr.p_tent->local()->ncols << " T" << show_m(*aggr.p_tent) << " S" << show_strip(*aggr.conn, true);
        }
        auto PR = sa.transfer_operators(D);
        os << " P" << show_m(*std::get<0>(PR)) << " R" << show_m(*std::get<1>(PR));
    }
    return os.str();
}
struct ShowScalar { std::string operator()(const DM &M) const { return show_strip(M); } };
struct ShowBlock  { std::string operator()(const blk::BDM &M) const { return blk::show_strip(M); } };
MOP(sa) {
    std::string cls; ptree cfg = config(t, cls);
    auto A = t.crsT<double>(); Parts p = parts(t);
    auto D = dist(*A, p, p);
    return run_sa<Backend>(*D, cfg, ShowScalar());
}
MOP(bsa) {
    std::string cls; ptree cfg = config(t, cls);
    long b = t.i(); if (b != blk::N) return "UNSUPPORTED-BLOCK-SIZE";
    auto A = blk::bcrs(t); Parts p = parts(t);
    auto D = blk::dist(*A, p);
    return run_sa<blk::BBackend>(*D, cfg, ShowBlock());
}

// ---------------------------------------------------------------- the smoothers under MPI, on their own
// relax  <type=T k=v ...> -- A parts f x
// brelax <type=T k=v ...> -- <b> A(block crs) parts f x
//   amgcl::runtime::mpi::relaxation::wrapper<Backend> built through the property-tree interface exactly as mpi::amg and
//   mpi::relaxation::as_preconditioner build it: on the distributed matrix BEFORE move_to_backend, applied afterwards.
//   ONE object; every rank reports, each started from ITS slice of x:
//     pre=  x after apply_pre(A, f, x, tmp)      post=  x after apply_post(A, f, x, tmp)
//     apply= x after apply(A, f, x)              ones=  x after apply(A, 1, x)   (for spai0 / damped_jacobi: the
//                                                        constructor's vector M / dia itself)
//     seq=  x after apply_pre followed by apply_post on the same vector (the object and tmp are reused)
template <class W, class DMat, class Vec>
static std::string run_relax(W &S, DMat &D, const Vec &fl, const Vec &xl, const Vec &ones, std::string (*shw)(const Vec&)) {
    std::ostringstream os;
    Vec tmp(fl.size());
    for (auto &v : tmp) v = amgcl::math::zero<typename Vec::value_type>();
    { Vec x = xl; S.apply_pre(D, fl, x, tmp);  os << "pre=" << shw(x); }
    { Vec x = xl; S.apply_post(D, fl, x, tmp); os << " post=" << shw(x); }
    { Vec x = xl; S.apply(D, fl, x);           os << " apply=" << shw(x); }
    { Vec x = xl; S.apply(D, ones, x);         os << " ones=" << shw(x); }
    { Vec x = xl; S.apply_pre(D, fl, x, tmp); S.apply_post(D, fl, x, tmp); os << " seq=" << shw(x); }
    return os.str();
}
static std::string show_dvec(const std::vector<double> &v) { return show(v); }
MOP(relax) {
    std::string cls; ptree prm = config(t, cls);
    auto A = t.crsT<double>(); Parts p = parts(t);
    std::vector<double> f = t.vecT<double>(), x0 = t.vecT<double>();
    std::vector<double> fl = slice(f, p), xl = slice(x0, p), ones(fl.size(), 1.0);
    auto D = dist(*A, p, p);
    quiet_cout q;
    amgcl::runtime::mpi::relaxation::wrapper<Backend> S(*D, prm);
    D->move_to_backend();
    return run_relax(S, *D, fl, xl, ones, show_dvec);
}
MOP(brelax) {
    std::string cls; ptree prm = config(t, cls);
    long b = t.i(); if (b != blk::N) return "UNSUPPORTED-BLOCK-SIZE";
    auto A = blk::bcrs(t); Parts p = parts(t);
    std::vector<blk::Rh> f = blk::bvec(t), x0 = blk::bvec(t);
    if ((long)f.size() != p.total || (long)x0.size() != p.total) throw std::runtime_error("vector size");
    std::vector<blk::Rh> fl(f.begin() + p.b(world.rank), f.begin() + p.e(world.rank)), xl(x0.begin() + p.b(world.rank), x0.begin() + p.e(world.rank));
    blk::Rh one; for (int c = 0; c < blk::N; ++c) one(c) = 1.0;
    std::vector<blk::Rh> ones(fl.size(), one);
    auto D = blk::dist(*A, p);
    quiet_cout q;
    amgcl::runtime::mpi::relaxation::wrapper<blk::BBackend> S(*D, prm);
    D->move_to_backend();
    return run_relax(S, *D, fl, xl, ones, blk::show_bvec);
}

// ---------------------------------------------------------------- main loop
int main(int argc, char **argv) {
    MPI_Init(&argc, &argv);
    {
        world = amgcl::mpi::communicator(MPI_COMM_WORLD);
        for (;;) {
            std::string line; long len = -1;
            if (world.rank == 0) { if (std::getline(std::cin, line)) len = (long)line.size(); }
            MPI_Bcast(&len, 1, MPI_LONG, 0, world);
            if (len < 0) break;
            line.resize(len);
            if (len) MPI_Bcast(&line[0], (int)len, MPI_CHAR, 0, world);
            if (line.empty() || line[0] == '#') continue;
            Tok t(line);
            std::string id = t.s(), op = t.s(), out;
            auto it = ops().find(op);
            if (it == ops().end()) out = "UNSUPPORTED";
            else {
                try { out = it->second(t); }
                catch (const std::exception &e) {
                    out = std::string("EXC ") + vq::exc_kind(e) + " " + e.what();
                    if (std::getenv("VQ_DEBUG")) std::cerr << "rank " << world.rank << ": " << out << std::endl;   // visible also when the other ranks hang
                }
            }
            for (auto &c : out) if (c == ';' || c == '\n') c = ',';
            int mylen = (int)out.size();
            std::vector<int> lens(world.size), displ(world.size + 1, 0);
            MPI_Gather(&mylen, 1, MPI_INT, lens.data(), 1, MPI_INT, 0, world);
            std::string all;
            if (world.rank == 0) { for (int r = 0; r < world.size; ++r) displ[r+1] = displ[r] + lens[r]; all.resize(displ[world.size]); }
            MPI_Gatherv(const_cast<char*>(out.data()), mylen, MPI_CHAR, world.rank == 0 ? &all[0] : 0, lens.data(), displ.data(), MPI_CHAR, 0, world);
            if (world.rank == 0) {
                std::cout << id << " " << op << " ";
                for (int r = 0; r < world.size; ++r) { if (r) std::cout << " ; "; std::cout << all.substr(displ[r], lens[r]); }
                std::cout << " $" << std::endl;      // end-of-record mark: a line cut short by a dying launcher is detectable
            }
        }
    }
    MPI_Finalize();
    return 0;
}
