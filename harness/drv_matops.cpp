// drv_matops.cpp -- C08: sparse matrix kernels of the builtin backend on the real
// templates, instantiated with the exact rational vq::Q (and with std::complex<double>
// on small integers -- exact -- where the adjoint matters).
#include "vq_io.hpp"
#include <amgcl/backend/interface.hpp>
#include <amgcl/detail/spgemm.hpp>
#include <amgcl/adapter/crs_tuple.hpp>
#include <amgcl/value_type/complex.hpp>
#include <amgcl/value_type/static_matrix.hpp>
#include <amgcl/adapter/block_matrix.hpp>
#include <complex>
#include <tuple>
#ifdef _OPENMP
#include <omp.h>
#endif
using vq::Q; using vq::Tok; using vq::show; using vq::Crs; using vq::show_crs;
namespace be = amgcl::backend;

static int max_threads() {
#ifdef _OPENMP
    return omp_get_max_threads();
#else
    return 1;
#endif
}
// the case line names the thread count it was generated for; the run must really use it
static void need_nt(long nt) { if (nt != max_threads()) throw std::logic_error("nt-mismatch"); }

VQ_OP(transpose) { auto A = t.crs(); auto T = be::transpose(*A); return show_crs(*T); }
VQ_OP(saad) { auto A = t.crs(); auto B = t.crs(); bool s = t.i() != 0;
    Crs C; be::spgemm_saad(*A, *B, C, s); return show_crs(C); }
VQ_OP(rmerge) { auto A = t.crs(); auto B = t.crs();
    Crs C; be::spgemm_rmerge(*A, *B, C); return show_crs(C); }
VQ_OP(product) { long nt = t.i(); auto A = t.crs(); auto B = t.crs(); bool s = t.i() != 0;
    need_nt(nt); auto C = be::product(*A, *B, s); return show_crs(*C); }
VQ_OP(sum) { Q al = t.q(); auto A = t.crs(); Q bt = t.q(); auto B = t.crs(); bool s = t.i() != 0;
    auto C = be::sum(al, *A, bt, *B, s); return show_crs(*C); }
VQ_OP(scale) { auto A = t.crs(); Q s = t.q(); be::scale(*A, s); return show_crs(*A); }
VQ_OP(sort_rows) { auto A = t.crs(); be::sort_rows(*A); return show_crs(*A); }
VQ_OP(diagonal) { auto A = t.crs(); bool inv = t.i() != 0;
    auto d = be::diagonal(*A, inv);
    std::vector<Q> v(d->size()); for (size_t i = 0; i < v.size(); ++i) v[i] = (*d)[i];
    return show(v); }
// the same in binary64 (power-of-two data: every operation exact): tiny but non-zero diagonal entries must be inverted, only an
// exactly zero entry is replaced by the identity
VQ_OP(diagonal_d) { auto A = t.crsT<double>(); bool inv = t.i() != 0;
    auto d = be::diagonal(*A, inv);
    std::vector<double> v(d->size()); for (size_t i = 0; i < v.size(); ++i) v[i] = (*d)[i];
    return show(v); }
VQ_OP(pointwise) { auto A = t.crs(); long bs = t.i();
    auto P = be::pointwise_matrix(*A, (unsigned)bs); return show_crs(*P); }
VQ_OP(specrad) { bool scale = t.i() != 0; long nt = t.i(); auto A = t.crs(); need_nt(nt);
    Q r = scale ? be::spectral_radius<true>(*A, 0) : be::spectral_radius<false>(*A, 0);
    return show(r); }
// power method; one thread only (the start vector is std::mt19937(tid) per thread)
VQ_OP(specrad_power) { bool scale = t.i() != 0; long it = t.i(); auto A = t.crs(); need_nt(1);
    Q r = scale ? be::spectral_radius<true>(*A, (int)it) : be::spectral_radius<false>(*A, (int)it);
    return show(r); }
// the random start vector spectral_radius draws on thread 0 (same generator, same distribution)
VQ_OP(pm_start) { long n = t.i();
    std::mt19937 rng(0); std::uniform_real_distribution<Q> rnd(-1, 1);
    std::vector<Q> v(n); for (long i = 0; i < n; ++i) v[i] = amgcl::math::constant<Q>(rnd(rng));
    return show(v); }

// constructors
VQ_OP(ranges) { long n = t.i(), m = t.i(); auto p = t.ivec(); auto c = t.ivec(); auto v = t.vec();
    std::vector<ptrdiff_t> pp(p.begin(), p.end()), cc(c.begin(), c.end());
    Crs C(n, m, pp, cc, v); return show_crs(C); }
static void flat(const Crs &A, std::vector<ptrdiff_t> &p, std::vector<ptrdiff_t> &c, std::vector<Q> &v) {
    p.assign(A.ptr, A.ptr + A.nrows + 1); c.assign(A.col, A.col + A.nnz); v.assign(A.val, A.val + A.nnz);
}
VQ_OP(copy_ranges) { auto A = t.crs(); std::vector<ptrdiff_t> p, c; std::vector<Q> v; flat(*A, p, c, v);
    Crs C(A->nrows, A->ncols, p, c, v); return show_crs(C); }
VQ_OP(copy_tuple) { auto A = t.crs(); std::vector<ptrdiff_t> p, c; std::vector<Q> v; flat(*A, p, c, v);
    if (A->nrows != A->ncols) throw std::logic_error("tuple adapter is square");
    Crs C(std::tie(A->nrows, p, c, v)); return show_crs(C); }
VQ_OP(copy_crs) { auto A = t.crs(); Crs C(*A); return show_crs(C); }
VQ_OP(copy_assign) { auto A = t.crs(); auto B = t.crs(); *B = *A; return show_crs(*B); }
// assignment into a non-owning view of B's arrays: the view gets a copy of A, B stays intact
VQ_OP(copy_assign_view) { auto A = t.crs(); auto B = t.crs();
    std::string r;
    { Crs V; V.nrows = B->nrows; V.ncols = B->ncols; V.nnz = B->nnz; V.ptr = B->ptr; V.col = B->col; V.val = B->val;
      V.own_data = false; V = *A; r = show_crs(V); }
    return r + " " + show_crs(*B); }
// converting constructor: crs<Q, long, long> from crs<double, int, int> (values exact dyadics)
VQ_OP(copy_convert) {
    auto A = t.crsT<double>();
    amgcl::backend::crs<double, int, int> Ai(*A);
    Crs C(Ai); return show_crs(C); }

// adapter::block_matrix: scalar CRS -> crs<static_matrix<Q,b,b>> through the row-iterator constructor;
// printed {np mp | J:v,v,...(row-major) ...} in stored order; unblock_matrix of the result
template <int B> struct BlkOps {
    typedef amgcl::static_matrix<Q, B, B> blk;
    typedef amgcl::backend::crs<blk, ptrdiff_t, ptrdiff_t> BCrs;
    static std::string show_b(const BCrs &M) {
        std::ostringstream os; long n = (long)M.nrows, m = (long)M.ncols;
        os << "{" << n << " " << m;
        if ((n > 0 || M.ptr) && M.ptr[0] != 0) return "BADCRS ptr0";
        for (long i = 0; i < n; ++i) {
            if (M.ptr[i+1] < M.ptr[i]) return "BADCRS nonmonotone-ptr";
            os << " |";
            for (ptrdiff_t j = M.ptr[i]; j < M.ptr[i+1]; ++j) {
                if (M.col[j] < 0 || (long)M.col[j] >= m) return "BADCRS col-out-of-range";
                os << " " << M.col[j] << ":";
                for (int k = 0; k < B; ++k) for (int l = 0; l < B; ++l) { if (k || l) os << ","; os << show(M.val[j](k, l)); }
            }
        }
        if (n > 0 && (size_t)M.ptr[n] != M.nnz) return "BADCRS nnz";
        os << "}"; return os.str();
    }
    static std::string block(const Crs &A)   { BCrs M(amgcl::adapter::block_matrix<blk>(A)); return show_b(M); }
    static std::string unblock(const Crs &A) { BCrs M(amgcl::adapter::block_matrix<blk>(A));
        auto U = amgcl::adapter::unblock_matrix(M); return show_crs(*U); }
};
VQ_OP(block) { long b = t.i(); auto A = t.crs();
    switch (b) { case 2: return BlkOps<2>::block(*A); case 3: return BlkOps<3>::block(*A); case 4: return BlkOps<4>::block(*A); }
    throw std::logic_error("block size"); }
VQ_OP(unblock) { long b = t.i(); auto A = t.crs();
    switch (b) { case 2: return BlkOps<2>::unblock(*A); case 3: return BlkOps<3>::unblock(*A); case 4: return BlkOps<4>::unblock(*A); }
    throw std::logic_error("block size"); }

// complex values: tokens "re im", printed "re,im"
typedef std::complex<double> Cx;
typedef amgcl::backend::crs<Cx, ptrdiff_t, ptrdiff_t> CCrs;
static Cx tcx(Tok &t) { double re = t.d(); double im = t.d(); return Cx(re, im); }
static std::shared_ptr<CCrs> tccrs(Tok &t) {
    long n = t.i(), m = t.i();
    std::vector<ptrdiff_t> ptr(1, 0), col; std::vector<Cx> vl;
    for (long r = 0; r < n; ++r) { long k = t.i();
        for (long e = 0; e < k; ++e) { col.push_back(t.i()); vl.push_back(tcx(t)); }
        ptr.push_back((ptrdiff_t)col.size()); }
    return std::make_shared<CCrs>(n, m, ptr, col, vl);
}
static std::string show_ccrs(const CCrs &A) {
    std::ostringstream os; long n = (long)A.nrows, m = (long)A.ncols;
    os << "{" << n << " " << m;
    if ((n > 0 || A.ptr) && A.ptr[0] != 0) return "BADCRS ptr0";
    for (long i = 0; i < n; ++i) {
        if (A.ptr[i+1] < A.ptr[i]) return "BADCRS nonmonotone-ptr";
        os << " |";
        for (ptrdiff_t j = A.ptr[i]; j < A.ptr[i+1]; ++j) {
            if (A.col[j] < 0 || (long)A.col[j] >= m) return "BADCRS col-out-of-range";
            os << " " << A.col[j] << ":" << show(A.val[j].real()) << "," << show(A.val[j].imag());
        }
    }
    if (n > 0 && (size_t)A.ptr[n] != A.nnz) return "BADCRS nnz";
    os << "}"; return os.str();
}
static std::string op_ctranspose(Tok &t) { auto A = tccrs(t); auto T = be::transpose(*A); return show_ccrs(*T); }
static std::string op_csaad(Tok &t) { auto A = tccrs(t); auto B = tccrs(t); bool s = t.i() != 0;
    CCrs C; be::spgemm_saad(*A, *B, C, s); return show_ccrs(C); }
static std::string op_csum(Tok &t) { Cx al = tcx(t); auto A = tccrs(t); Cx bt = tcx(t); auto B = tccrs(t); bool s = t.i() != 0;
    auto C = be::sum(al, *A, bt, *B, s); return show_ccrs(*C); }

int main() {
    vq::registry()["c.transpose"] = op_ctranspose;
    vq::registry()["c.saad"] = op_csaad;
    vq::registry()["c.sum"] = op_csum;
    return vq::driver_main();
}
