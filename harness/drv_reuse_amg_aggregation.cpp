// C15 (objects): amg / make_solver<amg, S> call histories, one object vs fresh objects (reuse_amg.hh)
#define VQ_COARSENING amgcl::coarsening::aggregation
#define VQ_COARSENING_NAME "aggregation"
#include "reuse_amg.hh"
