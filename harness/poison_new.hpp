// poison_new.hpp -- harness-side poisoning allocator (property C10).  When the driver is
// compiled with -DVQ_POISON every block obtained from operator new / new[] is filled with
// the byte given by the environment variable VQ_POISON_FILL (two hex digits, default 00;
// "rand" = pseudo-random bytes from a fixed LCG), so that reads of never-written heap memory
// see different values in different runs of the same case.  Must be included first.
#ifndef VQ_POISON_NEW_HPP
#define VQ_POISON_NEW_HPP
#ifdef VQ_POISON
#include <cstdlib>
#include <cstring>
#include <new>
namespace vq_poison {
inline int fill_byte() {
    static int b = -2;
    if (b == -2) {
        const char *e = std::getenv("VQ_POISON_FILL");
        if (!e) b = 0; else if (std::strcmp(e, "rand") == 0) b = -1; else b = (int)std::strtol(e, 0, 16) & 0xff;
    }
    return b;
}
inline void* alloc(std::size_t n) {
    void *p = std::malloc(n ? n : 1);
    if (!p) throw std::bad_alloc();
    int b = fill_byte();
    if (b >= 0) std::memset(p, b, n);
    else { static unsigned long long s = 88172645463325252ULL; unsigned char *q = (unsigned char*)p;
           for (std::size_t i = 0; i < n; ++i) { s = s * 6364136223846793005ULL + 1442695040888963407ULL; q[i] = (unsigned char)(s >> 56); } }
    return p;
}
}
void* operator new(std::size_t n) { return vq_poison::alloc(n); }
void* operator new[](std::size_t n) { return vq_poison::alloc(n); }
void operator delete(void *p) noexcept { std::free(p); }
void operator delete[](void *p) noexcept { std::free(p); }
void operator delete(void *p, std::size_t) noexcept { std::free(p); }
void operator delete[](void *p, std::size_t) noexcept { std::free(p); }
#endif
#endif
