// drv_relaxfill.cpp -- C10: "larger fill under ASan + poison".  Every relaxation constructor and sweeps of the
// constructed object (relaxation<builtin<double>>: damped_jacobi, spai0, spai1, gauss_seidel, ilu0, iluk k = 1..4,
// ilup k = 1..2, ilut p = 2|4, chebyshev) on matrices with n = 30..80 and 6..27 entries per row (2-D 9-point, 3-D
// 7-point / 27-point stencils, random sparse SPD): the working rows / fill-in of the incomplete factorisations get
// well beyond the initial capacities of their containers (the C10 amg / ub runs use small matrices and default k).
//
//   rf <relax> <p> A rhs x0   -> bit patterns of x after apply_pre, after apply_post on top of it, and of apply(rhs)
//                                <p>: k of iluk / ilup, p of ilut, ignored otherwise
// Two builds (tools/props/C10.py):
//   relaxfill@asan    AddressSanitizer + UBSan, -fno-sanitize-recover: any report kills the driver (CRASH = violation)
//   relaxfill@poison  the allocator below: every block obtained from operator new / new[] is filled with the pattern
//                     VQ_POISON_FILL (00 / FF / AA / rand) and every RELEASED block is overwritten with the same pattern
//                     before it goes back to malloc, so that a read through a dangling pointer or reference (e.g. a
//                     reference into a std::vector kept across a reallocating push_back) sees different values under
//                     different fills, like a read of never-written memory.  The results must be bitwise identical
//                     under the four fills.  (harness/poison_new.hpp fills on allocation only; glibc keeps the old
//                     bytes of a freed chunk except for the first 16, so stale reads are invisible there.)
#ifdef VQ_POISON

#include <cstdlib>
#include <cstring>
#include <new>
namespace vq_poison_free {
static const std::size_t HDR = 32;     // size header in front of the user block, keeps 16-byte alignment
inline int fill_byte() {
    static int b = -2;
    if (b == -2) {
        const char *e = std::getenv("VQ_POISON_FILL");
        if (!e) b = 0; else if (std::strcmp(e, "rand") == 0) b = -1; else b = (int)std::strtol(e, 0, 16) & 0xff;
    }
    return b;
}
inline void fill(void *p, std::size_t n) {
    int b = fill_byte();
    if (b >= 0) std::memset(p, b, n);
    else { static unsigned long long s = 88172645463325252ULL; unsigned char *q = (unsigned char*)p;
           for (std::size_t i = 0; i < n; ++i) { s = s * 6364136223846793005ULL + 1442695040888963407ULL; q[i] = (unsigned char)(s >> 56); } }
}
inline void* alloc(std::size_t n) {
    unsigned char *q = (unsigned char*)std::malloc(n + HDR);
    if (!q) throw std::bad_alloc();
    std::memset(q, 0, HDR);
    std::memcpy(q, &n, sizeof n);
    fill(q + HDR, n);
    return q + HDR;
}
inline void release(void *p) {
    if (!p) return;
    unsigned char *q = (unsigned char*)p - HDR;
    std::size_t n; std::memcpy(&n, q, sizeof n);
    fill(p, n);
    std::free(q);
}
}
void* operator new(std::size_t n) { return vq_poison_free::alloc(n); }
void* operator new[](std::size_t n) { return vq_poison_free::alloc(n); }
void* operator new(std::size_t n, const std::nothrow_t&) noexcept { try { return vq_poison_free::alloc(n); } catch (...) { return 0; } }
void* operator new[](std::size_t n, const std::nothrow_t&) noexcept { try { return vq_poison_free::alloc(n); } catch (...) { return 0; } }
void operator delete(void *p) noexcept { vq_poison_free::release(p); }
void operator delete[](void *p) noexcept { vq_poison_free::release(p); }
void operator delete(void *p, std::size_t) noexcept { vq_poison_free::release(p); }
void operator delete[](void *p, std::size_t) noexcept { vq_poison_free::release(p); }
void operator delete(void *p, const std::nothrow_t&) noexcept { vq_poison_free::release(p); }
void operator delete[](void *p, const std::nothrow_t&) noexcept { vq_poison_free::release(p); }
#endif
#include "vq_io.hpp"
#include <cstring>
#include <cstdint>
#include <amgcl/backend/builtin.hpp>
#include <amgcl/relaxation/damped_jacobi.hpp>
#include <amgcl/relaxation/spai0.hpp>
#include <amgcl/relaxation/spai1.hpp>
#include <amgcl/relaxation/gauss_seidel.hpp>
#include <amgcl/relaxation/ilu0.hpp>
#include <amgcl/relaxation/iluk.hpp>
#include <amgcl/relaxation/ilup.hpp>
#include <amgcl/relaxation/ilut.hpp>
#include <amgcl/relaxation/chebyshev.hpp>

using vq::Q; using vq::Tok;
namespace be = amgcl::backend;
namespace rx = amgcl::relaxation;
typedef be::builtin<double> B;
typedef be::numa_vector<double> NV;

static std::string bits(const NV &v) {
    std::ostringstream os; os << "[";
    for (size_t i = 0; i < v.size(); ++i) {
        uint64_t u; double d = v[i]; std::memcpy(&u, &d, 8);
        char buf[20]; std::snprintf(buf, sizeof buf, "%016llx", (unsigned long long)u);
        if (i) os << " "; os << buf;
    }
    os << "]"; return os.str();
}

template <class R> static void set_p(typename R::params &, double) {}
template <> void set_p< rx::iluk<B> >(rx::iluk<B>::params &p, double v) { p.k = (int)v; }
template <> void set_p< rx::ilup<B> >(rx::ilup<B>::params &p, double v) { p.k = (int)v; }
template <> void set_p< rx::ilut<B> >(rx::ilut<B>::params &p, double v) { p.p = v; }

template <class R>
static std::string run_relax(Tok &t) {
    double pv = t.d();
    auto A = t.crsT<double>(); auto rhs = t.vecT<double>(); auto x0 = t.vecT<double>();
    size_t n = A->nrows;
    typename R::params p; set_p<R>(p, pv);
    B::params bprm;
    R relax(*A, p, bprm);                       // the constructor: factorisation / approximate inverse / schedule
    NV f(rhs), x(x0), tmp(n), y(n);
    relax.apply_pre(*A, f, x, tmp);
    std::string out = bits(x);
    relax.apply_post(*A, f, x, tmp);
    out += " " + bits(x);
    relax.apply(*A, f, y);
    out += " " + bits(y);
    return out;
}
VQ_OP(rf) {
    std::string r = t.s();
    try {
        if (r == "damped_jacobi") return run_relax< rx::damped_jacobi<B> >(t);
        if (r == "spai0") return run_relax< rx::spai0<B> >(t);
        if (r == "spai1") return run_relax< rx::spai1<B> >(t);
        if (r == "gauss_seidel") return run_relax< rx::gauss_seidel<B> >(t);
        if (r == "ilu0") return run_relax< rx::ilu0<B> >(t);
        if (r == "iluk") return run_relax< rx::iluk<B> >(t);
        if (r == "ilup") return run_relax< rx::ilup<B> >(t);
        if (r == "ilut") return run_relax< rx::ilut<B> >(t);
        if (r == "chebyshev") return run_relax< rx::chebyshev<B> >(t);
    } catch (const std::runtime_error &e) { return std::string("EXC runtime_error"); }
    return "UNSUPPORTED";
}

int main() { return vq::driver_main(); }
