// double-instantiated amg driver (C10: poisoned heap, sanitizers; C02 float cross-check)
#define VQ_VALUE double
#define VQ_COARSENING amgcl::coarsening::smoothed_aggr_emin
#define VQ_COARSENING_NAME "smoothed_aggr_emin"
#include "amg_driver.hpp"
