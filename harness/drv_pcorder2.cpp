// drv_pcorder2.cpp -- C17, second half of drv_pcorder.cpp: the composite preconditioners
// (cpr, cpr_drs, schur_pressure_correction) built from a user matrix given as a tuple
// of CRS ranges; apply() on all unit vectors in exact arithmetic.
// Inner components are chosen order-INsensitive (spai0 / amg, which sorts on entry), so
// that any dependence on the listing order is the composite's own.
#include "vq_io.hpp"
#include <amgcl/adapter/crs_tuple.hpp>
#include <amgcl/amg.hpp>
#include <amgcl/make_solver.hpp>
#include <amgcl/solver/preonly.hpp>
#include <amgcl/coarsening/aggregation.hpp>
#include <amgcl/relaxation/as_preconditioner.hpp>
#include <amgcl/relaxation/spai0.hpp>
#include <amgcl/relaxation/damped_jacobi.hpp>
#include <amgcl/preconditioner/cpr.hpp>
#include <amgcl/preconditioner/cpr_drs.hpp>
#include <amgcl/preconditioner/schur_pressure_correction.hpp>
using vq::Q; using vq::Tok; using vq::show;
namespace be = amgcl::backend;
typedef be::builtin<Q> B;

struct Arrays {
    ptrdiff_t n; std::vector<ptrdiff_t> ptr, col; std::vector<Q> val;
    Arrays(Tok &t) {
        n = t.i(); long m = t.i(); if (m != n) throw std::invalid_argument("square");
        ptr.push_back(0);
        for (long r = 0; r < n; ++r) { long k = t.i(); for (long e = 0; e < k; ++e) { col.push_back(t.i()); val.push_back(t.q()); } ptr.push_back(col.size()); }
    }
};
template <class P> static std::string dense_apply(const P &p, long n) {
    std::ostringstream os; os << "{" << n << " " << n;
    for (long i = 0; i < n; ++i) {
        std::vector<Q> e(n, Q(0)), x(n, Q(0)); e[i] = Q(1);
        p.apply(e, x);
        os << " |"; for (long j = 0; j < n; ++j) os << " " << j << ":" << x[j].str();
    }
    os << "}"; return os.str();
}
static std::string slug(const std::exception &e) {
    std::string w = e.what(), o; for (char c : w) o += (isalnum((unsigned char)c) ? c : '_'); return o.substr(0, 60);
}

typedef amgcl::relaxation::as_preconditioner<B, amgcl::relaxation::spai0> Spai0;
typedef amgcl::amg<B, amgcl::coarsening::aggregation, amgcl::relaxation::spai0> Amg;

static std::string pc_body(Tok &t) {
    std::string kind = t.s();
    long bs = t.i();              // block size (cpr) / pressure stride (schur)
    Arrays a(t);
    auto A = std::tie(a.n, a.ptr, a.col, a.val);
    using namespace amgcl;
    if (kind == "cpr") {
        typedef preconditioner::cpr<Amg, Spai0> P;
        P::params prm; prm.block_size = bs; prm.pprecond.coarse_enough = 1000000;
        P p(A, prm); return dense_apply(p, a.n);
    }
    if (kind == "cpr_drs") {
        typedef preconditioner::cpr_drs<Amg, Spai0> P;
        P::params prm; prm.block_size = bs; prm.pprecond.coarse_enough = 1000000;
        P p(A, prm); return dense_apply(p, a.n);
    }
    if (kind == "schur" || kind == "schur_adj2" || kind == "schur_adj0") {
        typedef make_solver<Spai0, solver::preonly<B> > US;
        typedef make_solver<Spai0, solver::preonly<B> > PS;
        typedef preconditioner::schur_pressure_correction<US, PS> P;
        P::params prm; prm.pmask.resize(a.n);
        for (ptrdiff_t i = 0; i < a.n; ++i) prm.pmask[i] = (i % bs == bs - 1);
        prm.adjust_p = (kind == "schur" ? 1 : kind == "schur_adj2" ? 2 : 0);
        prm.approx_schur = true; prm.simplec_dia = false;
        P p(A, prm); return dense_apply(p, a.n);
    }
    if (kind == "schur_amg") {
        typedef make_solver<Amg, solver::preonly<B> > US;
        typedef preconditioner::schur_pressure_correction<US, US> P;
        P::params prm; prm.pmask.resize(a.n);
        for (ptrdiff_t i = 0; i < a.n; ++i) prm.pmask[i] = (i % bs == bs - 1);
        prm.usolver.precond.coarse_enough = 1000000; prm.psolver.precond.coarse_enough = 1000000;
        prm.approx_schur = true;
        P p(A, prm); return dense_apply(p, a.n);
    }
    throw std::invalid_argument("kind");
}
VQ_OP(pc2) {
    try { return pc_body(t); }
    catch (const std::exception &e) { return "EXC " + vq::exc_kind(e) + " " + slug(e); }
}
int main() { return vq::driver_main(); }
