// reuse_amg.hh -- C15 (objects): amg<Backend, Coarsening, Relax> and make_solver<amg<...>, Solver> under scripted
// call histories, ONE object vs FRESH objects (see reuse_common.hh).  One TU per coarsening (macro VQ_COARSENING,
// VQ_COARSENING_NAME), all five relaxations x eight solvers x {vq::Q, double} instantiated inside.
//
// op:  [d.]ramg.<coarsening> <relax> <cfg: coarse_enough direct_coarse max_levels npre npost ncycle pre_cycles allow_rebuild>
//                 <cprm: eps_strong relax|- over_interp|- do_trunc eps_trunc> <rprm: damping|-> <solver|none> <side> <prm16>
//                 A <nscript> (command)*
#include "poison_new.hpp"
#include "reuse_common.hh"
#include "vq_access.hpp"
#include <amgcl/amg.hpp>
#include <amgcl/coarsening/aggregation.hpp>
#include <amgcl/coarsening/smoothed_aggregation.hpp>
#include <amgcl/coarsening/smoothed_aggr_emin.hpp>
#include <amgcl/coarsening/ruge_stuben.hpp>
#include <amgcl/relaxation/damped_jacobi.hpp>
#include <amgcl/relaxation/spai0.hpp>
#include <amgcl/relaxation/gauss_seidel.hpp>
#include <amgcl/relaxation/ilu0.hpp>
#include <amgcl/relaxation/chebyshev.hpp>

namespace ru {

struct Cfg {
    long coarse_enough, direct_coarse, max_levels, npre, npost, ncycle, pre_cycles, allow_rebuild;
    std::string eps_strong, relax, over_interp, do_trunc, eps_trunc, damping;
    void read(Tok &t) {
        coarse_enough = t.i(); direct_coarse = t.i(); max_levels = t.i(); npre = t.i(); npost = t.i(); ncycle = t.i();
        pre_cycles = t.i(); allow_rebuild = t.i();
        eps_strong = t.s(); relax = t.s(); over_interp = t.s(); do_trunc = t.s(); eps_trunc = t.s(); damping = t.s();
    }
};
// coarsening parameter setters (overloads pick the fields that exist); float parameters as in amg_driver.hpp
template <class B> void set_cprm(typename amgcl::coarsening::aggregation<B>::params &p, const Cfg &c) {
    p.aggr.eps_strong = (float)(double)vq::parse(c.eps_strong);
    if (c.over_interp != "-") p.over_interp = (float)(double)vq::parse(c.over_interp);
}
template <class B> void set_cprm(typename amgcl::coarsening::smoothed_aggregation<B>::params &p, const Cfg &c) {
    p.aggr.eps_strong = (float)(double)vq::parse(c.eps_strong);
    if (c.relax != "-") p.relax = (float)(double)vq::parse(c.relax);
}
template <class B> void set_cprm(typename amgcl::coarsening::smoothed_aggr_emin<B>::params &p, const Cfg &c) {
    p.aggr.eps_strong = (float)(double)vq::parse(c.eps_strong);
}
template <class B> void set_cprm(typename amgcl::coarsening::ruge_stuben<B>::params &p, const Cfg &c) {
    p.eps_strong = (float)(double)vq::parse(c.eps_strong);
    if (c.do_trunc != "-") p.do_trunc = (c.do_trunc == "1");
    if (c.eps_trunc != "-") p.eps_trunc = (float)(double)vq::parse(c.eps_trunc);
}
template <class V> struct RP {
    typedef be::builtin<V> B;
    template <class P> static void set(P &, const Cfg &, ...) {}
    static void set(typename amgcl::relaxation::damped_jacobi<B>::params &p, const Cfg &c, int) { if (c.damping != "-") p.damping = cv<V>(vq::parse(c.damping)); }
    static void set(typename amgcl::relaxation::gauss_seidel<B>::params &p, const Cfg &, int) { p.serial = true; }
    static void set(typename amgcl::relaxation::ilu0<B>::params &p, const Cfg &c, int) { if (c.damping != "-") p.damping = cv<V>(vq::parse(c.damping)); p.solve.serial = true; }
};

// amg-specific commands
template <class B, template <class> class C, template <class> class R>
struct POps< amgcl::amg<B, C, R> > {
    typedef amgcl::amg<B, C, R> P;
    template <class V> static void cycle(P &p, const std::vector<V> &f, std::vector<V> &x) { p.cycle(f, x); }
    template <class M> static void rebuild(P &p, const M &A) { p.rebuild(A); }
    template <class M> static void update(P &, const M &) { throw unsupported_cmd(); }
    static std::string dump(const P &p) {
        std::ostringstream os;
        const auto &lv = amgcl::verif::access::levels(p);
        os << "D " << lv.size();
        for (const auto &l : lv) {
            if (l.solve) { os << " S "; if (l.A) os << vq::show_crs(*l.A); else os << "-"; }
            else if (l.P) { os << " M " << vq::show_crs(*l.A) << " " << vq::show_crs(*l.P) << " " << vq::show_crs(*l.R); }
            else { os << " L " << vq::show_crs(*l.A); }
        }
        return os.str();
    }
};

template <class V, template <class> class Relax>
std::string run_amg(Tok &t) {
    typedef be::builtin<V> B;
    typedef amgcl::amg<B, VQ_COARSENING, Relax> AMG;
    Cfg c; c.read(t);
    std::string solver = t.s(); Prm sp; sp.left = (t.s() == "left"); sp.read(t);
    Mat<V> A; A.A = t.crsT<V>();
    typename AMG::params prm;
    prm.coarse_enough = c.coarse_enough; prm.direct_coarse = c.direct_coarse != 0;
    prm.max_levels = c.max_levels; prm.npre = c.npre; prm.npost = c.npost; prm.ncycle = c.ncycle;
    prm.pre_cycles = c.pre_cycles; prm.allow_rebuild = c.allow_rebuild != 0;
    set_cprm<B>(prm.coarsening, c);
    RP<V>::set(prm.relax, c, 0);
    auto script = read_script<V>(t);
    return run_history<V>(Factory<V, AMG>::get(solver, A, prm, sp), A.A, script);
}

template <class V> std::string op_amg(Tok &t) {
    std::string r = t.s();
    if (r == "damped_jacobi") return run_amg<V, amgcl::relaxation::damped_jacobi>(t);
    if (r == "spai0")         return run_amg<V, amgcl::relaxation::spai0>(t);
    if (r == "gauss_seidel")  return run_amg<V, amgcl::relaxation::gauss_seidel>(t);
    if (r == "ilu0")          return run_amg<V, amgcl::relaxation::ilu0>(t);
    if (r == "chebyshev")     return run_amg<V, amgcl::relaxation::chebyshev>(t);
    return "UNSUPPORTED";
}
} // namespace ru

#ifndef VQ_REUSE_NO_Q
static vq::Reg reg_ramg_q((std::string("ramg.") + VQ_COARSENING_NAME).c_str(), ru::op_amg<vq::Q>);
#endif
#ifndef VQ_REUSE_NO_D
static vq::Reg reg_ramg_d((std::string("d.ramg.") + VQ_COARSENING_NAME).c_str(), ru::op_amg<double>);
#endif
int main() { return vq::driver_main(); }
