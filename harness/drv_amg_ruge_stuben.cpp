#define VQ_COARSENING amgcl::coarsening::ruge_stuben
#define VQ_COARSENING_NAME "ruge_stuben"
#include "amg_driver.hpp"
