// C02, block value types (b = 3): amg cycle over plain aggregation, five smoothers (amgc_driver.hh)
#define AMGC_B 3
#define AMGC_AGG
#include "amgc_driver.hh"
