// double-instantiated amg driver (C10: poisoned heap, sanitizers; C02 float cross-check)
#define VQ_VALUE double
#define VQ_COARSENING amgcl::coarsening::ruge_stuben
#define VQ_COARSENING_NAME "ruge_stuben"
#include "amg_driver.hpp"
