// drv_adapters_idx.cpp -- C17: index types of user arrays at the edge of their range.
//   idx <itype> <crs>   zero_copy_direct<itype> over user arrays whose COLUMN indices (and column count) lie near
//                       the largest value the type can hold (int: 2^31-1, unsigned: 2^32-1, 64-bit types: the
//                       largest value the model's index type can carry, 2^62-1); the view is observed through
//                       backend::rows/cols/nonzeros, dumped, and copied with the generic constructor into the
//                       library's own crs<Q, ptrdiff_t, ptrdiff_t> (the index-type conversion of
//                       Properties_C17.C17_index_conversion_identity).  No vector of that length exists, so no spmv.
// Model: Adapters.zero_copy_adapter with the same itype (ocaml/adapters/ops_adapters.ml, op idx).
#include "vq_io.hpp"
#include <amgcl/adapter/crs_tuple.hpp>
#include <amgcl/adapter/zero_copy.hpp>
using vq::Q; using vq::Tok; using vq::show;
namespace be = amgcl::backend;

template <class I> static std::string idx_op(Tok &t) {
    long n = t.i(); long long m = std::stoll(t.s());
    std::vector<I> ptr(1, 0), col; std::vector<Q> val;
    for (long r = 0; r < n; ++r) {
        long k = t.i();
        for (long e = 0; e < k; ++e) { long long c = std::stoll(t.s()); col.push_back((I)c); val.push_back(t.q()); }
        ptr.push_back((I)col.size());
    }
    auto A = amgcl::adapter::zero_copy_direct((size_t)n, (size_t)m, ptr.data(), col.data(), val.data());
    std::ostringstream os;
    os << be::rows(*A) << " " << be::cols(*A) << " " << be::nonzeros(*A) << " " << vq::show_crs(*A);
    be::crs<Q> C(*A);
    // a copy that claims rows but holds no row-pointer array cannot be used by any kernel (finding
    // C17-zero_copy-empty-copy-null-ptr): report it instead of dereferencing it
    if (C.nrows > 0 && !C.ptr) os << " BADCRS copy-has-rows-but-null-ptr";
    else os << " " << vq::show_crs(C);
    // the same arrays through the std::tuple adapter's row iterator (square by construction: only the
    // iteration is observed)
    I nn = (I)n;
    auto T = std::tie(nn, ptr, col, val);
    os << " [";
    for (long i = 0; i < n; ++i) for (auto a = be::row_begin(T, i); a; ++a) os << " " << (long long)a.col();
    os << " ]";
    return os.str();
}
VQ_OP(idx) {
    std::string it = t.s();
    try {
        if (it == "int")       return idx_op<int>(t);
        if (it == "long")      return idx_op<long>(t);
        if (it == "unsigned")  return idx_op<unsigned>(t);
        if (it == "size_t")    return idx_op<size_t>(t);
        if (it == "ptrdiff_t") return idx_op<ptrdiff_t>(t);
    } catch (const std::exception &e) { return "EXC " + vq::exc_kind(e); }
    throw std::invalid_argument("itype");
}
int main() { return vq::driver_main(); }
