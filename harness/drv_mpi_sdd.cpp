// drv_mpi_sdd.cpp -- C12: amgcl::mpi::subdomain_deflation (amgcl/mpi/subdomain_deflation.hpp) on the real templates,
// value type double:
//   subdomain_deflation< amgcl::amg<builtin<double>, runtime coarsening, runtime relaxation>   (local preconditioner),
//                        runtime solver with mpi::inner_product, mpi::direct::skyline_lu<double> >
// built through the property-tree interface (params(const ptree&): local.*, isolver.*, num_def_vec, def_vec pointer).
//
// Protocol as in drv_mpi_solve.cpp (helpers copied from there): rank 0 reads case lines and broadcasts them, every rank
// builds its strip, runs the op, the per-rank strings are gathered and printed by rank 0 as  <id> <op> <s_0> ; <s_1> ; ... $
//
// op   sdd <k=v ...> -- A parts f x0
//   def=const   def.k=K        amgcl::mpi::constant_deflation(K) itself (K vectors: local row % K == j)
//   def=linear  def.nx=NX      1, x, y with x = g % NX, y = g / NX of the GLOBAL row g = first row of the rank + local row
//                              (def_vec is called with LOCAL row numbers of the owning rank, also for the rows it sends)
//   def=linear2 def.nx=NX      1, x  (2 vectors)
//   a rank without rows passes num_def_vec = 0 (its vectors would be empty and E singular)
//   sym=0|1                    ignored here (marker for the checker: SPD case)
//   every other token goes to the property tree (local.coarsening.type, local.relax.type, isolver.type, isolver.tol, ...)
// Every rank reports what IT saw: it=<iters> res=<reported residual, exact rational> bits=<bit pattern> ndv=<its num_def_vec>
// x=<its slice of the returned solution>.  The checks (rank consistency, true residual of the assembled solution,
// convergence) are done outside by tools/props/c12_sdd.py.
#include "vq_io.hpp"
#include <amgcl/backend/builtin.hpp>
#include <amgcl/amg.hpp>
#include <amgcl/coarsening/runtime.hpp>
#include <amgcl/relaxation/runtime.hpp>
#include <amgcl/mpi/util.hpp>
#include <amgcl/mpi/distributed_matrix.hpp>
#include <amgcl/mpi/inner_product.hpp>
#include <amgcl/mpi/solver/runtime.hpp>
#include <amgcl/mpi/direct_solver/skyline_lu.hpp>
#include <amgcl/mpi/subdomain_deflation.hpp>
#include <boost/property_tree/ptree.hpp>
#include <functional>
#include <cstring>

using vq::Tok; using vq::show;
typedef amgcl::backend::builtin<double> Backend;
typedef amgcl::mpi::distributed_matrix<Backend> DM;
typedef amgcl::backend::crs<double> Mat;
typedef boost::property_tree::ptree ptree;

static amgcl::mpi::communicator world;

struct Parts { std::vector<long> sz, beg; long total;
    Parts() : total(0) {}
    explicit Parts(const std::vector<long> &s) : sz(s), beg(s.size() + 1, 0) {
        for (size_t k = 0; k < s.size(); ++k) beg[k+1] = beg[k] + s[k];
        total = beg.back(); }
    long b(int r) const { return beg[r]; } long e(int r) const { return beg[r+1]; } long n(int r) const { return sz[r]; } };
static Parts parts(Tok &t) {
    std::vector<long> s = t.ivec();
    if ((int)s.size() != world.size) throw std::runtime_error("partition size != number of ranks");
    return Parts(s);
}
static std::shared_ptr<Mat> strip(const Mat &A, long rb, long re) {
    auto S = std::make_shared<Mat>();
    S->set_size(re - rb, A.ncols, false);
    S->ptr[0] = 0;
    for (long i = rb; i < re; ++i) S->ptr[i - rb + 1] = S->ptr[i - rb] + (A.ptr[i+1] - A.ptr[i]);
    S->set_nonzeros(S->ptr[re - rb], true);
    for (long i = rb, h = 0; i < re; ++i)
        for (ptrdiff_t j = A.ptr[i]; j < A.ptr[i+1]; ++j, ++h) { S->col[h] = A.col[j]; S->val[h] = A.val[j]; }
    return S;
}
static std::vector<double> slice(const std::vector<double> &v, const Parts &p) {
    if ((long)v.size() != p.total) throw std::runtime_error("vector size");
    return std::vector<double>(v.begin() + p.b(world.rank), v.begin() + p.e(world.rank));
}
static std::string bits(double r) { unsigned long long b; std::memcpy(&b, &r, 8); std::ostringstream os; os << std::hex << b; return os.str(); }

struct quiet_cout {     // AMGCL_PARAM_MISSING writes to std::cout / cerr
    std::ostringstream sink; std::streambuf *o;
    quiet_cout() : sink(), o(std::cout.rdbuf(sink.rdbuf())) {}
    ~quiet_cout() { std::cout.rdbuf(o); }
};

typedef amgcl::amg<Backend, amgcl::runtime::coarsening::wrapper, amgcl::runtime::relaxation::wrapper> LocalAMG;
typedef amgcl::runtime::mpi::solver::wrapper<Backend> ISolver;
typedef amgcl::mpi::subdomain_deflation<LocalAMG, ISolver, amgcl::mpi::direct::skyline_lu<double> > SDD;

// sdd <k=v ...> -- A parts f x0
static std::string op_sdd(Tok &t) {
    ptree prm; std::string def = "const"; long K = 1, nx = 1;
    for (;;) {
        std::string w = t.s();
        if (w == "--") break;
        size_t e = w.find('=');
        if (e == std::string::npos) throw std::runtime_error("bad config token " + w);
        std::string k = w.substr(0, e), v = w.substr(e + 1);
        if (k == "def") def = v; else if (k == "def.k") K = std::stol(v); else if (k == "def.nx") nx = std::stol(v);
        else if (k == "sym") { /* marker for the checker: 1 = SPD case (convergence demanded) */ }
        else prm.put(k, v);
    }
    auto A = t.crsT<double>(); Parts p = parts(t);
    std::vector<double> f = t.vecT<double>(), x0 = t.vecT<double>();
    if (p.total != (long)A->nrows || p.total != (long)A->ncols) throw std::runtime_error("partition does not cover the matrix");
    std::vector<double> fl = slice(f, p), xl = slice(x0, p);
    auto S = strip(*A, p.b(world.rank), p.e(world.rank));
    auto D = std::make_shared<DM>(world, *S, p.n(world.rank));

    std::function<double(ptrdiff_t, unsigned)> dv; unsigned ndv = 0;
    const long first = p.b(world.rank);
    if (def == "const") { dv = amgcl::mpi::constant_deflation((int)K); ndv = (unsigned)amgcl::mpi::constant_deflation((int)K).dim(); }
    else if (def == "linear" || def == "linear2") {
        ndv = def == "linear" ? 3 : 2;
        dv = [first, nx](ptrdiff_t i, unsigned j) -> double {
            long g = first + (long)i;
            return j == 0 ? 1.0 : j == 1 ? (double)(g % nx) : (double)(g / nx); };
    } else throw std::invalid_argument("def");
    if (p.n(world.rank) == 0) ndv = 0;
    prm.put("num_def_vec", ndv);
    prm.put("def_vec", static_cast<void*>(&dv));

    quiet_cout q;
    SDD solve(world, D, prm);
    size_t it = 0; double res = 0;
    std::tie(it, res) = solve(fl, xl);
    std::ostringstream os;
    os << "it=" << it << " res=" << show(res) << " bits=" << bits(res) << " ndv=" << ndv << " x=" << show(xl);
    return os.str();
}

int main(int argc, char **argv) {
    MPI_Init(&argc, &argv);
    {
        world = amgcl::mpi::communicator(MPI_COMM_WORLD);
        for (;;) {
            std::string line; long len = -1;
            if (world.rank == 0) { if (std::getline(std::cin, line)) len = (long)line.size(); }
            MPI_Bcast(&len, 1, MPI_LONG, 0, world);
            if (len < 0) break;
            line.resize(len);
            if (len) MPI_Bcast(&line[0], (int)len, MPI_CHAR, 0, world);
            if (line.empty() || line[0] == '#') continue;
            Tok t(line);
            std::string id = t.s(), op = t.s(), out;
            if (op != "sdd") out = "UNSUPPORTED";
            else {
                try { out = op_sdd(t); }
                catch (const std::exception &e) {
                    out = std::string("EXC ") + vq::exc_kind(e) + " " + e.what();
                    if (std::getenv("VQ_DEBUG")) std::cerr << "rank " << world.rank << ": " << out << std::endl;
                }
            }
            for (auto &c : out) if (c == ';' || c == '\n') c = ',';
            int mylen = (int)out.size();
            std::vector<int> lens(world.size), displ(world.size + 1, 0);
            MPI_Gather(&mylen, 1, MPI_INT, lens.data(), 1, MPI_INT, 0, world);
            std::string all;
            if (world.rank == 0) { for (int r = 0; r < world.size; ++r) displ[r+1] = displ[r] + lens[r]; all.resize(displ[world.size]); }
            MPI_Gatherv(const_cast<char*>(out.data()), mylen, MPI_CHAR, world.rank == 0 ? &all[0] : 0, lens.data(), displ.data(), MPI_CHAR, 0, world);
            if (world.rank == 0) {
                std::cout << id << " " << op << " ";
                for (int r = 0; r < world.size; ++r) { if (r) std::cout << " ; "; std::cout << all.substr(displ[r], lens[r]); }
                std::cout << " $" << std::endl;      // end-of-record mark: a line cut short by a dying launcher is detectable
            }
        }
    }
    MPI_Finalize();
    return 0;
}
