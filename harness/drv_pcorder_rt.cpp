// drv_pcorder_rt.cpp -- C17, row-order comparison for the RUN-TIME preconditioner wrapper
// (amgcl/preconditioner/runtime.hpp: classes amg / relaxation / dummy / nested selected by a
// property tree) and make_solver< runtime::preconditioner, runtime::solver::wrapper >.
// double build (the run-time wrappers instantiate every component; boost's text<->number
// conversions need a built-in value type).  The comparison is implementation vs implementation:
// the same matrix listed with shuffled and with sorted rows must give BIT-IDENTICAL operators
// (after sort_rows on entry both runs execute the same instructions on the same data; one
// thread).  Values are printed exactly (every double is a dyadic rational).
// Op:  pcrt <class> <relax> <crs A>  ->  {n n | row i = apply(e_i)}
#include "vq_io.hpp"
#include <boost/property_tree/ptree.hpp>
#include <amgcl/backend/builtin.hpp>
#include <amgcl/adapter/crs_tuple.hpp>
#include <amgcl/make_solver.hpp>
#include <amgcl/amg.hpp>
#include <amgcl/coarsening/runtime.hpp>
#include <amgcl/relaxation/runtime.hpp>
#include <amgcl/solver/runtime.hpp>
#include <amgcl/preconditioner/runtime.hpp>
using vq::Tok; using vq::show;
namespace be = amgcl::backend;
typedef be::builtin<double> B;
typedef boost::property_tree::ptree ptree;

struct Arrays {
    ptrdiff_t n; std::vector<ptrdiff_t> ptr, col; std::vector<double> val;
    Arrays(Tok &t) {
        n = t.i(); long m = t.i(); if (m != n) throw std::invalid_argument("square");
        ptr.push_back(0);
        for (long r = 0; r < n; ++r) { long k = t.i(); for (long e = 0; e < k; ++e) { col.push_back(t.i()); val.push_back(t.d()); } ptr.push_back(col.size()); }
    }
};
template <class P> static std::string dense_apply(const P &p, long n) {
    std::ostringstream os; os << "{" << n << " " << n;
    for (long i = 0; i < n; ++i) {
        std::vector<double> e(n, 0.0), x(n, 0.0); e[i] = 1.0;
        p.apply(e, x);
        os << " |"; for (long j = 0; j < n; ++j) os << " " << j << ":" << show(x[j]);
    }
    os << "}"; return os.str();
}
static std::string slug(const std::exception &e) {
    std::string w = e.what(), o; for (char c : w) o += (isalnum((unsigned char)c) ? c : '_'); return o.substr(0, 60);
}
static void amg_tree(ptree &p, const std::string &pre, const std::string &relax) {
    p.put(pre + "coarsening.type", "smoothed_aggregation");
    p.put(pre + "relax.type", relax);
    p.put(pre + "coarse_enough", 2);
}
static std::string body(Tok &t) {
    std::string cls = t.s(), relax = t.s();
    Arrays a(t);
    auto A = std::tie(a.n, a.ptr, a.col, a.val);
    ptree prm;
    if (cls == "amg" || cls == "relaxation" || cls == "dummy" || cls == "nested") {
        prm.put("class", cls);
        if (cls == "amg") amg_tree(prm, "", relax);
        if (cls == "relaxation") prm.put("type", relax);
        if (cls == "nested") { prm.put("precond.class", "relaxation"); prm.put("precond.type", relax); prm.put("solver.type", "preonly"); }
        amgcl::runtime::preconditioner<B> P(A, prm);
        return dense_apply(P, a.n);
    }
    if (cls == "ms_amg" || cls == "ms_relaxation") {
        typedef amgcl::make_solver< amgcl::runtime::preconditioner<B>, amgcl::runtime::solver::wrapper<B> > S;
        prm.put("solver.type", "preonly");
        if (cls == "ms_amg") { prm.put("precond.class", "amg"); amg_tree(prm, "precond.", relax); }
        else { prm.put("precond.class", "relaxation"); prm.put("precond.type", relax); }
        S s(A, prm);
        return dense_apply(s, a.n);
    }
    throw std::invalid_argument("class");
}
VQ_OP(pcrt) {
    try { return body(t); }
    catch (const std::exception &e) { return "EXC " + vq::exc_kind(e) + " " + slug(e); }
}
int main() { return vq::driver_main(); }
