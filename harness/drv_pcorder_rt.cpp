// drv_pcorder_rt.cpp -- C17, row-order comparison for the RUN-TIME preconditioner wrapper
// (amgcl/preconditioner/runtime.hpp: classes amg / relaxation / dummy / nested selected by a
// property tree) and make_solver< runtime::preconditioner, runtime::solver::wrapper >.
// double build (the run-time wrappers instantiate every component; boost's text<->number
// conversions need a built-in value type).  The comparison is implementation vs implementation:
// the same matrix listed with shuffled and with sorted rows must give BIT-IDENTICAL operators
// (after sort_rows on entry both runs execute the same instructions on the same data; one
// thread).  Values are printed exactly (every double is a dyadic rational).
// Op:  pcrt <class> <relax> <crs A>  ->  {n n | row i = apply(e_i)}
// Round 2b (seeded C17-2), entry points that take the user matrix AFTER construction: classes
//   rb_amg     runtime::preconditioner<B>(A0, class=amg).rebuild(A)      (runtime.hpp:210-229 forwards to amg::rebuild(const Matrix&))
//   rb_ms_amg  make_solver<runtime::preconditioner, runtime::solver::wrapper>(A0).precond().rebuild(A)
// A0 = the sorted matrix with the diagonal doubled (same in the shuffled and in the sorted run).
#include "vq_io.hpp"
#include <boost/property_tree/ptree.hpp>
#include <amgcl/backend/builtin.hpp>
#include <amgcl/adapter/crs_tuple.hpp>
#include <amgcl/make_solver.hpp>
#include <amgcl/amg.hpp>
#include <amgcl/coarsening/runtime.hpp>
#include <amgcl/relaxation/runtime.hpp>
#include <amgcl/solver/runtime.hpp>
#include <amgcl/preconditioner/runtime.hpp>
using vq::Tok; using vq::show;
namespace be = amgcl::backend;
typedef be::builtin<double> B;
typedef boost::property_tree::ptree ptree;

struct Arrays {
    ptrdiff_t n; std::vector<ptrdiff_t> ptr, col; std::vector<double> val;
    Arrays(Tok &t) {
        n = t.i(); long m = t.i(); if (m != n) throw std::invalid_argument("square");
        ptr.push_back(0);
        for (long r = 0; r < n; ++r) { long k = t.i(); for (long e = 0; e < k; ++e) { col.push_back(t.i()); val.push_back(t.d()); } ptr.push_back(col.size()); }
    }
    Arrays() : n(0) {}
    Arrays base(double dscale) const {      // rows sorted by column, diagonal scaled: the construction-time matrix
        Arrays a; a.n = n; a.ptr.push_back(0);
        for (ptrdiff_t i = 0; i < n; ++i) {
            std::vector<std::pair<ptrdiff_t, double> > e;
            for (ptrdiff_t j = ptr[i]; j < ptr[i + 1]; ++j) e.push_back(std::make_pair(col[j], col[j] == i ? dscale * val[j] : val[j]));
            std::stable_sort(e.begin(), e.end(), [](const std::pair<ptrdiff_t, double> &x, const std::pair<ptrdiff_t, double> &y) { return x.first < y.first; });
            for (auto &x : e) { a.col.push_back(x.first); a.val.push_back(x.second); }
            a.ptr.push_back(a.col.size());
        }
        return a;
    }
};
template <class P> static std::string dense_apply(const P &p, long n) {
    std::ostringstream os; os << "{" << n << " " << n;
    for (long i = 0; i < n; ++i) {
        std::vector<double> e(n, 0.0), x(n, 0.0); e[i] = 1.0;
        p.apply(e, x);
        os << " |"; for (long j = 0; j < n; ++j) os << " " << j << ":" << show(x[j]);
    }
    os << "}"; return os.str();
}
static std::string slug(const std::exception &e) {
    std::string w = e.what(), o; for (char c : w) o += (isalnum((unsigned char)c) ? c : '_'); return o.substr(0, 60);
}
static void amg_tree(ptree &p, const std::string &pre, const std::string &relax) {
    p.put(pre + "coarsening.type", "smoothed_aggregation");
    p.put(pre + "relax.type", relax);
    p.put(pre + "coarse_enough", 2);
}
static std::string body(Tok &t) {
    std::string cls = t.s(), relax = t.s();
    Arrays a(t);
    auto A = std::tie(a.n, a.ptr, a.col, a.val);
    ptree prm;
    if (cls == "amg" || cls == "relaxation" || cls == "dummy" || cls == "nested") {
        prm.put("class", cls);
        if (cls == "amg") amg_tree(prm, "", relax);
        if (cls == "relaxation") prm.put("type", relax);
        if (cls == "nested") { prm.put("precond.class", "relaxation"); prm.put("precond.type", relax); prm.put("solver.type", "preonly"); }
        amgcl::runtime::preconditioner<B> P(A, prm);
        return dense_apply(P, a.n);
    }
    if (cls == "ms_amg" || cls == "ms_relaxation") {
        typedef amgcl::make_solver< amgcl::runtime::preconditioner<B>, amgcl::runtime::solver::wrapper<B> > S;
        prm.put("solver.type", "preonly");
        if (cls == "ms_amg") { prm.put("precond.class", "amg"); amg_tree(prm, "precond.", relax); }
        else { prm.put("precond.class", "relaxation"); prm.put("precond.type", relax); }
        S s(A, prm);
        return dense_apply(s, a.n);
    }
    if (cls == "rb_amg" || cls == "rb_ms_amg") {
        Arrays a0 = a.base(2.0);
        auto A0 = std::tie(a0.n, a0.ptr, a0.col, a0.val);
        if (cls == "rb_amg") {
            prm.put("class", "amg"); amg_tree(prm, "", relax);
            amgcl::runtime::preconditioner<B> P(A0, prm);
            P.rebuild(A);
            return dense_apply(P, a.n);
        }
        typedef amgcl::make_solver< amgcl::runtime::preconditioner<B>, amgcl::runtime::solver::wrapper<B> > S;
        prm.put("solver.type", "preonly"); prm.put("precond.class", "amg"); amg_tree(prm, "precond.", relax);
        S s(A0, prm);
        s.precond().rebuild(A);
        return dense_apply(s, a.n);
    }
    throw std::invalid_argument("class");
}
VQ_OP(pcrt) {
    try { return body(t); }
    catch (const std::exception &e) { return "EXC " + vq::exc_kind(e) + " " + slug(e); }
}
int main() { return vq::driver_main(); }
