#define VQ_COARSENING amgcl::coarsening::aggregation
#define VQ_COARSENING_NAME "aggregation"
#include "amg_driver.hpp"
