// drv_pcorder4.cpp -- C17, fourth part of the row-order comparison: the entry points that accept a user matrix
// AFTER construction (seeded change C17-2: amg::rebuild(const Matrix&) stopped sorting its copy).
// Every object is first built from a SORTED matrix A0 (the listing-independent part: same pattern as A, diagonal
// doubled, so that the transfer operators / AMG hierarchy that survive the update are the same in both runs) and is
// then updated with the user's listing of A; the order-SENSITIVE ILU(0) (Properties_C17.C17_unsorted_ilu0_scan_refuted)
// or the skyline LU sits behind every entry point, so that an entry point which forgets sort_rows is exposed:
//   rb_amg_ilu0        amg<ilu0>::rebuild(const Matrix&)                 (amg.hpp:238-247: copy, sort_rows, rebuild(shared_ptr))
//   rb_amg_direct      single-level amg (skyline_lu on the user rows)::rebuild(const Matrix&)
//   rb_amg_chain       rebuild(A1) followed by rebuild(A): the last matrix wins, listing still immaterial
//   rb_ms_amg_ilu0     make_solver<amg<ilu0>, preonly>::precond().rebuild(A)  (the documented way to reach it)
//   pu_cpr_ilu0_t/_f       cpr<amg<ilu0>, as_preconditioner<ilu0>>::partial_update(K, update_transfer_ops = true/false)
//   pu_cpr_drs_ilu0_t/_f   cpr_drs<...>::partial_update(K, true/false)
// The overload amg::rebuild(std::shared_ptr<build_matrix>) takes the library's internal format and does not sort
// (same interface decision as the shared_ptr constructors): not driven with unsorted rows.
// Op:  pc4 <kind> <bs> <crs A>  ->  {n n | dense operator: row i = apply(e_i)}      (exact arithmetic)
// The python side runs every case twice (rows shuffled / rows sorted) and compares.
#include "vq_io.hpp"
#include <amgcl/adapter/crs_tuple.hpp>
#include <amgcl/amg.hpp>
#include <amgcl/make_solver.hpp>
#include <amgcl/solver/preonly.hpp>
#include <amgcl/coarsening/aggregation.hpp>
#include <amgcl/coarsening/smoothed_aggregation.hpp>
#include <amgcl/relaxation/as_preconditioner.hpp>
#include <amgcl/relaxation/ilu0.hpp>
#include <amgcl/relaxation/spai0.hpp>
#include <amgcl/preconditioner/cpr.hpp>
#include <amgcl/preconditioner/cpr_drs.hpp>
using vq::Q; using vq::Tok; using vq::show;
namespace be = amgcl::backend;
typedef be::builtin<Q> B;

struct Arrays {
    ptrdiff_t n; std::vector<ptrdiff_t> ptr, col; std::vector<Q> val;
    Arrays() : n(0) {}
    Arrays(Tok &t) {
        n = t.i(); long m = t.i(); if (m != n) throw std::invalid_argument("square");
        ptr.push_back(0);
        for (long r = 0; r < n; ++r) { long k = t.i(); for (long e = 0; e < k; ++e) { col.push_back(t.i()); val.push_back(t.q()); } ptr.push_back(col.size()); }
    }
    // the construction-time matrix: rows sorted by column (stable), diagonal multiplied by dscale, off-diagonal by oscale
    Arrays base(const Q &dscale, const Q &oscale) const {
        Arrays a; a.n = n; a.ptr.push_back(0);
        for (ptrdiff_t i = 0; i < n; ++i) {
            std::vector<std::pair<ptrdiff_t, Q> > e;
            for (ptrdiff_t j = ptr[i]; j < ptr[i + 1]; ++j) e.push_back(std::make_pair(col[j], val[j] * (col[j] == i ? dscale : oscale)));
            std::stable_sort(e.begin(), e.end(), [](const std::pair<ptrdiff_t, Q> &x, const std::pair<ptrdiff_t, Q> &y) { return x.first < y.first; });
            for (auto &x : e) { a.col.push_back(x.first); a.val.push_back(x.second); }
            a.ptr.push_back(a.col.size());
        }
        return a;
    }
};
template <class P> static std::string dense_apply(const P &p, long n) {
    std::ostringstream os; os << "{" << n << " " << n;
    for (long i = 0; i < n; ++i) {
        std::vector<Q> e(n, Q(0)), x(n, Q(0)); e[i] = Q(1);
        p.apply(e, x);
        os << " |"; for (long j = 0; j < n; ++j) os << " " << j << ":" << x[j].str();
    }
    os << "}"; return os.str();
}
static std::string slug(const std::exception &e) {
    std::string w = e.what(), o; for (char c : w) o += (isalnum((unsigned char)c) ? c : '_'); return o.substr(0, 60);
}

typedef amgcl::relaxation::as_preconditioner<B, amgcl::relaxation::ilu0> AspIlu0;
typedef amgcl::amg<B, amgcl::coarsening::smoothed_aggregation, amgcl::relaxation::ilu0> AmgIlu0;
typedef amgcl::amg<B, amgcl::coarsening::aggregation, amgcl::relaxation::spai0> AmgDirect;

static std::string pc_body(Tok &t) {
    std::string kind = t.s();
    long bs = t.i();
    Arrays a(t);
    Arrays a0 = a.base(Q(2), Q(1));
    auto A  = std::tie(a.n, a.ptr, a.col, a.val);       // the user's listing
    auto A0 = std::tie(a0.n, a0.ptr, a0.col, a0.val);   // sorted, other values: construction time
    using namespace amgcl;
    if (kind == "rb_amg_ilu0" || kind == "rb_amg_chain") {
        AmgIlu0::params prm; prm.coarse_enough = 2;
        AmgIlu0 p(A0, prm);
        if (kind == "rb_amg_chain") { Arrays a1 = a.base(Q(3), Q(-1)); auto A1 = std::tie(a1.n, a1.ptr, a1.col, a1.val); p.rebuild(A1); }
        p.rebuild(A);
        return dense_apply(p, a.n);
    }
    if (kind == "rb_amg_direct") {
        AmgDirect::params prm; prm.coarse_enough = 1000000;
        AmgDirect p(A0, prm);
        p.rebuild(A);
        return dense_apply(p, a.n);
    }
    if (kind == "rb_ms_amg_ilu0") {
        typedef make_solver<AmgIlu0, solver::preonly<B> > P;
        P::params prm; prm.precond.coarse_enough = 2;
        P p(A0, prm);
        p.precond().rebuild(A);
        return dense_apply(p, a.n);
    }
    if (kind == "pu_cpr_ilu0_t" || kind == "pu_cpr_ilu0_f") {
        typedef preconditioner::cpr<AmgIlu0, AspIlu0> P;
        P::params prm; prm.block_size = bs; prm.pprecond.coarse_enough = 2;
        P p(A0, prm);
        p.partial_update(A, kind == "pu_cpr_ilu0_t");
        return dense_apply(p, a.n);
    }
    if (kind == "pu_cpr_drs_ilu0_t" || kind == "pu_cpr_drs_ilu0_f") {
        typedef preconditioner::cpr_drs<AmgIlu0, AspIlu0> P;
        P::params prm; prm.block_size = bs; prm.pprecond.coarse_enough = 2;
        P p(A0, prm);
        p.partial_update(A, kind == "pu_cpr_drs_ilu0_t");
        return dense_apply(p, a.n);
    }
    throw std::invalid_argument("kind");
}
VQ_OP(pc4) {
    try { return pc_body(t); }
    catch (const std::exception &e) { return "EXC " + vq::exc_kind(e) + " " + slug(e); }
}
int main() { return vq::driver_main(); }
