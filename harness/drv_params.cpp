// drv_params.cpp -- C14 (i),(iii): every params struct that can be instantiated with the
// builtin backend is constructed from a property tree and exported again with get().
//
//   <id> rt <struct-id> <tree> [<defaults> <schema>]   -> T:<exported tree> U:[unknown keys, sorted]
//   <id> defaults <struct-id>                          -> exported tree of a default-constructed struct
//   <id> ids                                           -> registered struct ids
//   <id> ptree <script>                                -> raw boost::property_tree operations (validates Ptree.v)
//
// Tree token (no blanks):  data[key=tree,key=tree,...]   (data and keys contain none of "[],= ")
// The unknown-parameter hook AMGCL_PARAM_UNKNOWN is redefined to record the key.
// VQ_NOGET_<tag>=1 is passed by tools/props/C14.py while the translator reports that get() of
// that struct cannot compile (deflated_solver: value exported as child; ilut: member `p`
// shadowed by the tree argument `p`).
#include <string>
#include <vector>
namespace vqp { inline std::vector<std::string>& unknown_log() { static std::vector<std::string> v; return v; } }
#define AMGCL_PARAM_UNKNOWN(name) vqp::unknown_log().push_back(name)

#include <boost/property_tree/ptree.hpp>
#include "vq_io.hpp"
#include <amgcl/backend/builtin.hpp>
#include <amgcl/backend/block_crs.hpp>
#include <amgcl/amg.hpp>
#include <amgcl/make_solver.hpp>
#include <amgcl/deflated_solver.hpp>
#include <amgcl/coarsening/plain_aggregates.hpp>
#include <amgcl/coarsening/pointwise_aggregates.hpp>
#include <amgcl/coarsening/aggregation.hpp>
#include <amgcl/coarsening/smoothed_aggregation.hpp>
#include <amgcl/coarsening/smoothed_aggr_emin.hpp>
#include <amgcl/coarsening/ruge_stuben.hpp>
#include <amgcl/relaxation/damped_jacobi.hpp>
#include <amgcl/relaxation/gauss_seidel.hpp>
#include <amgcl/relaxation/chebyshev.hpp>
#include <amgcl/relaxation/spai0.hpp>
#include <amgcl/relaxation/ilu0.hpp>
#include <amgcl/relaxation/iluk.hpp>
#include <amgcl/relaxation/ilup.hpp>
#include <amgcl/relaxation/ilut.hpp>
#include <amgcl/relaxation/as_preconditioner.hpp>
#include <amgcl/solver/cg.hpp>
#include <amgcl/solver/bicgstab.hpp>
#include <amgcl/solver/bicgstabl.hpp>
#include <amgcl/solver/gmres.hpp>
#include <amgcl/solver/fgmres.hpp>
#include <amgcl/solver/lgmres.hpp>
#include <amgcl/solver/idrs.hpp>
#include <amgcl/solver/richardson.hpp>
#include <amgcl/preconditioner/cpr.hpp>
#include <amgcl/preconditioner/cpr_drs.hpp>
#include <amgcl/preconditioner/schur_pressure_correction.hpp>
#ifdef VQ_MPI_PARAMS
// drv_params_mpi.cpp is a symlink to this file, compiled with mpicxx -DVQ_MPI_PARAMS: the params
// structs of the distributed components (only constructed/exported, MPI is never initialised)
#include <amgcl/mpi/make_solver.hpp>
#include <amgcl/mpi/amg.hpp>
#include <amgcl/mpi/cpr.hpp>
#include <amgcl/mpi/schur_pressure_correction.hpp>
#include <amgcl/mpi/subdomain_deflation.hpp>
#include <amgcl/mpi/coarsening/aggregation.hpp>
#include <amgcl/mpi/coarsening/smoothed_aggregation.hpp>
#include <amgcl/mpi/coarsening/pmis.hpp>
#include <amgcl/mpi/relaxation/spai0.hpp>
#include <amgcl/mpi/relaxation/as_preconditioner.hpp>
#include <amgcl/mpi/direct_solver/skyline_lu.hpp>
#include <amgcl/mpi/partition/merge.hpp>
#include <amgcl/mpi/solver/cg.hpp>
#endif

using boost::property_tree::ptree;
using vq::Tok;

// ---------------------------------------------------------------- tree tokens
static ptree parse_tree(const std::string &s, size_t &i) {
    ptree t;
    size_t j = i;
    while (j < s.size() && s[j] != '[') ++j;
    if (j >= s.size()) throw std::runtime_error("tree: missing [");
    t.data() = s.substr(i, j - i);
    i = j + 1;
    if (s[i] == ']') { ++i; return t; }
    for (;;) {
        size_t e = s.find('=', i);
        if (e == std::string::npos) throw std::runtime_error("tree: missing =");
        std::string k = s.substr(i, e - i);
        i = e + 1;
        ptree c = parse_tree(s, i);
        t.push_back(std::make_pair(k, c));
        if (s[i] == ',') { ++i; continue; }
        if (s[i] == ']') { ++i; break; }
        throw std::runtime_error("tree: expected , or ]");
    }
    return t;
}
static ptree parse_tree(const std::string &s) { size_t i = 0; return parse_tree(s, i); }
static std::string show_tree(const ptree &t) {
    std::string r = t.data() + "[";
    bool first = true;
    for (const auto &v : t) { if (!first) r += ","; first = false; r += v.first + "=" + show_tree(v.second); }
    return r + "]";
}
static std::string show_unknown() {
    std::vector<std::string> u = vqp::unknown_log();
    std::sort(u.begin(), u.end());
    std::string r = "[";
    for (size_t k = 0; k < u.size(); ++k) { if (k) r += " "; r += u[k]; }
    return r + "]";
}

// ---------------------------------------------------------------- registry
struct Entry { std::function<std::string(const ptree&)> rt; std::function<std::string()> dflt; };
static std::map<std::string, Entry>& structs() { static std::map<std::string, Entry> m; return m; }

template <class P> struct Full {
    static std::string rt(const ptree &in) { P prm(in); ptree out; prm.get(out, ""); return show_tree(out); }
    static std::string dflt() { P prm; ptree out; prm.get(out, ""); return show_tree(out); }
};
// get() cannot be instantiated: import only
template <class P> struct ImportOnly {
    static std::string rt(const ptree &in) { P prm(in); (void)prm; return "NOGET"; }
    static std::string dflt() { P prm; (void)prm; return "NOGET"; }
};
template <template <class> class How, class P> static void reg(const char *id) {
    Entry e; e.rt = How<P>::rt; e.dflt = How<P>::dflt; structs()[id] = e;
}
// structs whose get() does not compile in the current tree (flags set by tools/props/C14.py from
// the translator's findings: kind mismatch value/child, member shadowed by the tree argument)
#ifndef VQ_NOGET_deflated
#  define VQ_NOGET_deflated 0
#endif
#ifndef VQ_NOGET_ilut
#  define VQ_NOGET_ilut 0
#endif
template <bool noget, class P> struct RegC { static void go(const char *id) { reg<Full, P>(id); } };
template <class P> struct RegC<true, P> { static void go(const char *id) { reg<ImportOnly, P>(id); } };

typedef amgcl::backend::builtin<double> B;
typedef amgcl::amg<B, amgcl::coarsening::smoothed_aggregation, amgcl::relaxation::damped_jacobi> AMG;
typedef amgcl::solver::cg<B> CG;
typedef amgcl::solver::bicgstab<B> BiCG;
typedef amgcl::make_solver<AMG, BiCG> MS;
typedef amgcl::relaxation::as_preconditioner<B, amgcl::relaxation::ilu0> RelP;

#ifdef VQ_MPI_PARAMS
typedef amgcl::mpi::amg<B, amgcl::mpi::coarsening::smoothed_aggregation<B>, amgcl::mpi::relaxation::spai0<B>,
        amgcl::mpi::direct::skyline_lu<double>, amgcl::mpi::partition::merge<B> > MAMG;
typedef amgcl::mpi::relaxation::as_preconditioner<amgcl::mpi::relaxation::spai0<B> > MREL;
typedef amgcl::mpi::make_solver<MAMG, amgcl::mpi::solver::cg<B> > MMS;
typedef amgcl::mpi::subdomain_deflation<AMG, CG, amgcl::mpi::direct::skyline_lu<double> > SDD;
static std::function<double(ptrdiff_t, unsigned)> the_def_vec = [](ptrdiff_t, unsigned) { return 1.0; };
// subdomain_deflation::params requires the address of a callable under "def_vec"
struct SddRt {
    static std::string rt(const ptree &in) { ptree q = in; q.put("def_vec", static_cast<void*>(&the_def_vec));
        SDD::params prm(q); ptree out; prm.get(out, ""); return show_tree(out); }
    static std::string dflt() { ptree q; q.put("def_vec", static_cast<void*>(&the_def_vec));
        SDD::params prm(q); ptree out; prm.get(out, ""); return show_tree(out); }
};
static void register_mpi() {
    reg<Full, MAMG::params>("mpi/amg.hpp:amg::params");
    reg<Full, amgcl::mpi::cpr<MAMG, MREL>::params>("mpi/cpr.hpp:cpr::params");
    reg<Full, MMS::params>("mpi/make_solver.hpp:make_solver::params");
    reg<Full, amgcl::mpi::schur_pressure_correction<MMS, MMS>::params>("mpi/schur_pressure_correction.hpp:schur_pressure_correction::params");
    { Entry e; e.rt = SddRt::rt; e.dflt = SddRt::dflt; structs()["mpi/subdomain_deflation.hpp:subdomain_deflation::params"] = e; }
    reg<Full, amgcl::mpi::coarsening::aggregation<B>::params>("mpi/coarsening/aggregation.hpp:aggregation::params");
    reg<Full, amgcl::mpi::coarsening::smoothed_aggregation<B>::params>("mpi/coarsening/smoothed_aggregation.hpp:smoothed_aggregation::params");
    reg<Full, amgcl::mpi::coarsening::pmis<B>::params>("mpi/coarsening/pmis.hpp:pmis::params");
    reg<Full, amgcl::mpi::partition::merge<B>::params>("mpi/partition/merge.hpp:merge::params");
}
#endif

static void register_all() {
#ifdef VQ_MPI_PARAMS
    register_mpi();
#endif
    reg<Full, AMG::params>("amg.hpp:amg::params");
    reg<Full, MS::params>("make_solver.hpp:make_solver::params");
    RegC<VQ_NOGET_deflated, amgcl::deflated_solver<AMG, CG>::params>::go("deflated_solver.hpp:deflated_solver::params");
    reg<Full, amgcl::detail::empty_params>("util.hpp:empty_params");
    reg<Full, amgcl::backend::block_crs<double>::params>("backend/block_crs.hpp:block_crs::params");
    reg<Full, amgcl::coarsening::plain_aggregates::params>("coarsening/plain_aggregates.hpp:plain_aggregates::params");
    reg<Full, amgcl::coarsening::pointwise_aggregates::params>("coarsening/pointwise_aggregates.hpp:pointwise_aggregates::params");
    reg<Full, amgcl::coarsening::aggregation<B>::params>("coarsening/aggregation.hpp:aggregation::params");
    reg<Full, amgcl::coarsening::smoothed_aggregation<B>::params>("coarsening/smoothed_aggregation.hpp:smoothed_aggregation::params");
    reg<Full, amgcl::coarsening::smoothed_aggr_emin<B>::params>("coarsening/smoothed_aggr_emin.hpp:smoothed_aggr_emin::params");
    reg<Full, amgcl::coarsening::ruge_stuben<B>::params>("coarsening/ruge_stuben.hpp:ruge_stuben::params");
    reg<Full, amgcl::coarsening::nullspace_params>("coarsening/tentative_prolongation.hpp:nullspace_params");
    reg<Full, amgcl::relaxation::chebyshev<B>::params>("relaxation/chebyshev.hpp:chebyshev::params");
    reg<Full, amgcl::relaxation::damped_jacobi<B>::params>("relaxation/damped_jacobi.hpp:damped_jacobi::params");
    reg<Full, amgcl::relaxation::gauss_seidel<B>::params>("relaxation/gauss_seidel.hpp:gauss_seidel::params");
    reg<Full, amgcl::relaxation::ilu0<B>::params>("relaxation/ilu0.hpp:ilu0::params");
    reg<Full, amgcl::relaxation::iluk<B>::params>("relaxation/iluk.hpp:iluk::params");
    reg<Full, amgcl::relaxation::ilup<B>::params>("relaxation/ilup.hpp:ilup::params");
    RegC<VQ_NOGET_ilut, amgcl::relaxation::ilut<B>::params>::go("relaxation/ilut.hpp:ilut::params");
    // generic ilu_solve (non-builtin backends) and the builtin specialisation
    reg<Full, amgcl::relaxation::detail::ilu_solve< amgcl::backend::block_crs<double> >::params>("relaxation/detail/ilu_solve.hpp:ilu_solve::params");
    reg<Full, amgcl::relaxation::detail::ilu_solve<B>::params>("relaxation/detail/ilu_solve.hpp:ilu_solve::params#2");
    reg<Full, amgcl::solver::bicgstab<B>::params>("solver/bicgstab.hpp:bicgstab::params");
    reg<Full, amgcl::solver::bicgstabl<B>::params>("solver/bicgstabl.hpp:bicgstabl::params");
    reg<Full, amgcl::solver::cg<B>::params>("solver/cg.hpp:cg::params");
    reg<Full, amgcl::solver::fgmres<B>::params>("solver/fgmres.hpp:fgmres::params");
    reg<Full, amgcl::solver::gmres<B>::params>("solver/gmres.hpp:gmres::params");
    reg<Full, amgcl::solver::idrs<B>::params>("solver/idrs.hpp:idrs::params");
    reg<Full, amgcl::solver::lgmres<B>::params>("solver/lgmres.hpp:lgmres::params");
    reg<Full, amgcl::solver::richardson<B>::params>("solver/richardson.hpp:richardson::params");
    reg<Full, amgcl::preconditioner::cpr<AMG, RelP>::params>("preconditioner/cpr.hpp:cpr::params");
    reg<Full, amgcl::preconditioner::cpr_drs<AMG, RelP>::params>("preconditioner/cpr_drs.hpp:cpr_drs::params");
    reg<Full, amgcl::preconditioner::schur_pressure_correction<MS, amgcl::make_solver<RelP, CG> >::params>(
            "preconditioner/schur_pressure_correction.hpp:schur_pressure_correction::params");
}

// block value types: several defaults depend on the value type (e.g. aggregation::over_interp = 1.5 for scalars, 2.0 for blocks);
// the property-tree constructor on an EMPTY tree must give the same parameters as the default constructor for them too
#include <amgcl/value_type/static_matrix.hpp>
typedef amgcl::backend::builtin< amgcl::static_matrix<double, 2, 2> > BB2;
template <class P> static void blk_one(const char *name, std::string &r) {
    std::string a = Full<P>::dflt(), b = Full<P>::rt(ptree());
    if (a != b) r += std::string(r.empty() ? "" : " ; ") + name + ": default ctor " + a + " vs empty tree " + b;
}
VQ_OP(blockdefaults) { (void)t; std::string r;
    blk_one<amgcl::coarsening::aggregation<BB2>::params>("coarsening::aggregation", r);
    blk_one<amgcl::coarsening::smoothed_aggregation<BB2>::params>("coarsening::smoothed_aggregation", r);
    blk_one<amgcl::coarsening::smoothed_aggr_emin<BB2>::params>("coarsening::smoothed_aggr_emin", r);
    blk_one<amgcl::relaxation::damped_jacobi<BB2>::params>("relaxation::damped_jacobi", r);
    blk_one<amgcl::relaxation::chebyshev<BB2>::params>("relaxation::chebyshev", r);
    blk_one<amgcl::relaxation::gauss_seidel<BB2>::params>("relaxation::gauss_seidel", r);
    blk_one<amgcl::relaxation::ilu0<BB2>::params>("relaxation::ilu0", r);
    blk_one<amgcl::relaxation::iluk<BB2>::params>("relaxation::iluk", r);
    blk_one<amgcl::solver::cg<BB2>::params>("solver::cg", r);
    blk_one<amgcl::solver::bicgstab<BB2>::params>("solver::bicgstab", r);
    blk_one<amgcl::solver::gmres<BB2>::params>("solver::gmres", r);
    blk_one<amgcl::solver::idrs<BB2>::params>("solver::idrs", r);
    blk_one<amgcl::amg<BB2, amgcl::coarsening::aggregation, amgcl::relaxation::damped_jacobi>::params>("amg<aggregation, damped_jacobi>", r);
    blk_one<amgcl::amg<BB2, amgcl::coarsening::smoothed_aggregation, amgcl::relaxation::ilu0>::params>("amg<smoothed_aggregation, ilu0>", r);
    return r.empty() ? "OK" : "DIFF " + r;
}
VQ_OP(ids) { (void)t; std::string r; for (auto &e : structs()) r += (r.empty() ? "" : " ") + e.first; return r; }
VQ_OP(defaults) {
    auto it = structs().find(t.s());
    if (it == structs().end()) return "NOTREGISTERED";
    vqp::unknown_log().clear();
    return it->second.dflt();
}
VQ_OP(rt) {
    auto it = structs().find(t.s());
    if (it == structs().end()) return "NOTREGISTERED";
    ptree in = parse_tree(t.s());
    vqp::unknown_log().clear();
    std::string out;
    // (caught here: vq::driver_main has already printed the line prefix when a handler throws)
    try { out = it->second.rt(in); }
    catch (const std::exception &e) { return "EXC " + vq::exc_kind(e); }
    return "T:" + out + " U:" + show_unknown();
}

// raw property-tree operations, to validate the Ptree.v semantics of get / put / get_child /
// add_child / count / erase:  ptree <tree> <n> (op args)*n ; prints the tree after the
// script and the results of the queries
VQ_OP(ptree) {
    ptree p = parse_tree(t.s());
    long n = t.i();
    std::string res;
    for (long k = 0; k < n; ++k) {
        std::string op = t.s();
        if (op == "put") { std::string path = t.s(), v = t.s(); p.put(path == "-" ? std::string() : path, v); }
        else if (op == "add_child") { std::string path = t.s(); ptree c = parse_tree(t.s()); p.add_child(path, c); }
        else if (op == "get") { std::string key = t.s(), d = t.s(); res += " get=" + p.get(key, d); }
        else if (op == "get_child") { std::string key = t.s(); res += " child=" + show_tree(p.get_child(key, amgcl::detail::empty_ptree())); }
        else if (op == "count") { std::string key = t.s(); res += " count=" + std::to_string(p.count(key)); }
        else if (op == "erase") { std::string key = t.s(); res += " erased=" + std::to_string(p.erase(key)); }
        else throw std::runtime_error("ptree: unknown op");
    }
    return show_tree(p) + res;
}

int main() { register_all(); return vq::driver_main(); }
