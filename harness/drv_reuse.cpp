// drv_reuse.cpp -- C15 (objects): call histories on ONE object vs FRESH objects (protocol: reuse_common.hh) for
//   rprec  : relaxation::as_preconditioner<builtin<V>, R> bare or inside make_solver<., S>,
//            R in damped_jacobi spai0 gauss_seidel ilu0 iluk ilup ilut chebyshev spai1, S = any of the 8 solvers
//   rsky   : solver::skyline_lu<V>  (command apply f x0 = S(f, x))
//   rdefl  : deflated_solver<P, S>, P in {as_preconditioner<spai0>, amg<aggregation, spai0>}; commands solve, solveA,
//            msapply (= apply), project
// Ops exist for V = vq::Q (exact) and V = double (prefix "d.", printed exactly, nan/inf as tokens).
//
//   [d.]rprec <relax> <damping|-> <k|-> <cheb: degree lower higher scale power_iters> <serial> <solver|none> <side> <prm16> A <nscript> cmds
//   [d.]rsky  A <nscript> cmds
//   [d.]rdefl <spai0|amg> <solver> <side> <prm16> A <nvec> (vec)*nvec <nscript> cmds
#include "poison_new.hpp"
#include "reuse_common.hh"
#include <amgcl/amg.hpp>
#include <amgcl/deflated_solver.hpp>
#include <amgcl/solver/skyline_lu.hpp>
#include <amgcl/coarsening/aggregation.hpp>
#include <amgcl/relaxation/as_preconditioner.hpp>
#include <amgcl/relaxation/damped_jacobi.hpp>
#include <amgcl/relaxation/spai0.hpp>
#include <amgcl/relaxation/spai1.hpp>
#include <amgcl/relaxation/gauss_seidel.hpp>
#include <amgcl/relaxation/chebyshev.hpp>
#include <amgcl/relaxation/ilu0.hpp>
#include <amgcl/relaxation/iluk.hpp>
#include <amgcl/relaxation/ilup.hpp>
#include <amgcl/relaxation/ilut.hpp>
using namespace ru;
namespace rx = amgcl::relaxation;

// ------------------------------------------------------------ relaxation as preconditioner
struct RCfg {
    std::string damping, k; long degree; double lower, higher; long scale, power_iters, serial;
    void read(Tok &t) {
        damping = t.s(); k = t.s(); degree = t.i(); lower = t.d(); higher = t.d(); scale = t.i(); power_iters = t.i(); serial = t.i();
    }
};
template <class V> struct RS {
    typedef be::builtin<V> B;
    static void set(typename rx::damped_jacobi<B>::params &p, const RCfg &c) { if (c.damping != "-") p.damping = cv<V>(vq::parse(c.damping)); }
    static void set(typename rx::spai0<B>::params &, const RCfg &) {}
    static void set(typename rx::gauss_seidel<B>::params &p, const RCfg &c) { p.serial = c.serial != 0; }
    static void set(typename rx::ilu0<B>::params &p, const RCfg &c) { if (c.damping != "-") p.damping = cv<V>(vq::parse(c.damping)); p.solve.serial = c.serial != 0; }
    static void set(typename rx::iluk<B>::params &p, const RCfg &c) { if (c.damping != "-") p.damping = cv<V>(vq::parse(c.damping)); if (c.k != "-") p.k = std::stoi(c.k); p.solve.serial = c.serial != 0; }
    static void set(typename rx::ilup<B>::params &p, const RCfg &c) { if (c.damping != "-") p.damping = cv<V>(vq::parse(c.damping)); if (c.k != "-") p.k = std::stoi(c.k); p.solve.serial = c.serial != 0; }
    static void set(typename rx::ilut<B>::params &p, const RCfg &c) { if (c.damping != "-") p.damping = cv<V>(vq::parse(c.damping)); if (c.k != "-") p.p = cv<V>(vq::parse(c.k)); p.solve.serial = c.serial != 0; }
    static void set(typename rx::chebyshev<B>::params &p, const RCfg &c) {
        p.degree = (unsigned)c.degree; p.lower = (float)c.lower; p.higher = (float)c.higher; p.scale = c.scale != 0; p.power_iters = (int)c.power_iters;
    }
};
template <class V, template <class> class R> std::string run_rprec(Tok &t) {
    typedef be::builtin<V> B;
    typedef rx::as_preconditioner<B, R> P;
    RCfg c; c.read(t);
    std::string solver = t.s(); Prm sp; sp.left = (t.s() == "left"); sp.read(t);
    Mat<V> A; A.A = t.crsT<V>();
    typename P::params prm; RS<V>::set(prm, c);
    auto script = read_script<V>(t);
    return run_history<V>(Factory<V, P>::get(solver, A, prm, sp), A.A, script);
}
template <class V> std::string op_rprec(Tok &t) {
    std::string r = t.s();
    if (r == "damped_jacobi") return run_rprec<V, rx::damped_jacobi>(t);
    if (r == "spai0")         return run_rprec<V, rx::spai0>(t);
    if (r == "spai1")         return run_rprec<V, rx::spai1>(t);
    if (r == "gauss_seidel")  return run_rprec<V, rx::gauss_seidel>(t);
    if (r == "ilu0")          return run_rprec<V, rx::ilu0>(t);
    if (r == "iluk")          return run_rprec<V, rx::iluk>(t);
    if (r == "ilup")          return run_rprec<V, rx::ilup>(t);
    if (r == "ilut")          return run_rprec<V, rx::ilut>(t);
    if (r == "chebyshev")     return run_rprec<V, rx::chebyshev>(t);
    return "UNSUPPORTED";
}

// ------------------------------------------------------------ skyline LU
template <class V> struct SkyObj : Obj<V> {
    sv::skyline_lu<V> S;
    template <class M> explicit SkyObj(const M &A) : S(A) {}
    std::string run(const Cmd<V> &c, std::vector<V> &x) {
        if (c.kind == "apply") { S(c.f, x); return show(x); }
        throw unsupported_cmd();
    }
};
template <class V> std::string op_rsky(Tok &t) {
    Mat<V> A; A.A = t.crsT<V>();
    auto script = read_script<V>(t);
    return run_history<V>([A]() { return std::shared_ptr< Obj<V> >(new SkyObj<V>(A.tup())); }, A.A, script);
}

// ------------------------------------------------------------ deflated solver
template <class V, class P, class S> struct DeflObj : Obj<V> {
    typedef amgcl::deflated_solver<P, S> DS;
    DS ds;
    template <class M> DeflObj(const M &A, const typename DS::params &dp) : ds(A, dp) {}
    std::string run(const Cmd<V> &c, std::vector<V> &x) {
        if (c.kind == "solve") { auto r = ds(c.f, x); return fmt(r, x); }
        if (c.kind == "solveA") { auto r = ds(*c.A.A, c.f, x); return fmt(r, x); }
        if (c.kind == "msapply" || c.kind == "apply") { ds.apply(c.f, x); return show(x); }
        if (c.kind == "project") { ds.project(c.f, x); return show(x); }
        throw unsupported_cmd();
    }
};
template <class V, class P> struct DeflFactory {
    typedef be::builtin<V> B;
    typedef std::function< std::shared_ptr< Obj<V> >() > make_fn;
    template <class S> static make_fn mk(const Mat<V> &A, const typename P::params &pp, const Prm &sp, std::shared_ptr< std::vector<V> > Z, int nv) {
        typename amgcl::deflated_solver<P, S>::params dp; dp.precond = pp; SP<V>::set(dp.solver, sp); dp.nvec = nv; dp.vec = Z->data();
        return [A, dp, Z]() { return std::shared_ptr< Obj<V> >(new DeflObj<V, P, S>(A.tup(), dp)); };
    }
    static make_fn get(const std::string &solver, const Mat<V> &A, const typename P::params &pp, const Prm &sp, std::shared_ptr< std::vector<V> > Z, int nv) {
        if (solver == "cg")         return mk< sv::cg<B> >(A, pp, sp, Z, nv);
        if (solver == "bicgstab")   return mk< sv::bicgstab<B> >(A, pp, sp, Z, nv);
        if (solver == "richardson") return mk< sv::richardson<B> >(A, pp, sp, Z, nv);
        if (solver == "gmres")      return mk< sv::gmres<B> >(A, pp, sp, Z, nv);
        if (solver == "fgmres")     return mk< sv::fgmres<B> >(A, pp, sp, Z, nv);
        if (solver == "lgmres")     return mk< sv::lgmres<B> >(A, pp, sp, Z, nv);
        if (solver == "bicgstabl")  return mk< sv::bicgstabl<B> >(A, pp, sp, Z, nv);
        if (solver == "idrs")       return mk< sv::idrs<B> >(A, pp, sp, Z, nv);
        throw std::runtime_error("bad solver " + solver);
    }
};
template <class V> std::string op_rdefl(Tok &t) {
    typedef be::builtin<V> B;
    std::string pk = t.s(), solver = t.s(); Prm sp; sp.left = (t.s() == "left"); sp.read(t);
    Mat<V> A; A.A = t.crsT<V>();
    long nv = t.i();
    auto Z = std::make_shared< std::vector<V> >();
    for (long k = 0; k < nv; ++k) { auto z = t.vecT<V>(); Z->insert(Z->end(), z.begin(), z.end()); }
    std::vector<V> Z0 = *Z;
    auto script = read_script<V>(t);
    std::string r;
    if (pk == "spai0") {
        typedef rx::as_preconditioner<B, rx::spai0> P;
        r = run_history<V>(DeflFactory<V, P>::get(solver, A, typename P::params(), sp, Z, (int)nv), A.A, script);
    } else if (pk == "amg") {
        typedef amgcl::amg<B, amgcl::coarsening::aggregation, rx::spai0> P;
        typename P::params pp; pp.coarse_enough = 2; pp.max_levels = 2;   // two levels, coarsest level relaxed when n/3 > 2
        r = run_history<V>(DeflFactory<V, P>::get(solver, A, pp, sp, Z, (int)nv), A.A, script);
    } else return "UNSUPPORTED";
    if (!same_vec(Z0, *Z)) return "INPUT-MODIFIED (deflation vectors)";
    return r;
}

static void reg_all() {
    auto &r = vq::registry();
    r["rprec"] = op_rprec<Q>; r["d.rprec"] = op_rprec<double>;
    r["rsky"] = op_rsky<Q>;   r["d.rsky"] = op_rsky<double>;
    r["rdefl"] = op_rdefl<Q>; r["d.rdefl"] = op_rdefl<double>;
}
int main() { reg_all(); return vq::driver_main(); }
