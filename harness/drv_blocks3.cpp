// drv_blocks3.cpp -- drv_blocks.cpp with block size 3
#define BLK_B 3
#include "drv_blocks.cpp"
