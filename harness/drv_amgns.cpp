// drv_amgns.cpp -- C10: AMG constructions WITH user near-null-space vectors and pointwise (block_size >= 1) aggregates.
//
// The only guard that keeps tentative_prolongation() from QR-factorising a block with fewer rows than columns is
// pointwise_aggregates::remove_small_aggregates (test `block_size * count[i] < min_aggregate`, min_aggregate =
// nullspace.cols); for a d x cols block with d < cols the copy loop `Bnew[...] = qr.R(ii,jj)` reads r[ii + jj*d] behind
// the d*cols entries of the scratch vector Bpart (coq/SmallAggr.v: r_copy_loop, theorems C10_smallaggr_*).  This driver
// runs the real coarsening policies (aggregation, smoothed_aggregation, smoothed_aggr_emin) with nullspace.cols in 1..4 and
// aggr.block_size in 1..3 on matrices whose strength graph is not symmetric (plain aggregation then leaves one-node /
// small aggregates), first level by level through the policy object (transfer_operators + coarse_operator, printing P, R,
// the coarse near-null space left in prm.nullspace.B and the coarse matrix), then through amgcl::amg (hierarchy dump and
// two apply() calls).  Every double is printed as its 64-bit pattern.
//
//   amgns <coarsening> <relax> <block_size> <cols> <coarse_enough> <max_levels> <eps_strong> <npre> <npost> A B[] f[]
//
// Two builds (tools/props/C10.py, run_ns):
//   amgns@poison  the allocator below: every block from operator new / new[] is filled -- together with SLACK bytes behind
//                 it, the way a real heap block is followed by bytes that belong to somebody else -- with the pattern
//                 VQ_POISON_FILL (00 / FF / AA / rand), and every RELEASED block is overwritten with the pattern before it
//                 goes back to malloc.  The outputs must be bitwise identical under the four fills.
//   amgns@asan    AddressSanitizer + UBSan (-fno-sanitize-recover) with -D_GLIBCXX_SANITIZE_VECTOR, so that a read behind
//                 size() of a std::vector is reported even when it stays inside its capacity (Bpart is reused for all the
//                 aggregates of a thread): any report kills the driver (CRASH = violation).
#ifdef VQ_POISON
#include <cstdlib>
#include <cstring>
#include <new>
namespace vq_poison_ns {
static const std::size_t HDR = 32;     // size header in front of the user block, keeps 16-byte alignment
static const std::size_t SLACK = 64;   // bytes behind the block that are filled as well
inline int fill_byte() {
    static int b = -2;
    if (b == -2) {
        const char *e = std::getenv("VQ_POISON_FILL");
        if (!e) b = 0; else if (std::strcmp(e, "rand") == 0) b = -1; else b = (int)std::strtol(e, 0, 16) & 0xff;
    }
    return b;
}
inline void fill(void *p, std::size_t n) {
    int b = fill_byte();
    if (b >= 0) std::memset(p, b, n);
    else { static unsigned long long s = 88172645463325252ULL; unsigned char *q = (unsigned char*)p;
           for (std::size_t i = 0; i < n; ++i) { s = s * 6364136223846793005ULL + 1442695040888963407ULL; q[i] = (unsigned char)(s >> 56); } }
}
inline void* alloc(std::size_t n) {
    unsigned char *q = (unsigned char*)std::malloc(n + HDR + SLACK);
    if (!q) throw std::bad_alloc();
    std::memset(q, 0, HDR);
    std::memcpy(q, &n, sizeof n);
    fill(q + HDR, n + SLACK);
    return q + HDR;
}
inline void release(void *p) {
    if (!p) return;
    unsigned char *q = (unsigned char*)p - HDR;
    std::size_t n; std::memcpy(&n, q, sizeof n);
    fill(p, n + SLACK);
    std::free(q);
}
}
void* operator new(std::size_t n) { return vq_poison_ns::alloc(n); }
void* operator new[](std::size_t n) { return vq_poison_ns::alloc(n); }
void* operator new(std::size_t n, const std::nothrow_t&) noexcept { try { return vq_poison_ns::alloc(n); } catch (...) { return 0; } }
void* operator new[](std::size_t n, const std::nothrow_t&) noexcept { try { return vq_poison_ns::alloc(n); } catch (...) { return 0; } }
void operator delete(void *p) noexcept { vq_poison_ns::release(p); }
void operator delete[](void *p) noexcept { vq_poison_ns::release(p); }
void operator delete(void *p, std::size_t) noexcept { vq_poison_ns::release(p); }
void operator delete[](void *p, std::size_t) noexcept { vq_poison_ns::release(p); }
void operator delete(void *p, const std::nothrow_t&) noexcept { vq_poison_ns::release(p); }
void operator delete[](void *p, const std::nothrow_t&) noexcept { vq_poison_ns::release(p); }
#endif
#include "vq_io.hpp"
#include "vq_access.hpp"
#include <cstring>
#include <cstdint>
#include <amgcl/backend/builtin.hpp>
#include <amgcl/adapter/crs_tuple.hpp>
#include <amgcl/amg.hpp>
#include <amgcl/coarsening/aggregation.hpp>
#include <amgcl/coarsening/smoothed_aggregation.hpp>
#include <amgcl/coarsening/smoothed_aggr_emin.hpp>
#include <amgcl/relaxation/damped_jacobi.hpp>
#include <amgcl/relaxation/spai0.hpp>
#include <amgcl/relaxation/gauss_seidel.hpp>

using vq::Q; using vq::Tok;
namespace be = amgcl::backend;
namespace rx = amgcl::relaxation;
namespace co = amgcl::coarsening;
typedef be::builtin<double> B;
typedef be::crs<double, ptrdiff_t, ptrdiff_t> M;

static void hex(std::ostringstream &os, double d) {
    uint64_t u; std::memcpy(&u, &d, 8);
    char buf[20]; std::snprintf(buf, sizeof buf, "%016llx", (unsigned long long)u);
    os << buf;
}
template <class V> static std::string bits(const V &v, size_t n) {
    std::ostringstream os; os << "[";
    for (size_t i = 0; i < n; ++i) { if (i) os << " "; hex(os, v[i]); }
    os << "]"; return os.str();
}
static std::string bits(const std::vector<double> &v) { return bits(v, v.size()); }
// a matrix with every stored entry: {nrows ncols | col:bits col:bits | ...}
static std::string mbits(const M &A) {
    std::ostringstream os; os << "{" << A.nrows << " " << A.ncols;
    for (size_t i = 0; i < A.nrows; ++i) {
        os << " |";
        for (ptrdiff_t j = A.ptr[i]; j < A.ptr[i + 1]; ++j) { os << " " << A.col[j] << ":"; hex(os, A.val[j]); }
    }
    os << "}"; return os.str();
}

struct Cfg { long bs, cols, coarse_enough, max_levels, npre, npost; double eps; std::vector<double> Bv; };

template <class P> static void set_cprm(P &p, const Cfg &c) {
    p.aggr.eps_strong = (float)c.eps; p.aggr.block_size = (unsigned)c.bs;
    p.nullspace.cols = (int)c.cols; p.nullspace.B = c.Bv;
}
template <class P> static void set_rprm(P &, ...) {}
static void set_rprm(rx::gauss_seidel<B>::params &p, int) { p.serial = true; }

// the coarsening policy driven by hand, the way amg::do_init / level::step_down drive it
template <class C>
static std::string by_hand(const Cfg &c, std::shared_ptr<M> A) {
    typename C::params prm; set_cprm(prm, c);
    C pol(prm);
    std::ostringstream os; os << "H";
    try {
        for (long lvl = 0; lvl + 1 < c.max_levels && (long)A->nrows > c.coarse_enough; ++lvl) {
            std::shared_ptr<M> P, R;
            try { std::tie(P, R) = pol.template transfer_operators<M>(*A); }
            catch (amgcl::error::empty_level) { os << " E"; break; }
            be::sort_rows(*P); be::sort_rows(*R);
            os << " T " << mbits(*P) << " " << mbits(*R) << " N " << bits(pol.prm.nullspace.B);
            A = pol.coarse_operator(*A, *P, *R);
            be::sort_rows(*A);
            os << " A " << mbits(*A);
        }
    } catch (const std::exception &e) { os << " EXC " << vq::exc_kind(e); }
    return os.str();
}

template <template <class> class C, template <class> class R>
static std::string run(Tok &t) {
    Cfg c;
    c.bs = t.i(); c.cols = t.i(); c.coarse_enough = t.i(); c.max_levels = t.i(); c.eps = t.d(); c.npre = t.i(); c.npost = t.i();
    auto A = t.crsT<double>(); c.Bv = t.vecT<double>(); auto f = t.vecT<double>();
    size_t n = A->nrows;
    std::ostringstream os;
    {   // the policy works on its own sorted copy of A
        auto A1 = std::make_shared<M>(*A); be::sort_rows(*A1);
        os << by_hand< C<B> >(c, A1);
    }
    os << " ; ";
    try {
        typedef amgcl::amg<B, C, R> AMG;
        typename AMG::params prm;
        prm.coarse_enough = (unsigned)c.coarse_enough; prm.max_levels = (unsigned)c.max_levels;
        prm.npre = (unsigned)c.npre; prm.npost = (unsigned)c.npost;
        set_cprm(prm.coarsening, c);
        set_rprm(prm.relax, 0);
        auto Mtx = std::make_tuple(n,
            amgcl::make_iterator_range(A->ptr, A->ptr + n + 1),
            amgcl::make_iterator_range(A->col, A->col + A->nnz),
            amgcl::make_iterator_range(A->val, A->val + A->nnz));
        AMG amg(Mtx, prm);
        const auto &lv = amgcl::verif::access::levels(amg);
        os << "D " << lv.size();
        for (const auto &l : lv) {
            if (l.solve) { os << " S "; if (l.A) os << mbits(*l.A); else os << "-"; }
            else if (l.P) { os << " M " << mbits(*l.A) << " " << mbits(*l.P) << " " << mbits(*l.R); }
            else { os << " L " << mbits(*l.A); }
        }
        be::numa_vector<double> x(n, false);
        amg.apply(f, x); os << " X " << bits(x, n);
        std::vector<double> f2(f); for (size_t i = 0; i < n; ++i) f2[i] = f[n - 1 - i];
        amg.apply(f2, x); os << " X " << bits(x, n);
    } catch (const std::exception &e) { os << "EXC " << vq::exc_kind(e); }
    return os.str();
}

template <template <class> class C>
static std::string pick_relax(const std::string &r, Tok &t) {
    if (r == "damped_jacobi") return run<C, rx::damped_jacobi>(t);
    if (r == "spai0")         return run<C, rx::spai0>(t);
    if (r == "gauss_seidel")  return run<C, rx::gauss_seidel>(t);
    return "UNSUPPORTED";
}
VQ_OP(amgns) {
    std::string c = t.s(), r = t.s();
    if (c == "aggregation")          return pick_relax<co::aggregation>(r, t);
    if (c == "smoothed_aggregation") return pick_relax<co::smoothed_aggregation>(r, t);
    if (c == "smoothed_aggr_emin")   return pick_relax<co::smoothed_aggr_emin>(r, t);
    return "UNSUPPORTED";
}
int main() { return vq::driver_main(); }
