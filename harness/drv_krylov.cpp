// drv_krylov.cpp -- C01 / C05 / C15 (solver part): the eight Krylov solvers of amgcl
// instantiated with the exact rational vq::Q and with double, driven through
// make_solver (solve) or directly with per-call matrices (seq).
//
// Parameter block (16 positional tokens, every solver takes what it needs):
//   maxiter tol abstol ns check_after M K L damping s omega smoothing replacement delta convex always_reset
// Ops:
//   solve   <solver> <side> <pk> <prm16> A [d|B] f x0   -> "<iters> <residual> [x]"
//   seq     <solver> <side> <prm16> <n> <ncalls> (<pk> A [d|B] f x0)*  one object, many calls
//   seqfresh  same line, a fresh object for every call
//   d.solve / d.seq / d.seqfresh : the same with double
//   d.truth <kappa> <solver> <side> <pk> <prm16> A [d|B] f x0 -> "OK ..." | "FAIL ..." (long double recomputation)
//   idrs.raw <n> <s>      -> the s*n draws of std::mt19937 / uniform_real_distribution(-1,1) the idrs constructor
//                            makes (same statements, same OpenMP structure), as s vectors: explicit input of the model
//   idrs.shadow <n> <s>   -> the private shadow space P of a constructed idrs<builtin<Q>> object (after the
//                            constructor's Gram-Schmidt), as s vectors; trailing tokens are ignored
// pk: id (amgcl-style dummy: copy), diag (vector d, vmul), mat (matrix B, spmv).
// Inputs (matrix, rhs) are compared before/after every call: "INPUT-MODIFIED" replaces the payload.
#include "vq_io.hpp"
#include <cstring>
// glue needed by bicgstabl.hpp (std::real on the coefficient type); must precede the solver headers
namespace std { inline vq::Q real(const vq::Q &a) { return a; } inline vq::Q imag(const vq::Q &) { return vq::Q(0); } }
#include <amgcl/backend/builtin.hpp>
#include <amgcl/make_solver.hpp>
#include <amgcl/solver/cg.hpp>
#include <amgcl/solver/bicgstab.hpp>
#include <amgcl/solver/bicgstabl.hpp>
#include <amgcl/solver/gmres.hpp>
#include <amgcl/solver/fgmres.hpp>
#include <amgcl/solver/lgmres.hpp>
#include <amgcl/solver/idrs.hpp>
#include <amgcl/solver/richardson.hpp>
#include <amgcl/solver/preonly.hpp>
#include <cmath>
using vq::Q; using vq::Tok; using vq::show;
namespace be = amgcl::backend;
namespace sv = amgcl::solver;

struct Prm {
    long maxiter; Q tol, abstol; bool ns, ca; long M, K, L; Q damping; long s; Q omega; bool smoothing, replacement;
    Q delta; bool convex, areset; bool left;
    void read(Tok &t) {
        maxiter = t.i(); tol = t.q(); abstol = t.q(); ns = t.i() != 0; ca = t.i() != 0; M = t.i(); K = t.i(); L = t.i();
        damping = t.q(); s = t.i(); omega = t.q(); smoothing = t.i() != 0; replacement = t.i() != 0; delta = t.q();
        convex = t.i() != 0; areset = t.i() != 0;
    }
};

template <class V> V cv(const Q &q);
template <> Q cv<Q>(const Q &q) { return q; }
template <> double cv<double>(const Q &q) { return (double)q; }

// ------------------------------------------------------------ preconditioners
template <class V>
struct Pre {
    typedef be::builtin<V> backend_type;
    typedef typename backend_type::matrix matrix;
    typedef typename backend_type::matrix build_matrix;
    typedef typename backend_type::params backend_params;
    typedef V value_type;
    struct params {
        int kind; std::vector<V> d; std::shared_ptr<matrix> B;
        params() : kind(0) {}
    } prm;
    std::shared_ptr<matrix> A;
    Pre(std::shared_ptr<matrix> A, const params &p = params(), const backend_params& = backend_params()) : prm(p), A(A) {}
    template <class V1, class V2> void apply(const V1 &rhs, V2 &&x) const {
        switch (prm.kind) {
            case 0: be::copy(rhs, x); break;
            case 1: be::vmul(amgcl::math::identity<V>(), prm.d, rhs, amgcl::math::zero<V>(), x); break;
            default: be::spmv(amgcl::math::identity<V>(), *prm.B, rhs, amgcl::math::zero<V>(), x);
        }
    }
    const matrix& system_matrix() const { return *A; }
    std::shared_ptr<matrix> system_matrix_ptr() const { return A; }
    size_t bytes() const { return 0; }
};

// ------------------------------------------------------------ parameter construction
template <class V> struct SP {
    typedef be::builtin<V> B;
    static amgcl::preconditioner::side::type sd(const Prm &p) { return p.left ? amgcl::preconditioner::side::left : amgcl::preconditioner::side::right; }
    static typename sv::cg<B>::params cg(const Prm &p) { typename sv::cg<B>::params q; q.maxiter = p.maxiter; q.tol = cv<V>(p.tol); q.abstol = cv<V>(p.abstol); q.ns_search = p.ns; return q; }
    static typename sv::bicgstab<B>::params bicgstab(const Prm &p) { typename sv::bicgstab<B>::params q; q.pside = sd(p); q.maxiter = p.maxiter; q.tol = cv<V>(p.tol); q.abstol = cv<V>(p.abstol); q.check_after = p.ca; q.ns_search = p.ns; return q; }
    static typename sv::richardson<B>::params richardson(const Prm &p) { typename sv::richardson<B>::params q; q.damping = cv<V>(p.damping); q.maxiter = p.maxiter; q.tol = cv<V>(p.tol); q.abstol = cv<V>(p.abstol); q.ns_search = p.ns; return q; }
    static typename sv::gmres<B>::params gmres(const Prm &p) { typename sv::gmres<B>::params q; q.M = p.M; q.pside = sd(p); q.maxiter = p.maxiter; q.tol = cv<V>(p.tol); q.abstol = cv<V>(p.abstol); q.ns_search = p.ns; return q; }
    static typename sv::fgmres<B>::params fgmres(const Prm &p) { typename sv::fgmres<B>::params q; q.M = p.M; q.maxiter = p.maxiter; q.tol = cv<V>(p.tol); q.abstol = cv<V>(p.abstol); q.ns_search = p.ns; return q; }
    static typename sv::lgmres<B>::params lgmres(const Prm &p) { typename sv::lgmres<B>::params q; q.M = p.M; q.K = p.K; q.always_reset = p.areset; q.pside = sd(p); q.maxiter = p.maxiter; q.tol = cv<V>(p.tol); q.abstol = cv<V>(p.abstol); q.ns_search = p.ns; return q; }
    static typename sv::bicgstabl<B>::params bicgstabl(const Prm &p) { typename sv::bicgstabl<B>::params q; q.L = p.L; q.delta = cv<V>(p.delta); q.convex = p.convex; q.pside = sd(p); q.maxiter = p.maxiter; q.tol = cv<V>(p.tol); q.abstol = cv<V>(p.abstol); q.ns_search = p.ns; return q; }
    static typename sv::idrs<B>::params idrs(const Prm &p) { typename sv::idrs<B>::params q; q.s = p.s; q.omega = cv<V>(p.omega); q.smoothing = p.smoothing; q.replacement = p.replacement; q.maxiter = p.maxiter; q.tol = cv<V>(p.tol); q.abstol = cv<V>(p.abstol); q.ns_search = p.ns; return q; }
};

template <class V> struct Call {
    typedef be::builtin<V> B;
    typedef typename B::matrix matrix;
    std::string pk; std::shared_ptr<matrix> A; typename Pre<V>::params pp; std::vector<V> f, x;
    void read(Tok &t) {
        pk = t.s(); A = t.crsT<V>();
        if (pk == "id") pp.kind = 0;
        else if (pk == "diag") { pp.kind = 1; pp.d = t.vecT<V>(); }
        else if (pk == "mat") { pp.kind = 2; pp.B = t.crsT<V>(); }
        else throw std::runtime_error("bad pk");
        f = t.vecT<V>(); x = t.vecT<V>();
    }
};

template <class V> bool same_bits(const V &a, const V &b);
template <> bool same_bits<Q>(const Q &a, const Q &b) { return a == b; }
template <> bool same_bits<double>(const double &a, const double &b) { return std::memcmp(&a, &b, sizeof(double)) == 0; }

template <class V> struct Snapshot {
    typedef typename be::builtin<V>::matrix matrix;
    std::vector<ptrdiff_t> ptr, col; std::vector<V> val, f; size_t n, m;
    Snapshot(const matrix &A, const std::vector<V> &f) : f(f), n(A.nrows), m(A.ncols) {
        ptr.assign(A.ptr, A.ptr + A.nrows + 1); col.assign(A.col, A.col + A.nnz); val.assign(A.val, A.val + A.nnz);
    }
    bool same(const matrix &A, const std::vector<V> &g) const {
        if (A.nrows != n || A.ncols != m || A.nnz != col.size() || g.size() != f.size()) return false;
        for (size_t i = 0; i <= n; ++i) if (A.ptr[i] != ptr[i]) return false;
        for (size_t j = 0; j < col.size(); ++j) if (A.col[j] != col[j] || !same_bits(A.val[j], val[j])) return false;
        for (size_t i = 0; i < f.size(); ++i) if (!same_bits(g[i], f[i])) return false;
        return true;
    }
};

template <class V, class T>
std::string fmt(const std::tuple<size_t, T> &r, const std::vector<V> &x) {
    std::ostringstream os; os << std::get<0>(r) << " " << show(std::get<1>(r)) << " " << show(x); return os.str();
}

// one solver object of run-time chosen type; call(A, P, f, x)
template <class V> struct AnySolver {
    typedef be::builtin<V> B;
    typedef typename B::matrix matrix;
    typedef std::function<std::tuple<size_t, V>(const matrix&, const Pre<V>&, const std::vector<V>&, std::vector<V>&)> fn;
    fn call;
    template <class S> static fn wrap(std::shared_ptr<S> s) {
        return [s](const matrix &A, const Pre<V> &P, const std::vector<V> &f, std::vector<V> &x) {
            auto r = (*s)(A, P, f, x); return std::make_tuple((size_t)std::get<0>(r), (V)std::get<1>(r)); };
    }
    AnySolver(const std::string &name, size_t n, const Prm &p) {
        if      (name == "cg")         call = wrap(std::make_shared< sv::cg<B> >(n, SP<V>::cg(p)));
        else if (name == "bicgstab")   call = wrap(std::make_shared< sv::bicgstab<B> >(n, SP<V>::bicgstab(p)));
        else if (name == "richardson") call = wrap(std::make_shared< sv::richardson<B> >(n, SP<V>::richardson(p)));
        else if (name == "gmres")      call = wrap(std::make_shared< sv::gmres<B> >(n, SP<V>::gmres(p)));
        else if (name == "fgmres")     call = wrap(std::make_shared< sv::fgmres<B> >(n, SP<V>::fgmres(p)));
        else if (name == "lgmres")     call = wrap(std::make_shared< sv::lgmres<B> >(n, SP<V>::lgmres(p)));
        else if (name == "bicgstabl")  call = wrap(std::make_shared< sv::bicgstabl<B> >(n, SP<V>::bicgstabl(p)));
        else if (name == "idrs")       call = wrap(std::make_shared< sv::idrs<B> >(n, SP<V>::idrs(p)));
        else throw std::runtime_error("bad solver");
    }
};

// through make_solver<Pre, Solver>: constructor sets up P and S, operator()(rhs, x) uses P.system_matrix()
template <class V, class S>
std::tuple<size_t, V> via_make_solver(Call<V> &c, const typename S::params &sp) {
    typedef amgcl::make_solver< Pre<V>, S > MS;
    typename MS::params mp; mp.precond = c.pp; mp.solver = sp;
    MS ms(c.A, mp);
    auto r = ms(c.f, c.x);
    return std::make_tuple((size_t)std::get<0>(r), (V)std::get<1>(r));
}

template <class V> std::tuple<size_t, V> solve_ms(const std::string &name, const Prm &p, Call<V> &c) {
    typedef be::builtin<V> B;
    if (name == "cg")         return via_make_solver<V, sv::cg<B> >(c, SP<V>::cg(p));
    if (name == "bicgstab")   return via_make_solver<V, sv::bicgstab<B> >(c, SP<V>::bicgstab(p));
    if (name == "richardson") return via_make_solver<V, sv::richardson<B> >(c, SP<V>::richardson(p));
    if (name == "gmres")      return via_make_solver<V, sv::gmres<B> >(c, SP<V>::gmres(p));
    if (name == "fgmres")     return via_make_solver<V, sv::fgmres<B> >(c, SP<V>::fgmres(p));
    if (name == "lgmres")     return via_make_solver<V, sv::lgmres<B> >(c, SP<V>::lgmres(p));
    if (name == "bicgstabl")  return via_make_solver<V, sv::bicgstabl<B> >(c, SP<V>::bicgstabl(p));
    if (name == "idrs")       return via_make_solver<V, sv::idrs<B> >(c, SP<V>::idrs(p));
    throw std::runtime_error("bad solver");
}

template <class V> struct K {
    static std::string solve(Tok &t) {
        std::string name = t.s(); Prm p; p.left = (t.s() == "left");
        // pk comes before the parameter block in this op: re-order into Call
        std::string pk = t.s(); p.read(t);
        Call<V> c; c.pk = pk; c.A = t.crsT<V>();
        if (pk == "id") c.pp.kind = 0; else if (pk == "diag") { c.pp.kind = 1; c.pp.d = t.vecT<V>(); } else { c.pp.kind = 2; c.pp.B = t.crsT<V>(); }
        c.f = t.vecT<V>(); c.x = t.vecT<V>();
        Snapshot<V> snap(*c.A, c.f);
        // exceptions are formatted here (driver_main of vq_io.hpp prints the line prefix twice
        // when a handler throws under -std=c++11 evaluation order)
        try {
            auto r = solve_ms<V>(name, p, c);
            if (!snap.same(*c.A, c.f)) return "INPUT-MODIFIED";
            return fmt(r, c.x);
        } catch (const std::exception &e) {
            if (getenv("VQ_WHAT")) std::cerr << e.what() << std::endl;
            return std::string("EXC ") + vq::exc_kind(e);
        }
    }
    static std::string seq_impl(Tok &t, bool fresh) {
        std::string name = t.s(); Prm p; p.left = (t.s() == "left"); p.read(t);
        long n = t.i(), nc = t.i();
        std::unique_ptr< AnySolver<V> > S;
        if (!fresh) S.reset(new AnySolver<V>(name, n, p));
        std::ostringstream os;
        for (long k = 0; k < nc; ++k) {
            Call<V> c; c.read(t);
            if (fresh) S.reset(new AnySolver<V>(name, n, p));
            Pre<V> P(c.A, c.pp);
            Snapshot<V> snap(*c.A, c.f);
            if (k) os << " ; ";
            try {
                auto r = S->call(*c.A, P, c.f, c.x);
                if (!snap.same(*c.A, c.f)) os << "INPUT-MODIFIED"; else os << fmt(r, c.x);
            } catch (const std::exception &e) {
                os << "EXC " << vq::exc_kind(e);
            }
        }
        return os.str();
    }
    static std::string seq(Tok &t) { return seq_impl(t, false); }
    static std::string seqfresh(Tok &t) { return seq_impl(t, true); }
    static void reg(const std::string &pfx) {
        auto &r = vq::registry();
        r[pfx + "solve"] = solve; r[pfx + "seq"] = seq; r[pfx + "seqfresh"] = seqfresh;
    }
};

// ------------------------------------------------------------ double build: truthfulness in long double
static std::string d_truth(Tok &t) {
    typedef long double LD;
    double kappa = (double)t.q();
    std::string name = t.s(); Prm p; p.left = (t.s() == "left");
    std::string pk = t.s(); p.read(t);
    Call<double> c; c.pk = pk; c.A = t.crsT<double>();
    if (pk == "id") c.pp.kind = 0; else if (pk == "diag") { c.pp.kind = 1; c.pp.d = t.vecT<double>(); } else { c.pp.kind = 2; c.pp.B = t.crsT<double>(); }
    c.f = t.vecT<double>(); c.x = t.vecT<double>();
    auto r = solve_ms<double>(name, p, c);
    size_t iters = std::get<0>(r); double rep = std::get<1>(r);
    const auto &A = *c.A; size_t n = A.nrows;
    std::vector<LD> res(n), pr(n);
    for (size_t i = 0; i < n; ++i) { LD s = c.f[i]; for (ptrdiff_t j = A.ptr[i]; j < A.ptr[i+1]; ++j) s -= (LD)A.val[j] * (LD)c.x[A.col[j]]; res[i] = s; }
    bool sided = (name == "bicgstab" || name == "gmres" || name == "lgmres" || name == "bicgstabl");
    if (p.left && sided) {
        if (c.pp.kind == 0) pr = res;
        else if (c.pp.kind == 1) for (size_t i = 0; i < n; ++i) pr[i] = (LD)c.pp.d[i] * res[i];
        else { const auto &B = *c.pp.B; for (size_t i = 0; i < n; ++i) { LD s = 0; for (ptrdiff_t j = B.ptr[i]; j < B.ptr[i+1]; ++j) s += (LD)B.val[j] * res[B.col[j]]; pr[i] = s; } }
    } else pr = res;
    LD nr = 0, nf = 0; for (size_t i = 0; i < n; ++i) { nr += pr[i] * pr[i]; nf += (LD)c.f[i] * (LD)c.f[i]; }
    nr = std::sqrt(nr); nf = std::sqrt(nf);
    LD tr = nr / nf;
    LD tolv = 1e-10L * kappa + 1e-6L * tr;
    long bound = p.maxiter + (name == "bicgstabl" ? p.L - 1 : 0);
    std::ostringstream os; os.precision(17);
    bool ok = (rep == rep) && std::fabs((LD)rep - tr) <= tolv && (long)iters <= bound;
    os << (ok ? "OK" : "FAIL") << " iters=" << iters << " reported=" << rep << " true=" << (double)tr << " bound=" << bound;
    return os.str();
}
static vq::Reg reg_dtruth("d.truth", d_truth);

// ------------------------------------------------------------ IDR(s): the constructor's random shadow space
// read-only access to the private member idrs::P (explicit instantiation may name private members)
namespace rob {
template <class Tag> struct Slot { static typename Tag::type ptr; };
template <class Tag> typename Tag::type Slot<Tag>::ptr;
template <class Tag, typename Tag::type p> struct Fill { Fill() { Slot<Tag>::ptr = p; } static Fill inst; };
template <class Tag, typename Tag::type p> Fill<Tag, p> Fill<Tag, p>::inst;
}
typedef sv::idrs< be::builtin<Q> > IdrsQ;
struct IdrsPTag { typedef std::vector< std::shared_ptr<IdrsQ::vector> > IdrsQ::*type; };
template struct rob::Fill<IdrsPTag, &IdrsQ::P>;

static std::string show_vecs(const std::vector< std::vector<Q> > &vs) {
    std::ostringstream os;
    for (size_t j = 0; j < vs.size(); ++j) { if (j) os << " "; os << show(vs[j]); }
    return os.str();
}

// the statements of idrs.hpp:196-223 with the vectors kept raw (pid = inner_product.rank() = 0)
static std::string idrs_raw(Tok &t) {
    long n = t.i(), s = t.i();
    typedef Q rhs_type; typedef Q scalar_type;
    std::vector< std::vector<Q> > out;
    std::vector<rhs_type> p(n);
    int pid = 0;
#pragma omp parallel
    {
#ifdef _OPENMP
        int tid = omp_get_thread_num();
        int nt = omp_get_max_threads();
#else
        int tid = 0;
        int nt = 1;
#endif
        std::mt19937 rng(pid * nt + tid);
        std::uniform_real_distribution<scalar_type> rnd(-1, 1);
        for (long j = 0; j < s; ++j) {
#pragma omp for
            for (ptrdiff_t i = 0; i < static_cast<ptrdiff_t>(n); ++i)
                p[i] = amgcl::math::constant<rhs_type>(rnd(rng));
#pragma omp single
            { out.push_back(p); }
        }
    }
    return show_vecs(out);
}
static vq::Reg reg_idrs_raw("idrs.raw", idrs_raw);

static std::string idrs_shadow(Tok &t) {
    long n = t.i(), s = t.i();
    Prm p; p.maxiter = 1; p.tol = Q(0); p.abstol = Q(0); p.ns = false; p.s = s; p.omega = Q(0); p.smoothing = false; p.replacement = false;
    IdrsQ S(n, SP<Q>::idrs(p));
    const std::vector< std::shared_ptr<IdrsQ::vector> > &P = S.*(rob::Slot<IdrsPTag>::ptr);
    std::vector< std::vector<Q> > out;
    for (size_t j = 0; j < P.size(); ++j) { std::vector<Q> v(n); for (long i = 0; i < n; ++i) v[i] = (*P[j])[i]; out.push_back(v); }
    return show_vecs(out);
}
static vq::Reg reg_idrs_shadow("idrs.shadow", idrs_shadow);

int main() { K<Q>::reg(""); K<double>::reg("d."); return vq::driver_main(); }
