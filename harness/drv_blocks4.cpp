// drv_blocks4.cpp -- drv_blocks.cpp with block size 4
#define BLK_B 4
#include "drv_blocks.cpp"
