// drv_kernels_ecx.cpp -- C07: the Eigen backend with a COMPLEX value type (std::complex<double> on small
// dyadic Gaussian rationals: + - * exact).  Same op names and case lines as the "cx.*" ops of
// drv_kernels_block.cpp (builtin backend), so the outputs must equal the same model outputs
// (Kernels.v at ComplexS QcS) -- in particular inner_product must be conjugate-linear in the SECOND argument
// on this backend too.  Only the coefficient kinds made of 'c' (complex coefficients) are driven here.
#include "vq_io.hpp"
#include <amgcl/backend/eigen.hpp>
#include <amgcl/backend/builtin.hpp>
#include <amgcl/value_type/complex.hpp>
#include <complex>
using vq::Tok;
namespace be = amgcl::backend;
typedef std::complex<double> Cx;
namespace vq {   // same parsing / printing of complex values as drv_kernels_block.cpp
template <> inline Cx Tok::val<Cx>() { double re = d(); double im = d(); return Cx(re, im); }
inline std::string show(const Cx &z) { return show(z.real()) + "," + show(z.imag()); }
inline std::string show(const std::vector<Cx> &v) {
    std::ostringstream os; os << "[";
    for (size_t k = 0; k < v.size(); ++k) { if (k) os << " "; os << show(v[k]); }
    os << "]"; return os.str();
}
}
typedef Eigen::Matrix<Cx, Eigen::Dynamic, 1> EV;
typedef be::eigen<Cx> EB;
static EV to_e(const std::vector<Cx> &v) { EV e(v.size()); for (size_t i = 0; i < v.size(); ++i) e[i] = v[i]; return e; }
static std::vector<Cx> from_e(const EV &e) { return std::vector<Cx>(e.data(), e.data() + e.size()); }
static Cx coef(Tok &t) { double re = t.d(), im = t.d(); return Cx(re, im); }
static bool all_c(const std::string &k) { for (char c : k) if (c != 'c') return false; return true; }

VQ_OP(cx_inner) { EV x = to_e(t.vecT<Cx>()), y = to_e(t.vecT<Cx>()); Cx r = be::inner_product(x, y); return vq::show(r); }
VQ_OP(cx_copy)  { EV x = to_e(t.vecT<Cx>()), y = to_e(t.vecT<Cx>()); be::copy(x, y); return vq::show(from_e(y)); }
VQ_OP(cx_clear) { EV x = to_e(t.vecT<Cx>()); be::clear(x); return vq::show(from_e(x)); }
VQ_OP(cx_axpby) { std::string k = t.s(); if (!all_c(k)) return "SKIP";
    Cx a = coef(t); EV x = to_e(t.vecT<Cx>()); Cx b = coef(t); EV y = to_e(t.vecT<Cx>()); be::axpby(a, x, b, y); return vq::show(from_e(y)); }
VQ_OP(cx_axpbypcz) { std::string k = t.s(); if (!all_c(k)) return "SKIP";
    Cx a = coef(t); EV x = to_e(t.vecT<Cx>()); Cx b = coef(t); EV y = to_e(t.vecT<Cx>()); Cx c = coef(t); EV z = to_e(t.vecT<Cx>());
    be::axpbypcz(a, x, b, y, c, z); return vq::show(from_e(z)); }
VQ_OP(cx_vmul) { std::string k = t.s(); if (!all_c(k)) return "SKIP";
    Cx a = coef(t); EV x = to_e(t.vecT<Cx>()); EV y = to_e(t.vecT<Cx>()); Cx b = coef(t); EV z = to_e(t.vecT<Cx>());
    be::vmul(a, x, y, b, z); return vq::show(from_e(z)); }
VQ_OP(cx_spmv) { std::string k = t.s(); if (!all_c(k)) return "SKIP";
    Cx a = coef(t); auto A = t.crsT<Cx>(); EV x = to_e(t.vecT<Cx>()); Cx b = coef(t); EV y = to_e(t.vecT<Cx>());
    std::shared_ptr< be::crs<Cx, ptrdiff_t, ptrdiff_t> > As = A; auto Ae = EB::copy_matrix(As, EB::params());
    be::spmv(a, *Ae, x, b, y); return vq::show(from_e(y)); }
VQ_OP(cx_residual) { EV f = to_e(t.vecT<Cx>()); auto A = t.crsT<Cx>(); EV x = to_e(t.vecT<Cx>()); EV r = to_e(t.vecT<Cx>());
    std::shared_ptr< be::crs<Cx, ptrdiff_t, ptrdiff_t> > As = A; auto Ae = EB::copy_matrix(As, EB::params());
    be::residual(f, *Ae, x, r); return vq::show(from_e(r)); }

int main() {
    auto &r = vq::registry(); std::vector<std::string> names;
    for (auto &kv : r) if (kv.first.compare(0, 3, "cx_") == 0) names.push_back(kv.first);
    for (auto &n : names) { r["cx." + n.substr(3)] = r[n]; r.erase(n); }
    return vq::driver_main();
}
