// C15 (objects): amg / make_solver<amg, S> call histories, one object vs fresh objects (reuse_amg.hh)
#define VQ_COARSENING amgcl::coarsening::smoothed_aggr_emin
#define VQ_COARSENING_NAME "smoothed_aggr_emin"
#include "reuse_amg.hh"
