// drv_direct.cpp -- C16: direct and dense kernels on the real amgcl templates.
//   sky / sky_t  : solver::skyline_lu<Q, cuthill_mckee<rev>> built from a builtin crs / a CRS tuple,
//                  several right-hand sides solved on ONE object (reuse of the scratch vector y)
//   skyb         : skyline_lu<static_matrix<Q,b,b>> on the block view of a scalar matrix (oracle only)
//   cm           : reorder::cuthill_mckee<rev>::get
//   inv / sminv  : detail::inverse (junk-filled scratch) / math::inverse(static_matrix<Q,b,b>)
//   sm / smident : static_matrix arithmetic / algebraic identities evaluated on the implementation
//   qr / qrsolve : detail::QR<Q> (pseudo-root: compared digit for digit with the model)
//   qrseq / qrseqf : sequences of compute / factorize / solve calls of different shapes and storage orders on ONE
//                  QR object / on a fresh object per call (model: coq/QrObj.v; also d.qrseq / d.qrseqf)
//   d.qr / d.qrsolve / d.inv / d.sky : double instantiation, outputs printed as exact rationals
//                  (residual oracles are evaluated by tools/props/C16.py in exact arithmetic)
// assert() inside detail::inverse is turned into the outcome "EXC assert" (longjmp out of
// __assert_fail), so that singular inputs can be compared as an outcome class.
#undef NDEBUG
#include <csetjmp>
#include <cstdlib>
#include <cstdio>
#include <unistd.h>
#include <deque>
#include <memory>
#include "vq_io.hpp"
#include <amgcl/backend/builtin.hpp>
#include <amgcl/adapter/crs_tuple.hpp>
#include <amgcl/adapter/block_matrix.hpp>
#include <amgcl/value_type/static_matrix.hpp>
#include <amgcl/solver/skyline_lu.hpp>
#include <amgcl/reorder/cuthill_mckee.hpp>
#include <amgcl/detail/inverse.hpp>
#include <amgcl/detail/qr.hpp>

using vq::Q; using vq::Tok; using vq::show;
namespace be = amgcl::backend;

// ---- assertion failures as an outcome -------------------------------------------------
static jmp_buf g_assert_jmp;
static volatile int g_assert_armed = 0;
extern "C" void __assert_fail(const char *a, const char *f, unsigned int l, const char *fn) noexcept {
    if (g_assert_armed) { g_assert_armed = 0; longjmp(g_assert_jmp, 1); }
    std::fprintf(stderr, "assertion failed: %s (%s:%u %s)\n", a, f, l, fn ? fn : "");
    std::abort();
}
struct assert_failed : std::exception { const char* what() const noexcept { return "assert"; } };
#define VQ_GUARD_ASSERT(stmt) do { g_assert_armed = 1; if (setjmp(g_assert_jmp) == 0) { stmt; g_assert_armed = 0; } \
                                   else { return std::string("EXC assert"); } } while (0)

// exceptions are turned into the payload here (evaluate first, print afterwards)
template <class F> static std::string guarded(F f, Tok &t) {
    // watchdog: a reordering / factorisation that does not terminate kills the driver (reported as CRASH)
    alarm(60);
    try { std::string r = f(t); alarm(0); return r; }
    catch (const std::exception &e) { alarm(0); return std::string("EXC ") + vq::exc_kind(e); }
}

// ---- skyline_lu ------------------------------------------------------------------------
template <class V, bool REV, bool TUPLE>
static std::string sky_run(Tok &t) {
    auto A = t.crsT<V>();
    long nrhs = t.i();
    std::vector< std::vector<V> > rhs(nrhs), x0(nrhs);
    for (long k = 0; k < nrhs; ++k) { rhs[k] = t.vecT<V>(); x0[k] = t.vecT<V>(); }
    typedef amgcl::solver::skyline_lu<V, amgcl::reorder::cuthill_mckee<REV> > Solver;
    std::unique_ptr<Solver> S;
    std::vector<ptrdiff_t> ptr(A->ptr, A->ptr + A->nrows + 1), col(A->col, A->col + A->nnz);
    std::vector<V> val(A->val, A->val + A->nnz);
    if (TUPLE) S.reset(new Solver(std::tie(A->nrows, ptr, col, val)));
    else       S.reset(new Solver(*A));
    std::ostringstream os;
    for (long k = 0; k < nrhs; ++k) {
        std::vector<V> x = x0[k];
        (*S)(rhs[k], x);
        if (k) os << " ";
        os << show(x);
    }
    return os.str();
}
template <class V, bool TUPLE> static std::string sky_disp(Tok &t) {
    long rev = t.i();
    return rev ? sky_run<V, true, TUPLE>(t) : sky_run<V, false, TUPLE>(t);
}
VQ_OP(sky)   { return guarded(sky_disp<Q, false>, t); }
VQ_OP(sky_t) { return guarded(sky_disp<Q, true>, t); }

// block value type: the scalar (n*b) x (n*b) matrix is viewed as n x n blocks of b x b;
// output: the solution as a scalar vector (checked by the A x = b oracle only)
template <int B> static std::string skyb_run(Tok &t) {
    typedef amgcl::static_matrix<Q, B, B> blk; typedef amgcl::static_matrix<Q, B, 1> rhs_t;
    auto A = t.crs(); std::vector<Q> f = t.vec();
    long n = A->nrows / B;
    auto Ab = amgcl::adapter::block_matrix<blk>(*A);
    be::crs<blk> Abm(Ab);
    amgcl::solver::skyline_lu<blk> S(Abm);
    std::vector<rhs_t> fb(n), xb(n);
    for (long i = 0; i < n; ++i) for (int k = 0; k < B; ++k) { fb[i](k) = f[i * B + k]; xb[i](k) = Q(77); }
    S(fb, xb);
    S(fb, xb);   // second call on the same object
    std::vector<Q> x(n * B);
    for (long i = 0; i < n; ++i) for (int k = 0; k < B; ++k) x[i * B + k] = xb[i](k);
    return show(x);
}
static std::string skyb_disp(Tok &t) {
    long b = t.i();
    switch (b) { case 1: return skyb_run<1>(t); case 2: return skyb_run<2>(t); case 3: return skyb_run<3>(t);
                 case 4: return skyb_run<4>(t); default: return "UNSUPPORTED"; }
}
VQ_OP(skyb) { return guarded(skyb_disp, t); }

// ---- cuthill_mckee ---------------------------------------------------------------------
static std::string cm_run(Tok &t) {
    long rev = t.i(); auto A = t.crs();
    std::vector<int> perm(A->nrows, -7);
    if (rev) amgcl::reorder::cuthill_mckee<true>::get(*A, perm);
    else     amgcl::reorder::cuthill_mckee<false>::get(*A, perm);
    return vq::show_ivec(perm);
}
VQ_OP(cm) { return guarded(cm_run, t); }

// ---- detail::inverse / math::inverse ------------------------------------------------------
static std::string inv_q(long n, std::vector<Q> A, const std::vector<Q> &junk) {
    std::vector<Q> tt = junk; tt.resize(n * n); std::vector<int> p(n, -3);
    VQ_GUARD_ASSERT(amgcl::detail::inverse((int)n, A.data(), tt.data(), p.data()));
    return show(A);
}
VQ_OP(inv) { long n = t.i(); auto A = t.vec(); auto junk = t.vec(); return inv_q(n, A, junk); }

template <int B> static std::string sminv_run(const std::vector<Q> &a) {
    amgcl::static_matrix<Q, B, B> A, R;
    for (int i = 0; i < B * B; ++i) A(i) = a[i];
    VQ_GUARD_ASSERT(R = amgcl::math::inverse(A));
    std::vector<Q> r(B * B); for (int i = 0; i < B * B; ++i) r[i] = R(i);
    return show(r);
}
VQ_OP(sminv) {
    long b = t.i(); auto a = t.vec();
    switch (b) { case 1: return sminv_run<1>(a); case 2: return sminv_run<2>(a); case 3: return sminv_run<3>(a);
                 case 4: return sminv_run<4>(a); case 5: return sminv_run<5>(a); case 6: return sminv_run<6>(a);
                 default: return "UNSUPPORTED"; }
}

// ---- static_matrix arithmetic ----------------------------------------------------------------
template <int N, int M> static amgcl::static_matrix<Q, N, M> mk(const std::vector<Q> &a) {
    amgcl::static_matrix<Q, N, M> A; for (int i = 0; i < N * M; ++i) A(i) = a[i]; return A;
}
template <int N, int M> static std::vector<Q> un(const amgcl::static_matrix<Q, N, M> &A) {
    std::vector<Q> r(N * M); for (int i = 0; i < N * M; ++i) r[i] = A(i); return r;
}
static std::vector<Q> un1(const Q &x) { return std::vector<Q>(1, x); }
template <int N, int M> static std::vector<Q> un1(const amgcl::static_matrix<Q, N, M> &A) { return un<N, M>(A); }
template <int B> static std::string sm_run(Tok &t) {
    namespace m = amgcl::math;
    typedef amgcl::static_matrix<Q, B, B> blk; typedef amgcl::static_matrix<Q, B, 1> cv;
    std::string op = t.s();
    if (op == "add")   { blk a = mk<B,B>(t.vec()), b = mk<B,B>(t.vec()); return show(un<B,B>(a + b)); }
    if (op == "sub")   { blk a = mk<B,B>(t.vec()), b = mk<B,B>(t.vec()); return show(un<B,B>(a - b)); }
    if (op == "mul")   { blk a = mk<B,B>(t.vec()), b = mk<B,B>(t.vec()); return show(un<B,B>(a * b)); }
    if (op == "mulv")  { blk a = mk<B,B>(t.vec()); cv x = mk<B,1>(t.vec()); return show(un<B,1>(a * x)); }
    if (op == "scale") { Q c = t.q(); blk a = mk<B,B>(t.vec()); return show(un<B,B>(c * a)); }
    if (op == "neg")   { blk a = mk<B,B>(t.vec()); return show(un<B,B>(-a)); }
    if (op == "adj")   { blk a = mk<B,B>(t.vec()); return show(un<B,B>(m::adjoint(a))); }
    if (op == "adjv")  { cv x = mk<B,1>(t.vec()); return show(un<1,B>(m::adjoint(x))); }
    if (op == "id")    { return show(un<B,B>(m::identity<blk>())); }
    if (op == "zero")  { return show(un<B,B>(m::zero<blk>())); }
    if (op == "const") { Q c = t.q(); return show(un<B,B>(m::constant<blk>(c))); }
    if (op == "norm")  { blk a = mk<B,B>(t.vec()); return show(Q(m::norm(a))); }
    if (op == "inner") { blk a = mk<B,B>(t.vec()), b = mk<B,B>(t.vec()); return show(un1(m::inner_product(a, b))); }
    if (op == "innerv"){ cv a = mk<B,1>(t.vec()), b = mk<B,1>(t.vec()); return show(Q(m::inner_product(a, b))); }
    if (op == "iszero"){ blk a = mk<B,B>(t.vec()); return m::is_zero(a) ? "1" : "0"; }
    if (op == "lt")    { blk a = mk<B,B>(t.vec()), b = mk<B,B>(t.vec()); return (a < b) ? "1" : "0"; }
    return "UNSUPPORTED";
}
VQ_OP(sm) {
    long b = t.i();
    switch (b) { case 1: return sm_run<1>(t); case 2: return sm_run<2>(t); case 3: return sm_run<3>(t);
                 case 4: return sm_run<4>(t); case 5: return sm_run<5>(t); case 6: return sm_run<6>(t);
                 default: return "UNSUPPORTED"; }
}

// rectangular blocks: product N x K times K x M, adjoint and inner product of N x M
template <int N, int K, int M> static std::string smr_mul(Tok &t) {
    auto a = mk<N,K>(t.vec()); auto b = mk<K,M>(t.vec()); return show(un<N,M>(a * b));
}
template <int N, int M> static std::string smr_adj(Tok &t) {
    auto a = mk<N,M>(t.vec()); return show(un<M,N>(amgcl::math::adjoint(a)));
}
template <int N, int M> static std::string smr_inner(Tok &t) {
    auto a = mk<N,M>(t.vec()); auto b = mk<N,M>(t.vec()); return show(un1(amgcl::math::inner_product(a, b)));
}
VQ_OP(smr) {
    std::string op = t.s(); long N = t.i(), K = t.i(), M = t.i();
    long key = N * 100 + K * 10 + M;
    if (op == "mul") switch (key) {
        case 232: return smr_mul<2,3,2>(t); case 324: return smr_mul<3,2,4>(t); case 132: return smr_mul<1,3,2>(t);
        case 213: return smr_mul<2,1,3>(t); case 343: return smr_mul<3,4,3>(t); case 421: return smr_mul<4,2,1>(t); }
    if (op == "adj") switch (key) {   // K unused (= 0)
        case 203: return smr_adj<2,3>(t); case 302: return smr_adj<3,2>(t); case 104: return smr_adj<1,4>(t); case 304: return smr_adj<3,4>(t); }
    if (op == "inner") switch (key) {
        case 302: return smr_inner<3,2>(t); case 203: return smr_inner<2,3>(t); case 402: return smr_inner<4,2>(t); }
    return "UNSUPPORTED";
}
// algebraic identities evaluated on the implementation; prints one flag per identity
template <int B> static std::string smident_run(Tok &t) {
    namespace m = amgcl::math;
    typedef amgcl::static_matrix<Q, B, B> blk;
    blk a = mk<B,B>(t.vec()), b = mk<B,B>(t.vec()), c = mk<B,B>(t.vec()); Q s = t.q();
    blk I = m::identity<blk>(), Z = m::zero<blk>();
    auto eq = [](const blk &x, const blk &y) { for (int i = 0; i < B * B; ++i) if (!(x(i) == y(i))) return false; return true; };
    std::vector<int> fl;
    fl.push_back(eq((a * b) * c, a * (b * c)));                       // 0 associativity
    fl.push_back(eq(a * (b + c), a * b + a * c));                     // 1 left distributivity
    fl.push_back(eq((a + b) * c, a * c + b * c));                     // 2 right distributivity
    fl.push_back(eq(I * a, a) && eq(a * I, a));                       // 3 identity
    fl.push_back(eq(m::adjoint(a * b), m::adjoint(b) * m::adjoint(a)));// 4 adjoint anti-multiplicative
    fl.push_back(eq(m::adjoint(m::adjoint(a)), a));                   // 5 adjoint involutive
    fl.push_back(eq(a + b, b + a) && eq((a + b) + c, a + (b + c)));   // 6 additive group
    fl.push_back(eq(a - a, Z) && eq(a + Z, a) && eq(a + (-a), Z));    // 7 zero / negation
    fl.push_back(eq(s * (a * b), (s * a) * b) && eq(s * (a + b), s * a + s * b)); // 8 scaling
    fl.push_back(eq(a - b, a + (-b)));                                // 9 subtraction
    fl.push_back(m::is_zero(Z) && (m::is_zero(a) == eq(a, Z)));       // 10 is_zero
    return vq::show_ivec(fl);
}
VQ_OP(smident) {
    long b = t.i();
    switch (b) { case 1: return smident_run<1>(t); case 2: return smident_run<2>(t); case 3: return smident_run<3>(t);
                 case 4: return smident_run<4>(t); case 5: return smident_run<5>(t); case 6: return smident_run<6>(t);
                 default: return "UNSUPPORTED"; }
}

// ---- QR -------------------------------------------------------------------------------------
template <class V> static std::string qr_run(Tok &t) {
    long ord = t.i(), m = t.i(), n = t.i(); std::vector<V> A = t.vecT<V>();
    amgcl::detail::QR<V> qr;
    qr.factorize((int)m, (int)n, A.data(), ord ? amgcl::detail::col_major : amgcl::detail::row_major);
    long k = std::min(m, n);
    std::vector<V> Qm(m * n), Rm(k * n);
    for (long i = 0; i < m; ++i) for (long j = 0; j < n; ++j) Qm[i * n + j] = qr.Q((int)i, (int)j);
    for (long i = 0; i < k; ++i) for (long j = 0; j < n; ++j) Rm[i * n + j] = qr.R((int)i, (int)j);
    return show(Qm) + " " + show(Rm) + " " + show(A);
}
template <class V> static std::string qrsolve_run(Tok &t) {
    long ord = t.i(), m = t.i(), n = t.i(); std::vector<V> A = t.vecT<V>(); std::vector<V> b = t.vecT<V>();
    std::vector<V> x(n, V(55));
    amgcl::detail::QR<V> qr;
    qr.solve((int)m, (int)n, A.data(), b.data(), x.data(), ord ? amgcl::detail::col_major : amgcl::detail::row_major);
    return show(x);
}

// compute() first, then solve(..., computed = true): rows >= cols only
template <class V> static std::string qrsolvec_run(Tok &t) {
    long ord = t.i(), m = t.i(), n = t.i(); std::vector<V> A = t.vecT<V>(); std::vector<V> b = t.vecT<V>();
    std::vector<V> x(n, V(55));
    amgcl::detail::QR<V> qr;
    auto o = ord ? amgcl::detail::col_major : amgcl::detail::row_major;
    qr.compute((int)m, (int)n, A.data(), o);
    qr.solve((int)m, (int)n, A.data(), b.data(), x.data(), o, true);
    return show(x);
}
// two factorizations / solves on ONE QR object: the second result must not depend on the first
template <class V> static std::string qr2_run(Tok &t) {
    long ord1 = t.i(), m1 = t.i(), n1 = t.i(); std::vector<V> A1 = t.vecT<V>();
    amgcl::detail::QR<V> qr;
    qr.factorize((int)m1, (int)n1, A1.data(), ord1 ? amgcl::detail::col_major : amgcl::detail::row_major);
    long ord = t.i(), m = t.i(), n = t.i(); std::vector<V> A = t.vecT<V>();
    qr.factorize((int)m, (int)n, A.data(), ord ? amgcl::detail::col_major : amgcl::detail::row_major);
    long k = std::min(m, n);
    std::vector<V> Qm(m * n), Rm(k * n);
    for (long i = 0; i < m; ++i) for (long j = 0; j < n; ++j) Qm[i * n + j] = qr.Q((int)i, (int)j);
    for (long i = 0; i < k; ++i) for (long j = 0; j < n; ++j) Rm[i * n + j] = qr.R((int)i, (int)j);
    return show(Qm) + " " + show(Rm) + " " + show(A);
}

// ---- QR: a sequence of compute / factorize / solve calls on ONE object (model: coq/QrObj.v) ------------------
//   qrseq  <ncalls> <call>*   one QR<V> object for the whole sequence
//   qrseqf <ncalls> <call>*   a fresh object for every call
// call ::= F <ord> <m> <n> <A> | C <ord> <m> <n> <A> | W <ord> <m> <n> <A> | S <ord> <m> <n> <A> <b> | T <b>
//   W: the caller's own preparation of a wide system (m < n): adjoint in place + compute(n, m, col_stride, row_stride, A)
//   T: solve(..., computed = true) with the shape / order / array of the last call that was not a T; on a fresh
//      object that call is repeated first.  All arrays stay alive until the end of the sequence (r points into them).
template <class V> struct QrSeq {
    typedef amgcl::detail::QR<V> QRt;
    struct Est { std::string k; long ord, m, n; std::vector<V> A0, b0; };
    std::unique_ptr<QRt> qr;
    std::deque< std::vector<V> > arrays;
    QrSeq() : qr(new QRt()) {}
    static amgcl::detail::storage_order so(long ord) { return ord ? amgcl::detail::col_major : amgcl::detail::row_major; }
    // one call that is not a T, on a copy of the input array that is kept alive
    std::string establish(const Est &e) {
        arrays.push_back(e.A0); std::vector<V> &A = arrays.back();
        int m = (int)e.m, n = (int)e.n;
        if (e.k == "F") {
            qr->factorize(m, n, A.data(), so(e.ord));
            long k = std::min(e.m, e.n);
            std::vector<V> Qm(e.m * e.n), Rm(k * e.n);
            for (long i = 0; i < e.m; ++i) for (long j = 0; j < e.n; ++j) Qm[i * e.n + j] = qr->Q((int)i, (int)j);
            for (long i = 0; i < k; ++i) for (long j = 0; j < e.n; ++j) Rm[i * e.n + j] = qr->R((int)i, (int)j);
            return show(Qm) + " " + show(Rm) + " " + show(A);
        }
        if (e.k == "C") { qr->compute(m, n, A.data(), so(e.ord)); return show(A); }
        if (e.k == "W") {
            int rs = e.ord ? 1 : n, cs = e.ord ? m : 1;
            for (size_t i = 0; i < A.size(); ++i) A[i] = amgcl::math::adjoint(A[i]);
            qr->compute(n, m, cs, rs, A.data());
            return show(A);
        }
        if (e.k == "S") {
            std::vector<V> x(e.n, V(55));
            qr->solve(m, n, A.data(), e.b0.data(), x.data(), so(e.ord));
            return show(x) + " " + show(A);
        }
        throw std::runtime_error("bad call kind");
    }
    std::string run(Tok &t, bool fresh) {
        long nc = t.i();
        Est est; bool have = false;
        std::string out;
        for (long c = 0; c < nc; ++c) {
            std::string k = t.s(), o;
            if (k == "T") {
                std::vector<V> b = t.vecT<V>();
                if (!have) throw std::runtime_error("T without an establishing call");
                if (fresh) { qr.reset(new QRt()); establish(est); }
                std::vector<V> &A = arrays.back();
                std::vector<V> x(est.n, V(55));
                qr->solve((int)est.m, (int)est.n, A.data(), b.data(), x.data(), so(est.ord), true);
                o = show(x);
            } else {
                est.k = k; est.ord = t.i(); est.m = t.i(); est.n = t.i(); est.A0 = t.vecT<V>();
                est.b0 = (k == "S") ? t.vecT<V>() : std::vector<V>();
                have = true;
                if (fresh) qr.reset(new QRt());
                o = establish(est);
            }
            out += (c ? " ; " : "") + o;
        }
        return out;
    }
};
template <class V> static std::string qrseq_run(Tok &t) { QrSeq<V> s; return s.run(t, false); }
template <class V> static std::string qrseqf_run(Tok &t) { QrSeq<V> s; return s.run(t, true); }

// ---- double instantiations (oracles in python) --------------------------------------------------
static std::string d_inv(Tok &t) {
    long n = t.i(); std::vector<double> A = t.vecT<double>(); std::vector<double> junk = t.vecT<double>();
    junk.resize(n * n); std::vector<int> p(n, -3);
    VQ_GUARD_ASSERT(amgcl::detail::inverse((int)n, A.data(), junk.data(), p.data()));
    return show(A);
}
static std::string d_sky_(Tok &t) { t.i(); return sky_run<double, false, false>(t); }
static std::string d_sky(Tok &t) { return guarded(d_sky_, t); }

int main() {
    auto &r = vq::registry();
    r["qrsolvec"] = qrsolvec_run<Q>; r["d.qrsolvec"] = qrsolvec_run<double>;
    r["qr"] = qr_run<Q>; r["qrsolve"] = qrsolve_run<Q>; r["qr2"] = qr2_run<Q>;
    r["d.qr"] = qr_run<double>; r["d.qrsolve"] = qrsolve_run<double>; r["d.qr2"] = qr2_run<double>;
    r["qrseq"] = qrseq_run<Q>; r["qrseqf"] = qrseqf_run<Q>; r["d.qrseq"] = qrseq_run<double>; r["d.qrseqf"] = qrseqf_run<double>;
    r["d.inv"] = d_inv; r["d.sky"] = d_sky;
    return vq::driver_main();
}
