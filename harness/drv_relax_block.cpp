// drv_relax_block.cpp -- C06 with BLOCK value types: the relaxation classes of amgcl instantiated with
//   value_type = amgcl::static_matrix<vq::Q,b,b>,  rhs_type = amgcl::static_matrix<vq::Q,b,1>,  b = 2, 3
// on the builtin backend (exact rationals; block products do NOT commute, so operand order is observable).
// Model side: ocaml/relax/ops_relax_block.ml runs the SAME extracted models (Relax.v, Ilu.v, Cheby.v) at the
// Scalar instance BlockInst.BlockS QcS b.
//
// Token types (b = first argument of every op):
//   bcrs = nrows ncols (k (col q^(b*b))*k)*nrows      block values row-major, storage order, duplicates allowed
//   bvec = n q^(n*b)                                  n entries of type static_matrix<Q,b,1>
// Sweep ops:   b.<relax> <b> <mode> <params...> <A:bcrs> <rhs:bvec> <x:bvec>   -> x after the call, flat [q ...]
//   mode = pre | post | apply | asprec (relaxation::as_preconditioner<B,R>::apply)
//   relax/params: jacobi <damping> | spai0 | gs | cheby <degree> <lower> <higher> <scale>
//                 ilu0 <damping> | iluk <k> <damping> | ilup <k> <damping> | ilut <p> <tau> <damping>
//   (gauss_seidel: serial = true; ILU family: solve.serial = true; chebyshev: power_iters = 0)
// Factor ops:  b.ilu0_factors <b> <A> | b.iluk_factors <b> <k> <A> | b.ilup_factors <b> <k> <A> | b.ilut_factors <b> <p> <tau> <A>
//              -> "{L} {U} [D]": block matrices as {n m | c:v;v;..;v c:... | ...}, D (inverted pivot blocks) flat
// Other:       b.ilu_solve <b> <L> <U> <D:n q^(n*b*b)> <x:bvec> ; b.spai0_m <b> <A> ; b.jacobi_dia <b> <A> ;
//              b.gersh <b> <scale> <A> -> spectral_radius<scale>(A, 0) (a base scalar)
//              b.inverse <b> <q^(b*b)> -> math::inverse(static_matrix) ; b.mul <b> <q^(b*b)> <q^(b*b)> -> operator*
// Private members are reached exactly as in drv_relax.cpp.
#include "vq_io.hpp"
#include "vq_access.hpp"
#include <amgcl/backend/builtin.hpp>
#include <amgcl/value_type/static_matrix.hpp>
#include <amgcl/relaxation/damped_jacobi.hpp>
#include <amgcl/relaxation/spai0.hpp>
#include <amgcl/relaxation/gauss_seidel.hpp>
#include <amgcl/relaxation/chebyshev.hpp>
#include <amgcl/relaxation/ilu0.hpp>
#include <amgcl/relaxation/iluk.hpp>
#include <amgcl/relaxation/ilup.hpp>
#ifdef VQ_Q_HAS_INT_CONV
#include <amgcl/relaxation/ilut.hpp>
#endif
#include <amgcl/relaxation/as_preconditioner.hpp>

using vq::Q; using vq::Tok;
namespace rx = amgcl::relaxation;

// ---- private member access by explicit instantiation
template <class Tag> struct Stolen { static typename Tag::type ptr; };
template <class Tag> typename Tag::type Stolen<Tag>::ptr;
template <class Tag, typename Tag::type p> struct Steal {
    struct Init { Init() { Stolen<Tag>::ptr = p; } };
    static Init init;
};
template <class Tag, typename Tag::type p> typename Steal<Tag, p>::Init Steal<Tag, p>::init;

template <int N> struct Ty {
    typedef amgcl::static_matrix<Q, N, N> V;
    typedef amgcl::static_matrix<Q, N, 1> R;
    typedef amgcl::backend::builtin<V> B;
    typedef amgcl::backend::crs<V, ptrdiff_t, ptrdiff_t> M;
    typedef rx::detail::ilu_solve<B> IluSolve;
};
template <int N> struct tag_ilu0 { typedef std::shared_ptr<typename Ty<N>::IluSolve> rx::ilu0<typename Ty<N>::B>::*type; };
template <int N> struct tag_iluk { typedef std::shared_ptr<typename Ty<N>::IluSolve> rx::iluk<typename Ty<N>::B>::*type; };
template <int N> struct tag_ilup { typedef std::shared_ptr< rx::ilu0<typename Ty<N>::B> > rx::ilup<typename Ty<N>::B>::*type; };
#ifdef VQ_Q_HAS_INT_CONV
template <int N> struct tag_ilut { typedef std::shared_ptr<typename Ty<N>::IluSolve> rx::ilut<typename Ty<N>::B>::*type; };
#define STEAL_T(N) template struct Steal<tag_ilut<N>, &rx::ilut<Ty<N>::B>::ilu>;
#else
#define STEAL_T(N)
#endif
#define STEAL(N) \
    template struct Steal<tag_ilu0<N>, &rx::ilu0<Ty<N>::B>::ilu>; \
    template struct Steal<tag_iluk<N>, &rx::iluk<Ty<N>::B>::ilu>; \
    template struct Steal<tag_ilup<N>, &rx::ilup<Ty<N>::B>::base>; \
    STEAL_T(N)
STEAL(2)
STEAL(3)

template <int N> struct Ops {
    typedef typename Ty<N>::V V; typedef typename Ty<N>::R R; typedef typename Ty<N>::B B;
    typedef typename Ty<N>::M M; typedef typename Ty<N>::IluSolve IluSolve;

    // ---- parsing / printing
    static V blk(Tok &t) { V v; for (int k = 0; k < N * N; ++k) v(k) = t.q(); return v; }
    static std::shared_ptr<M> bcrs(Tok &t) {
        long n = t.i(), m = t.i();
        std::vector<ptrdiff_t> ptr(1, 0), col; std::vector<V> vl;
        for (long r = 0; r < n; ++r) {
            long k = t.i();
            for (long e = 0; e < k; ++e) { col.push_back(t.i()); vl.push_back(blk(t)); }
            ptr.push_back((ptrdiff_t)col.size());
        }
        auto A = std::make_shared<M>();
        A->set_size(n, m, false);
        A->ptr[0] = 0;
        for (long r = 0; r < n; ++r) A->ptr[r+1] = ptr[r+1];
        A->set_nonzeros(col.size(), true);
        for (size_t e = 0; e < col.size(); ++e) { A->col[e] = col[e]; A->val[e] = vl[e]; }
        return A;
    }
    static std::vector<R> bvec(Tok &t) {
        long n = t.i(); std::vector<R> v(n);
        for (long i = 0; i < n; ++i) for (int k = 0; k < N; ++k) v[i](k) = t.q();
        return v;
    }
    static std::string show(const std::vector<R> &v) {
        std::ostringstream os; os << "[";
        for (size_t i = 0; i < v.size(); ++i) for (int k = 0; k < N; ++k) { if (i || k) os << " "; os << v[i](k).str(); }
        os << "]"; return os.str();
    }
    template <class VV> static std::string show_blocks(const VV &v, size_t n) {
        std::ostringstream os; os << "[";
        for (size_t i = 0; i < n; ++i) for (int k = 0; k < N * N; ++k) { if (i || k) os << " "; os << Q(v[i](k)).str(); }
        os << "]"; return os.str();
    }
    static std::string show_blk(const V &v) {
        std::ostringstream os; for (int k = 0; k < N * N; ++k) { if (k) os << ";"; os << v(k).str(); } return os.str();
    }
    template <class MM> static std::string show_bcrs(const MM &A) {
        std::ostringstream os;
        long n = (long)A.nrows, m = (long)A.ncols;
        os << "{" << n << " " << m;
        if (n > 0 && A.ptr[0] != 0) return "BADCRS ptr0";
        for (long i = 0; i < n; ++i) {
            if (A.ptr[i+1] < A.ptr[i]) return "BADCRS nonmonotone-ptr";
            os << " |";
            for (ptrdiff_t j = A.ptr[i]; j < (ptrdiff_t)A.ptr[i+1]; ++j) {
                if (A.col[j] < 0 || (long)A.col[j] >= m) return "BADCRS col-out-of-range";
                os << " " << (long)A.col[j] << ":" << show_blk(A.val[j]);
            }
        }
        if (n > 0 && (size_t)A.ptr[n] != A.nnz) return "BADCRS nnz";
        os << "}"; return os.str();
    }

    // ---- factors
    static const IluSolve& solver_of(const rx::ilu0<B> &r) { return *(r.*Stolen< tag_ilu0<N> >::ptr); }
    static const IluSolve& solver_of(const rx::iluk<B> &r) { return *(r.*Stolen< tag_iluk<N> >::ptr); }
    static const IluSolve& solver_of(const rx::ilup<B> &r) { return solver_of(*(r.*Stolen< tag_ilup<N> >::ptr)); }
#ifdef VQ_Q_HAS_INT_CONV
    static const IluSolve& solver_of(const rx::ilut<B> &r) { return *(r.*Stolen< tag_ilut<N> >::ptr); }
#endif
    template <class Rx> static std::string factors(const Rx &r) {
        const IluSolve &s = solver_of(r);
        auto L = amgcl::verif::access::ilu_L(s); auto U = amgcl::verif::access::ilu_U(s); auto D = amgcl::verif::access::ilu_D(s);
        if (!L || !U || !D) return "NOFACTORS (ilu_solve not in serial mode)";
        return show_bcrs(*L) + " " + show_bcrs(*U) + " " + show_blocks(*D, L->nrows);
    }
    static std::string exc_of(const std::runtime_error &e) {
        std::string w = e.what();
        if (w.find("Zero pivot") != std::string::npos) return "EXC zero_pivot";
        if (w.find("No diagonal") != std::string::npos) return "EXC no_diag";
        return "EXC runtime_error";
    }

    template <template <class> class Rx, class Prm>
    static std::string sweep(const std::string &mode, const Prm &prm, Tok &t) {
        auto A = bcrs(t); std::vector<R> rhs = bvec(t); std::vector<R> x = bvec(t);
        typename B::params bprm;
        try {
            if (mode == "asprec") {
                rx::as_preconditioner<B, Rx> P(A, prm, bprm);
                P.apply(rhs, x);
                return show(x);
            }
            Rx<B> S(*A, prm, bprm);
            std::vector<R> tmp(A->nrows);
            if      (mode == "pre")   S.apply_pre (*A, rhs, x, tmp);
            else if (mode == "post")  S.apply_post(*A, rhs, x, tmp);
            else if (mode == "apply") S.apply(*A, rhs, x);
            else return "BADMODE";
            return show(x);
        } catch (const std::runtime_error &e) { return exc_of(e); }
    }
    template <template <class> class Rx, class Prm>
    static std::string factors_of(const Prm &prm, Tok &t) {
        auto A = bcrs(t);
        try { Rx<B> S(*A, prm, typename B::params()); return factors(S); }
        catch (const std::runtime_error &e) { return exc_of(e); }
    }

    static std::string jacobi(Tok &t) { std::string m = t.s(); typename rx::damped_jacobi<B>::params p; p.damping = t.q(); return sweep<rx::damped_jacobi>(m, p, t); }
    static std::string spai0(Tok &t)  { std::string m = t.s(); typename rx::spai0<B>::params p; return sweep<rx::spai0>(m, p, t); }
    static std::string gs(Tok &t)     { std::string m = t.s(); typename rx::gauss_seidel<B>::params p; p.serial = true; return sweep<rx::gauss_seidel>(m, p, t); }
    static std::string cheby(Tok &t)  {
        std::string m = t.s(); typename rx::chebyshev<B>::params p;
        p.degree = (unsigned)t.i(); p.lower = (float)t.d(); p.higher = (float)t.d(); p.scale = (t.i() != 0); p.power_iters = 0;
        return sweep<rx::chebyshev>(m, p, t);
    }
    static std::string ilu0(Tok &t) { std::string m = t.s(); typename rx::ilu0<B>::params p; p.damping = t.q(); p.solve.serial = true; return sweep<rx::ilu0>(m, p, t); }
    static std::string iluk(Tok &t) { std::string m = t.s(); typename rx::iluk<B>::params p; p.k = (int)t.i(); p.damping = t.q(); p.solve.serial = true; return sweep<rx::iluk>(m, p, t); }
    static std::string ilup(Tok &t) { std::string m = t.s(); typename rx::ilup<B>::params p; p.k = (int)t.i(); p.damping = t.q(); p.solve.serial = true; return sweep<rx::ilup>(m, p, t); }
    static std::string ilu0_factors(Tok &t) { typename rx::ilu0<B>::params p; p.solve.serial = true; return factors_of<rx::ilu0>(p, t); }
    static std::string iluk_factors(Tok &t) { typename rx::iluk<B>::params p; p.k = (int)t.i(); p.solve.serial = true; return factors_of<rx::iluk>(p, t); }
    static std::string ilup_factors(Tok &t) { typename rx::ilup<B>::params p; p.k = (int)t.i(); p.solve.serial = true; return factors_of<rx::ilup>(p, t); }
#ifdef VQ_Q_HAS_INT_CONV
    static std::string ilut(Tok &t) {
        std::string m = t.s(); typename rx::ilut<B>::params p; p.p = t.q(); p.tau = t.q(); p.damping = t.q(); p.solve.serial = true;
        return sweep<rx::ilut>(m, p, t);
    }
    static std::string ilut_factors(Tok &t) {
        typename rx::ilut<B>::params p; p.p = t.q(); p.tau = t.q(); p.solve.serial = true; return factors_of<rx::ilut>(p, t);
    }
#endif
    static std::string ilu_solve(Tok &t) {
        auto L = bcrs(t); auto U = bcrs(t);
        long nd = t.i(); auto D = std::make_shared< amgcl::backend::numa_vector<V> >(nd, false);
        for (long i = 0; i < nd; ++i) (*D)[i] = blk(t);
        std::vector<R> x = bvec(t);
        typename IluSolve::params p; p.serial = true;
        IluSolve s(L, U, D, p, typename B::params());
        s.solve(x);
        return show(x);
    }
    static std::string spai0_m(Tok &t)    { auto A = bcrs(t); rx::spai0<B> S(*A, typename rx::spai0<B>::params(), typename B::params()); return show_blocks(*S.M, A->nrows); }
    static std::string jacobi_dia(Tok &t) { auto A = bcrs(t); rx::damped_jacobi<B> S(*A, typename rx::damped_jacobi<B>::params(), typename B::params()); return show_blocks(*S.dia, A->nrows); }
    static std::string gersh(Tok &t) {
        bool scale = (t.i() != 0); auto A = bcrs(t);
        return vq::show(scale ? amgcl::backend::spectral_radius<true>(*A, 0) : amgcl::backend::spectral_radius<false>(*A, 0));
    }
    static std::string inverse(Tok &t) { V a = blk(t); V r = amgcl::math::inverse(a); std::vector<V> w(1, r); return show_blocks(w, 1); }
    static std::string mul(Tok &t) { V a = blk(t); V c = blk(t); V r = a * c; std::vector<V> w(1, r); return show_blocks(w, 1); }
};

#define BOP(name) \
    static std::string bop_##name(vq::Tok &t) { long b = t.i(); \
        if (b == 2) return Ops<2>::name(t); if (b == 3) return Ops<3>::name(t); return "UNSUPPORTED-BLOCK-SIZE"; } \
    static vq::Reg breg_##name("b." #name, bop_##name);
BOP(jacobi) BOP(spai0) BOP(gs) BOP(cheby) BOP(ilu0) BOP(iluk) BOP(ilup)
BOP(ilu0_factors) BOP(iluk_factors) BOP(ilup_factors) BOP(ilu_solve)
BOP(spai0_m) BOP(jacobi_dia) BOP(gersh) BOP(inverse) BOP(mul)
#ifdef VQ_Q_HAS_INT_CONV
BOP(ilut) BOP(ilut_factors)
#endif

int main() { return vq::driver_main(); }
