// drv_fileio_nn.cpp -- the same driver as drv_fileio.cpp, compiled WITHOUT -fsanitize=null
// (tools/props/C19.py EXTRA_FLAGS): used to look past the known "address of element 0 of an
// empty vector" reports so that the rest of the property is still evaluated on those files.
#include "drv_fileio.cpp"
