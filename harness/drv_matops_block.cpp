// drv_matops_block.cpp -- C08 for BLOCK and COMPLEX value types: the sparse matrix kernels of the builtin backend
// instantiated with
//   value_type = amgcl::static_matrix<vq::Q,b,b>, b = 2, 3                                         (ops "bm.*")
//   value_type = std::complex<double> on small dyadic Gaussian rationals (exact + - *)              (ops "cm.*")
// Model side: ocaml/matops/ops_matops_block.ml runs the SAME extracted models (MatOps.v, MatOps2.v) at the Scalar
// instances BlockInst.BlockS QcS b / ComplexInst.ComplexS QcS.  Block products do NOT commute: the operand order
// va * vb of both SpGEMM algorithms, alpha * A.val of sum, and the adjoint taken by transpose are observable.
//
// Token types (b = first argument of every bm.* op):
//   blk = q^(b*b) row-major      bcrs = nrows ncols (k (col blk)*k)*nrows  (storage order, duplicates allowed)
// Ops (block matrices are printed {n m | c:v;v;..;v c:... | ...} in storage order with structural validation):
//   bm.transpose <b> A | bm.saad <b> A B sort | bm.rmerge <b> A B | bm.product <b> nt A B sort |
//   bm.sum <b> alpha:blk A beta:blk B sort | bm.scale <b> A s:q | bm.sort_rows <b> A |
//   bm.diagonal <b> A invert -> [q^(n*b*b)] | bm.pointwise <b> A block_size -> scalar crs of block norms |
//   bm.specrad <b> scale nt A -> q  (Gershgorin with block norms)
// Complex: tokens "re im", printed "re,im":
//   cm.transpose A | cm.saad A B sort | cm.rmerge A B | cm.product nt A B sort | cm.sum al A be B sort |
//   cm.scale <kind c|r> A s | cm.sort_rows A
#include "vq_io.hpp"
#include <amgcl/backend/interface.hpp>
#include <amgcl/backend/builtin.hpp>
#include <amgcl/detail/spgemm.hpp>
#include <amgcl/value_type/static_matrix.hpp>
#include <amgcl/value_type/complex.hpp>
#include <complex>
#ifdef _OPENMP
#include <omp.h>
#endif

using vq::Q; using vq::Tok;
namespace be = amgcl::backend;

static int max_threads() {
#ifdef _OPENMP
    return omp_get_max_threads();
#else
    return 1;
#endif
}
// the case line names the thread count it was generated for; the run must really use it
static void need_nt(long nt) { if (nt != max_threads()) throw std::logic_error("nt-mismatch"); }

template <int N> struct BM {
    typedef amgcl::static_matrix<Q, N, N> V;
    typedef amgcl::backend::crs<V, ptrdiff_t, ptrdiff_t> M;

    static V blk(Tok &t) { V v; for (int k = 0; k < N * N; ++k) v(k) = t.q(); return v; }
    static std::shared_ptr<M> bcrs(Tok &t) {
        long n = t.i(), m = t.i();
        std::vector<ptrdiff_t> ptr(1, 0), col; std::vector<V> vl;
        for (long r = 0; r < n; ++r) {
            long k = t.i();
            for (long e = 0; e < k; ++e) { col.push_back(t.i()); vl.push_back(blk(t)); }
            ptr.push_back((ptrdiff_t)col.size());
        }
        auto A = std::make_shared<M>();
        A->set_size(n, m, false);
        A->ptr[0] = 0;
        for (long r = 0; r < n; ++r) A->ptr[r+1] = ptr[r+1];
        A->set_nonzeros(col.size(), true);
        for (size_t e = 0; e < col.size(); ++e) { A->col[e] = col[e]; A->val[e] = vl[e]; }
        return A;
    }
    static std::string show_blk(const V &v) {
        std::ostringstream os; for (int k = 0; k < N * N; ++k) { if (k) os << ";"; os << v(k).str(); } return os.str();
    }
    template <class MM> static std::string show_bcrs(const MM &A) {
        std::ostringstream os;
        long n = (long)A.nrows, m = (long)A.ncols;
        os << "{" << n << " " << m;
        if ((n > 0 || A.ptr) && A.ptr[0] != 0) return "BADCRS ptr0";
        for (long i = 0; i < n; ++i) {
            if (A.ptr[i+1] < A.ptr[i]) return "BADCRS nonmonotone-ptr";
            os << " |";
            for (ptrdiff_t j = A.ptr[i]; j < (ptrdiff_t)A.ptr[i+1]; ++j) {
                if (A.col[j] < 0 || (long)A.col[j] >= m) return "BADCRS col-out-of-range";
                os << " " << (long)A.col[j] << ":" << show_blk(A.val[j]);
            }
        }
        if (n > 0 && (size_t)A.ptr[n] != A.nnz) return "BADCRS nnz";
        os << "}"; return os.str();
    }

    static std::string transpose(Tok &t) { auto A = bcrs(t); auto T = be::transpose(*A); return show_bcrs(*T); }
    static std::string saad(Tok &t) { auto A = bcrs(t); auto B = bcrs(t); bool s = t.i() != 0;
        M C; be::spgemm_saad(*A, *B, C, s); return show_bcrs(C); }
    static std::string rmerge(Tok &t) { auto A = bcrs(t); auto B = bcrs(t);
        M C; be::spgemm_rmerge(*A, *B, C); return show_bcrs(C); }
    static std::string product(Tok &t) { long nt = t.i(); auto A = bcrs(t); auto B = bcrs(t); bool s = t.i() != 0;
        need_nt(nt); auto C = be::product(*A, *B, s); return show_bcrs(*C); }
    static std::string sum(Tok &t) { V al = blk(t); auto A = bcrs(t); V bt = blk(t); auto B = bcrs(t); bool s = t.i() != 0;
        auto C = be::sum(al, *A, bt, *B, s); return show_bcrs(*C); }
    static std::string scale(Tok &t) { auto A = bcrs(t); Q s = t.q(); be::scale(*A, s); return show_bcrs(*A); }
    static std::string sort_rows(Tok &t) { auto A = bcrs(t); be::sort_rows(*A); return show_bcrs(*A); }
    static std::string diagonal(Tok &t) { auto A = bcrs(t); bool inv = t.i() != 0;
        auto d = be::diagonal(*A, inv);
        std::ostringstream os; os << "[";
        for (size_t i = 0; i < d->size(); ++i) for (int k = 0; k < N * N; ++k) { if (i || k) os << " "; os << (*d)[i](k).str(); }
        os << "]"; return os.str(); }
    static std::string pointwise(Tok &t) { auto A = bcrs(t); long bs = t.i();
        auto P = be::pointwise_matrix(*A, (unsigned)bs); return vq::show_crs(*P); }
    static std::string specrad(Tok &t) { bool scale = t.i() != 0; long nt = t.i(); auto A = bcrs(t); need_nt(nt);
        Q r = scale ? be::spectral_radius<true>(*A, 0) : be::spectral_radius<false>(*A, 0);
        return vq::show(r); }
};

#define BOP(name) \
    static std::string bop_##name(vq::Tok &t) { long b = t.i(); \
        if (b == 2) return BM<2>::name(t); if (b == 3) return BM<3>::name(t); return "UNSUPPORTED-BLOCK-SIZE"; } \
    static vq::Reg breg_##name("bm." #name, bop_##name);
BOP(transpose) BOP(saad) BOP(rmerge) BOP(product) BOP(sum) BOP(scale) BOP(sort_rows) BOP(diagonal) BOP(pointwise) BOP(specrad)

// ------------------------------------------------------------------------------------------------ complex
typedef std::complex<double> Cx;
typedef amgcl::backend::crs<Cx, ptrdiff_t, ptrdiff_t> CCrs;
namespace vq {
template <> inline Cx Tok::val<Cx>() { double re = d(); double im = d(); return Cx(re, im); }
inline std::string show(const Cx &z) { return show(z.real()) + "," + show(z.imag()); }
}
static std::string show_ccrs(const CCrs &A) {
    std::ostringstream os; long n = (long)A.nrows, m = (long)A.ncols;
    os << "{" << n << " " << m;
    if ((n > 0 || A.ptr) && A.ptr[0] != 0) return "BADCRS ptr0";
    for (long i = 0; i < n; ++i) {
        if (A.ptr[i+1] < A.ptr[i]) return "BADCRS nonmonotone-ptr";
        os << " |";
        for (ptrdiff_t j = A.ptr[i]; j < A.ptr[i+1]; ++j) {
            if (A.col[j] < 0 || (long)A.col[j] >= m) return "BADCRS col-out-of-range";
            os << " " << A.col[j] << ":" << vq::show(A.val[j]);
        }
    }
    if (n > 0 && (size_t)A.ptr[n] != A.nnz) return "BADCRS nnz";
    os << "}"; return os.str();
}
static std::string cm_transpose(Tok &t) { auto A = t.crsT<Cx>(); auto T = be::transpose(*A); return show_ccrs(*T); }
static std::string cm_saad(Tok &t) { auto A = t.crsT<Cx>(); auto B = t.crsT<Cx>(); bool s = t.i() != 0;
    CCrs C; be::spgemm_saad(*A, *B, C, s); return show_ccrs(C); }
static std::string cm_rmerge(Tok &t) { auto A = t.crsT<Cx>(); auto B = t.crsT<Cx>();
    CCrs C; be::spgemm_rmerge(*A, *B, C); return show_ccrs(C); }
static std::string cm_product(Tok &t) { long nt = t.i(); auto A = t.crsT<Cx>(); auto B = t.crsT<Cx>(); bool s = t.i() != 0;
    need_nt(nt); auto C = be::product(*A, *B, s); return show_ccrs(*C); }
static std::string cm_sum(Tok &t) { Cx al = t.val<Cx>(); auto A = t.crsT<Cx>(); Cx bt = t.val<Cx>(); auto B = t.crsT<Cx>(); bool s = t.i() != 0;
    auto C = be::sum(al, *A, bt, *B, s); return show_ccrs(*C); }
static std::string cm_scale(Tok &t) { std::string k = t.s(); auto A = t.crsT<Cx>();
    if (k == "c") { Cx s = t.val<Cx>(); be::scale(*A, s); } else { double s = t.d(); be::scale(*A, s); }
    return show_ccrs(*A); }
static std::string cm_sort_rows(Tok &t) { auto A = t.crsT<Cx>(); be::sort_rows(*A); return show_ccrs(*A); }

int main() {
    auto &r = vq::registry();
    r["cm.transpose"] = cm_transpose; r["cm.saad"] = cm_saad; r["cm.rmerge"] = cm_rmerge; r["cm.product"] = cm_product;
    r["cm.sum"] = cm_sum; r["cm.scale"] = cm_scale; r["cm.sort_rows"] = cm_sort_rows;
    return vq::driver_main();
}
