// C02, block value types (b = 2): amg cycle over smoothed aggregation, five smoothers (amgc_driver.hh)
#define AMGC_SA
#include "amgc_driver.hh"
