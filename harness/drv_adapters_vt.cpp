// drv_adapters_vt.cpp -- C17 / C13: adapters over NON-SCALAR VALUE TYPES, double build on dyadic data
// (every operation below is exact in binary64 for the generated inputs; results are printed as exact
// rationals and compared digit for digit with the extracted model evaluated at the block / complex Scalar
// instances, ocaml/blockspmv/ops_blockspmv.ml):
//   scaled_blk  b <block crs> 0 <S> <x>      adapter::scaled_problem over static_matrix<double,b,b> with a BLOCK
//                                            diagonal S (n blocks): s_i * a_ij * s_j with matrix products.  (A scalar
//                                            scale vector / scale_diagonal does not compile for static_matrix:
//                                            it has no operator*(static_matrix, scalar); Eigen blocks have one.)
//   scaled_cplx <re crs> <im crs> dflt <s> <xr> <xi>                      ... over std::complex<double>
//   eig_block   b <crs> x alpha beta y       (with -DVT_EIGEN) block_matrix adapter + block spmv with
//   scaled_eig  b ...                        Eigen::Matrix<double,b,b> as the value type (value_type/eigen.hpp)
// Output of the scaled ops: rows cols nnz [s] {view rows} {generic copy} [spmv on the copy] [scale(x)]
// The diagonal-scaling case (dflt = 1) is the one seeded change C17-1 broke for negative / complex / block
// diagonals: s_i a_ii s_i is NOT the identity there.
#include "vq_io.hpp"
#include <complex>
#ifdef VT_EIGEN
#include <Eigen/Dense>
#include <amgcl/value_type/eigen.hpp>
#endif
#include <amgcl/adapter/crs_tuple.hpp>
#include <amgcl/adapter/block_matrix.hpp>
#include <amgcl/adapter/scaled_problem.hpp>
#include <amgcl/value_type/static_matrix.hpp>
#include <amgcl/value_type/complex.hpp>
#include <amgcl/backend/builtin.hpp>
using vq::Tok; using vq::show;
namespace be = amgcl::backend;

#define AD_OP(name) static std::string body_##name(vq::Tok &t); \
    VQ_OP(name) { try { return body_##name(t); } catch (const std::exception &e) { return "EXC " + vq::exc_kind(e); } } \
    static std::string body_##name(vq::Tok &t)

template <int b> struct VT {
#ifdef VT_EIGEN
    typedef Eigen::Matrix<double, b, b> BT; typedef Eigen::Matrix<double, b, 1> RT;
#else
    typedef amgcl::static_matrix<double, b, b> BT; typedef amgcl::static_matrix<double, b, 1> RT;
#endif
};
template <int b, class BT> static std::string show_blk(const BT &v) {
    std::ostringstream os; os << "(";
    for (int i = 0; i < b; ++i) { if (i) os << ";"; for (int j = 0; j < b; ++j) { if (j) os << ","; os << show((double)v(i, j)); } }
    os << ")"; return os.str();
}
template <int b, class M> static std::string dump_blocks(const M &A) {
    std::ostringstream os; size_t n = be::rows(A), m = be::cols(A);
    os << "{" << n << " " << m;
    for (size_t i = 0; i < n; ++i) {
        os << " |";
        for (auto a = be::row_begin(A, i); a; ++a) {
            if ((size_t)a.col() >= m) return "BADCRS col-out-of-range";
            os << " " << (long)a.col() << ":" << show_blk<b>(a.value());
        }
    }
    os << "}"; return os.str();
}
template <class M> static std::string dims(const M &A) {
    std::ostringstream os; os << be::rows(A) << " " << be::cols(A) << " " << be::nonzeros(A); return os.str();
}

// ---------------------------------------------------------------- scaled problem over block values
template <int b> static std::string show_scale(const std::vector<double> &s) { return show(s); }
template <int b, class BT> static std::string show_scale(const std::vector<BT> &s) {
    std::ostringstream os; os << "["; for (size_t k = 0; k < s.size(); ++k) { if (k) os << " "; os << show_blk<b>(s[k]); } os << "]"; return os.str();
}
template <int b, class Scale, class Mat>
static std::string blk_view(const Scale &scale, const Mat &A, const std::vector<double> &x) {
    typedef typename VT<b>::BT BT;
    auto M = scale.matrix(A);
    be::crs<BT> C(M);
    std::vector<double> xx = x, y(x.size(), 7.0), sx = x;
    auto X = be::reinterpret_as_rhs<BT>(xx); auto Y = be::reinterpret_as_rhs<BT>(y);
    be::spmv(1.0, C, X, 0.0, Y);
    auto SX = be::reinterpret_as_rhs<BT>(sx);
    scale(SX);
    return dims(M) + " " + show_scale<b>(*scale.s) + " " + dump_blocks<b>(M) + " " + dump_blocks<b>(C) + " " + show(y) + " " + show(sx);
}
template <int b> static std::string scaled_blk(Tok &t) {
    typedef typename VT<b>::BT BT; typedef be::builtin<BT> BB;
    long n = t.i(), m = t.i(); if (n != m) throw std::invalid_argument("square");
    std::vector<ptrdiff_t> ptr(1, 0), col; std::vector<BT> val;
    for (long r = 0; r < n; ++r) {
        long k = t.i();
        for (long e = 0; e < k; ++e) {
            col.push_back(t.i()); BT v = amgcl::math::zero<BT>();
            for (int i = 0; i < b; ++i) for (int j = 0; j < b; ++j) v(i, j) = t.d();
            val.push_back(v);
        }
        ptr.push_back((ptrdiff_t)col.size());
    }
    long dflt = t.i();
    ptrdiff_t nn = n; auto A = std::tie(nn, ptr, col, val);
#ifdef VT_EIGEN
    std::vector<double> sv = t.vecT<double>(); std::vector<double> x = t.vecT<double>();
    if (dflt) {
        auto scale = amgcl::adapter::scale_diagonal<BB>(A);
        return blk_view<b>(scale, A, x);
    }
    amgcl::adapter::scaled_problem<BB, std::vector<double> > scale(std::make_shared< std::vector<double> >(sv));
    return blk_view<b>(scale, A, x);
#else
    if (dflt) throw std::invalid_argument("scale_diagonal is not instantiable for static_matrix");
    long ns = t.i(); auto sv = std::make_shared< std::vector<BT> >();
    for (long k = 0; k < ns; ++k) { BT v = amgcl::math::zero<BT>(); for (int i = 0; i < b; ++i) for (int j = 0; j < b; ++j) v(i, j) = t.d(); sv->push_back(v); }
    std::vector<double> x = t.vecT<double>();
    amgcl::adapter::scaled_problem<BB, std::vector<BT> > scale(sv);
    return blk_view<b>(scale, A, x);
#endif
}

#ifndef VT_EIGEN
AD_OP(scaled_blk) {
    long b = t.i();
    if (b == 2) return scaled_blk<2>(t);
    if (b == 3) return scaled_blk<3>(t);
    if (b == 4) return scaled_blk<4>(t);
    throw std::invalid_argument("block size");
}

// ---------------------------------------------------------------- scaled problem over complex values
typedef std::complex<double> C;
static std::string showc(const C &z) { return show(z.real()) + "+" + show(z.imag()) + "i"; }
static std::string showc(const std::vector<C> &v) {
    std::ostringstream os; os << "["; for (size_t k = 0; k < v.size(); ++k) { if (k) os << " "; os << showc(v[k]); } os << "]"; return os.str();
}
template <class M> static std::string dump_c(const M &A) {
    std::ostringstream os; size_t n = be::rows(A), m = be::cols(A);
    os << "{" << n << " " << m;
    for (size_t i = 0; i < n; ++i) {
        os << " |";
        for (auto a = be::row_begin(A, i); a; ++a) os << " " << (long)a.col() << ":" << showc(a.value());
    }
    os << "}"; return os.str();
}
template <class Scale, class Mat>
static std::string cplx_view(const Scale &scale, const Mat &A, const std::vector<C> &x) {
    auto M = scale.matrix(A);
    be::crs<C> CC(M);
    std::vector<C> y(x.size(), C(7, 7)), sx = x;
    be::spmv(1.0, CC, x, 0.0, y);
    scale(sx);
    return dims(M) + " " + show(*scale.s) + " " + dump_c(M) + " " + dump_c(CC) + " " + showc(y) + " " + showc(sx);
}
struct ArrD {
    ptrdiff_t n, m; std::vector<ptrdiff_t> ptr, col; std::vector<double> val;
    ArrD(Tok &t) {
        n = t.i(); m = t.i(); ptr.push_back(0);
        for (long r = 0; r < n; ++r) { long k = t.i(); for (long e = 0; e < k; ++e) { col.push_back(t.i()); val.push_back(t.d()); } ptr.push_back((ptrdiff_t)col.size()); }
    }
};
AD_OP(scaled_cplx) {
    ArrD re(t), im(t);
    long dflt = t.i(); std::vector<double> sv = t.vecT<double>();
    std::vector<double> xr = t.vecT<double>(), xi = t.vecT<double>();
    if (re.col != im.col || re.ptr != im.ptr || re.n != re.m) throw std::invalid_argument("pattern");
    std::vector<C> val(re.val.size()); for (size_t k = 0; k < val.size(); ++k) val[k] = C(re.val[k], im.val[k]);
    std::vector<C> x(xr.size()); for (size_t k = 0; k < x.size(); ++k) x[k] = C(xr[k], xi[k]);
    auto A = std::tie(re.n, re.ptr, re.col, val);
    typedef be::builtin<C> CB;
    if (dflt) {
        auto scale = amgcl::adapter::scale_diagonal<CB>(A);
        return cplx_view(scale, A, x);
    }
    amgcl::adapter::scaled_problem<CB, std::vector<double> > scale(std::make_shared< std::vector<double> >(sv));
    return cplx_view(scale, A, x);
}
#else
// ---------------------------------------------------------------- Eigen blocks as the value type
AD_OP(scaled_eig) {
    long b = t.i();
    if (b == 2) return scaled_blk<2>(t);
    if (b == 3) return scaled_blk<3>(t);
    if (b == 4) return scaled_blk<4>(t);
    throw std::invalid_argument("block size");
}
template <int b> static std::string eig_block(Tok &t) {
    typedef typename VT<b>::BT BT;
    auto S = t.crsT<double>();
    std::vector<double> x = t.vecT<double>(); double alpha = t.d(), beta = t.d(); std::vector<double> y = t.vecT<double>();
    be::crs<BT> Cb(amgcl::adapter::block_matrix<BT>(*S));
    auto X = be::reinterpret_as_rhs<BT>(x); auto Y = be::reinterpret_as_rhs<BT>(y);
    be::spmv(alpha, Cb, X, beta, Y);
    return dump_blocks<b>(Cb) + " " + show(y);
}
AD_OP(eig_block) {
    long b = t.i();
    if (b == 2) return eig_block<2>(t);
    if (b == 3) return eig_block<3>(t);
    if (b == 4) return eig_block<4>(t);
    throw std::invalid_argument("block size");
}
#endif
int main() { return vq::driver_main(); }
