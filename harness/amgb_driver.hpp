// amgb_driver.hpp -- C03 (block value types and coarsening wrappers): amg hierarchies over
//   value_type = amgcl::static_matrix<vq::Q, b, b>   (b = AMGB_B, default 2)
// built through every coarsening route the library offers for a block backend:
//   agg      coarsening::aggregation                          (block route, scaled Galerkin)
//   sa       coarsening::smoothed_aggregation                 (block route)
//   as_agg   coarsening::as_scalar<aggregation>::type         (scalar route, scaled Galerkin)
//   as_sa    coarsening::as_scalar<smoothed_aggregation>::type
//   rt       runtime::coarsening::wrapper, type = <rt_type>;  nullspace.cols > 0 selects the
//            scalar route for every type but ruge_stuben
// (which of them a translation unit instantiates: macros AMGB_STATIC_AGG / AMGB_STATIC_SA / AMGB_RUNTIME).
// AMGB_B = 1: value_type = vq::Q itself (the wrappers and the null-space path on a scalar backend).
//
// op:  amgb.<variant> <b> <relax> <ctor: copy|ptr>
//         <cfg: coarse_enough direct_coarse max_levels npre npost ncycle pre_cycles allow_rebuild>
//         <cprm: rt_type|- eps_strong relax|- over_interp|- block_size>  <damping|->
//         <nullspace: cols (nrows*b*cols doubles, row-major)>            (cols = 0: no vectors follow)
//         A:bcrs  <nscript> (dump | cinv | apply f x0 | cycle f x0 | rebuild A' | rebuildp A' | fresh A' f x0)*
//   bcrs = nrows ncols (k (col q^(b*b))*k)*nrows   block values row-major, storage order
//   f, x0: vec of nrows*b rationals (entries of static_matrix<Q,b,1>, flat)
// output: results of the script commands joined by " ; ":
//   dump      D <nlevels> (M {A} {P} {R} | L {A} | S {A}|-)*  every matrix EXPANDED to scalar CRS
//             (block (i,c) -> rows i*b+r, columns c*b+s, storage order, zero cells printed)
//   apply     [x]                    cycle [x]
//   cinv      I {N N | dense rows}   inverse action of the last level's direct solver (I - if none)
//   rebuild   ok   (rebuild(const Matrix&): copy + sort)      rebuildp: rebuild(shared_ptr)
//   fresh     F <dump> [x]  a NEW amg object for A' whose coarsening replays the transfer operators
//             stored in the current hierarchy (deep copies) and forwards coarse_operator to the real
//             coarsening: "rebuild = fresh build with the same transfer operators" is then an
//             implementation-vs-implementation comparison
// The coarsening policy handed to amg<> is tape<C>::type: a pass-through to C<Backend> (the library
// class, constructed from the same params) that can replay recorded transfer operators.
#include "vq_io.hpp"
#include "vq_access.hpp"
#include <amgcl/amg.hpp>
#include <amgcl/value_type/static_matrix.hpp>
#include <amgcl/adapter/crs_tuple.hpp>
#include <amgcl/coarsening/aggregation.hpp>
#include <amgcl/coarsening/smoothed_aggregation.hpp>
#include <amgcl/coarsening/as_scalar.hpp>
#ifdef AMGB_RUNTIME
#include <boost/property_tree/ptree.hpp>
#include <amgcl/coarsening/runtime.hpp>
#endif
#include <amgcl/relaxation/damped_jacobi.hpp>
#include <amgcl/relaxation/spai0.hpp>
#include <amgcl/relaxation/gauss_seidel.hpp>
#include <amgcl/relaxation/ilu0.hpp>

#ifndef AMGB_B
#define AMGB_B 2
#endif
using vq::Q; using vq::Tok;
namespace amgb {
static const int b = AMGB_B;
#if AMGB_B == 1
typedef Q BT;
typedef Q RT;
static inline Q& cell(Q &v, int, int) { return v; }
static inline Q cell(const Q &v, int, int) { return v; }
static inline Q& comp(Q &v, int) { return v; }
static inline Q comp(const Q &v, int) { return v; }
#else
typedef amgcl::static_matrix<Q, AMGB_B, AMGB_B> BT;
typedef amgcl::static_matrix<Q, AMGB_B, 1>      RT;
static inline Q& cell(BT &v, int r, int s) { return v(r, s); }
static inline Q cell(const BT &v, int r, int s) { return v(r, s); }
static inline Q& comp(RT &v, int k) { return v(k); }
static inline Q comp(const RT &v, int k) { return v(k); }
#endif
typedef amgcl::backend::builtin<BT>             BB;
typedef amgcl::backend::crs<BT, ptrdiff_t, ptrdiff_t> BM;

// ---------------------------------------------------------------- parsing / printing
static std::shared_ptr<BM> bcrs(Tok &t) {
    long n = t.i(), m = t.i();
    std::vector<ptrdiff_t> ptr(1, 0), col; std::vector<BT> vl;
    for (long r = 0; r < n; ++r) {
        long k = t.i();
        for (long e = 0; e < k; ++e) { col.push_back(t.i()); BT v; for (int c = 0; c < b * b; ++c) cell(v, c / b, c % b) = t.q(); vl.push_back(v); }
        ptr.push_back((ptrdiff_t)col.size());
    }
    auto A = std::make_shared<BM>();
    A->set_size(n, m, false);
    A->ptr[0] = 0;
    for (long r = 0; r < n; ++r) A->ptr[r + 1] = ptr[r + 1];
    A->set_nonzeros(col.size(), true);
    for (size_t e = 0; e < col.size(); ++e) { A->col[e] = col[e]; A->val[e] = vl[e]; }
    return A;
}
static std::vector<RT> bvec(Tok &t) {
    long n = t.i(); if (n % b) throw std::runtime_error("case: vector length not a multiple of b");
    std::vector<RT> v(n / b);
    for (long i = 0; i < n; ++i) comp(v[i / b], i % b) = t.q();
    return v;
}
static std::string show_bvec(const std::vector<RT> &v) {
    std::ostringstream os; os << "[";
    for (size_t i = 0; i < v.size(); ++i) for (int k = 0; k < b; ++k) { if (i || k) os << " "; os << comp(v[i], k).str(); }
    os << "]"; return os.str();
}
// block CRS printed expanded to scalar CRS, with structural validation
template <class M> static std::string show_expanded(const M &A) {
    std::ostringstream os;
    long n = (long)A.nrows, m = (long)A.ncols;
    os << "{" << n * b << " " << m * b;
    if ((n > 0 || A.ptr) && A.ptr[0] != 0) return "BADCRS ptr0";
    for (long i = 0; i < n; ++i) {
        if (A.ptr[i + 1] < A.ptr[i]) return "BADCRS nonmonotone-ptr";
        for (int r = 0; r < b; ++r) {
            os << " |";
            for (ptrdiff_t j = A.ptr[i]; j < (ptrdiff_t)A.ptr[i + 1]; ++j) {
                if (A.col[j] < 0 || (long)A.col[j] >= m) return "BADCRS col-out-of-range";
                for (int s = 0; s < b; ++s) os << " " << (long)A.col[j] * b + s << ":" << cell(A.val[j], r, s).str();
            }
        }
    }
    if (n > 0 && (size_t)A.ptr[n] != A.nnz) return "BADCRS nnz";
    os << "}"; return os.str();
}

// ---------------------------------------------------------------- the coarsening policy handed to amg<>
struct Tape {
    std::vector< std::pair< std::shared_ptr<BM>, std::shared_ptr<BM> > > ops;
    size_t pos; bool replay;
    Tape() : pos(0), replay(false) {}
};
static Tape& the_tape() { static Tape t; return t; }

template <template <class> class C>
struct tape {
    template <class Backend>
    struct type {
        typedef C<Backend> Base;
        typedef typename Base::params params;
        Base base;
        type(const params &prm = params()) : base(prm) {}
        template <class Matrix>
        std::tuple< std::shared_ptr<Matrix>, std::shared_ptr<Matrix> >
        transfer_operators(const Matrix &A) {
            Tape &t = the_tape();
            if (!t.replay) return base.transfer_operators(A);
            if (t.pos >= t.ops.size() || !t.ops[t.pos].first) throw amgcl::error::empty_level();
            auto P = std::make_shared<Matrix>(*t.ops[t.pos].first);
            auto R = std::make_shared<Matrix>(*t.ops[t.pos].second);
            ++t.pos;
            return std::make_tuple(P, R);
        }
        template <class Matrix>
        std::shared_ptr<Matrix> coarse_operator(const Matrix &A, const Matrix &P, const Matrix &R) const {
            return base.coarse_operator(A, P, R);
        }
    };
};

// ---------------------------------------------------------------- configuration
struct Cfg {
    long coarse_enough, direct_coarse, max_levels, npre, npost, ncycle, pre_cycles, allow_rebuild;
    std::string rt_type, eps_strong, relax, over_interp, damping;
    long block_size, ncols;
    std::vector<double> B;
};
static float f32(const std::string &s) { return (float)(double)vq::parse(s); }

template <class P> static void set_agg(P &p, const Cfg &c) {
    p.aggr.eps_strong = f32(c.eps_strong);
    p.aggr.block_size = (unsigned)c.block_size;
    p.nullspace.cols = (int)c.ncols; p.nullspace.B = c.B;
}
// parameter setters, one per coarsening family (P = params of the block or of the scalar base class)
struct SetAgg { template <class P> void operator()(P &p, const Cfg &c) const {
    set_agg(p, c); if (c.over_interp != "-") p.over_interp = f32(c.over_interp); } };
struct SetSA { template <class P> void operator()(P &p, const Cfg &c) const {
    set_agg(p, c); if (c.relax != "-") p.relax = f32(c.relax); } };
#ifdef AMGB_RUNTIME
struct SetRT { void operator()(boost::property_tree::ptree &p, const Cfg &c) const {
    p.put("type", c.rt_type);
    if (c.rt_type == "ruge_stuben") { p.put("eps_strong", f32(c.eps_strong)); return; }
    p.put("aggr.eps_strong", f32(c.eps_strong));
    p.put("aggr.block_size", (unsigned)c.block_size);
    if (c.rt_type == "aggregation" && c.over_interp != "-") p.put("over_interp", f32(c.over_interp));
    if (c.rt_type == "smoothed_aggregation" && c.relax != "-") p.put("relax", f32(c.relax));
    if (c.ncols > 0) {
        p.put("nullspace.cols", (int)c.ncols);
        p.put("nullspace.rows", (size_t)(c.B.size() / c.ncols));
        p.put("nullspace.B", const_cast<double*>(&c.B[0]));
    }
} };
#endif
template <class P> static void set_rprm(P &, const Cfg &, ...) {}
static inline void set_rprm(amgcl::relaxation::damped_jacobi<BB>::params &p, const Cfg &c, int) {
    if (c.damping != "-") p.damping = vq::parse(c.damping);
}
static inline void set_rprm(amgcl::relaxation::gauss_seidel<BB>::params &p, const Cfg &, int) { p.serial = true; }
static inline void set_rprm(amgcl::relaxation::ilu0<BB>::params &p, const Cfg &c, int) {
    if (c.damping != "-") p.damping = vq::parse(c.damping);
    p.solve.serial = true;
}

template <class AMG> static std::string dump(const AMG &amg) {
    std::ostringstream os;
    const auto &lv = amgcl::verif::access::levels(amg);
    os << "D " << lv.size();
    for (const auto &l : lv) {
        if (l.solve) { os << " S "; if (l.A) os << show_expanded(*l.A); else os << "-"; }
        else if (l.P) { os << " M " << show_expanded(*l.A) << " " << show_expanded(*l.P) << " " << show_expanded(*l.R); }
        else { os << " L " << show_expanded(*l.A); }
    }
    return os.str();
}

template <template <class> class C, template <class> class Relax, class Set>
static std::string run_amg(Tok &t) {
    typedef amgcl::amg<BB, tape<C>::template type, Relax> AMG;
    std::string ctor = t.s();
    Cfg c;
    c.coarse_enough = t.i(); c.direct_coarse = t.i(); c.max_levels = t.i();
    c.npre = t.i(); c.npost = t.i(); c.ncycle = t.i(); c.pre_cycles = t.i(); c.allow_rebuild = t.i();
    c.rt_type = t.s(); c.eps_strong = t.s(); c.relax = t.s(); c.over_interp = t.s(); c.block_size = t.i();
    c.damping = t.s();
    c.ncols = t.i();
    auto read_B = [&](size_t nrows_scalar) { c.B.resize(nrows_scalar * c.ncols); for (auto &x : c.B) x = t.d(); };
    // the null-space block needs the matrix size: it is given as "<len> values"
    if (c.ncols > 0) { long len = t.i(); if (len % c.ncols) throw std::runtime_error("case: bad nullspace length"); read_B(len / c.ncols); }
    auto A = bcrs(t);
    typename AMG::params prm;
    prm.coarse_enough = c.coarse_enough; prm.direct_coarse = c.direct_coarse != 0;
    prm.max_levels = c.max_levels; prm.npre = c.npre; prm.npost = c.npost; prm.ncycle = c.ncycle;
    prm.pre_cycles = c.pre_cycles; prm.allow_rebuild = c.allow_rebuild != 0;
    Set()(prm.coarsening, c);
    set_rprm(prm.relax, c, 0);
    Tape &tp = the_tape(); tp.replay = false; tp.ops.clear(); tp.pos = 0;
    std::unique_ptr<AMG> amg(ctor == "ptr" ? new AMG(A, prm) : new AMG(*A, prm));
    long ns = t.i();
    std::ostringstream os;
    for (long k = 0; k < ns; ++k) {
        if (k) os << " ; ";
        std::string cmd = t.s();
        if (cmd == "dump") os << dump(*amg);
        else if (cmd == "apply") { auto f = bvec(t); auto x = bvec(t); amg->apply(f, x); os << show_bvec(x); }
        else if (cmd == "cycle") { auto f = bvec(t); auto x = bvec(t); amg->cycle(f, x); os << show_bvec(x); }
        else if (cmd == "rebuild")  { auto A2 = bcrs(t); amg->rebuild(*A2); os << "ok"; }
        else if (cmd == "rebuildp") { auto A2 = bcrs(t); amg->rebuild(A2); os << "ok"; }
        else if (cmd == "cinv") {
            // dense inverse action of the direct solver of the last level (column j = solve(e_j))
            const auto &l = amgcl::verif::access::levels(*amg).back();
            if (!l.solve) os << "I -";
            else {
                size_t n = l.rows(), N = n * b;
                std::vector< std::vector<Q> > X(N, std::vector<Q>(N));
                for (size_t j = 0; j < N; ++j) {
                    std::vector<RT> e(n), x(n);
                    comp(e[j / b], j % b) = Q(1);
                    (*l.solve)(e, x);
                    for (size_t i = 0; i < N; ++i) X[i][j] = comp(x[i / b], i % b);
                }
                os << "I {" << N << " " << N;
                for (size_t i = 0; i < N; ++i) { os << " |"; for (size_t j = 0; j < N; ++j) os << " " << j << ":" << X[i][j].str(); }
                os << "}";
            }
        }
        else if (cmd == "fresh") {
            auto A2 = bcrs(t); auto f = bvec(t); auto x = bvec(t);
            tp.ops.clear(); tp.pos = 0;
            for (const auto &l : amgcl::verif::access::levels(*amg)) {
                if (l.P && l.R) tp.ops.push_back(std::make_pair(std::make_shared<BM>(*l.P), std::make_shared<BM>(*l.R)));
            }
            tp.replay = true;
            try {
                AMG fresh(*A2, prm);
                tp.replay = false;
                fresh.apply(f, x);
                os << "F " << dump(fresh) << " " << show_bvec(x);
            } catch (...) { tp.replay = false; throw; }
        }
        else throw std::runtime_error("bad script command " + cmd);
    }
    return os.str();
}

template <template <class> class C, class Set>
static std::string op_variant(Tok &t) {
    long bb = t.i(); if (bb != b) return "UNSUPPORTED block size";
    std::string r = t.s();
    namespace rx = amgcl::relaxation;
    if (r == "spai0")         return run_amg<C, rx::spai0, Set>(t);
    if (r == "damped_jacobi") return run_amg<C, rx::damped_jacobi, Set>(t);
#ifndef AMGB_FEW_RELAX
    if (r == "gauss_seidel")  return run_amg<C, rx::gauss_seidel, Set>(t);
    if (r == "ilu0")          return run_amg<C, rx::ilu0, Set>(t);
#endif
    return "UNSUPPORTED";
}
} // namespace amgb

namespace amgb_ops {
namespace co = amgcl::coarsening;
#ifdef AMGB_STATIC_AGG
static vq::Reg r_agg("amgb.agg", amgb::op_variant<co::aggregation, amgb::SetAgg>);
static vq::Reg r_as_agg("amgb.as_agg", amgb::op_variant<co::as_scalar<co::aggregation>::type, amgb::SetAgg>);
#endif
#ifdef AMGB_STATIC_SA
static vq::Reg r_sa("amgb.sa", amgb::op_variant<co::smoothed_aggregation, amgb::SetSA>);
static vq::Reg r_as_sa("amgb.as_sa", amgb::op_variant<co::as_scalar<co::smoothed_aggregation>::type, amgb::SetSA>);
#endif
#ifdef AMGB_RUNTIME
static vq::Reg r_rt("amgb.rt", amgb::op_variant<amgcl::runtime::coarsening::wrapper, amgb::SetRT>);
#endif
}
int main() { return vq::driver_main(); }
