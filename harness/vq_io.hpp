// vq_io.hpp -- case-file parsing and canonical printing shared by all C++ drivers.
// Case line:   <id> <op> <tokens...>
// Types: int | q = num[/den] | vec = n q*n | crs = nrows ncols (k (col q)*k)*nrows
// Output line: <id> <op> <payload>   or   <id> <op> EXC <kind>
#ifndef VQ_IO_HPP
#define VQ_IO_HPP
#include "vq_rational.hpp"
#include <vector>
#include <string>
#include <sstream>
#include <map>
#include <functional>
#include <stdexcept>
#include <memory>
#include <algorithm>

namespace vq {

typedef amgcl::backend::crs<Q, ptrdiff_t, ptrdiff_t> Crs;

struct Tok {
    std::vector<std::string> t; size_t p;
    Tok(const std::string &line) : p(0) { std::istringstream is(line); std::string s; while (is >> s) t.push_back(s); }
    bool done() const { return p >= t.size(); }
    const std::string& next() { if (p >= t.size()) throw std::runtime_error("case: out of tokens"); return t[p++]; }
    long   i() { return std::stol(next()); }
    Q      q() { return parse(next()); }
    // double values: exact conversion of the rational token; "nan"/"inf"/"-inf" give junk values
    double d() { const std::string &w = next();
        if (w == "nan") return std::numeric_limits<double>::quiet_NaN();
        if (w == "inf") return std::numeric_limits<double>::infinity();
        if (w == "-inf") return -std::numeric_limits<double>::infinity();
        return (double)parse(w); }
    template <class V> V val();
    template <class V> std::vector<V> vecT() { long n = i(); std::vector<V> v(n); for (long k = 0; k < n; ++k) v[k] = val<V>(); return v; }
    template <class V> std::shared_ptr< amgcl::backend::crs<V, ptrdiff_t, ptrdiff_t> > crsT() {
        typedef amgcl::backend::crs<V, ptrdiff_t, ptrdiff_t> M;
        long n = i(), m = i();
        std::vector<ptrdiff_t> ptr(1, 0), col; std::vector<V> vl;
        for (long r = 0; r < n; ++r) {
            long k = i();
            for (long e = 0; e < k; ++e) { col.push_back(i()); vl.push_back(val<V>()); }
            ptr.push_back((ptrdiff_t)col.size());
        }
        auto A = std::make_shared<M>();
        A->set_size(n, m, false);
        A->ptr[0] = 0;
        for (long r = 0; r < n; ++r) A->ptr[r+1] = ptr[r+1];
        A->set_nonzeros(col.size(), true);
        for (size_t e = 0; e < col.size(); ++e) { A->col[e] = col[e]; A->val[e] = vl[e]; }
        return A;
    }
    std::string s() { return next(); }
    std::vector<Q> vec() { long n = i(); std::vector<Q> v(n); for (long k = 0; k < n; ++k) v[k] = q(); return v; }
    std::vector<long> ivec() { long n = i(); std::vector<long> v(n); for (long k = 0; k < n; ++k) v[k] = i(); return v; }
    std::shared_ptr<Crs> crs();
};

template <> inline Q Tok::val<Q>() { return q(); }
template <> inline double Tok::val<double>() { return d(); }

inline std::string show(const Q &x) { return x.str(); }
inline std::string show(double x) {
    if (x != x) return "nan";
    if (x - x != 0) return x > 0 ? "inf" : "-inf";
    return Q(x).str();
}
inline std::string show(const std::vector<double> &v) {
    std::ostringstream os; os << "[";
    for (size_t k = 0; k < v.size(); ++k) { if (k) os << " "; os << show(v[k]); }
    os << "]"; return os.str();
}
inline std::string show(const std::vector<Q> &v) {
    std::ostringstream os; os << "[";
    for (size_t k = 0; k < v.size(); ++k) { if (k) os << " "; os << v[k].str(); }
    os << "]"; return os.str();
}
template <class I>
inline std::string show_ivec(const std::vector<I> &v) {
    std::ostringstream os; os << "[";
    for (size_t k = 0; k < v.size(); ++k) { if (k) os << " "; os << (long)v[k]; }
    os << "]"; return os.str();
}
// storage-order print with structural validation (monotone ptr, in-range columns)
template <class M>
inline std::string show_crs(const M &A, bool sorted_canon = false) {
    std::ostringstream os;
    long n = (long)A.nrows, m = (long)A.ncols;
    os << "{" << n << " " << m;
    if (n > 0 || A.ptr) {
        if (A.ptr[0] != 0) return "BADCRS ptr0";
    }
    for (long i = 0; i < n; ++i) {
        if (A.ptr[i+1] < A.ptr[i]) return "BADCRS nonmonotone-ptr";
        os << " |";
        std::vector<std::pair<long, std::string> > es;
        for (ptrdiff_t j = A.ptr[i]; j < (ptrdiff_t)A.ptr[i+1]; ++j) {
            if (A.col[j] < 0 || (long)A.col[j] >= m) return "BADCRS col-out-of-range";
            es.push_back(std::make_pair((long)A.col[j], show(A.val[j])));
        }
        if (sorted_canon) std::stable_sort(es.begin(), es.end(),
                [](const std::pair<long,std::string>&a, const std::pair<long,std::string>&b){ return a.first < b.first; });
        for (auto &e : es) os << " " << e.first << ":" << e.second;
    }
    if (n > 0 && (size_t)A.ptr[n] != A.nnz) return "BADCRS nnz";
    os << "}"; return os.str();
}

inline std::shared_ptr<Crs> Tok::crs() { return crsT<Q>(); }

typedef std::function<std::string(Tok&)> Handler;
inline std::map<std::string, Handler>& registry() { static std::map<std::string, Handler> r; return r; }
struct Reg { Reg(const char *name, Handler h) { registry()[name] = h; } };
#define VQ_OP(name) static std::string op_##name(vq::Tok &t); static vq::Reg reg_##name(#name, op_##name); static std::string op_##name(vq::Tok &t)

inline std::string exc_kind(const std::exception &e) {
    std::string w = e.what();
    if (dynamic_cast<const std::bad_alloc*>(&e)) return "bad_alloc";
    if (dynamic_cast<const std::length_error*>(&e)) return "length_error";
    if (dynamic_cast<const std::logic_error*>(&e) && !dynamic_cast<const std::invalid_argument*>(&e) && !dynamic_cast<const std::out_of_range*>(&e)) return "logic_error";
    if (dynamic_cast<const std::invalid_argument*>(&e)) return "invalid_argument";
    if (dynamic_cast<const std::out_of_range*>(&e)) return "out_of_range";
    if (dynamic_cast<const std::runtime_error*>(&e)) return "runtime_error";
    return "exception";
}

inline int driver_main() {
    std::string line;
    while (std::getline(std::cin, line)) {
        if (line.empty() || line[0] == '#') continue;
        Tok t(line);
        std::string id = t.s(), op = t.s();
        auto it = registry().find(op);
        if (it == registry().end()) { std::cout << id << " " << op << " UNSUPPORTED" << std::endl; continue; }
        try {
            std::string r = it->second(t);      // evaluate first: an exception must not leave a partial line
            std::cout << id << " " << op << " " << r << std::endl;
        } catch (const std::exception &e) {
            std::cout << id << " " << op << " EXC " << exc_kind(e) << std::endl;
        }
    }
    return 0;
}

} // namespace vq
#endif
