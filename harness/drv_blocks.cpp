// drv_blocks.cpp -- C13: a system with b x b block structure solved through every block
// formulation the library offers, in exact arithmetic (vq::Q):
//   scalar    : make_solver<amg<builtin<Q>>, cg>                       (reference formulation)
//   block     : block value type, user-side block_matrix adapter + reinterpreted vectors
//   mbs       : make_block_solver (scalar matrix and scalar vectors in, block solver inside)
//   as_block  : scalar backend, relaxation::as_block<builtin<block>, spai0>
//   as_scalar : block backend, coarsening::as_scalar<smoothed_aggregation>
//   hybrid    : backend::builtin_hybrid<block>
//   direct    : make_block_solver with a single-level amg (block skyline LU) under preonly
// Output: "<iters> <reported relative residual> [x]".  With tol = 0 and maxiter >= n the
// preconditioned CG terminates with the exact solution in exact arithmetic (SPD system,
// symmetric preconditioner), so every formulation must return the solution of the SCALAR
// system; with a small maxiter the reported residual must be the true one.  Both are checked
// by the extracted specification (ops o.solves / o.resid in ocaml/adapters).
// Block size: -DBLK_B=2|3|4 (drv_blocks3.cpp, drv_blocks4.cpp include this file).
#ifndef BLK_B
#define BLK_B 2
#endif
#include "vq_io.hpp"
#include <amgcl/adapter/crs_tuple.hpp>
#include <amgcl/adapter/block_matrix.hpp>
#include <amgcl/value_type/static_matrix.hpp>
#include <amgcl/backend/builtin_hybrid.hpp>
#include <amgcl/amg.hpp>
#include <amgcl/make_solver.hpp>
#include <amgcl/make_block_solver.hpp>
#include <amgcl/solver/cg.hpp>
#include <amgcl/solver/preonly.hpp>
#include <amgcl/coarsening/smoothed_aggregation.hpp>
#include <amgcl/coarsening/aggregation.hpp>
#include <amgcl/coarsening/as_scalar.hpp>
#include <amgcl/relaxation/spai0.hpp>
#include <amgcl/relaxation/damped_jacobi.hpp>
#include <amgcl/relaxation/as_block.hpp>
using vq::Q; using vq::Tok; using vq::show;
namespace be = amgcl::backend;
static const int b = BLK_B;
typedef amgcl::static_matrix<Q, BLK_B, BLK_B> BT;
typedef amgcl::static_matrix<Q, BLK_B, 1>     RT;
typedef be::builtin<Q>  SB;
typedef be::builtin<BT> BB;
typedef be::builtin_hybrid<BT> HB;

struct Arrays {
    ptrdiff_t n; std::vector<ptrdiff_t> ptr, col; std::vector<Q> val;
    Arrays(Tok &t) {
        n = t.i(); long m = t.i(); if (m != n) throw std::invalid_argument("square");
        ptr.push_back(0);
        for (long r = 0; r < n; ++r) { long k = t.i(); for (long e = 0; e < k; ++e) { col.push_back(t.i()); val.push_back(t.q()); } ptr.push_back(col.size()); }
    }
};
template <class R> static std::string result(const R &r, const std::vector<Q> &x) {
    std::ostringstream os; os << std::get<0>(r) << " " << show(Q(std::get<1>(r))) << " " << show(x); return os.str();
}
template <class P> static void setup(P &prm, long maxiter) {
    prm.solver.tol = 0; prm.solver.abstol = 0; prm.solver.maxiter = maxiter;
    prm.precond.coarse_enough = 2 * BLK_B; prm.precond.npre = 1; prm.precond.npost = 1;
}

static std::string body(Tok &t) {
    std::string variant = t.s(); long maxiter = t.i();
    Arrays a(t); std::vector<Q> f = t.vec();
    std::vector<Q> x(a.n, Q(0));
    auto A = std::tie(a.n, a.ptr, a.col, a.val);
    using namespace amgcl;
    if (variant == "scalar") {
        typedef make_solver< amg<SB, coarsening::smoothed_aggregation, relaxation::spai0>, solver::cg<SB> > S;
        S::params prm; setup(prm, maxiter);
        S solve(A, prm); return result(solve(f, x), x);
    }
    if (variant == "block") {
        typedef make_solver< amg<BB, coarsening::smoothed_aggregation, relaxation::spai0>, solver::cg<BB> > S;
        S::params prm; setup(prm, maxiter);
        S solve(adapter::block_matrix<BT>(A), prm);
        auto F = be::reinterpret_as_rhs<RT>(f); auto X = be::reinterpret_as_rhs<RT>(x);
        return result(solve(F, X), x);
    }
    if (variant == "mbs") {
        typedef make_block_solver< amg<BB, coarsening::smoothed_aggregation, relaxation::spai0>, solver::cg<BB> > S;
        S::params prm; setup(prm, maxiter);
        S solve(A, prm); return result(solve(f, x), x);
    }
    if (variant == "mbs_bv") {
        // the same solver called with BLOCK-typed vectors (std::vector<static_matrix<Q,b,1>>): reinterpret_as_rhs is then the identity view
        typedef make_block_solver< amg<BB, coarsening::smoothed_aggregation, relaxation::spai0>, solver::cg<BB> > S;
        S::params prm; setup(prm, maxiter);
        S solve(A, prm);
        size_t nb = a.n / BLK_B; std::vector<RT> F(nb), X(nb);
        for (size_t i = 0; i < nb; ++i) for (int k = 0; k < BLK_B; ++k) { F[i](k) = f[i * BLK_B + k]; X[i](k) = Q(0); }
        auto r = solve(F, X);
        for (size_t i = 0; i < nb; ++i) for (int k = 0; k < BLK_B; ++k) x[i * BLK_B + k] = X[i](k);
        return result(r, x);
    }
    if (variant == "direct") {
        typedef make_block_solver< amg<BB, coarsening::aggregation, relaxation::damped_jacobi>, solver::preonly<BB> > S;
        S::params prm; prm.precond.coarse_enough = 1000000;
        S solve(A, prm); return result(solve(f, x), x);
    }
    if (variant == "as_block") {
        typedef make_solver< amg<SB, coarsening::smoothed_aggregation, relaxation::as_block<BB, relaxation::spai0>::type>, solver::cg<SB> > S;
        S::params prm; setup(prm, maxiter);
        prm.precond.coarsening.aggr.block_size = BLK_B;    // coarse levels keep the block structure
        S solve(A, prm); return result(solve(f, x), x);
    }
    if (variant == "as_scalar") {
        typedef make_solver< amg<BB, coarsening::as_scalar<coarsening::smoothed_aggregation>::type, relaxation::spai0>, solver::cg<BB> > S;
        S::params prm; setup(prm, maxiter);
        prm.precond.coarsening.aggr.block_size = BLK_B;
        S solve(adapter::block_matrix<BT>(A), prm);
        auto F = be::reinterpret_as_rhs<RT>(f); auto X = be::reinterpret_as_rhs<RT>(x);
        return result(solve(F, X), x);
    }
    if (variant == "hybrid") {
        typedef make_solver< amg<HB, coarsening::aggregation, relaxation::spai0>, solver::cg<HB> > S;
        S::params prm; setup(prm, maxiter);
        prm.precond.coarsening.aggr.block_size = BLK_B;
        S solve(A, prm); return result(solve(f, x), x);
    }
    throw std::invalid_argument("variant");
}
static std::string slug(const std::exception &e) {
    std::string w = e.what(), o; for (char c : w) o += (isalnum((unsigned char)c) ? c : '_'); return o.substr(0, 60);
}
VQ_OP(bsolve) {
    long bb = t.i(); if (bb != BLK_B) return "UNSUPPORTED block size";
    try { return body(t); } catch (const std::exception &e) { return "EXC " + vq::exc_kind(e) + " " + slug(e); }
}
int main() { return vq::driver_main(); }
