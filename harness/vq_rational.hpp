// vq_rational.hpp -- exact rational value type for instantiating amgcl templates.
// Harness side only; nothing in /repo knows about it.  Semantics mirror the Coq
// instance QcS (coq/QcInst.v): canonical rationals, x/0 = 0,
// sqrt(q) = floor(sqrt(floor(q*2^128))) / 2^64 for q > 0 and 0 otherwise,
// epsilon = 2^-52, total order.
#ifndef VQ_RATIONAL_HPP
#define VQ_RATIONAL_HPP
#define VQ_Q_HAS_INT_CONV 1

#include <limits>
#include <cmath>
#include <string>
#include <iostream>
#include <random>
#include <type_traits>
#include <boost/multiprecision/cpp_int.hpp>

namespace vq {
struct Q;
}

namespace vq {

typedef boost::multiprecision::cpp_int      Z;
typedef boost::multiprecision::cpp_rational BQ;

struct Q {
    BQ v;
    Q() : v(0) {}
    Q(int x) : v(x) {}
    Q(long x) : v(x) {}
    Q(long long x) : v(x) {}
    Q(unsigned x) : v(x) {}
    Q(unsigned long x) : v(x) {}
    Q(unsigned long long x) : v(x) {}
    Q(double x) : v(from_double(x)) {}
    Q(float x) : v(from_double(x)) {}
    Q(long double x) : v(from_double((double)x)) {}
    Q(const BQ &x) : v(x) {}
    Q(const Z &n, const Z &d) : v(n, d) {}

    static BQ from_double(double x) {
        if (!(x == x) || x - x != 0) return BQ(0); // NaN / Inf never generated; map to 0
        if (x == 0) return BQ(0);
        int e; double m = std::frexp(x, &e);       // x = m * 2^e, 0.5 <= |m| < 1
        long long mi = (long long)std::ldexp(m, 53); // exact
        e -= 53;
        Z num(mi), den(1);
        if (e >= 0) num <<= e; else den <<= (-e);
        return BQ(num, den);
    }

    Q& operator+=(const Q &o) { v += o.v; return *this; }
    Q& operator-=(const Q &o) { v -= o.v; return *this; }
    Q& operator*=(const Q &o) { v *= o.v; return *this; }
    Q& operator/=(const Q &o) { if (o.v == 0) v = 0; else v /= o.v; return *this; }

    explicit operator double() const { return v.convert_to<double>(); }
    explicit operator float() const { return (float)v.convert_to<double>(); }
    // truncation toward zero, as static_cast<int>(double) does
    long long trunc_z() const { Z n = boost::multiprecision::numerator(v), d = boost::multiprecision::denominator(v); Z q = n / d; return q.convert_to<long long>(); }
    explicit operator int() const { return (int)trunc_z(); }
    explicit operator long() const { return (long)trunc_z(); }
    explicit operator long long() const { return trunc_z(); }
    explicit operator unsigned() const { return (unsigned)trunc_z(); }
    explicit operator unsigned long() const { return (unsigned long)trunc_z(); }
    explicit operator bool() const { return v != 0; }

    std::string str() const {
        Z n = boost::multiprecision::numerator(v), d = boost::multiprecision::denominator(v);
        if (d == 1) return n.str();
        return n.str() + "/" + d.str();
    }
};

} // namespace vq

namespace std {
template <> struct numeric_limits<vq::Q> {
    static const bool is_specialized = false;   // keep boost's number<> probing happy
    static const bool is_integer = false;
    static const bool is_signed = true;
    static const bool is_exact = true;
    static const bool has_infinity = false;
    static const bool has_quiet_NaN = false;
    static const int  max_exponent = 1024;
    static const int  digits = 53;
    static vq::Q epsilon() { return vq::Q(vq::Z(1), vq::Z(1) << 52); }
    static vq::Q min()     { return vq::Q(vq::Z(1), vq::Z(1) << 1022); }
    static vq::Q max()     { return vq::Q(vq::Z(1) << 1023, vq::Z(1)); }
    static vq::Q lowest()  { return vq::Q(vq::Z(0) - (vq::Z(1) << 1023), vq::Z(1)); }
    static vq::Q infinity(){ return max(); }
    static vq::Q quiet_NaN(){ return vq::Q(0); }
};
} // namespace std

namespace vq {

inline Q operator+(Q a, const Q &b) { a += b; return a; }
inline Q operator-(Q a, const Q &b) { a -= b; return a; }
inline Q operator*(Q a, const Q &b) { a *= b; return a; }
inline Q operator/(Q a, const Q &b) { a /= b; return a; }
inline Q operator-(const Q &a) { return Q(BQ(-a.v)); }
inline Q operator+(const Q &a) { return a; }
inline bool operator==(const Q &a, const Q &b) { return a.v == b.v; }
inline bool operator!=(const Q &a, const Q &b) { return a.v != b.v; }
inline bool operator< (const Q &a, const Q &b) { return a.v <  b.v; }
inline bool operator<=(const Q &a, const Q &b) { return a.v <= b.v; }
inline bool operator> (const Q &a, const Q &b) { return a.v >  b.v; }
inline bool operator>=(const Q &a, const Q &b) { return a.v >= b.v; }

#define VQ_MIXED(T) \
inline Q operator+(const Q &a, T b) { return a + Q(b); } \
inline Q operator+(T a, const Q &b) { return Q(a) + b; } \
inline Q operator-(const Q &a, T b) { return a - Q(b); } \
inline Q operator-(T a, const Q &b) { return Q(a) - b; } \
inline Q operator*(const Q &a, T b) { return a * Q(b); } \
inline Q operator*(T a, const Q &b) { return Q(a) * b; } \
inline Q operator/(const Q &a, T b) { return a / Q(b); } \
inline Q operator/(T a, const Q &b) { return Q(a) / b; } \
inline bool operator==(const Q &a, T b) { return a == Q(b); } \
inline bool operator==(T a, const Q &b) { return Q(a) == b; } \
inline bool operator!=(const Q &a, T b) { return a != Q(b); } \
inline bool operator!=(T a, const Q &b) { return Q(a) != b; } \
inline bool operator< (const Q &a, T b) { return a <  Q(b); } \
inline bool operator< (T a, const Q &b) { return Q(a) <  b; } \
inline bool operator<=(const Q &a, T b) { return a <= Q(b); } \
inline bool operator<=(T a, const Q &b) { return Q(a) <= b; } \
inline bool operator> (const Q &a, T b) { return a >  Q(b); } \
inline bool operator> (T a, const Q &b) { return Q(a) >  b; } \
inline bool operator>=(const Q &a, T b) { return a >= Q(b); } \
inline bool operator>=(T a, const Q &b) { return Q(a) >= b; }
VQ_MIXED(int)
VQ_MIXED(long)
VQ_MIXED(unsigned)
VQ_MIXED(unsigned long)
VQ_MIXED(double)
VQ_MIXED(float)
#undef VQ_MIXED

inline Q abs(const Q &a)  { return a.v < 0 ? -a : a; }
inline Q fabs(const Q &a) { return abs(a); }
inline Q sqrt(const Q &a) {
    if (a.v <= 0) return Q(0);
    Z n = boost::multiprecision::numerator(a.v), d = boost::multiprecision::denominator(a.v);
    Z fl = (n << 128) / d;                       // floor(q * 2^128), q > 0
    Z r = boost::multiprecision::sqrt(fl);       // floor integer sqrt
    Z two64 = Z(1) << 64;
    return Q(r, two64);
}
inline Q conj(const Q &a) { return a; }
inline Q real(const Q &a) { return a; }
inline Q imag(const Q &)  { return Q(0); }
inline bool isnan(const Q&) { return false; }
inline bool isinf(const Q&) { return false; }
inline bool isfinite(const Q&) { return true; }
inline Q max(const Q &a, const Q &b) { return (a < b) ? b : a; }
inline Q min(const Q &a, const Q &b) { return (b < a) ? b : a; }

inline std::ostream& operator<<(std::ostream &os, const Q &a) { return os << a.str(); }
inline std::istream& operator>>(std::istream &is, Q &a) {
    std::string s; is >> s;
    size_t p = s.find('/');
    if (p == std::string::npos) a = Q(BQ(Z(s)));
    else a = Q(Z(s.substr(0, p)), Z(s.substr(p + 1)));
    return is;
}

inline Q parse(const std::string &s) {
    size_t p = s.find('/');
    if (p == std::string::npos) return Q(BQ(Z(s)));
    return Q(Z(s.substr(0, p)), Z(s.substr(p + 1)));
}

} // namespace vq

namespace std {
inline vq::Q abs(const vq::Q &a)  { return vq::abs(a); }
inline vq::Q sqrt(const vq::Q &a) { return vq::sqrt(a); }
inline vq::Q fabs(const vq::Q &a) { return vq::abs(a); }
inline bool isnan(const vq::Q &) { return false; }
inline bool isinf(const vq::Q &) { return false; }

// spectral_radius (power method) and idrs draw random numbers of value type
template <> class uniform_real_distribution<vq::Q> {
    uniform_real_distribution<double> d;
  public:
    typedef vq::Q result_type;
    uniform_real_distribution(vq::Q a = vq::Q(0), vq::Q b = vq::Q(1)) : d((double)a, (double)b) {}
    template <class G> vq::Q operator()(G &g) { return vq::Q(d(g)); }
};
} // namespace std

#include <amgcl/value_type/interface.hpp>
#include <amgcl/backend/builtin.hpp>

namespace amgcl {
namespace math {
template <> struct norm_impl<vq::Q> {
    static vq::Q get(const vq::Q &x) { return vq::abs(x); }
};
} // namespace math
namespace backend {
template <> struct is_builtin_vector< std::vector<vq::Q> > : std::true_type {};
} // namespace backend
} // namespace amgcl

#endif
