// scalar-valued amg hierarchies (value_type = vq::Q) through the coarsening wrappers and with
// near-null-space vectors, every route, two relaxations
#define AMGB_B 1
#define AMGB_FEW_RELAX
#define AMGB_STATIC_AGG
#define AMGB_STATIC_SA
#define AMGB_RUNTIME
#include "amgb_driver.hpp"
