// drv_ll2.cpp -- C10-A2, second layer: the kernels re-stated over flat arrays with
// uninitialised cells in coq/LowLevel2*.v, run on the real amgcl templates; the RAW result
// arrays (ptr[0..nrows], col[0..nnz), val[0..nnz)) are dumped cell by cell and compared with
// the arrays of the low-level model (ocaml/own/ops_ll2.ml).
//   ll_<op>  : value type vq::Q (exact rationals)
//   lld_<op> : value type double on the same (integer-valued) data -- new double[n] really is
//              uninitialised memory, so under -DVQ_POISON (poison_new.hpp) a read of an unwritten
//              cell shows up as a fill-dependent output; under ASan as a report.
// Output: {n m} ptr=[..] col=[..] val=[..]
#include "poison_new.hpp"
#include "vq_io.hpp"
#include <amgcl/backend/builtin.hpp>
#include <amgcl/detail/spgemm.hpp>
#include <amgcl/detail/sort_row.hpp>

using vq::Q; using vq::Tok; using vq::show;
namespace be = amgcl::backend;

template <class M>
static std::string dump(const M &A) {
    std::ostringstream os;
    os << "{" << A.nrows << " " << A.ncols << "} ptr=[";
    if (A.ptr) for (size_t i = 0; i <= A.nrows; ++i) { if (i) os << " "; os << (long)A.ptr[i]; }
    os << "] col=[";
    size_t nnz = A.nnz;
    if (nnz > 10000000) return "BAD nnz";
    if (A.col) for (size_t j = 0; j < nnz; ++j) { if (j) os << " "; os << (long)A.col[j]; }
    os << "] val=[";
    if (A.val) for (size_t j = 0; j < nnz; ++j) { if (j) os << " "; os << show(A.val[j]); }
    os << "]";
    return os.str();
}

template <class V> static std::string do_sort_rows(Tok &t) {
    auto A = t.crsT<V>(); be::sort_rows(*A); return dump(*A);
}
template <class V> static std::string do_saad(Tok &t) {
    typedef be::crs<V, ptrdiff_t, ptrdiff_t> M;
    auto A = t.crsT<V>(); auto B = t.crsT<V>(); bool s = t.i() != 0;
    M C; be::spgemm_saad(*A, *B, C, s); return dump(C);
}

VQ_OP(ll_sort_rows)  { return do_sort_rows<Q>(t); }
VQ_OP(lld_sort_rows) { return do_sort_rows<double>(t); }
VQ_OP(ll_saad)  { return do_saad<Q>(t); }
VQ_OP(lld_saad) { return do_saad<double>(t); }

int main() { return vq::driver_main(); }
