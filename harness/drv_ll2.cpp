// drv_ll2.cpp -- C10-A2, second layer: the kernels re-stated over flat arrays with
// uninitialised cells in coq/LowLevel2*.v, run on the real amgcl templates; the RAW result
// arrays (ptr[0..nrows], col[0..nnz), val[0..nnz)) are dumped cell by cell and compared with
// the arrays of the low-level model (ocaml/own/ops_ll2.ml).
//   ll_<op>  : value type vq::Q (exact rationals)
//   lld_<op> : value type double on the same (integer-valued) data -- new double[n] really is
//              uninitialised memory, so under -DVQ_POISON (poison_new.hpp) a read of an unwritten
//              cell shows up as a fill-dependent output; under ASan as a report.
// Output: {n m} ptr=[..] col=[..] val=[..]
#include "poison_new.hpp"
#include "vq_io.hpp"
#include <amgcl/backend/builtin.hpp>
#include <amgcl/detail/spgemm.hpp>
#include <amgcl/detail/sort_row.hpp>
#include <amgcl/coarsening/plain_aggregates.hpp>
#include <amgcl/coarsening/tentative_prolongation.hpp>
#include <amgcl/relaxation/ilu0.hpp>
#include <amgcl/solver/skyline_lu.hpp>
#include "vq_access.hpp"

using vq::Q; using vq::Tok; using vq::show;
namespace be = amgcl::backend;

template <class M>
static std::string dump(const M &A) {
    std::ostringstream os;
    os << "{" << A.nrows << " " << A.ncols << "} ptr=[";
    if (A.ptr) for (size_t i = 0; i <= A.nrows; ++i) { if (i) os << " "; os << (long)A.ptr[i]; }
    os << "] col=[";
    size_t nnz = A.nnz;
    if (nnz > 10000000) return "BAD nnz";
    if (A.col) for (size_t j = 0; j < nnz; ++j) { if (j) os << " "; os << (long)A.col[j]; }
    os << "] val=[";
    if (A.val) for (size_t j = 0; j < nnz; ++j) { if (j) os << " "; os << show(A.val[j]); }
    os << "]";
    return os.str();
}

template <class V> static std::string do_sort_rows(Tok &t) {
    auto A = t.crsT<V>(); be::sort_rows(*A); return dump(*A);
}
template <class V> static std::string do_saad(Tok &t) {
    typedef be::crs<V, ptrdiff_t, ptrdiff_t> M;
    auto A = t.crsT<V>(); auto B = t.crsT<V>(); bool s = t.i() != 0;
    M C; be::spgemm_saad(*A, *B, C, s); return dump(C);
}

// plain_aggregates A eps_strong eps2   (eps2 = the exact value of float(eps_strong)^2, checked)
template <class V> static std::string do_plain_aggregates(Tok &t) {
    auto A = t.crsT<V>(); Q eps = t.q(); Q eps2 = t.q();
    amgcl::coarsening::plain_aggregates::params prm; prm.eps_strong = (float)eps;
    if (!(eps2 == Q(prm.eps_strong * prm.eps_strong))) return "GLUE-MISMATCH eps2";
    try {
        amgcl::coarsening::plain_aggregates a(*A, prm);
        std::ostringstream os;
        os << "count=" << a.count << " id=" << vq::show_ivec(a.id) << " strong=[";
        for (size_t k = 0; k < a.strong_connection.size(); ++k) { if (k) os << " "; os << (a.strong_connection[k] ? 1 : 0); }
        os << "]";
        return os.str();
    } catch (const amgcl::error::empty_level&) { return "EXC empty_level"; }
}
// tentative n naggr id[]   (nullspace.cols = 0)
template <class V> static std::string do_tentative(Tok &t) {
    typedef be::crs<V, ptrdiff_t, ptrdiff_t> M;
    long n = t.i(); long naggr = t.i(); auto idl = t.ivec();
    std::vector<ptrdiff_t> id(idl.begin(), idl.end());
    amgcl::coarsening::nullspace_params ns;
    auto P = amgcl::coarsening::tentative_prolongation<M>((size_t)n, (size_t)naggr, id, ns, 1);
    return dump(*P);
}
// ilu0 A: the three objects handed to detail::ilu_solve (serial mode keeps them as built)
template <class V> struct IluT {
    typedef be::builtin<V, ptrdiff_t, ptrdiff_t> B;
    typedef amgcl::relaxation::ilu0<B> R;
    typedef amgcl::relaxation::detail::ilu_solve<B> Solve;
};
template <class Tag> struct Stolen { static typename Tag::type ptr; };
template <class Tag> typename Tag::type Stolen<Tag>::ptr;
template <class Tag, typename Tag::type p> struct Steal { struct Init { Init() { Stolen<Tag>::ptr = p; } }; static Init init; };
template <class Tag, typename Tag::type p> typename Steal<Tag, p>::Init Steal<Tag, p>::init;
struct tag_q { typedef std::shared_ptr<IluT<Q>::Solve> IluT<Q>::R::*type; };
template struct Steal<tag_q, &IluT<Q>::R::ilu>;
struct tag_d { typedef std::shared_ptr<IluT<double>::Solve> IluT<double>::R::*type; };
template struct Steal<tag_d, &IluT<double>::R::ilu>;
static const IluT<Q>::Solve& solver_of(const IluT<Q>::R &r) { return *(r.*Stolen<tag_q>::ptr); }
static const IluT<double>::Solve& solver_of(const IluT<double>::R &r) { return *(r.*Stolen<tag_d>::ptr); }

template <class V> static std::string do_ilu0(Tok &t) {
    auto A = t.crsT<V>();
    typename IluT<V>::R::params p; p.solve.serial = true;
    typename IluT<V>::B::params bprm;
    try {
        typename IluT<V>::R r(*A, p, bprm);
        const typename IluT<V>::Solve &s = solver_of(r);
        auto L = amgcl::verif::access::ilu_L(s); auto U = amgcl::verif::access::ilu_U(s); auto D = amgcl::verif::access::ilu_D(s);
        if (!L || !U || !D) return "NOFACTORS";
        std::ostringstream os;
        os << "L=" << dump(*L) << " U=" << dump(*U) << " D=[";
        for (size_t i = 0; i < L->nrows; ++i) { if (i) os << " "; os << show((*D)[i]); }
        os << "]";
        return os.str();
    } catch (const std::runtime_error &e) {
        std::string w = e.what();
        if (w.find("Zero pivot") != std::string::npos) return "EXC zero_pivot";
        if (w.find("No diagonal") != std::string::npos) return "EXC no_diag";
        return "EXC runtime_error";
    }
}

// skyline A rhs x0: solver::skyline_lu<V> (default ordering cuthill_mckee<false>): the private tables after the
// constructor (perm, ptr, L, U, D = inverted pivots) and the result of one solve (x and the scratch y)
template <class V> struct SkyT { typedef amgcl::solver::skyline_lu<V> Sk; };
#define SKY_MEMBER(tag, V, T, m) struct tag { typedef T SkyT<V>::Sk::*type; }; template struct Steal<tag, &SkyT<V>::Sk::m>;
SKY_MEMBER(sk_perm_q, Q, std::vector<int>, perm) SKY_MEMBER(sk_ptr_q, Q, std::vector<int>, ptr)
SKY_MEMBER(sk_L_q, Q, std::vector<Q>, L) SKY_MEMBER(sk_U_q, Q, std::vector<Q>, U) SKY_MEMBER(sk_D_q, Q, std::vector<Q>, D)
SKY_MEMBER(sk_y_q, Q, std::vector<Q>, y)
static std::string op_skyline_q(Tok &t) {
    auto A = t.crsT<Q>(); auto rhs = t.vecT<Q>(); auto x = t.vecT<Q>();
    try {
        SkyT<Q>::Sk S(*A);
        std::ostringstream os;
        os << "perm=" << vq::show_ivec(S.*Stolen<sk_perm_q>::ptr) << " ptr=" << vq::show_ivec(S.*Stolen<sk_ptr_q>::ptr)
           << " L=" << show(S.*Stolen<sk_L_q>::ptr) << " U=" << show(S.*Stolen<sk_U_q>::ptr) << " D=" << show(S.*Stolen<sk_D_q>::ptr);
        S(rhs, x);
        os << " x=" << show(x) << " y=" << show(S.*Stolen<sk_y_q>::ptr);
        return os.str();
    } catch (const std::runtime_error &e) { return "EXC zero_pivot"; }
}
template <class V> static std::string do_skyline_nodump(Tok &t) {     // double: the result of the solve only
    auto A = t.crsT<V>(); auto rhs = t.vecT<V>(); auto x = t.vecT<V>();
    try { typename SkyT<V>::Sk S(*A); S(rhs, x); return show(x); }
    catch (const std::runtime_error &e) { return "EXC zero_pivot"; }
}
VQ_OP(ll_skyline)  { return op_skyline_q(t); }
VQ_OP(lld_skyline) { return do_skyline_nodump<double>(t); }

VQ_OP(ll_plain_aggregates)  { return do_plain_aggregates<Q>(t); }
VQ_OP(lld_plain_aggregates) { return do_plain_aggregates<double>(t); }
VQ_OP(ll_tentative)  { return do_tentative<Q>(t); }
VQ_OP(lld_tentative) { return do_tentative<double>(t); }
VQ_OP(ll_ilu0)  { return do_ilu0<Q>(t); }
VQ_OP(lld_ilu0) { return do_ilu0<double>(t); }
VQ_OP(ll_sort_rows)  { return do_sort_rows<Q>(t); }
VQ_OP(lld_sort_rows) { return do_sort_rows<double>(t); }
VQ_OP(ll_saad)  { return do_saad<Q>(t); }
VQ_OP(lld_saad) { return do_saad<double>(t); }

int main() { return vq::driver_main(); }
