// vq_access.hpp -- the friend accessor enabled by -DAMGCL_VERIF (hooks in /repo:
// gauss_seidel.hpp, detail/ilu_solve.hpp, amg.hpp).  Read-only views of private tables.
#ifndef VQ_ACCESS_HPP
#define VQ_ACCESS_HPP
#include <memory>
namespace amgcl { namespace verif {
struct access {
    template <class GS> static auto gs_forward (const GS &g) -> decltype((g.forward))  { return g.forward;  }
    template <class GS> static auto gs_backward(const GS &g) -> decltype((g.backward)) { return g.backward; }
    template <class GS> static bool gs_is_serial(const GS &g) { return g.is_serial; }
    template <class I>  static auto ilu_lower(const I &s) -> decltype((s.lower)) { return s.lower; }
    template <class I>  static auto ilu_upper(const I &s) -> decltype((s.upper)) { return s.upper; }
    template <class I>  static auto ilu_L(const I &s) -> decltype((s.L)) { return s.L; }
    template <class I>  static auto ilu_U(const I &s) -> decltype((s.U)) { return s.U; }
    template <class I>  static auto ilu_D(const I &s) -> decltype((s.D)) { return s.D; }
    template <class A>  static auto levels(const A &a) -> decltype((a.levels)) { return a.levels; }
    template <class A>  static auto levels_mut(A &a) -> decltype((a.levels)) { return a.levels; }
    // (C09) build the private level-schedule objects directly, for any thread count
    // (gauss_seidel itself falls back to the serial sweep below 4 threads)
    template <class GS, class M> static auto gs_make_forward(const M &A)
        -> std::shared_ptr<typename GS::template parallel_sweep<true> > {
        return std::make_shared<typename GS::template parallel_sweep<true> >(A); }
    template <class GS, class M> static auto gs_make_backward(const M &A)
        -> std::shared_ptr<typename GS::template parallel_sweep<false> > {
        return std::make_shared<typename GS::template parallel_sweep<false> >(A); }
};
} }
#endif
