// drv_coarsen.cpp -- C04: aggregates, tentative prolongation, coarsening policies of amgcl
// instantiated with the exact rational value type (Backend = builtin<vq::Q>).
//
// float/double parameters: a case line carries the raw parameter (an exactly
// float-representable rational) AND the derived values the model needs
// (eps_strong*eps_strong, 1/over_interp, static_cast<Q>(2.0/3), ...).  This driver feeds
// the raw parameter to the real code and checks that the derived value on the line equals
// the same C++ expression evaluated with the same types (GLUE-MISMATCH otherwise).
//
// Uninitialised memory: a poisoning operator new fills every allocation with a byte
// chosen per case ("fill" token) while g_poison is set, so that the content of
// `new char[nnz]` in ruge_stuben::connect is a controlled input (model: junk flags).
#include <cstdlib>
#include <cstring>
#include <new>
static bool g_poison = false;
static unsigned char g_fill = 0;
void* operator new(std::size_t n) { void *p = std::malloc(n ? n : 1); if (!p) throw std::bad_alloc(); if (g_poison) std::memset(p, g_fill, n); return p; }
void* operator new[](std::size_t n) { void *p = std::malloc(n ? n : 1); if (!p) throw std::bad_alloc(); if (g_poison) std::memset(p, g_fill, n); return p; }
void operator delete(void *p) noexcept { std::free(p); }
void operator delete[](void *p) noexcept { std::free(p); }
void operator delete(void *p, std::size_t) noexcept { std::free(p); }
void operator delete[](void *p, std::size_t) noexcept { std::free(p); }

#include "vq_io.hpp"
#include <tuple>
#include <amgcl/backend/interface.hpp>
#include <amgcl/coarsening/plain_aggregates.hpp>
#include <amgcl/coarsening/pointwise_aggregates.hpp>
#include <amgcl/coarsening/tentative_prolongation.hpp>
#include <amgcl/coarsening/aggregation.hpp>
#include <amgcl/coarsening/smoothed_aggregation.hpp>
#include <amgcl/coarsening/smoothed_aggr_emin.hpp>
// connect()/cfsplit() are private static members; the harness looks at them directly
#define private public
#include <amgcl/coarsening/ruge_stuben.hpp>
#undef private

using vq::Q; using vq::Tok; using vq::show; using vq::show_crs; using vq::Crs;
namespace be = amgcl::backend;
namespace co = amgcl::coarsening;
typedef be::builtin<Q> Backend;
typedef be::crs<double, ptrdiff_t, ptrdiff_t> CrsD;

struct Poison { Poison(long fill) { g_fill = (unsigned char)fill; g_poison = true; } ~Poison() { g_poison = false; } };

#define GLUE(given, expr) do { if (!((given) == Q(expr))) return std::string("GLUE-MISMATCH " #expr); } while (0)

static std::string show_flags(const std::vector<char> &f) {
    std::ostringstream os; os << "[";
    for (size_t k = 0; k < f.size(); ++k) { if (k) os << " "; os << (f[k] ? 1 : 0); }
    os << "]"; return os.str();
}
template <class Aggr> static std::string show_aggr(const Aggr &a) {
    return std::to_string(a.count) + " " + vq::show_ivec(a.id) + " " + show_flags(a.strong_connection);
}
template <class PR> static std::string show_pr(const PR &pr) {
    return show_crs(*std::get<0>(pr)) + " " + show_crs(*std::get<1>(pr));
}
// amgcl::error::empty_level is not a std::exception
#define EMPTY_GUARD(body) try { body } catch (const amgcl::error::empty_level&) { return std::string("EXC empty_level"); }

// plain_aggregates A eps_strong eps2
VQ_OP(plain_aggregates) {
    auto A = t.crs(); Q eps = t.q(); Q eps2 = t.q();
    co::plain_aggregates::params prm; prm.eps_strong = (float)eps;
    GLUE(eps2, prm.eps_strong * prm.eps_strong);
    EMPTY_GUARD( co::plain_aggregates a(*A, prm); return show_aggr(a); )
}
// pointwise_aggregates A eps_strong eps2 block_size min_aggregate
VQ_OP(pointwise_aggregates) {
    auto A = t.crs(); Q eps = t.q(); Q eps2 = t.q(); long bs = t.i(); long mina = t.i();
    co::pointwise_aggregates::params prm; prm.eps_strong = (float)eps; prm.block_size = (unsigned)bs;
    GLUE(eps2, prm.eps_strong * prm.eps_strong);
    EMPTY_GUARD( co::pointwise_aggregates a(*A, prm, (unsigned)mina); return show_aggr(a); )
}
// tentative n naggr id[]        (nullspace.cols = 0)
VQ_OP(tentative) {
    long n = t.i(); long naggr = t.i(); auto idl = t.ivec();
    std::vector<ptrdiff_t> id(idl.begin(), idl.end());
    co::nullspace_params ns;
    auto P = co::tentative_prolongation<Crs>((size_t)n, (size_t)naggr, id, ns, 1);
    return show_crs(*P);
}
// aggregation A eps_strong eps2 block_size
VQ_OP(aggregation) {
    auto A = t.crs(); Q eps = t.q(); Q eps2 = t.q(); long bs = t.i();
    co::aggregation<Backend>::params prm; prm.aggr.eps_strong = (float)eps; prm.aggr.block_size = (unsigned)bs;
    GLUE(eps2, prm.aggr.eps_strong * prm.aggr.eps_strong);
    co::aggregation<Backend> c(prm);
    EMPTY_GUARD( auto pr = c.transfer_operators(*A); return show_pr(pr); )
}
// agg_coarse A P R over_interp s
VQ_OP(agg_coarse) {
    auto A = t.crs(); auto P = t.crs(); auto R = t.crs(); Q oi = t.q(); Q s = t.q();
    co::aggregation<Backend>::params prm; prm.over_interp = (float)oi;
    { float sf = 1 / prm.over_interp; GLUE(s, sf); }
    co::aggregation<Backend> c(prm);
    auto Ac = c.coarse_operator(*A, *P, *R);
    return show_crs(*Ac);
}
// galerkin A P R          (coarse_operator of smoothed_aggregation and ruge_stuben)
VQ_OP(galerkin) {
    auto A = t.crs(); auto P = t.crs(); auto R = t.crs();
    co::smoothed_aggregation<Backend> c1; co::ruge_stuben<Backend> c2;
    auto A1 = c1.coarse_operator(*A, *P, *R);
    auto A2 = c2.coarse_operator(*A, *P, *R);
    std::string s1 = show_crs(*A1), s2 = show_crs(*A2);
    if (s1 != s2) return "SA/RS-DIFFER " + s1 + " " + s2;
    return s1;
}
static co::smoothed_aggregation<Backend>::params sa_params(Q eps, long bs, Q relax, bool est) {
    co::smoothed_aggregation<Backend>::params prm;
    prm.aggr.eps_strong = (float)eps; prm.aggr.block_size = (unsigned)bs; prm.relax = (float)relax;
    prm.estimate_spectral_radius = est; prm.power_iters = 0;
    return prm;
}
// sa A eps_strong eps2 block_size relax c23
VQ_OP(sa) {
    auto A = t.crs(); Q eps = t.q(); Q eps2 = t.q(); long bs = t.i(); Q relax = t.q(); Q c23 = t.q();
    auto prm = sa_params(eps, bs, relax, false);
    GLUE(eps2, prm.aggr.eps_strong * prm.aggr.eps_strong);
    GLUE(c23, static_cast<Q>(2.0/3));
    co::smoothed_aggregation<Backend> c(prm);
    EMPTY_GUARD( auto pr = c.transfer_operators(*A); return show_pr(pr); )
}
// sa_gersh A eps_strong eps2 block_size relax c43     (estimate_spectral_radius, power_iters = 0)
VQ_OP(sa_gersh) {
    auto A = t.crs(); Q eps = t.q(); Q eps2 = t.q(); long bs = t.i(); Q relax = t.q(); Q c43 = t.q();
    auto prm = sa_params(eps, bs, relax, true);
    GLUE(eps2, prm.aggr.eps_strong * prm.aggr.eps_strong);
    GLUE(c43, static_cast<Q>(4.0/3));
    co::smoothed_aggregation<Backend> c(prm);
    EMPTY_GUARD( auto pr = c.transfer_operators(*A); return show_pr(pr); )
}
// sa2 A eps_strong eps2 eps2_next relax c23 : two successive calls on the same policy object
// (eps_strong *= 0.5 after each level); prints A_coarse, P2, R2
VQ_OP(sa2) {
    auto A = t.crs(); Q eps = t.q(); Q eps2 = t.q(); Q eps2n = t.q(); Q relax = t.q(); Q c23 = t.q();
    auto prm = sa_params(eps, 1, relax, false);
    GLUE(eps2, prm.aggr.eps_strong * prm.aggr.eps_strong);
    { float e = prm.aggr.eps_strong; e *= 0.5; GLUE(eps2n, e * e); }
    GLUE(c23, static_cast<Q>(2.0/3));
    co::smoothed_aggregation<Backend> c(prm);
    EMPTY_GUARD(
        auto pr = c.transfer_operators(*A);
        auto Ac = c.coarse_operator(*A, *std::get<0>(pr), *std::get<1>(pr));
        auto pr2 = c.transfer_operators(*Ac);
        return show_crs(*Ac) + " " + show_pr(pr2); )
}

// A (x) I_b : row i*b+k has the entries (j*b+k, v) of row i
static std::shared_ptr<Crs> kron_id(const Crs &A, long b) {
    auto K = std::make_shared<Crs>();
    K->set_size(A.nrows * b, A.ncols * b, true);
    for (size_t i = 0; i < A.nrows; ++i) for (long k = 0; k < b; ++k) K->ptr[i * b + k + 1] = A.ptr[i + 1] - A.ptr[i];
    K->set_nonzeros(K->scan_row_sizes());
    for (size_t i = 0; i < A.nrows; ++i) for (long k = 0; k < b; ++k) {
        ptrdiff_t h = K->ptr[i * b + k];
        for (ptrdiff_t j = A.ptr[i]; j < A.ptr[i + 1]; ++j, ++h) { K->col[h] = A.col[j] * b + k; K->val[h] = A.val[j]; }
    }
    return K;
}
// kron_pointwise A eps_strong eps2 b : pointwise_aggregates(A (x) I_b, block_size = b)
// (compared with the LIFTED scalar aggregates of A: the lifting statement of C04)
VQ_OP(kron_pointwise) {
    auto A = t.crs(); Q eps = t.q(); Q eps2 = t.q(); long b = t.i();
    auto K = kron_id(*A, b);
    co::pointwise_aggregates::params prm; prm.eps_strong = (float)eps; prm.block_size = (unsigned)b;
    GLUE(eps2, prm.eps_strong * prm.eps_strong);
    EMPTY_GUARD( co::pointwise_aggregates a(*K, prm, 0); return show_aggr(a); )
}
// kron_sa A eps_strong eps2 b relax c23 : smoothed_aggregation(A (x) I_b, block_size = b)
VQ_OP(kron_sa) {
    auto A = t.crs(); Q eps = t.q(); Q eps2 = t.q(); long b = t.i(); Q relax = t.q(); Q c23 = t.q();
    auto K = kron_id(*A, b);
    auto prm = sa_params(eps, b, relax, false);
    GLUE(eps2, prm.aggr.eps_strong * prm.aggr.eps_strong);
    GLUE(c23, static_cast<Q>(2.0/3));
    co::smoothed_aggregation<Backend> c(prm);
    EMPTY_GUARD( auto pr = c.transfer_operators(*K); return show_pr(pr); )
}
// emin A eps_strong eps2 block_size : smoothed_aggr_emin::transfer_operators
VQ_OP(emin) {
    auto A = t.crs(); Q eps = t.q(); Q eps2 = t.q(); long bs = t.i();
    co::smoothed_aggr_emin<Backend>::params prm; prm.aggr.eps_strong = (float)eps; prm.aggr.block_size = (unsigned)bs;
    GLUE(eps2, prm.aggr.eps_strong * prm.aggr.eps_strong);
    co::smoothed_aggr_emin<Backend> c(prm);
    EMPTY_GUARD( auto pr = c.transfer_operators(*A); return show_pr(pr); )
}
// emin2 A eps_strong eps2 eps2_next : two successive levels on the same policy object; prints A_coarse, P2, R2
VQ_OP(emin2) {
    auto A = t.crs(); Q eps = t.q(); Q eps2 = t.q(); Q eps2n = t.q();
    co::smoothed_aggr_emin<Backend>::params prm; prm.aggr.eps_strong = (float)eps;
    GLUE(eps2, prm.aggr.eps_strong * prm.aggr.eps_strong);
    { float e = prm.aggr.eps_strong; e *= 0.5; GLUE(eps2n, e * e); }
    co::smoothed_aggr_emin<Backend> c(prm);
    EMPTY_GUARD(
        auto pr = c.transfer_operators(*A);
        auto Ac = c.coarse_operator(*A, *std::get<0>(pr), *std::get<1>(pr));
        auto pr2 = c.transfer_operators(*Ac);
        return show_crs(*Ac) + " " + show_pr(pr2); )
}
// rs A eps_strong do_trunc eps_trunc fill
VQ_OP(rs) {
    auto A = t.crs(); Q eps = t.q(); long dt = t.i(); Q et = t.q(); long fill = t.i();
    co::ruge_stuben<Backend>::params prm; prm.eps_strong = (float)eps; prm.do_trunc = (dt != 0); prm.eps_trunc = (float)et;
    co::ruge_stuben<Backend> c(prm);
    std::tuple<std::shared_ptr<Crs>, std::shared_ptr<Crs> > pr;
    try { Poison p(fill); pr = c.transfer_operators(*A); }
    catch (const amgcl::error::empty_level&) { return std::string("EXC empty_level"); }
    return show_pr(pr);
}
// rs_cf A eps_strong fill : connect + cfsplit -> S.val flags, cf
VQ_OP(rs_cf) {
    auto A = t.crs(); Q eps = t.q(); long fill = t.i();
    size_t n = A->nrows;
    std::vector<char> cf(n, 'U');
    std::vector<char> sv;
    {
        Poison p(fill);
        be::crs<char, ptrdiff_t, ptrdiff_t> S;
        co::ruge_stuben<Backend>::connect(*A, (float)eps, S, cf);
        co::ruge_stuben<Backend>::cfsplit(*A, S, cf);
        sv.assign(S.val, S.val + A->nnz);
    }
    return show_flags(sv) + " " + std::string(cf.begin(), cf.end()) + ".";
}
// d.tentative_ns n naggr id[] block_size cols B[] : double build with a near-null space;
// prints P (exact value of every double) and the coarse null space
VQ_OP(d_tentative_ns) {
    long n = t.i(); long naggr = t.i(); auto idl = t.ivec(); long bs = t.i(); long cols = t.i();
    std::vector<double> B = t.vecT<double>();
    std::vector<ptrdiff_t> id(idl.begin(), idl.end());
    co::nullspace_params ns; ns.cols = (int)cols; ns.B = B;
    auto P = co::tentative_prolongation<CrsD>((size_t)n, (size_t)naggr, id, ns, (int)bs);
    return show_crs(*P) + " " + show(ns.B);
}
// ---- transfer_operators() WITH a near-null space (model: TentativeQrPolicies.v).  The policies pass
// min_aggregate = nullspace.cols to the aggregation and call tentative_prolongation (QR<double>, B double) even for the
// exact value type; on the "dyadic exact" B of tools/props/C04.py no binary64 operation rounds, so P_tent is exact and the
// smoothing runs in exact arithmetic: outputs are compared byte for byte.  Prints P, R and the coarse near-null space.
// A trailing token (repaired-tree flag for the model) is ignored here.
// ns_aggregation A eps_strong eps2 block_size cols B[]
VQ_OP(ns_aggregation) {
    auto A = t.crs(); Q eps = t.q(); Q eps2 = t.q(); long bs = t.i(); long cols = t.i(); std::vector<double> B = t.vecT<double>();
    co::aggregation<Backend>::params prm; prm.aggr.eps_strong = (float)eps; prm.aggr.block_size = (unsigned)bs;
    prm.nullspace.cols = (int)cols; prm.nullspace.B = B;
    GLUE(eps2, prm.aggr.eps_strong * prm.aggr.eps_strong);
    co::aggregation<Backend> c(prm);
    EMPTY_GUARD( auto pr = c.transfer_operators(*A); return show_pr(pr) + " " + show(c.prm.nullspace.B); )
}
// ns_sa A eps_strong eps2 block_size cols relax c23 B[]
VQ_OP(ns_sa) {
    auto A = t.crs(); Q eps = t.q(); Q eps2 = t.q(); long bs = t.i(); long cols = t.i(); Q relax = t.q(); Q c23 = t.q();
    std::vector<double> B = t.vecT<double>();
    auto prm = sa_params(eps, bs, relax, false); prm.nullspace.cols = (int)cols; prm.nullspace.B = B;
    GLUE(eps2, prm.aggr.eps_strong * prm.aggr.eps_strong);
    GLUE(c23, static_cast<Q>(2.0/3));
    co::smoothed_aggregation<Backend> c(prm);
    EMPTY_GUARD( auto pr = c.transfer_operators(*A); return show_pr(pr) + " " + show(c.prm.nullspace.B); )
}
// ns_emin A eps_strong eps2 block_size cols B[]
VQ_OP(ns_emin) {
    auto A = t.crs(); Q eps = t.q(); Q eps2 = t.q(); long bs = t.i(); long cols = t.i(); std::vector<double> B = t.vecT<double>();
    co::smoothed_aggr_emin<Backend>::params prm; prm.aggr.eps_strong = (float)eps; prm.aggr.block_size = (unsigned)bs;
    prm.nullspace.cols = (int)cols; prm.nullspace.B = B;
    GLUE(eps2, prm.aggr.eps_strong * prm.aggr.eps_strong);
    co::smoothed_aggr_emin<Backend> c(prm);
    EMPTY_GUARD( auto pr = c.transfer_operators(*A); return show_pr(pr) + " " + show(c.prm.nullspace.B); )
}
int main() { vq::registry()["d.tentative_ns"] = op_d_tentative_ns; return vq::driver_main(); }
