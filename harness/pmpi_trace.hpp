// pmpi_trace.hpp -- request-discipline monitor for the MPI harness (C11, "for any message arrival
// order the MPI runtime produces").
//
// The MPI standard's profiling interface: the application may define MPI_Xxx itself and forward to
// PMPI_Xxx.  This header defines the non-blocking point-to-point entry points and every completion
// call (MPI_Isend, MPI_Irecv, MPI_Wait, MPI_Waitall, MPI_Waitany, MPI_Waitsome, MPI_Test, MPI_Testall,
// MPI_Testany, MPI_Testsome, MPI_Request_free, and MPI_Recv / MPI_Probe / MPI_Iprobe for the wildcard
// check), so every such call made by amgcl (a header-only library compiled
// into the driver) passes through here.  Include it in exactly ONE translation unit.
//
// Per rank it keeps the set of PENDING requests (kind, buffer, bytes, peer, tag, a snapshot of a send
// buffer), identified by the ADDRESS of the MPI_Request variable the program passed (the handle value is
// not an identity: Open MPI returns one shared pre-completed request for every eagerly completed
// MPI_Isend), and reports, for the operation bracketed by begin_op() / end_op():
//   (a) pending-send / pending-recv : a request started inside the operation is still pending when the
//       operation returns (its buffer may still be read / written by the runtime afterwards);
//   (b) any-source / any-tag        : a receive or probe posted with MPI_ANY_SOURCE / MPI_ANY_TAG;
//   (c) recv-same-peer-tag          : a receive posted while another receive from the same (comm, peer, tag)
//       is pending (their matching order matters);
//   (d) overlap                     : overlapping buffers among simultaneously pending requests, one of them
//       a receive;
//   (e) send-buffer-modified        : the bytes of a send buffer differ between MPI_Isend and its completion call
//       (or a later MPI_Isend from the same buffer while the first is pending) -- the message content depended
//       on when the runtime read it;
//   (f) handle-overwritten          : an MPI_Request variable is reused while the request it holds is pending.
// The status string is "ok" or the violations in the order they were detected (deterministic per rank:
// it depends only on the rank's own call sequence, not on timing -- except (e), which can only fire on a
// trace that already violates (a) or MPI's own rule that a pending send buffer is not written).
//
// trace(): the rank's call sequence since mark() in a canonical form (request variables and non-empty
// buffers named by first appearance of their address; every empty buffer gets a fresh name), compared
// with the program of the Coq message-passing model (DistMsg.v):
//   R<h>:<peer>:<tag>:<bytes>:<b>   MPI_Irecv into buffer b, request variable h
//   S<h>:<peer>:<tag>:<bytes>:<b>   MPI_Isend from buffer b
//   W<h>,<h>,...                    a completion call returned: these pending requests are now complete
// (a completion call that completes nothing -- empty request list, null requests -- is not an event).
#ifndef VERIF_PMPI_TRACE_HPP
#define VERIF_PMPI_TRACE_HPP
#include <mpi.h>
#include <map>
#include <vector>
#include <string>
#include <sstream>
#include <cstring>

namespace pmpi {

struct Req {
    int kind;                 // 0 = send, 1 = recv
    const char *buf; size_t bytes; int peer, tag; MPI_Comm comm;
    const void *var;          // address of the MPI_Request variable
    MPI_Request value;        // the handle MPI returned (NOT unique: Open MPI hands out one shared, already
                              // completed request object for every eagerly completed MPI_Isend)
    long seq; int hid, bid;
    std::vector<char> snap;   // send: copy of the buffer at MPI_Isend
};

struct State {
    std::map<const void*, Req> pending;   // keyed by the address of the request variable
    std::vector<Req> orphans;             // pending requests whose variable was overwritten: can never be waited for
    std::vector<std::string> viol, trace;
    std::map<const void*, int> hids, bids;
    long seq; bool in_op; int nbuf;
    State() : seq(0), in_op(false), nbuf(0) {}
};
inline State& st() { static State s; return s; }

inline int name_of(std::map<const void*, int> &m, const void *p) {
    std::map<const void*, int>::iterator it = m.find(p);
    if (it != m.end()) return it->second;
    int id = (int)m.size(); m[p] = id; return id;
}
inline std::string desc(const Req &r) {
    std::ostringstream os;
    os << "(" << (r.kind ? "recv" : "send") << ",peer=" << r.peer << ",tag=" << r.tag << ",bytes=" << r.bytes << ")";
    return os.str();
}
inline void violation(const std::string &s) { st().viol.push_back(s); }

// start of a new naming scope for trace()
inline void mark() { State &s = st(); s.trace.clear(); s.hids.clear(); s.bids.clear(); s.nbuf = 0; }
inline void begin_op() { State &s = st(); s.viol.clear(); s.in_op = true; mark(); }

// compare the snapshot of a pending send with the buffer, on the byte range [lo, hi) of the buffer
inline void check_snapshot(const Req &r, size_t lo, size_t hi) {
    if (r.kind != 0 || r.snap.empty()) return;
    if (hi > r.snap.size()) hi = r.snap.size();
    if (lo < hi && std::memcmp(r.snap.data() + lo, r.buf + lo, hi - lo) != 0)
        violation("send-buffer-modified" + desc(r));
}
inline void check_snapshot(const Req &r) { check_snapshot(r, 0, r.snap.size()); }

// returns "ok" or the violations; forgets the requests that are still pending
inline std::string end_op() {
    State &s = st();
    std::vector<const Req*> left;
    for (std::map<const void*, Req>::iterator it = s.pending.begin(); it != s.pending.end(); ++it) left.push_back(&it->second);
    for (size_t i = 0; i < s.orphans.size(); ++i) left.push_back(&s.orphans[i]);
    for (size_t i = 0; i < left.size(); ++i) for (size_t j = i + 1; j < left.size(); ++j)
        if (left[j]->seq < left[i]->seq) std::swap(left[i], left[j]);
    // (the buffers of the left-over requests may already have been freed by the caller: not inspected here)
    for (size_t i = 0; i < left.size(); ++i) {
        violation(std::string(left[i]->kind ? "pending-recv" : "pending-send") + desc(*left[i]));
    }
    s.pending.clear(); s.orphans.clear(); s.in_op = false;
    if (s.viol.empty()) return "ok";
    std::string out;
    for (size_t i = 0; i < s.viol.size(); ++i) { if (i) out += " "; out += s.viol[i]; }
    return out;
}

inline std::string trace() {
    State &s = st(); std::string out;
    for (size_t i = 0; i < s.trace.size(); ++i) { if (i) out += " "; out += s.trace[i]; }
    return out.empty() ? "-" : out;
}

inline void on_wildcard(int source, int tag, const char *what) {
    if (source == MPI_ANY_SOURCE) violation(std::string("any-source(") + what + ")");
    if (tag == MPI_ANY_TAG) violation(std::string("any-tag(") + what + ")");
}

inline void on_start(int kind, const void *buf, int count, MPI_Datatype dt, int peer, int tag, MPI_Comm comm,
                     const void *var, MPI_Request new_value) {
    State &s = st();
    int tsz = 0; PMPI_Type_size(dt, &tsz);
    Req r; r.kind = kind; r.buf = (const char*)buf; r.bytes = (size_t)tsz * (size_t)(count < 0 ? 0 : count);
    r.peer = peer; r.tag = tag; r.comm = comm; r.var = var; r.seq = s.seq++;
    if (kind == 1) on_wildcard(peer, tag, "irecv");
    r.value = new_value;
    std::vector<const Req*> live;
    for (std::map<const void*, Req>::iterator it = s.pending.begin(); it != s.pending.end(); ++it) live.push_back(&it->second);
    for (size_t i = 0; i < s.orphans.size(); ++i) live.push_back(&s.orphans[i]);
    for (size_t i = 0; i < live.size(); ++i) {
        const Req &p = *live[i];
        // (c)
        if (kind == 1 && p.kind == 1 && p.comm == comm && p.peer == peer && p.tag == tag)
            violation("recv-same-peer-tag" + desc(r));
        // (d)
        if ((kind == 1 || p.kind == 1) && r.bytes && p.bytes && r.buf < p.buf + p.bytes && p.buf < r.buf + r.bytes)
            violation("overlap" + desc(p) + desc(r));
        // a send from a buffer whose earlier send is still pending: legal for MPI (both only read), but the
        // earlier message must not have changed -- checked now, at the latest possible moment before the race
        // (only the part of the old buffer that the new send covers is known to be live memory)
        if (kind == 0 && p.kind == 0 && r.bytes && p.bytes && r.buf < p.buf + p.bytes && p.buf < r.buf + r.bytes) {
            const char *lo = r.buf > p.buf ? r.buf : p.buf;
            const char *hi = r.buf + r.bytes < p.buf + p.bytes ? r.buf + r.bytes : p.buf + p.bytes;
            check_snapshot(p, (size_t)(lo - p.buf), (size_t)(hi - p.buf));
        }
    }
    r.hid = name_of(s.hids, var);
    // buffers are named by their start address; an EMPTY buffer overlaps nothing: it gets a name of its own
    if (r.bytes == 0) r.bid = s.nbuf++;
    else { std::map<const void*, int>::iterator b = s.bids.find(buf);
           if (b != s.bids.end()) r.bid = b->second; else { r.bid = s.nbuf++; s.bids[buf] = r.bid; } }
    if (kind == 0 && r.bytes && r.bytes <= (1u << 22)) r.snap.assign(r.buf, r.buf + r.bytes);
    std::ostringstream os;
    os << (kind ? "R" : "S") << r.hid << ":" << peer << ":" << tag << ":" << r.bytes << ":b" << r.bid;
    s.trace.push_back(os.str());
    // (f) the request variable still holds a pending request: that request can never be completed by the program
    std::map<const void*, Req>::iterator o = s.pending.find(var);
    if (o != s.pending.end()) {
        violation("handle-overwritten" + desc(o->second));
        s.orphans.push_back(o->second); s.pending.erase(o);
    }
    if (new_value != MPI_REQUEST_NULL) s.pending[var] = r;
}

// [vars] = the addresses of the request variables handed to the completion call, [before] = their values before
// the call, [done] = which of them completed
inline void on_complete(const MPI_Request *vars, const std::vector<MPI_Request> &before, const std::vector<bool> &done) {
    State &s = st(); std::string w;
    for (size_t i = 0; i < before.size(); ++i) {
        if (!done[i] || before[i] == MPI_REQUEST_NULL) continue;
        std::map<const void*, Req>::iterator it = s.pending.find((const void*)(vars + i));
        if (it == s.pending.end()) {
            // the program waits on a COPY of the handle: find the request by value (first started first)
            for (std::map<const void*, Req>::iterator jt = s.pending.begin(); jt != s.pending.end(); ++jt)
                if (jt->second.value == before[i] && (it == s.pending.end() || jt->second.seq < it->second.seq)) it = jt;
        }
        if (it == s.pending.end()) continue;
        check_snapshot(it->second);
        std::ostringstream os; os << it->second.hid;
        w += (w.empty() ? "W" : ",") + os.str();
        s.pending.erase(it);
    }
    if (!w.empty()) s.trace.push_back(w);
}

} // namespace pmpi

extern "C" {

int MPI_Isend(const void *buf, int count, MPI_Datatype dt, int dest, int tag, MPI_Comm comm, MPI_Request *req) {
    int rc = PMPI_Isend(buf, count, dt, dest, tag, comm, req);
    pmpi::on_start(0, buf, count, dt, dest, tag, comm, req, *req);
    return rc;
}
int MPI_Irecv(void *buf, int count, MPI_Datatype dt, int source, int tag, MPI_Comm comm, MPI_Request *req) {
    int rc = PMPI_Irecv(buf, count, dt, source, tag, comm, req);
    pmpi::on_start(1, buf, count, dt, source, tag, comm, req, *req);
    return rc;
}
int MPI_Recv(void *buf, int count, MPI_Datatype dt, int source, int tag, MPI_Comm comm, MPI_Status *status) {
    pmpi::on_wildcard(source, tag, "recv");
    return PMPI_Recv(buf, count, dt, source, tag, comm, status);
}
int MPI_Probe(int source, int tag, MPI_Comm comm, MPI_Status *status) {
    pmpi::on_wildcard(source, tag, "probe");
    return PMPI_Probe(source, tag, comm, status);
}
int MPI_Iprobe(int source, int tag, MPI_Comm comm, int *flag, MPI_Status *status) {
    pmpi::on_wildcard(source, tag, "iprobe");
    return PMPI_Iprobe(source, tag, comm, flag, status);
}
int MPI_Wait(MPI_Request *req, MPI_Status *status) {
    std::vector<MPI_Request> before(1, *req);
    int rc = PMPI_Wait(req, status);
    pmpi::on_complete(req, before, std::vector<bool>(1, true));
    return rc;
}
int MPI_Waitall(int count, MPI_Request reqs[], MPI_Status statuses[]) {
    std::vector<MPI_Request> before(reqs, reqs + (count > 0 ? count : 0));
    int rc = PMPI_Waitall(count, reqs, statuses);
    pmpi::on_complete(reqs, before, std::vector<bool>(before.size(), true));
    return rc;
}
int MPI_Waitany(int count, MPI_Request reqs[], int *index, MPI_Status *status) {
    std::vector<MPI_Request> before(reqs, reqs + (count > 0 ? count : 0));
    int rc = PMPI_Waitany(count, reqs, index, status);
    pmpi::violation("waitany");       // completion order becomes visible to the program
    std::vector<bool> done(before.size(), false);
    if (*index != MPI_UNDEFINED && *index >= 0 && *index < (int)before.size()) done[*index] = true;
    pmpi::on_complete(reqs, before, done);
    return rc;
}
int MPI_Waitsome(int incount, MPI_Request reqs[], int *outcount, int indices[], MPI_Status statuses[]) {
    std::vector<MPI_Request> before(reqs, reqs + (incount > 0 ? incount : 0));
    int rc = PMPI_Waitsome(incount, reqs, outcount, indices, statuses);
    pmpi::violation("waitsome");
    std::vector<bool> done(before.size(), false);
    if (*outcount != MPI_UNDEFINED) for (int i = 0; i < *outcount; ++i) done[indices[i]] = true;
    pmpi::on_complete(reqs, before, done);
    return rc;
}
int MPI_Test(MPI_Request *req, int *flag, MPI_Status *status) {
    std::vector<MPI_Request> before(1, *req);
    int rc = PMPI_Test(req, flag, status);
    pmpi::violation("test");          // the program observes completion times
    pmpi::on_complete(req, before, std::vector<bool>(1, *flag != 0));
    return rc;
}
int MPI_Testall(int count, MPI_Request reqs[], int *flag, MPI_Status statuses[]) {
    std::vector<MPI_Request> before(reqs, reqs + (count > 0 ? count : 0));
    int rc = PMPI_Testall(count, reqs, flag, statuses);
    pmpi::violation("testall");
    pmpi::on_complete(reqs, before, std::vector<bool>(before.size(), *flag != 0));
    return rc;
}
int MPI_Testany(int count, MPI_Request reqs[], int *index, int *flag, MPI_Status *status) {
    std::vector<MPI_Request> before(reqs, reqs + (count > 0 ? count : 0));
    int rc = PMPI_Testany(count, reqs, index, flag, status);
    pmpi::violation("testany");
    std::vector<bool> done(before.size(), false);
    if (*flag && *index != MPI_UNDEFINED && *index >= 0 && *index < (int)before.size()) done[*index] = true;
    pmpi::on_complete(reqs, before, done);
    return rc;
}
int MPI_Testsome(int incount, MPI_Request reqs[], int *outcount, int indices[], MPI_Status statuses[]) {
    std::vector<MPI_Request> before(reqs, reqs + (incount > 0 ? incount : 0));
    int rc = PMPI_Testsome(incount, reqs, outcount, indices, statuses);
    pmpi::violation("testsome");
    std::vector<bool> done(before.size(), false);
    if (*outcount != MPI_UNDEFINED) for (int i = 0; i < *outcount; ++i) done[indices[i]] = true;
    pmpi::on_complete(reqs, before, done);
    return rc;
}
int MPI_Request_free(MPI_Request *req) {
    // the request can no longer be waited for: it stays in the pending set and is reported by end_op()
    pmpi::violation("request-free");
    return PMPI_Request_free(req);
}

} // extern "C"
#endif
