// reuse_common.hpp -- C15 (objects): scripted call histories on ONE object vs a FRESH object per call.
//
// Every op of the reuse drivers (drv_reuse.cpp, drv_reuse_amg_*.cpp) has the shape
//     <id> <op> <object description ...> <nscript> (<command> <arguments>)*
// and prints
//     <results of the commands on ONE object, joined by " ; ">  ||  <results on FRESH objects>
// "fresh object for command k" = an object constructed from the same constructor arguments, brought up to
// date with the LAST successful rebuild / partial_update command before k (these commands change what the
// object IS, not what it remembers), on which command k alone is executed.
// The two halves must be identical (exact build: rationals; double build: printed exactly, nan/inf as tokens).
// Inputs (constructor matrix, per-command matrices and right-hand sides) are compared before/after every
// command: "INPUT-MODIFIED" replaces the result.
//
// Script commands (an object supports a subset; the others give "UNSUPPORTED-CMD"):
//   apply f x0     precond.apply(f, x)                        -> [x]
//   cycle f x0     amg.cycle(f, x)                            -> [x]
//   solve f x0     obj(f, x)                                  -> "<iters> <resid> [x]"
//   solveA A f x0  obj(A, f, x)  (other system matrix)        -> "<iters> <resid> [x]"
//   msapply f x0   obj.apply(f, x) of make_solver/deflated    -> [x]
//   project f x0   deflated_solver.project(f, x)              -> [x]
//   rebuild A      amg.rebuild(A)                             -> ok
//   update A       cpr.partial_update(A, true)                -> ok
//   dump           amg hierarchy                              -> D ...
#ifndef VQ_REUSE_COMMON_HH
#define VQ_REUSE_COMMON_HH
#include "vq_io.hpp"
#include <cstring>
namespace std { inline vq::Q real(const vq::Q &a) { return a; } inline vq::Q imag(const vq::Q &) { return vq::Q(0); } }
#include <amgcl/backend/builtin.hpp>
#include <amgcl/adapter/crs_tuple.hpp>
#include <amgcl/make_solver.hpp>
#include <amgcl/solver/cg.hpp>
#include <amgcl/solver/bicgstab.hpp>
#include <amgcl/solver/bicgstabl.hpp>
#include <amgcl/solver/gmres.hpp>
#include <amgcl/solver/fgmres.hpp>
#include <amgcl/solver/lgmres.hpp>
#include <amgcl/solver/idrs.hpp>
#include <amgcl/solver/richardson.hpp>
#include <cmath>

namespace ru {
using vq::Q; using vq::Tok; using vq::show;
namespace be = amgcl::backend;
namespace sv = amgcl::solver;

template <class V> V cv(const Q &q);
template <> inline Q cv<Q>(const Q &q) { return q; }
template <> inline double cv<double>(const Q &q) { return (double)q; }

template <class V> bool same_bits(const V &a, const V &b);
template <> inline bool same_bits<Q>(const Q &a, const Q &b) { return a == b; }
template <> inline bool same_bits<double>(const double &a, const double &b) { return std::memcmp(&a, &b, sizeof(double)) == 0; }

// ------------------------------------------------------------ solver parameters (layout of drv_krylov.cpp)
struct Prm {
    long maxiter; Q tol, abstol; bool ns, ca; long M, K, L; Q damping; long s; Q omega; bool smoothing, replacement;
    Q delta; bool convex, areset; bool left;
    void read(Tok &t) {
        maxiter = t.i(); tol = t.q(); abstol = t.q(); ns = t.i() != 0; ca = t.i() != 0; M = t.i(); K = t.i(); L = t.i();
        damping = t.q(); s = t.i(); omega = t.q(); smoothing = t.i() != 0; replacement = t.i() != 0; delta = t.q();
        convex = t.i() != 0; areset = t.i() != 0;
    }
};
template <class V> struct SP {
    typedef be::builtin<V> B;
    static amgcl::preconditioner::side::type sd(const Prm &p) { return p.left ? amgcl::preconditioner::side::left : amgcl::preconditioner::side::right; }
    static void set(typename sv::cg<B>::params &q, const Prm &p) { q.maxiter = p.maxiter; q.tol = cv<V>(p.tol); q.abstol = cv<V>(p.abstol); q.ns_search = p.ns; }
    static void set(typename sv::bicgstab<B>::params &q, const Prm &p) { q.pside = sd(p); q.maxiter = p.maxiter; q.tol = cv<V>(p.tol); q.abstol = cv<V>(p.abstol); q.check_after = p.ca; q.ns_search = p.ns; }
    static void set(typename sv::richardson<B>::params &q, const Prm &p) { q.damping = cv<V>(p.damping); q.maxiter = p.maxiter; q.tol = cv<V>(p.tol); q.abstol = cv<V>(p.abstol); q.ns_search = p.ns; }
    static void set(typename sv::gmres<B>::params &q, const Prm &p) { q.M = p.M; q.pside = sd(p); q.maxiter = p.maxiter; q.tol = cv<V>(p.tol); q.abstol = cv<V>(p.abstol); q.ns_search = p.ns; }
    static void set(typename sv::fgmres<B>::params &q, const Prm &p) { q.M = p.M; q.maxiter = p.maxiter; q.tol = cv<V>(p.tol); q.abstol = cv<V>(p.abstol); q.ns_search = p.ns; }
    static void set(typename sv::lgmres<B>::params &q, const Prm &p) { q.M = p.M; q.K = p.K; q.always_reset = p.areset; q.pside = sd(p); q.maxiter = p.maxiter; q.tol = cv<V>(p.tol); q.abstol = cv<V>(p.abstol); q.ns_search = p.ns; }
    static void set(typename sv::bicgstabl<B>::params &q, const Prm &p) { q.L = p.L; q.delta = cv<V>(p.delta); q.convex = p.convex; q.pside = sd(p); q.maxiter = p.maxiter; q.tol = cv<V>(p.tol); q.abstol = cv<V>(p.abstol); q.ns_search = p.ns; }
    static void set(typename sv::idrs<B>::params &q, const Prm &p) { q.s = p.s; q.omega = cv<V>(p.omega); q.smoothing = p.smoothing; q.replacement = p.replacement; q.maxiter = p.maxiter; q.tol = cv<V>(p.tol); q.abstol = cv<V>(p.abstol); q.ns_search = p.ns; }
};

// ------------------------------------------------------------ matrices, snapshots
template <class V> struct Mat {
    typedef be::crs<V, ptrdiff_t, ptrdiff_t> matrix;
    std::shared_ptr<matrix> A;
    // the user arrays as a tuple of ranges (the object copies / sorts what it needs)
    std::tuple<size_t, amgcl::iterator_range<ptrdiff_t*>, amgcl::iterator_range<ptrdiff_t*>, amgcl::iterator_range<V*> > tup() const {
        size_t n = A->nrows;
        return std::make_tuple(n, amgcl::make_iterator_range(A->ptr, A->ptr + n + 1),
                               amgcl::make_iterator_range(A->col, A->col + A->nnz),
                               amgcl::make_iterator_range(A->val, A->val + A->nnz));
    }
};
template <class V> struct Snap {
    typedef be::crs<V, ptrdiff_t, ptrdiff_t> matrix;
    std::vector<ptrdiff_t> ptr, col; std::vector<V> val; size_t n, m; bool has;
    Snap() : n(0), m(0), has(false) {}
    explicit Snap(const std::shared_ptr<matrix> &A) : n(0), m(0), has(false) { if (A) take(*A); }
    void take(const matrix &A) {
        has = true; n = A.nrows; m = A.ncols;
        ptr.assign(A.ptr, A.ptr + A.nrows + 1); col.assign(A.col, A.col + A.nnz); val.assign(A.val, A.val + A.nnz);
    }
    bool same(const std::shared_ptr<matrix> &Ap) const {
        if (!has) return !Ap;
        const matrix &A = *Ap;
        if (A.nrows != n || A.ncols != m || A.nnz != col.size()) return false;
        for (size_t i = 0; i <= n; ++i) if (A.ptr[i] != ptr[i]) return false;
        for (size_t j = 0; j < col.size(); ++j) if (A.col[j] != col[j] || !same_bits(A.val[j], val[j])) return false;
        return true;
    }
};
template <class V> bool same_vec(const std::vector<V> &a, const std::vector<V> &b) {
    if (a.size() != b.size()) return false;
    for (size_t i = 0; i < a.size(); ++i) if (!same_bits(a[i], b[i])) return false;
    return true;
}

// ------------------------------------------------------------ script
template <class V> struct Cmd {
    std::string kind; Mat<V> A; std::vector<V> f, x;
    bool changes_object() const { return kind == "rebuild" || kind == "update"; }
};
template <class V> std::vector< Cmd<V> > read_script(Tok &t) {
    long ns = t.i(); std::vector< Cmd<V> > s(ns);
    for (long k = 0; k < ns; ++k) {
        Cmd<V> &c = s[k]; c.kind = t.s();
        if (c.kind == "apply" || c.kind == "cycle" || c.kind == "solve" || c.kind == "msapply" || c.kind == "project") {
            c.f = t.vecT<V>(); c.x = t.vecT<V>();
        } else if (c.kind == "solveA") { c.A.A = t.crsT<V>(); c.f = t.vecT<V>(); c.x = t.vecT<V>(); }
        else if (c.kind == "rebuild" || c.kind == "update") { c.A.A = t.crsT<V>(); }
        else if (c.kind == "dump") {}
        else throw std::runtime_error("bad script command " + c.kind);
    }
    return s;
}

template <class V, class T>
std::string fmt(const std::tuple<size_t, T> &r, const std::vector<V> &x) {
    std::ostringstream os; os << std::get<0>(r) << " " << show(std::get<1>(r)) << " " << show(x); return os.str();
}

// an object under test
template <class V> struct Obj {
    virtual ~Obj() {}
    // executes the command; x = working copy of the command's initial x
    virtual std::string run(const Cmd<V> &c, std::vector<V> &x) = 0;
};

struct unsupported_cmd : std::exception { const char* what() const noexcept { return "unsupported"; } };

template <class V> std::string exec(Obj<V> &o, const Cmd<V> &c) {
    std::vector<V> f0 = c.f; Snap<V> sa(c.A.A);
    std::vector<V> x = c.x;
    std::string r;
    try { r = o.run(c, x); }
    catch (const unsupported_cmd&) { r = "UNSUPPORTED-CMD"; }
    catch (const std::exception &e) { r = std::string("EXC ") + vq::exc_kind(e); }
    if (!same_vec(f0, c.f) || !sa.same(c.A.A)) return "INPUT-MODIFIED";
    return r;
}

// one object vs fresh objects.  make() constructs a new object from the (shared, const) constructor arguments.
template <class V, class Make>
std::string run_history(Make make, const std::shared_ptr< be::crs<V, ptrdiff_t, ptrdiff_t> > &A0, const std::vector< Cmd<V> > &script) {
    Snap<V> s0(A0);
    std::ostringstream one, fresh;
    {
        std::shared_ptr< Obj<V> > o = make();
        for (size_t k = 0; k < script.size(); ++k) {
            if (k) one << " ; ";
            one << exec(*o, script[k]);
            if (!s0.same(A0)) one << " INPUT-MODIFIED";
        }
    }
    {
        const Cmd<V> *last = 0;
        for (size_t k = 0; k < script.size(); ++k) {
            if (k) fresh << " ; ";
            std::shared_ptr< Obj<V> > o = make();
            if (last) { std::vector<V> dummy; o->run(*last, dummy); }
            std::string r = exec(*o, script[k]);
            fresh << r;
            if (script[k].changes_object() && r == "ok") last = &script[k];
            if (!s0.same(A0)) fresh << " INPUT-MODIFIED";
        }
    }
    return one.str() + " || " + fresh.str();
}

// ------------------------------------------------------------ preconditioner operations (specialised for amg in reuse_amg.hh)
template <class P> struct POps {
    template <class V> static void cycle(P &, const std::vector<V> &, std::vector<V> &) { throw unsupported_cmd(); }
    template <class M> static void rebuild(P &, const M &) { throw unsupported_cmd(); }
    template <class M> static void update(P &, const M &) { throw unsupported_cmd(); }
    static std::string dump(const P &) { throw unsupported_cmd(); }
};

// bare preconditioner object
template <class V, class P> struct PObj : Obj<V> {
    P p;
    template <class M> PObj(const M &A, const typename P::params &pp) : p(A, pp) {}
    std::string run(const Cmd<V> &c, std::vector<V> &x) {
        if (c.kind == "apply") { p.apply(c.f, x); return show(x); }
        if (c.kind == "cycle") { POps<P>::cycle(p, c.f, x); return show(x); }
        if (c.kind == "rebuild") { POps<P>::rebuild(p, c.A.tup()); return "ok"; }
        if (c.kind == "update") { POps<P>::update(p, c.A.tup()); return "ok"; }
        if (c.kind == "dump") return POps<P>::dump(p);
        throw unsupported_cmd();
    }
};

// make_solver<P, S>
template <class V, class P, class S> struct MsObj : Obj<V> {
    typedef amgcl::make_solver<P, S> MS;
    MS ms;
    template <class M> MsObj(const M &A, const typename MS::params &mp) : ms(A, mp) {}
    std::string run(const Cmd<V> &c, std::vector<V> &x) {
        if (c.kind == "solve") { auto r = ms(c.f, x); return fmt(r, x); }
        if (c.kind == "solveA") { auto r = ms(*c.A.A, c.f, x); return fmt(r, x); }
        if (c.kind == "msapply") { ms.apply(c.f, x); return show(x); }
        if (c.kind == "apply") { ms.precond().apply(c.f, x); return show(x); }
        if (c.kind == "cycle") { POps<P>::cycle(ms.precond(), c.f, x); return show(x); }
        if (c.kind == "rebuild") { POps<P>::rebuild(ms.precond(), c.A.tup()); return "ok"; }
        if (c.kind == "update") { POps<P>::update(ms.precond(), c.A.tup()); return "ok"; }
        if (c.kind == "dump") return POps<P>::dump(ms.precond());
        throw unsupported_cmd();
    }
};

// factory: run-time chosen solver ("none" = bare preconditioner) around a compile-time preconditioner type
template <class V, class P> struct Factory {
    typedef be::builtin<V> B;
    typedef std::function< std::shared_ptr< Obj<V> >() > make_fn;
    template <class S> static make_fn ms(const Mat<V> &A, const typename P::params &pp, const Prm &sp) {
        typename amgcl::make_solver<P, S>::params mp; mp.precond = pp; SP<V>::set(mp.solver, sp);
        return [A, mp]() { return std::shared_ptr< Obj<V> >(new MsObj<V, P, S>(A.tup(), mp)); };
    }
    static make_fn get(const std::string &solver, const Mat<V> &A, const typename P::params &pp, const Prm &sp) {
        if (solver == "none") return [A, pp]() { return std::shared_ptr< Obj<V> >(new PObj<V, P>(A.tup(), pp)); };
        if (solver == "cg")         return ms< sv::cg<B> >(A, pp, sp);
        if (solver == "bicgstab")   return ms< sv::bicgstab<B> >(A, pp, sp);
        if (solver == "richardson") return ms< sv::richardson<B> >(A, pp, sp);
        if (solver == "gmres")      return ms< sv::gmres<B> >(A, pp, sp);
        if (solver == "fgmres")     return ms< sv::fgmres<B> >(A, pp, sp);
        if (solver == "lgmres")     return ms< sv::lgmres<B> >(A, pp, sp);
        if (solver == "bicgstabl")  return ms< sv::bicgstabl<B> >(A, pp, sp);
        if (solver == "idrs")       return ms< sv::idrs<B> >(A, pp, sp);
        throw std::runtime_error("bad solver " + solver);
    }
};

inline std::string slug(const std::exception &e) {
    std::string w = e.what(), o; for (char c : w) o += (isalnum((unsigned char)c) ? c : '_'); return o.substr(0, 60);
}

} // namespace ru
#endif
