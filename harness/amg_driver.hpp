// amg_driver.hpp -- C02/C03/C10/C15 driver body: one TU per coarsening (macro VQ_COARSENING,
// VQ_COARSENING_NAME), all relaxations instantiated inside.
//
// op:  amg.<coarsening> <relax> <cfg: coarse_enough direct_coarse max_levels npre npost ncycle pre_cycles>
//                       <cprm: eps_strong relax|- over_interp|- do_trunc eps_trunc> <rprm: damping>
//                       A  <nscript>  (dump | apply f x0 | cycle f x0 | rebuild A')*
// output: results of the script commands joined by " ; ".
#include "poison_new.hpp"
#include "vq_io.hpp"
#include "vq_access.hpp"
#include <amgcl/amg.hpp>
#include <amgcl/adapter/crs_tuple.hpp>
#include <amgcl/coarsening/aggregation.hpp>
#include <amgcl/coarsening/smoothed_aggregation.hpp>
#include <amgcl/coarsening/smoothed_aggr_emin.hpp>
#include <amgcl/coarsening/ruge_stuben.hpp>
#include <amgcl/relaxation/damped_jacobi.hpp>
#include <amgcl/relaxation/spai0.hpp>
#include <amgcl/relaxation/gauss_seidel.hpp>
#include <amgcl/relaxation/ilu0.hpp>
#include <amgcl/relaxation/chebyshev.hpp>

using vq::Q; using vq::Tok; using vq::show;
#ifndef VQ_VALUE
#define VQ_VALUE vq::Q
#endif
typedef VQ_VALUE V;
typedef amgcl::backend::builtin<V> Backend;
static inline V to_V(const std::string &s) { return (V)vq::parse(s); }

struct Cfg {
    long coarse_enough, direct_coarse, max_levels, npre, npost, ncycle, pre_cycles;
    std::string eps_strong, relax, over_interp, do_trunc, eps_trunc, damping;
};

// coarsening parameter setters (overloads pick the fields that exist)
template <class B> void set_cprm(typename amgcl::coarsening::aggregation<B>::params &p, const Cfg &c) {
    p.aggr.eps_strong = (float)(double)vq::parse(c.eps_strong);
    if (c.over_interp != "-") p.over_interp = (float)(double)vq::parse(c.over_interp);
}
template <class B> void set_cprm(typename amgcl::coarsening::smoothed_aggregation<B>::params &p, const Cfg &c) {
    p.aggr.eps_strong = (float)(double)vq::parse(c.eps_strong);
    if (c.relax != "-") p.relax = (float)(double)vq::parse(c.relax);
}
template <class B> void set_cprm(typename amgcl::coarsening::smoothed_aggr_emin<B>::params &p, const Cfg &c) {
    p.aggr.eps_strong = (float)(double)vq::parse(c.eps_strong);
}
template <class B> void set_cprm(typename amgcl::coarsening::ruge_stuben<B>::params &p, const Cfg &c) {
    p.eps_strong = (float)(double)vq::parse(c.eps_strong);
    if (c.do_trunc != "-") p.do_trunc = (c.do_trunc == "1");
    if (c.eps_trunc != "-") p.eps_trunc = (float)(double)vq::parse(c.eps_trunc);
}
template <class P> void set_rprm(P &, const Cfg &, ...) {}
inline void set_rprm(amgcl::relaxation::damped_jacobi<Backend>::params &p, const Cfg &c, int) {
    if (c.damping != "-") p.damping = to_V(c.damping);
}
inline void set_rprm(amgcl::relaxation::gauss_seidel<Backend>::params &p, const Cfg &, int) { p.serial = true; }
inline void set_rprm(amgcl::relaxation::ilu0<Backend>::params &p, const Cfg &c, int) {
    if (c.damping != "-") p.damping = to_V(c.damping);
    p.solve.serial = true;
}

template <template <class> class Relax>
std::string run_amg(Tok &t) {
    typedef amgcl::amg<Backend, VQ_COARSENING, Relax> AMG;
    Cfg c;
    c.coarse_enough = t.i(); c.direct_coarse = t.i(); c.max_levels = t.i();
    c.npre = t.i(); c.npost = t.i(); c.ncycle = t.i(); c.pre_cycles = t.i();
    c.eps_strong = t.s(); c.relax = t.s(); c.over_interp = t.s(); c.do_trunc = t.s(); c.eps_trunc = t.s();
    c.damping = t.s();
    auto A = t.crsT<V>();
    typename AMG::params prm;
    prm.coarse_enough = c.coarse_enough; prm.direct_coarse = c.direct_coarse != 0;
    prm.max_levels = c.max_levels; prm.npre = c.npre; prm.npost = c.npost; prm.ncycle = c.ncycle;
    prm.pre_cycles = c.pre_cycles;
    set_cprm<Backend>(prm.coarsening, c);
    set_rprm(prm.relax, c, 0);
    // the matrix is handed over as a tuple of ranges so that amg copies and sorts it
    size_t n = A->nrows;
    auto Mtx = std::make_tuple(n,
        amgcl::make_iterator_range(A->ptr, A->ptr + n + 1),
        amgcl::make_iterator_range(A->col, A->col + A->nnz),
        amgcl::make_iterator_range(A->val, A->val + A->nnz));
    AMG amg(Mtx, prm);
    long ns = t.i();
    std::ostringstream os;
    for (long k = 0; k < ns; ++k) {
        if (k) os << " ; ";
        std::string cmd = t.s();
        if (cmd == "dump") {
            const auto &lv = amgcl::verif::access::levels(amg);
            os << "D " << lv.size();
            for (const auto &l : lv) {
                if (l.solve) { os << " S "; if (l.A) os << vq::show_crs(*l.A); else os << "-"; }
                else if (l.P) { os << " M " << vq::show_crs(*l.A) << " " << vq::show_crs(*l.P) << " " << vq::show_crs(*l.R); }
                else { os << " L " << vq::show_crs(*l.A); }
            }
        } else if (cmd == "apply") {
            auto f = t.vecT<V>(); auto x = t.vecT<V>();
            amg.apply(f, x); os << show(x);
        } else if (cmd == "cycle") {
            auto f = t.vecT<V>(); auto x = t.vecT<V>();
            amg.cycle(f, x); os << show(x);
        } else if (cmd == "rebuild") {
            auto A2 = t.crsT<V>();
            size_t n2 = A2->nrows;
            auto M2 = std::make_tuple(n2,
                amgcl::make_iterator_range(A2->ptr, A2->ptr + n2 + 1),
                amgcl::make_iterator_range(A2->col, A2->col + A2->nnz),
                amgcl::make_iterator_range(A2->val, A2->val + A2->nnz));
            amg.rebuild(M2); os << "ok";
        } else throw std::runtime_error("bad script command " + cmd);
    }
    return os.str();
}

static std::string op_amg(Tok &t) {
    std::string r = t.s();
    if (r == "damped_jacobi") return run_amg<amgcl::relaxation::damped_jacobi>(t);
    if (r == "spai0")         return run_amg<amgcl::relaxation::spai0>(t);
    if (r == "gauss_seidel")  return run_amg<amgcl::relaxation::gauss_seidel>(t);
    if (r == "ilu0")          return run_amg<amgcl::relaxation::ilu0>(t);
    if (r == "chebyshev")     return run_amg<amgcl::relaxation::chebyshev>(t);
    return "UNSUPPORTED";
}
static vq::Reg reg_amg((std::string("amg.") + VQ_COARSENING_NAME).c_str(), op_amg);
int main() { return vq::driver_main(); }
