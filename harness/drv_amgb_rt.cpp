// block-valued amg hierarchies through runtime::coarsening::wrapper
#define AMGB_RUNTIME
#include "amgb_driver.hpp"
