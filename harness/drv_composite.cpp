// drv_composite.cpp -- C18: composite preconditioners with EXACT / recording inner solvers, in
// exact arithmetic.
//   schur   : preconditioner::schur_pressure_correction<USolver, PSolver>
//             USolver = make_solver<amg (single level = skyline LU), preonly>   : exact Kuu^-1
//             PSolver = make_solver<dummy, exact_dense_solver>                  : assembles the
//                       matrix-free Schur operator by backend::spmv(schur) on unit vectors and
//                       solves it by exact elimination; records the preconditioner matrix the
//                       composite handed to it (Kpp after adjust_p)
//             -> apply() on all unit vectors; type 1 must be the exact inverse of K.
//   schur_pattern : pmask_pattern strings through the property-tree constructor (run under timeout)
//   cpr     : preconditioner::cpr<recording exact PPrecond, SPrecond (dummy | spai0)> on scalar input
//             with block_size b and on b x b block-valued input
//   cprdrs  : preconditioner::cpr_drs (dynamic row sum weights; eps_dd, eps_ps and the weights
//             are dyadic rationals, exactly representable as the doubles of the parameters)
//   deflate : deflated_solver::project / full solve
#include "vq_io.hpp"
#include <amgcl/adapter/crs_tuple.hpp>
#include <amgcl/adapter/block_matrix.hpp>
#include <amgcl/value_type/static_matrix.hpp>
#include <amgcl/amg.hpp>
#include <amgcl/make_solver.hpp>
#include <amgcl/deflated_solver.hpp>
#include <amgcl/solver/preonly.hpp>
#include <amgcl/solver/cg.hpp>
#include <amgcl/coarsening/aggregation.hpp>
#include <amgcl/relaxation/as_preconditioner.hpp>
#include <amgcl/relaxation/damped_jacobi.hpp>
#include <amgcl/relaxation/spai0.hpp>
#include <amgcl/preconditioner/dummy.hpp>
#include <amgcl/preconditioner/cpr.hpp>
#include <amgcl/preconditioner/cpr_drs.hpp>
#include <amgcl/preconditioner/schur_pressure_correction.hpp>
using vq::Q; using vq::Tok; using vq::show;
namespace be = amgcl::backend;
typedef be::builtin<Q> B;

struct Arrays {
    ptrdiff_t n; std::vector<ptrdiff_t> ptr, col; std::vector<Q> val;
    Arrays(Tok &t) {
        n = t.i(); long m = t.i(); if (m != n) throw std::invalid_argument("square");
        ptr.push_back(0);
        for (long r = 0; r < n; ++r) { long k = t.i(); for (long e = 0; e < k; ++e) { col.push_back(t.i()); val.push_back(t.q()); } ptr.push_back(col.size()); }
    }
};
static std::string slug(const std::exception &e) {
    std::string w = e.what(), o; for (char c : w) o += (isalnum((unsigned char)c) ? c : '_'); return o.substr(0, 60);
}
template <class P> static std::string dense_apply(const P &p, long n) {
    std::ostringstream os; os << "{" << n << " " << n;
    for (long i = 0; i < n; ++i) {
        std::vector<Q> e(n, Q(0)), x(n, Q(0)); e[i] = Q(1);
        p.apply(e, x);
        os << " |"; for (long j = 0; j < n; ++j) os << " " << j << ":" << x[j].str();
    }
    os << "}"; return os.str();
}
// exact dense solve (fraction arithmetic, first non-zero pivot)
static bool dense_solve(std::vector< std::vector<Q> > M, std::vector<Q> rhs, std::vector<Q> &x) {
    size_t n = rhs.size();
    for (size_t c = 0; c < n; ++c) {
        size_t p = c; while (p < n && M[p][c] == Q(0)) ++p;
        if (p == n) return false;
        std::swap(M[p], M[c]); std::swap(rhs[p], rhs[c]);
        for (size_t r = c + 1; r < n; ++r) {
            if (M[r][c] == Q(0)) continue;
            Q f = M[r][c] / M[c][c];
            for (size_t k = c; k < n; ++k) M[r][k] -= f * M[c][k];
            rhs[r] -= f * rhs[c];
        }
    }
    x.assign(n, Q(0));
    for (size_t i = n; i-- > 0;) { Q s = rhs[i]; for (size_t k = i + 1; k < n; ++k) s -= M[i][k] * x[k]; x[i] = s / M[i][i]; }
    return true;
}

static std::string g_recorded;      // what the composite handed to the recording inner component
static long g_pcalls = 0;

// ---- "iterative solver" that solves the operator it is given exactly
template <class Backend, class InnerProduct = amgcl::solver::detail::default_inner_product>
class exact_dense_solver {
  public:
    typedef Backend backend_type;
    typedef typename Backend::vector vector; typedef typename Backend::value_type value_type;
    typedef typename Backend::params backend_params; typedef Q scalar_type;
    typedef amgcl::detail::empty_params params;
    exact_dense_solver(size_t n, const params& = params(), const backend_params& = backend_params(), const InnerProduct& = InnerProduct()) : n(n) {}
    template <class Matrix, class Precond, class Vec1, class Vec2>
    std::tuple<size_t, scalar_type> operator()(const Matrix &A, const Precond &P, const Vec1 &rhs, Vec2 &&x) const {
        if (g_pcalls++ == 0) g_recorded = vq::show_crs(P.system_matrix(), true);
        std::vector< std::vector<Q> > M(n, std::vector<Q>(n));
        for (size_t j = 0; j < n; ++j) {
            std::vector<Q> e(n, Q(0)), c(n, Q(7)); e[j] = Q(1);
            be::spmv(Q(1), A, e, Q(0), c);
            for (size_t i = 0; i < n; ++i) M[i][j] = c[i];
        }
        std::vector<Q> r(n), s; for (size_t i = 0; i < n; ++i) r[i] = rhs[i];
        if (!dense_solve(M, r, s)) throw std::runtime_error("singular Schur operator");
        for (size_t i = 0; i < n; ++i) x[i] = s[i];
        return std::make_tuple((size_t)1, Q(0));
    }
    template <class Precond, class Vec1, class Vec2>
    std::tuple<size_t, scalar_type> operator()(const Precond &P, const Vec1 &rhs, Vec2 &&x) const { return (*this)(P.system_matrix(), P, rhs, x); }
    size_t bytes() const { return 0; }
    friend std::ostream& operator<<(std::ostream &os, const exact_dense_solver&) { return os << "exact dense solver"; }
  private:
    size_t n;
};

// ---- recording, exact preconditioner (pressure stage of CPR)
template <class Backend>
class rec_exact_precond {
  public:
    typedef Backend backend_type; typedef typename Backend::matrix matrix; typedef typename Backend::vector vector;
    typedef typename Backend::value_type value_type; typedef amgcl::detail::empty_params params; typedef typename Backend::params backend_params;
    typedef typename be::builtin<value_type>::matrix build_matrix;
    template <class M> rec_exact_precond(const M &A, const params& = params(), const backend_params& = backend_params()) { init(std::make_shared<build_matrix>(A)); }
    rec_exact_precond(std::shared_ptr<build_matrix> A, const params& = params(), const backend_params& = backend_params()) { init(A); }
    template <class V1, class V2> void apply(const V1 &rhs, V2 &&x) const {
        size_t n = A->nrows; std::vector< std::vector<Q> > M(n, std::vector<Q>(n, Q(0)));
        for (size_t i = 0; i < n; ++i) for (ptrdiff_t j = A->ptr[i]; j < A->ptr[i + 1]; ++j) M[i][A->col[j]] += A->val[j];
        std::vector<Q> r(n), s; for (size_t i = 0; i < n; ++i) r[i] = rhs[i];
        if (!dense_solve(M, r, s)) throw std::runtime_error("singular pressure matrix");
        for (size_t i = 0; i < n; ++i) x[i] = s[i];
    }
    std::shared_ptr<matrix> system_matrix_ptr() const { return A; }
    const matrix& system_matrix() const { return *A; }
    size_t bytes() const { return 0; }
    friend std::ostream& operator<<(std::ostream &os, const rec_exact_precond&) { return os << "recording exact preconditioner"; }
  private:
    std::shared_ptr<build_matrix> A;
    // a pressure matrix with a column index outside [0, ncols) is ill-formed: any real
    // preconditioner would read out of bounds; reported as an exception instead
    void init(std::shared_ptr<build_matrix> M) {
        A = M; g_recorded = vq::show_crs(*A, true);
        for (size_t i = 0; i < A->nrows; ++i) for (ptrdiff_t j = A->ptr[i]; j < A->ptr[i + 1]; ++j)
            if (A->col[j] < 0 || (size_t)A->col[j] >= A->ncols || A->nrows != A->ncols)
                throw std::runtime_error("pressure matrix column out of range");
    }
};

typedef amgcl::amg<B, amgcl::coarsening::aggregation, amgcl::relaxation::damped_jacobi> Amg1;
typedef amgcl::make_solver<Amg1, amgcl::solver::preonly<B> > ExactU;
typedef amgcl::make_solver<amgcl::preconditioner::dummy<B>, exact_dense_solver<B> > ExactP;
typedef amgcl::preconditioner::schur_pressure_correction<ExactU, ExactP> Schur;

static std::vector<char> parse_mask(const std::string &spec, long n) {
    std::vector<char> m(n, 0);
    if (spec.substr(0, 3) == "il:") { long k = std::stol(spec.substr(3)); for (long i = 0; i < n; ++i) m[i] = (i % k == k - 1); }
    else if (spec.substr(0, 3) == "ct:") { long k = std::stol(spec.substr(3)); for (long i = 0; i < n; ++i) m[i] = (i >= n - k); }
    else if (spec.substr(0, 3) == "hd:") { long k = std::stol(spec.substr(3)); for (long i = 0; i < n; ++i) m[i] = (i < k); }
    else if (spec.substr(0, 5) == "list:") { for (long i = 0; i < n; ++i) m[i] = (spec[5 + i] == '1'); }
    else throw std::invalid_argument("mask");
    return m;
}
static std::string show_mask(const std::vector<char> &m) { std::string s; for (char c : m) s += (c ? '1' : '0'); return s; }

static std::string schur_body(Tok &t) {
    long type = t.i(), adjust_p = t.i(), approx = t.i(), simplec = t.i(); std::string spec = t.s();
    Arrays a(t);
    auto A = std::tie(a.n, a.ptr, a.col, a.val);
    Schur::params prm;
    prm.type = type; prm.adjust_p = adjust_p; prm.approx_schur = approx; prm.simplec_dia = simplec;
    prm.usolver.precond.coarse_enough = 1000000;
    if (spec.substr(0, 4) == "pat:") {
        // pattern string through the property-tree constructor
        boost::property_tree::ptree p;
        p.put("pmask_size", a.n); p.put("pmask_pattern", spec.substr(4));
        p.put("type", type); p.put("adjust_p", adjust_p); p.put("approx_schur", approx != 0); p.put("simplec_dia", simplec != 0);
        p.put("usolver.precond.coarse_enough", 1000000);
        prm = Schur::params(p);
    } else prm.pmask = parse_mask(spec, a.n);
    g_recorded.clear(); g_pcalls = 0;
    Schur P(A, prm);
    std::string d = dense_apply(P, a.n);
    return show_mask(prm.pmask) + " " + d + " " + (adjust_p == 2 ? std::string("-") : g_recorded);
}
VQ_OP(schur) { try { return schur_body(t); } catch (const std::exception &e) { return "EXC " + vq::exc_kind(e) + " " + slug(e); } }

// the mask a pattern string produces (hangs for a two-digit start: run under a timeout)
VQ_OP(schur_pattern) {
    std::string pat = t.s(); long n = t.i();
    try {
        boost::property_tree::ptree p; p.put("pmask_size", n); p.put("pmask_pattern", pat);
        Schur::params prm(p);
        return show_mask(prm.pmask);
    } catch (const std::exception &e) { return "EXC " + vq::exc_kind(e) + " " + slug(e); }
}

// ---------------------------------------------------------------- CPR
typedef amgcl::relaxation::as_preconditioner<B, amgcl::relaxation::spai0> Spai0;
template <int bs> static std::string cpr_block(Arrays &a, long active) {
    typedef amgcl::static_matrix<Q, bs, bs> BT; typedef be::builtin<BT> BB; typedef amgcl::static_matrix<Q, bs, 1> RT;
    typedef amgcl::preconditioner::cpr< rec_exact_precond<B>, amgcl::preconditioner::dummy<BB> > P;
    auto A = std::tie(a.n, a.ptr, a.col, a.val);
    typename P::params prm; prm.active_rows = active / bs;
    P p(amgcl::adapter::block_matrix<BT>(A), prm);
    std::ostringstream os; long n = a.n; os << "{" << n << " " << n;
    for (long i = 0; i < n; ++i) {
        std::vector<Q> e(n, Q(0)), x(n, Q(0)); e[i] = Q(1);
        auto E = be::reinterpret_as_rhs<RT>(e); auto X = be::reinterpret_as_rhs<RT>(x);
        p.apply(E, X);
        os << " |"; for (long j = 0; j < n; ++j) os << " " << j << ":" << x[j].str();
    }
    os << "}"; return os.str() + " " + g_recorded;
}
static std::string cpr_body(Tok &t) {
    std::string kind = t.s(); long bs = t.i(), active = t.i(); t.i();   // last: model-side flag (which init() the tree has)
    Arrays a(t);
    auto A = std::tie(a.n, a.ptr, a.col, a.val);
    g_recorded.clear();
    if (kind == "scalar_dummy") {
        typedef amgcl::preconditioner::cpr< rec_exact_precond<B>, amgcl::preconditioner::dummy<B> > P;
        P::params prm; prm.block_size = bs; prm.active_rows = active;
        P p(A, prm); return dense_apply(p, a.n) + " " + g_recorded;
    }
    if (kind == "scalar_spai0") {
        typedef amgcl::preconditioner::cpr< rec_exact_precond<B>, Spai0 > P;
        P::params prm; prm.block_size = bs; prm.active_rows = active;
        P p(A, prm); return dense_apply(p, a.n) + " " + g_recorded;
    }
    if (kind == "block_dummy") {
        if (bs == 2) return cpr_block<2>(a, active);
        if (bs == 3) return cpr_block<3>(a, active);
        throw std::invalid_argument("block size");
    }
    if (kind == "update_dummy") {   // partial update with an unchanged matrix leaves the action unchanged
        typedef amgcl::preconditioner::cpr< rec_exact_precond<B>, amgcl::preconditioner::dummy<B> > P;
        P::params prm; prm.block_size = bs; prm.active_rows = active;
        P p(A, prm); std::string before = dense_apply(p, a.n);
        p.partial_update(A, true);
        std::string after = dense_apply(p, a.n);
        return (before == after ? std::string("same ") : std::string("changed ")) + after;
    }
    throw std::invalid_argument("kind");
}
VQ_OP(cpr) { try { return cpr_body(t); } catch (const std::exception &e) { return "EXC " + vq::exc_kind(e) + " " + slug(e); } }

// ---------------------------------------------------------------- CPR-DRS
template <int bs> static std::string cprdrs_block(Arrays &a, long active, double eps_dd, double eps_ps, const std::vector<double> &w) {
    typedef amgcl::static_matrix<Q, bs, bs> BT; typedef be::builtin<BT> BB; typedef amgcl::static_matrix<Q, bs, 1> RT;
    typedef amgcl::preconditioner::cpr_drs< rec_exact_precond<B>, amgcl::preconditioner::dummy<BB> > P;
    auto A = std::tie(a.n, a.ptr, a.col, a.val);
    typename P::params prm; prm.active_rows = active / bs; prm.eps_dd = eps_dd; prm.eps_ps = eps_ps; prm.weights = w;
    P p(amgcl::adapter::block_matrix<BT>(A), prm);
    std::ostringstream os; long n = a.n; os << "{" << n << " " << n;
    for (long i = 0; i < n; ++i) {
        std::vector<Q> e(n, Q(0)), x(n, Q(0)); e[i] = Q(1);
        auto E = be::reinterpret_as_rhs<RT>(e); auto X = be::reinterpret_as_rhs<RT>(x);
        p.apply(E, X);
        os << " |"; for (long j = 0; j < n; ++j) os << " " << j << ":" << x[j].str();
    }
    os << "}"; return os.str() + " " + g_recorded;
}
static std::string cprdrs_body(Tok &t) {
    std::string kind = t.s(); long bs = t.i(), active = t.i(); t.i();   // last: model-side flag
    double eps_dd = (double)t.q(), eps_ps = (double)t.q();
    std::vector<Q> wq = t.vec(); std::vector<double> w; for (auto &x : wq) w.push_back((double)x);
    Arrays a(t);
    auto A = std::tie(a.n, a.ptr, a.col, a.val);
    g_recorded.clear();
    typedef amgcl::preconditioner::cpr_drs< rec_exact_precond<B>, amgcl::preconditioner::dummy<B> > P;
    P::params prm; prm.block_size = bs; prm.active_rows = active; prm.eps_dd = eps_dd; prm.eps_ps = eps_ps; prm.weights = w;
    if (kind == "scalar") { P p(A, prm); return dense_apply(p, a.n) + " " + g_recorded; }
    if (kind == "block") {
        if (bs == 2) return cprdrs_block<2>(a, active, eps_dd, eps_ps, w);
        if (bs == 3) return cprdrs_block<3>(a, active, eps_dd, eps_ps, w);
        throw std::invalid_argument("block size");
    }
    if (kind == "update") {
        P p(A, prm); std::string before = dense_apply(p, a.n);
        p.partial_update(A, true);
        std::string after = dense_apply(p, a.n);
        return (before == after ? std::string("same ") : std::string("changed ")) + after;
    }
    throw std::invalid_argument("kind");
}
VQ_OP(cprdrs) { try { return cprdrs_body(t); } catch (const std::exception &e) { return "EXC " + vq::exc_kind(e) + " " + slug(e); } }

// ---------------------------------------------------------------- deflated solver
static std::string deflate_body(Tok &t) {
    std::string what = t.s();
    Arrays a(t); long nv = t.i(); std::vector<Q> Z; for (long k = 0; k < nv; ++k) { auto z = t.vec(); Z.insert(Z.end(), z.begin(), z.end()); }
    std::vector<Q> rhs = t.vec(), x = t.vec();
    auto A = std::tie(a.n, a.ptr, a.col, a.val);
    typedef amgcl::deflated_solver< Spai0, amgcl::solver::cg<B> > DS;
    DS::params prm; prm.nvec = nv; prm.vec = Z.data();
    prm.solver.tol = 0; prm.solver.abstol = 0; prm.solver.maxiter = a.n + 2;
    DS solve(A, prm);
    if (what == "project") { solve.project(rhs, x); return show(x); }
    if (what == "apply")   { solve.apply(rhs, x); return show(x); }
    if (what == "solve")   { auto r = solve(rhs, x); std::ostringstream os; os << std::get<0>(r) << " " << show(Q(std::get<1>(r))) << " " << show(x); return os.str(); }
    throw std::invalid_argument("what");
}
VQ_OP(deflate) { try { return deflate_body(t); } catch (const std::exception &e) { return "EXC " + vq::exc_kind(e) + " " + slug(e); } }

int main() { return vq::driver_main(); }
