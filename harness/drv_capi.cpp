// drv_capi.cpp -- C20: the C interface lib/amgcl.cpp (compiled INTO this driver) against the
// C++ run-time interface, double build, bit for bit; built with AddressSanitizer and
// exactly-sized heap arrays so that a read outside the caller's arrays aborts.
//
//   <id> solve <variant> <k> <seed> <k2> <seed2> <nset> (i|f|s name value)*   -> C it res x | CXX it res x | EQ/NE
//        variant: c0  amgcl_solver_create + amgcl_solver_solve            (0-based)
//                 f1  amgcl_solver_create_f + amgcl_solver_solve_f        (1-based arrays)
//                 m0  create with system 1, amgcl_solver_solve_mtx with system 2
//                 m1  create_f with system 1, amgcl_solver_solve_mtx_f with system 2 (1-based)
//                 p0 / p1  amgcl_precond_create[_f] + amgcl_precond_apply
//                 j0  as c0, parameters written to a JSON file and read by amgcl_params_read_json
//                 n0  as c0 with a NULL params handle (defaults)
//   <id> sysmat <base> <crs>                 -> the system matrix the library built from the arrays (rows sorted)
//   <id> params <nset> (i|f|s name value)*   -> the tree behind the params handle after the setters
//   <id> life <n> (op kind slot)*            -> handle life cycle script, prints OK <live handles>
//   <id> hist <step>* end                    -> a call HISTORY on the C interface: the caller's buffers live at fixed
//        addresses and are rewritten IN PLACE between calls (tails beyond the current length are ASan-poisoned), several
//        handles are live at once, handles are destroyed and re-created (the allocator may hand out the same address
//        again: every create prints the class H<k> of the address it returned).  One output item per step.
//   <id> rhist <fresh> <step>* end           -> the C++ run-time interface driven by the CONTENTS trace that the Coq
//        model (Capi2.run) computes for a history: objects are built from 0-based matrices / trees given by value,
//        calls receive vectors by value (literal, or the x a previous step produced).  fresh=1: every call is issued
//        on a fresh object built from the creation contents (statelessness, Capi2Proofs.stateless_fresh).
#include <string>
#include <vector>
#include <fstream>
#include <cstdio>
#include <unistd.h>
#include "vq_io.hpp"
#include <lib/amgcl.cpp>
#if defined(__SANITIZE_ADDRESS__)
#include <sanitizer/asan_interface.h>
#include <sanitizer/lsan_interface.h>
#define VQ_POISON(p, n)   ASAN_POISON_MEMORY_REGION((p), (n))
#define VQ_UNPOISON(p, n) ASAN_UNPOISON_MEMORY_REGION((p), (n))
#else
#define VQ_POISON(p, n)   ((void)0)
#define VQ_UNPOISON(p, n) ((void)0)
#endif

using boost::property_tree::ptree;
using vq::Tok;

// ---------------------------------------------------------------- exactly-sized heap arrays
struct Sys {
    int n; long nnz; int *ptr; int *col; double *val; double *rhs;
    Sys() : n(0), nnz(0), ptr(0), col(0), val(0), rhs(0) {}
    ~Sys() { delete[] ptr; delete[] col; delete[] val; delete[] rhs; }
    Sys(const Sys&) = delete; Sys& operator=(const Sys&) = delete;
    void shift(int b) { for (int i = 0; i <= n; ++i) ptr[i] += b; for (long j = 0; j < nnz; ++j) col[j] += b; }
};
// SPD 5-point operator on a k x k grid with seeded dyadic coefficients (as drv_rtstatic.cpp)
static void make_system(Sys &S, long k, unsigned seed) {
    unsigned s = seed * 2654435761u + 12345u;
    auto rnd = [&s]() { s = s * 1664525u + 1013904223u; return (s >> 16) & 0xff; };
    long n = k * k;
    std::vector<double> cx((k + 1) * k), cy((k + 1) * k);
    for (auto &c : cx) c = 1.0 + (rnd() % 8) / 4.0;
    for (auto &c : cy) c = 1.0 + (rnd() % 8) / 4.0;
    std::vector<int> ptr(1, 0), col; std::vector<double> val;
    for (long j = 0; j < k; ++j) for (long i = 0; i < k; ++i) {
        double w = cx[j * (k + 1) + i], e = cx[j * (k + 1) + i + 1], so = cy[i * (k + 1) + j], no = cy[i * (k + 1) + j + 1];
        long r = j * k + i;
        if (j > 0) { col.push_back(r - k); val.push_back(-so); }
        if (i > 0) { col.push_back(r - 1); val.push_back(-w); }
        col.push_back(r); val.push_back(w + e + so + no + (rnd() % 4) / 8.0);
        if (i + 1 < k) { col.push_back(r + 1); val.push_back(-e); }
        if (j + 1 < k) { col.push_back(r + k); val.push_back(-no); }
        ptr.push_back((int)col.size());
    }
    S.n = (int)n; S.nnz = (long)col.size();
    S.ptr = new int[n + 1]; S.col = new int[S.nnz]; S.val = new double[S.nnz]; S.rhs = new double[n];
    std::copy(ptr.begin(), ptr.end(), S.ptr); std::copy(col.begin(), col.end(), S.col); std::copy(val.begin(), val.end(), S.val);
    for (long i = 0; i < n; ++i) S.rhs[i] = ((int)(rnd() % 33) - 16) / 8.0;
}

static std::string fnv(const double *x, size_t n) {
    unsigned long long h = 1469598103934665603ull;
    const unsigned char *p = reinterpret_cast<const unsigned char*>(x);
    for (size_t i = 0; i < n * sizeof(double); ++i) { h ^= p[i]; h *= 1099511628211ull; }
    char buf[32]; snprintf(buf, sizeof buf, "%016llx", h); return buf;
}
static std::string show_tree(const ptree &t) {
    std::string r = t.data() + "[";
    bool first = true;
    for (const auto &v : t) { if (!first) r += ","; first = false; r += v.first + "=" + show_tree(v.second); }
    return r + "]";
}

struct SetOp { char kind; std::string name, value; };
static std::vector<SetOp> read_sets(Tok &t) {
    long n = t.i(); std::vector<SetOp> v(n);
    for (auto &o : v) { o.kind = t.s()[0]; o.name = t.s(); o.value = t.s(); }
    return v;
}
static void apply_c(amgclHandle prm, const std::vector<SetOp> &ops) {
    for (const auto &o : ops) {
        if (o.kind == 'i') amgcl_params_seti(prm, o.name.c_str(), std::stoi(o.value));
        else if (o.kind == 'f') amgcl_params_setf(prm, o.name.c_str(), std::stof(o.value));
        else amgcl_params_sets(prm, o.name.c_str(), o.value.c_str());
    }
}
// the equivalent C++ run-time configuration: the same typed values put into a ptree
static void apply_cxx(ptree &prm, const std::vector<SetOp> &ops) {
    for (const auto &o : ops) {
        if (o.kind == 'i') prm.put(o.name, std::stoi(o.value));
        else if (o.kind == 'f') prm.put(o.name, std::stof(o.value));
        else prm.put(o.name, o.value);
    }
}
static std::string json_of(const std::vector<SetOp> &ops) {
    // nested JSON object from the dotted names (later settings of the same name win, as with put)
    ptree p; for (const auto &o : ops) p.put(o.name, o.value);
    std::function<std::string(const ptree&)> js = [&](const ptree &t) -> std::string {
        if (t.empty()) return "\"" + t.data() + "\"";
        std::string r = "{"; bool first = true;
        for (const auto &v : t) { if (!first) r += ", "; first = false; r += "\"" + v.first + "\": " + js(v.second); }
        return r + "}";
    };
    return p.empty() ? "{}" : js(p);
}

static std::string res_line(size_t it, double res, const double *x, size_t n) {
    return "it=" + std::to_string(it) + " res=" + vq::show(res) + " x=" + fnv(x, n) + " x0=" + vq::show(x[0]);
}

VQ_OP(solve) {
    std::string variant = t.s();
    long k = t.i(); unsigned seed = (unsigned)t.i(); long k2 = t.i(); unsigned seed2 = (unsigned)t.i();
    std::vector<SetOp> ops = read_sets(t);
    bool fortran = variant[1] == '1';
    bool mtx = variant[0] == 'm', prec = variant[0] == 'p';
    Sys S1, S2; make_system(S1, k, seed); make_system(S2, mtx ? k2 : k, mtx ? seed2 : seed);
    int n = S1.n;
    // ---- C++ run-time interface (0-based std::vector copies)
    std::string cxx;
    {
        ptree prm;
        if (variant == "j0") { for (const auto &o : ops) prm.put(o.name, o.value); } else if (variant != "n0") apply_cxx(prm, ops);
        std::vector<int> ptr(S1.ptr, S1.ptr + n + 1), col(S1.col, S1.col + S1.nnz); std::vector<double> val(S1.val, S1.val + S1.nnz);
        std::vector<double> rhs(S1.rhs, S1.rhs + n), x(n, 0.0);
        auto A = std::make_tuple(n, ptr, col, val);
        try {
            if (prec) {
                AMG P(A, prm);
                P.apply(rhs, x);
                cxx = res_line(0, 0.0, x.data(), n);
            } else {
                Solver solve(A, prm);
                size_t it; double res;
                if (mtx) {
                    std::vector<int> ptr2(S2.ptr, S2.ptr + n + 1), col2(S2.col, S2.col + S2.nnz); std::vector<double> val2(S2.val, S2.val + S2.nnz);
                    std::vector<double> rhs2(S2.rhs, S2.rhs + n);
                    std::tie(it, res) = solve(std::make_tuple(n, ptr2, col2, val2), rhs2, x);
                } else std::tie(it, res) = solve(rhs, x);
                cxx = res_line(it, res, x.data(), n);
            }
        } catch (const std::exception &e) { cxx = "EXC " + vq::exc_kind(e); }
    }
    // ---- C interface
    std::string c;
    {
        if (fortran) { S1.shift(1); S2.shift(1); }
        double *x = new double[n]; std::fill(x, x + n, 0.0);
        amgclHandle prm = 0;
        std::string jf;
        try {
            if (variant != "n0") {
                prm = amgcl_params_create();
                if (variant == "j0") {
                    char name[] = "/tmp/vq_capi_XXXXXX"; int fd = mkstemp(name); if (fd >= 0) close(fd);
                    jf = name; { std::ofstream f(jf); f << json_of(ops) << std::endl; }
                    amgcl_params_read_json(prm, jf.c_str());
                } else apply_c(prm, ops);
            }
            if (prec) {
                amgclHandle h = fortran ? amgcl_precond_create_f(n, S1.ptr, S1.col, S1.val, prm) : amgcl_precond_create(n, S1.ptr, S1.col, S1.val, prm);
                amgcl_precond_apply(h, S1.rhs, x);
                amgcl_precond_destroy(h);
                c = res_line(0, 0.0, x, n);
            } else {
                amgclHandle h = fortran ? amgcl_solver_create_f(n, S1.ptr, S1.col, S1.val, prm) : amgcl_solver_create(n, S1.ptr, S1.col, S1.val, prm);
                conv_info cnv;
                if (mtx && fortran) amgcl_solver_solve_mtx_f(h, S2.ptr, S2.col, S2.val, S2.rhs, x, &cnv);
                else if (mtx) cnv = amgcl_solver_solve_mtx(h, S2.ptr, S2.col, S2.val, S2.rhs, x);
                else if (fortran) amgcl_solver_solve_f(h, S1.rhs, x, &cnv);
                else cnv = amgcl_solver_solve(h, S1.rhs, x);
                amgcl_solver_destroy(h);
                c = res_line(cnv.iterations, cnv.residual, x, n);
            }
        } catch (const std::exception &e) { c = "EXC " + vq::exc_kind(e); }
        if (prm) amgcl_params_destroy(prm);
        if (!jf.empty()) std::remove(jf.c_str());
        delete[] x;
    }
    return "C " + c + " | CXX " + cxx + " | " + (c == cxx ? "EQ" : "NE");
}

// the matrix the library reads from the caller's arrays (level-0 system matrix of the AMG
// hierarchy; rows are printed sorted by column)
VQ_OP(sysmat) {
    long base = t.i();
    auto A = t.crsT<double>();
    int n = (int)A->nrows; long nnz = (long)A->nnz;
    int *ptr = new int[n + 1]; int *col = new int[nnz]; double *val = new double[nnz];
    for (int i = 0; i <= n; ++i) ptr[i] = (int)A->ptr[i] + (int)base;
    for (long j = 0; j < nnz; ++j) { col[j] = (int)A->col[j] + (int)base; val[j] = A->val[j]; }
    std::string r;
    amgclHandle prm = amgcl_params_create();
    amgcl_params_seti(prm, "coarse_enough", 100000);
    amgcl_params_sets(prm, "relax.type", "damped_jacobi");
    try {
        amgclHandle h = base ? amgcl_precond_create_f(n, ptr, col, val, prm) : amgcl_precond_create(n, ptr, col, val, prm);
        r = vq::show_crs(static_cast<AMG*>(h)->system_matrix(), true);
        amgcl_precond_destroy(h);
    } catch (const std::exception &e) { r = "EXC " + vq::exc_kind(e); }
    amgcl_params_destroy(prm);
    delete[] ptr; delete[] col; delete[] val;
    return r;
}

VQ_OP(params) {
    std::vector<SetOp> ops = read_sets(t);
    amgclHandle prm = amgcl_params_create();
    apply_c(prm, ops);
    std::string r = show_tree(*static_cast<Params*>(prm));
    amgcl_params_destroy(prm);
    return r;
}

// life <n> (c|d|u  p|a|s  slot)* : create / destroy / use of params (p), preconditioner (a), solver (s) handles
VQ_OP(life) {
    long n = t.i();
    Sys S; make_system(S, 5, 7);
    std::map<long, std::pair<char, amgclHandle> > h;
    std::vector<double> x(S.n);
    for (long k = 0; k < n; ++k) {
        char op = t.s()[0], kind = t.s()[0]; long slot = t.i();
        if (op == 'c') {
            amgclHandle v = kind == 'p' ? amgcl_params_create()
                          : kind == 'a' ? amgcl_precond_create(S.n, S.ptr, S.col, S.val, 0)
                          : amgcl_solver_create(S.n, S.ptr, S.col, S.val, 0);
            h[slot] = std::make_pair(kind, v);
        } else if (op == 'u') {
            amgclHandle v = h.at(slot).second;
            std::fill(x.begin(), x.end(), 0.0);
            if (kind == 'p') amgcl_params_seti(v, "npre", 2);
            else if (kind == 'a') amgcl_precond_apply(v, S.rhs, x.data());
            else amgcl_solver_solve(v, S.rhs, x.data());
        } else {
            amgclHandle v = h.at(slot).second;
            if (kind == 'p') amgcl_params_destroy(v); else if (kind == 'a') amgcl_precond_destroy(v); else amgcl_solver_destroy(v);
            h.erase(slot);
        }
    }
    std::string r = "OK";
    for (auto &e : h) r += " " + std::to_string(e.first);
    // leftovers are destroyed so that the leak checker only reports library leaks
    for (auto &e : h) { if (e.second.first == 'p') amgcl_params_destroy(e.second.second); else if (e.second.first == 'a') amgcl_precond_destroy(e.second.second); else amgcl_solver_destroy(e.second.second); }
    h.clear();
#if defined(__SANITIZE_ADDRESS__)
    if (__lsan_do_recoverable_leak_check()) r += " LEAK";    // (the exit-time report alone would go unnoticed: every case was answered)
#endif
    return r;
}

// ---------------------------------------------------------------- call histories
// a caller-owned buffer with a fixed address: allocated once with its capacity, (re)written in place; the tail beyond
// the current length is poisoned so that a read/write past the CURRENT end aborts under AddressSanitizer
template <class T> struct Buf {
    T *p; long cap, len;
    Buf() : p(0), cap(0), len(0) {}
    void write(long cap_, const std::vector<T> &v) {
        if (!p) { cap = std::max<long>(cap_, (long)v.size()); if (sizeof(T) == 4 && (cap & 1)) ++cap; p = new T[cap > 0 ? cap : 1]; }
        if ((long)v.size() > cap) throw std::runtime_error("hist: buffer capacity exceeded");
        VQ_UNPOISON(p, sizeof(T) * cap);
        std::copy(v.begin(), v.end(), p); len = (long)v.size();
        if (cap > len) VQ_POISON(p + len, sizeof(T) * (cap - len));
    }
    void release() { if (p) { VQ_UNPOISON(p, sizeof(T) * cap); delete[] p; } p = 0; cap = len = 0; }
};
struct HSlot { char kind; amgclHandle h; };

VQ_OP(hist) {
    std::map<long, Buf<int> > ib; std::map<long, Buf<double> > db;
    std::map<long, HSlot> hs;
    std::vector<void*> seen;                      // handle values returned so far (address classes)
    std::vector<std::string> out;
    auto slot = [&](long s, char kind) -> amgclHandle { auto it = hs.find(s); return (it == hs.end() || it->second.kind != kind) ? (amgclHandle)0 : it->second.h; };
    auto created = [&](long s, char kind, amgclHandle h) -> std::string {
        hs[s] = HSlot{kind, h};
        size_t k = 0; while (k < seen.size() && seen[k] != (void*)h) ++k;
        if (k == seen.size()) seen.push_back((void*)h);
        return "H" + std::to_string(k);
    };
    for (;;) {
        std::string op = t.s();
        if (op == "end") break;
        std::string r = ".";
        try {
            if (op == "wi") { long b = t.i(), cap = t.i(); std::vector<long> v = t.ivec(); ib[b].write(cap, std::vector<int>(v.begin(), v.end())); }
            else if (op == "wv" || op == "wx") { long b = t.i(), cap = t.i(); db[b].write(cap, t.vecT<double>()); }
            else if (op == "fi") { long b = t.i(); ib[b].release(); ib.erase(b); }
            else if (op == "fd") { long b = t.i(); db[b].release(); db.erase(b); }
            else if (op == "pc") { long s = t.i(); r = created(s, 'p', amgcl_params_create()); }
            else if (op == "ps") {
                long s = t.i(); char kind = t.s()[0]; std::string name = t.s(), value = t.s();
                amgclHandle h = slot(s, 'p'); if (!h) r = "NOHANDLE"; else apply_c(h, std::vector<SetOp>(1, SetOp{kind, name, value}));
            }
            else if (op == "pj") {
                long s = t.i(); std::vector<SetOp> ops = read_sets(t);
                amgclHandle h = slot(s, 'p');
                if (!h) r = "NOHANDLE"; else {
                    char name[] = "/tmp/vq_capi_XXXXXX"; int fd = mkstemp(name); if (fd >= 0) close(fd);
                    { std::ofstream f(name); f << json_of(ops) << std::endl; }
                    try { amgcl_params_read_json(h, name); } catch (...) { std::remove(name); throw; }
                    std::remove(name);
                }
            }
            else if (op == "pd") { long s = t.i(); amgclHandle h = slot(s, 'p'); if (!h) r = "NOHANDLE"; else { amgcl_params_destroy(h); hs.erase(s); } }
            else if (op == "ac" || op == "sc") {
                long s = t.i(), f = t.i(), n = t.i(), bp = t.i(), bc = t.i(), bv = t.i(); std::string ps = t.s();
                amgclHandle prm = 0;
                if (ps != "-") { prm = slot(std::stol(ps), 'p'); if (!prm) { out.push_back("NOHANDLE"); continue; } }
                hs.erase(s);
                const int *ptr = ib.at(bp).p, *col = ib.at(bc).p; const double *val = db.at(bv).p;
                amgclHandle h = op == "ac" ? (f ? amgcl_precond_create_f((int)n, ptr, col, val, prm) : amgcl_precond_create((int)n, ptr, col, val, prm))
                                           : (f ? amgcl_solver_create_f((int)n, ptr, col, val, prm) : amgcl_solver_create((int)n, ptr, col, val, prm));
                r = created(s, op == "ac" ? 'a' : 's', h);
            }
            else if (op == "aa") {
                long s = t.i(), br = t.i(), bx = t.i();
                amgclHandle h = slot(s, 'a');
                if (!h) r = "NOHANDLE"; else {
                    Buf<double> &x = db.at(bx);
                    try { amgcl_precond_apply(h, db.at(br).p, x.p); r = res_line(0, 0.0, x.p, x.len); }
                    catch (const std::exception &e) { r = "EXC " + vq::exc_kind(e) + " x=" + fnv(x.p, x.len); }
                }
            }
            else if (op == "ss" || op == "sm") {
                long s = t.i(), f = t.i();
                long bp = 0, bc = 0, bv = 0; if (op == "sm") { bp = t.i(); bc = t.i(); bv = t.i(); }
                long br = t.i(), bx = t.i();
                amgclHandle h = slot(s, 's');
                if (!h) r = "NOHANDLE"; else {
                    Buf<double> &x = db.at(bx);
                    conv_info cnv; cnv.iterations = -1; cnv.residual = 0;
                    try {
                        if (op == "ss") { if (f) amgcl_solver_solve_f(h, db.at(br).p, x.p, &cnv); else cnv = amgcl_solver_solve(h, db.at(br).p, x.p); }
                        else if (f) amgcl_solver_solve_mtx_f(h, ib.at(bp).p, ib.at(bc).p, db.at(bv).p, db.at(br).p, x.p, &cnv);
                        else cnv = amgcl_solver_solve_mtx(h, ib.at(bp).p, ib.at(bc).p, db.at(bv).p, db.at(br).p, x.p);
                        r = res_line(cnv.iterations, cnv.residual, x.p, x.len);
                    } catch (const std::exception &e) { r = "EXC " + vq::exc_kind(e) + " x=" + fnv(x.p, x.len); }
                }
            }
            else if (op == "ad") { long s = t.i(); amgclHandle h = slot(s, 'a'); if (!h) r = "NOHANDLE"; else { amgcl_precond_destroy(h); hs.erase(s); } }
            else if (op == "sd") { long s = t.i(); amgclHandle h = slot(s, 's'); if (!h) r = "NOHANDLE"; else { amgcl_solver_destroy(h); hs.erase(s); } }
            else throw std::runtime_error("hist: unknown step " + op);
        } catch (const std::out_of_range &) { throw; }
          catch (const std::exception &e) { r = "EXC " + vq::exc_kind(e); }
        out.push_back(r);
    }
    std::string live = "live";
    for (auto &e : hs) live += " " + std::to_string(e.first);
    // leftovers are destroyed and the buffers released, so that the leak checker only sees what the library lost
    for (auto &e : hs) { if (e.second.kind == 'p') amgcl_params_destroy(e.second.h); else if (e.second.kind == 'a') amgcl_precond_destroy(e.second.h); else amgcl_solver_destroy(e.second.h); }
    for (auto &e : ib) e.second.release();
    for (auto &e : db) e.second.release();
    hs.clear(); ib.clear(); db.clear(); seen.clear();
    std::string r;
    for (size_t k = 0; k < out.size(); ++k) r += (k ? " ; " : "") + out[k];
    r += " | " + live;
#if defined(__SANITIZE_ADDRESS__)
    if (__lsan_do_recoverable_leak_check()) r += " | LEAK";
#endif
    return r;
}

// ---- the C++ run-time interface on a contents trace
static ptree parse_tree(const std::string &s, size_t &i) {
    ptree t;
    size_t j = i;
    while (j < s.size() && s[j] != '[') ++j;
    if (j >= s.size()) throw std::runtime_error("tree: missing [");
    t.data() = s.substr(i, j - i);
    i = j + 1;
    if (s[i] == ']') { ++i; return t; }
    for (;;) {
        size_t e = s.find('=', i);
        if (e == std::string::npos) throw std::runtime_error("tree: missing =");
        std::string k = s.substr(i, e - i);
        i = e + 1;
        ptree c = parse_tree(s, i);
        t.push_back(std::make_pair(k, c));
        if (s[i] == ',') { ++i; continue; }
        if (s[i] == ']') { ++i; break; }
        throw std::runtime_error("tree: expected , or ]");
    }
    return t;
}
struct RMat {
    int n; std::vector<int> ptr, col; std::vector<double> val;
    void read(Tok &t) {
        auto A = t.crsT<double>();
        n = (int)A->nrows; ptr.assign(A->ptr, A->ptr + n + 1); col.assign(A->col, A->col + A->nnz); val.assign(A->val, A->val + A->nnz);
    }
};
struct RObj {
    char kind; RMat A; bool has_prm; ptree prm;
    std::shared_ptr<AMG> amg; std::shared_ptr<Solver> slv;
    void build() {
        auto M = std::make_tuple(A.n, A.ptr, A.col, A.val);
        if (kind == 'a') amg = has_prm ? std::make_shared<AMG>(M, prm) : std::make_shared<AMG>(M);
        else             slv = has_prm ? std::make_shared<Solver>(M, prm) : std::make_shared<Solver>(M);
    }
};

VQ_OP(rhist) {
    bool fresh = t.i() != 0;
    std::map<long, RObj> objs; std::map<long, std::vector<double> > xs;
    std::vector<std::string> out;
    auto readx = [&]() -> std::vector<double> {
        std::string k = t.s();
        if (k == "L") return t.vecT<double>();
        return xs.at(t.i());
    };
    for (;;) {
        std::string op = t.s();
        if (op == "end") break;
        std::string r;
        if (op == "new") {
            long id = t.i(); RObj o; o.kind = t.s()[0]; long n = t.i(); o.A.read(t); (void)n;
            std::string tr = t.s(); o.has_prm = tr != "-"; if (o.has_prm) { size_t i = 0; o.prm = parse_tree(tr, i); }
            try { o.build(); objs[id] = o; r = "H"; } catch (const std::exception &e) { r = "EXC " + vq::exc_kind(e); }
        } else {
            long id = t.i(), k = t.i();
            RMat B; if (op == "mtx") B.read(t);
            std::vector<double> rhs = readx(), x = readx();
            auto it = objs.find(id);
            if (it == objs.end()) r = "NOHANDLE"; else {
                RObj tmp; RObj *o = &it->second;
                try {
                    if (fresh) { tmp.kind = o->kind; tmp.A = o->A; tmp.has_prm = o->has_prm; tmp.prm = o->prm; tmp.build(); o = &tmp; }
                    if (op == "app") { o->amg->apply(rhs, x); r = res_line(0, 0.0, x.data(), x.size()); }
                    else {
                        size_t its; double res;
                        if (op == "slv") std::tie(its, res) = (*o->slv)(rhs, x);
                        else std::tie(its, res) = (*o->slv)(std::make_tuple(B.n, B.ptr, B.col, B.val), rhs, x);
                        r = res_line(its, res, x.data(), x.size());
                    }
                } catch (const std::exception &e) { r = "EXC " + vq::exc_kind(e) + " x=" + fnv(x.data(), x.size()); }
            }
            xs[k] = x;
        }
        out.push_back(r);
    }
    std::string r;
    for (size_t k = 0; k < out.size(); ++k) r += (k ? " ; " : "") + out[k];
    return r;
}

int main() { return vq::driver_main(); }
