// amgc_driver.hh -- C02 for BLOCK value types: the multigrid cycle of
//   amg< builtin< static_matrix<vq::Q,b,b> >, Coarsening, Relax >          b = AMGC_B (default 2)
// Coarsening in {aggregation (amgc.agg), smoothed_aggregation (amgc.sa)} (macros AMGC_AGG / AMGC_SA select what a
// translation unit instantiates), Relax in {damped_jacobi, spai0, gauss_seidel (serial), ilu0 (serial solve), chebyshev}.
// Block products do not commute, so the operand order of every product in amg.hpp / the smoothers is observable.
// (.hh, not .hpp: the runner hashes harness/*.hpp into EVERY driver's cache key; the hash of this file enters the
// key of the amgc drivers through EXTRA_FLAGS of tools/props/C02.py.)
//
// op:  amgc.<agg|sa> <b> <relax>
//         <cfg: coarse_enough direct_coarse max_levels npre npost ncycle pre_cycles>
//         <cprm: eps_strong relax|- over_interp|->
//         <rprm: damping|-  degree lower|- higher|- scale>      (damping: damped_jacobi, ilu0; the other four: chebyshev)
//         A:bcrs  <nscript> (dump | apply f x0 | cycle f x0)*
//   bcrs = nrows ncols (k (col q^(b*b))*k)*nrows   block values row-major, storage order
//   f, x0: vec of nrows*b rationals (entries of static_matrix<Q,b,1>, flat)
// output: results of the script commands joined by " ; ":
//   dump    D <nlevels> (M {A} {P} {R} | L {A} | S {A}|-)*   BLOCK matrices {n m | c:v;..;v c:... | ...}, storage order
//   apply   [x] flat          cycle  [x] flat
#include "vq_io.hpp"
#include "vq_access.hpp"
#include <amgcl/amg.hpp>
#include <amgcl/value_type/static_matrix.hpp>
#include <amgcl/coarsening/aggregation.hpp>
#include <amgcl/coarsening/smoothed_aggregation.hpp>
#include <amgcl/relaxation/damped_jacobi.hpp>
#include <amgcl/relaxation/spai0.hpp>
#include <amgcl/relaxation/gauss_seidel.hpp>
#include <amgcl/relaxation/ilu0.hpp>
#include <amgcl/relaxation/chebyshev.hpp>

#ifndef AMGC_B
#define AMGC_B 2
#endif
using vq::Q; using vq::Tok;
namespace amgc {
static const int b = AMGC_B;
typedef amgcl::static_matrix<Q, AMGC_B, AMGC_B> BT;
typedef amgcl::static_matrix<Q, AMGC_B, 1>      RT;
typedef amgcl::backend::builtin<BT>             BB;
typedef amgcl::backend::crs<BT, ptrdiff_t, ptrdiff_t> BM;

// ---------------------------------------------------------------- parsing / printing
static std::shared_ptr<BM> bcrs(Tok &t) {
    long n = t.i(), m = t.i();
    std::vector<ptrdiff_t> ptr(1, 0), col; std::vector<BT> vl;
    for (long r = 0; r < n; ++r) {
        long k = t.i();
        for (long e = 0; e < k; ++e) { col.push_back(t.i()); BT v; for (int c = 0; c < b * b; ++c) v(c / b, c % b) = t.q(); vl.push_back(v); }
        ptr.push_back((ptrdiff_t)col.size());
    }
    auto A = std::make_shared<BM>();
    A->set_size(n, m, false);
    A->ptr[0] = 0;
    for (long r = 0; r < n; ++r) A->ptr[r + 1] = ptr[r + 1];
    A->set_nonzeros(col.size(), true);
    for (size_t e = 0; e < col.size(); ++e) { A->col[e] = col[e]; A->val[e] = vl[e]; }
    return A;
}
static std::vector<RT> bvec(Tok &t) {
    long n = t.i(); if (n % b) throw std::runtime_error("case: vector length not a multiple of b");
    std::vector<RT> v(n / b);
    for (long i = 0; i < n; ++i) v[i / b](i % b) = t.q();
    return v;
}
static std::string show_bvec(const std::vector<RT> &v) {
    std::ostringstream os; os << "[";
    for (size_t i = 0; i < v.size(); ++i) for (int k = 0; k < b; ++k) { if (i || k) os << " "; os << v[i](k).str(); }
    os << "]"; return os.str();
}
template <class M> static std::string show_bcrs(const M &A) {
    std::ostringstream os;
    long n = (long)A.nrows, m = (long)A.ncols;
    os << "{" << n << " " << m;
    if ((n > 0 || A.ptr) && A.ptr[0] != 0) return "BADCRS ptr0";
    for (long i = 0; i < n; ++i) {
        if (A.ptr[i + 1] < A.ptr[i]) return "BADCRS nonmonotone-ptr";
        os << " |";
        for (ptrdiff_t j = A.ptr[i]; j < (ptrdiff_t)A.ptr[i + 1]; ++j) {
            if (A.col[j] < 0 || (long)A.col[j] >= m) return "BADCRS col-out-of-range";
            os << " " << (long)A.col[j] << ":";
            for (int c = 0; c < b * b; ++c) { if (c) os << ";"; os << A.val[j](c / b, c % b).str(); }
        }
    }
    if (n > 0 && (size_t)A.ptr[n] != A.nnz) return "BADCRS nnz";
    os << "}"; return os.str();
}

// ---------------------------------------------------------------- configuration
struct Cfg {
    long coarse_enough, direct_coarse, max_levels, npre, npost, ncycle, pre_cycles;
    std::string eps_strong, relax, over_interp, damping, lower, higher;
    long degree, scale;
};
static float f32(const std::string &s) { return (float)(double)vq::parse(s); }

template <class B> static void set_cprm(typename amgcl::coarsening::aggregation<B>::params &p, const Cfg &c) {
    p.aggr.eps_strong = f32(c.eps_strong);
    if (c.over_interp != "-") p.over_interp = f32(c.over_interp);
}
template <class B> static void set_cprm(typename amgcl::coarsening::smoothed_aggregation<B>::params &p, const Cfg &c) {
    p.aggr.eps_strong = f32(c.eps_strong);
    if (c.relax != "-") p.relax = f32(c.relax);
}
template <class P> static void set_rprm(P &, const Cfg &, ...) {}
static inline void set_rprm(amgcl::relaxation::damped_jacobi<BB>::params &p, const Cfg &c, int) {
    if (c.damping != "-") p.damping = vq::parse(c.damping);
}
static inline void set_rprm(amgcl::relaxation::gauss_seidel<BB>::params &p, const Cfg &, int) { p.serial = true; }
static inline void set_rprm(amgcl::relaxation::ilu0<BB>::params &p, const Cfg &c, int) {
    if (c.damping != "-") p.damping = vq::parse(c.damping);
    p.solve.serial = true;
}
static inline void set_rprm(amgcl::relaxation::chebyshev<BB>::params &p, const Cfg &c, int) {
    p.degree = (unsigned)c.degree; p.scale = (c.scale != 0); p.power_iters = 0;
    if (c.lower != "-") p.lower = f32(c.lower);
    if (c.higher != "-") p.higher = f32(c.higher);
}

template <class AMG> static std::string dump(const AMG &amg) {
    std::ostringstream os;
    const auto &lv = amgcl::verif::access::levels(amg);
    os << "D " << lv.size();
    for (const auto &l : lv) {
        if (l.solve) { os << " S "; if (l.A) os << show_bcrs(*l.A); else os << "-"; }
        else if (l.P) { os << " M " << show_bcrs(*l.A) << " " << show_bcrs(*l.P) << " " << show_bcrs(*l.R); }
        else { os << " L " << show_bcrs(*l.A); }
    }
    return os.str();
}

template <template <class> class C, template <class> class Relax>
static std::string run_amg(Tok &t) {
    typedef amgcl::amg<BB, C, Relax> AMG;
    Cfg c;
    c.coarse_enough = t.i(); c.direct_coarse = t.i(); c.max_levels = t.i();
    c.npre = t.i(); c.npost = t.i(); c.ncycle = t.i(); c.pre_cycles = t.i();
    c.eps_strong = t.s(); c.relax = t.s(); c.over_interp = t.s();
    c.damping = t.s(); c.degree = t.i(); c.lower = t.s(); c.higher = t.s(); c.scale = t.i();
    auto A = bcrs(t);
    typename AMG::params prm;
    prm.coarse_enough = c.coarse_enough; prm.direct_coarse = c.direct_coarse != 0;
    prm.max_levels = c.max_levels; prm.npre = c.npre; prm.npost = c.npost; prm.ncycle = c.ncycle;
    prm.pre_cycles = c.pre_cycles;
    set_cprm<BB>(prm.coarsening, c);
    set_rprm(prm.relax, c, 0);
    AMG amg(*A, prm);          // amg(const Matrix&): copies and sorts the rows
    long ns = t.i();
    std::ostringstream os;
    for (long k = 0; k < ns; ++k) {
        if (k) os << " ; ";
        std::string cmd = t.s();
        if (cmd == "dump") os << dump(amg);
        else if (cmd == "apply") { auto f = bvec(t); auto x = bvec(t); amg.apply(f, x); os << show_bvec(x); }
        else if (cmd == "cycle") { auto f = bvec(t); auto x = bvec(t); amg.cycle(f, x); os << show_bvec(x); }
        else throw std::runtime_error("bad script command " + cmd);
    }
    return os.str();
}

template <template <class> class C>
static std::string op_variant(Tok &t) {
    long bb = t.i(); if (bb != b) return "UNSUPPORTED block size";
    std::string r = t.s();
    namespace rx = amgcl::relaxation;
    if (r == "damped_jacobi") return run_amg<C, rx::damped_jacobi>(t);
    if (r == "spai0")         return run_amg<C, rx::spai0>(t);
    if (r == "gauss_seidel")  return run_amg<C, rx::gauss_seidel>(t);
    if (r == "ilu0")          return run_amg<C, rx::ilu0>(t);
    if (r == "chebyshev")     return run_amg<C, rx::chebyshev>(t);
    return "UNSUPPORTED";
}
} // namespace amgc

namespace amgc_ops {
namespace co = amgcl::coarsening;
#ifdef AMGC_AGG
static vq::Reg r_agg("amgc.agg", amgc::op_variant<co::aggregation>);
#endif
#ifdef AMGC_SA
static vq::Reg r_sa("amgc.sa", amgc::op_variant<co::smoothed_aggregation>);
#endif
}
int main() { return vq::driver_main(); }
