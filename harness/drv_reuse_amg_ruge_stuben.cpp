// C15 (objects): amg / make_solver<amg, S> call histories, one object vs fresh objects (reuse_amg.hh)
#define VQ_COARSENING amgcl::coarsening::ruge_stuben
#define VQ_COARSENING_NAME "ruge_stuben"
#include "reuse_amg.hh"
