// drv_adapters_vteig.cpp -- drv_adapters_vt.cpp with Eigen::Matrix<double,b,b> as the block value type
// (amgcl/value_type/eigen.hpp; flags: -I/usr/include/eigen3)
#define VT_EIGEN
#include "drv_adapters_vt.cpp"
