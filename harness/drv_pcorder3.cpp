// drv_pcorder3.cpp -- C17, third part of the row-order comparison: the remaining classes that
// accept a user matrix, each with an ORDER-SENSITIVE component inside (ILU(0): its row scan stops at
// the first listed column >= i, Properties_C17.C17_unsorted_ilu0_scan_refuted), so that a class whose
// entry point does not sort the copy of the user matrix is exposed:
//   ms_amg_ilu0 / ms_asp_ilu0       make_solver<amg|as_preconditioner, preonly>   (forwards the user matrix)
//   defl_asp_ilu0 / defl_amg_ilu0   deflated_solver<...> (inner preconditioner + projection built from the user rows)
//   schur_ilu0 / schur_amg_ilu0     schur_pressure_correction with ILU(0)-based sub-solvers
//   cpr_ilu0 / cpr_drs_ilu0         cpr / cpr_drs with amg<ilu0> pressure and as_preconditioner<ilu0> global parts
//   mbs_amg_ilu0 / mbs_asp_ilu0     make_block_solver (block_matrix adapter applied to the USER rows), b = 2 or 3
//   asp_zc_ilu0 / cpr_zc_ilu0       the shared_ptr (internal format) entry points reached with adapter::zero_copy views
//                                   of the user arrays: nothing is copied, so nothing can be sorted
// Op:  pc3 <kind> <bs> <crs A>  ->  {n n | dense operator: row i = apply(e_i)}      (exact arithmetic)
// The python side runs every case twice (rows shuffled / rows sorted) and compares.
#include "vq_io.hpp"
#include <amgcl/adapter/crs_tuple.hpp>
#include <amgcl/adapter/block_matrix.hpp>
#include <amgcl/adapter/zero_copy.hpp>
#include <amgcl/value_type/static_matrix.hpp>
#include <amgcl/amg.hpp>
#include <amgcl/make_solver.hpp>
#include <amgcl/make_block_solver.hpp>
#include <amgcl/deflated_solver.hpp>
#include <amgcl/solver/preonly.hpp>
#include <amgcl/coarsening/aggregation.hpp>
#include <amgcl/coarsening/smoothed_aggregation.hpp>
#include <amgcl/relaxation/as_preconditioner.hpp>
#include <amgcl/relaxation/ilu0.hpp>
#include <amgcl/relaxation/spai0.hpp>
#include <amgcl/preconditioner/cpr.hpp>
#include <amgcl/preconditioner/cpr_drs.hpp>
#include <amgcl/preconditioner/schur_pressure_correction.hpp>
using vq::Q; using vq::Tok; using vq::show;
namespace be = amgcl::backend;
typedef be::builtin<Q> B;

struct Arrays {
    ptrdiff_t n; std::vector<ptrdiff_t> ptr, col; std::vector<Q> val;
    Arrays(Tok &t) {
        n = t.i(); long m = t.i(); if (m != n) throw std::invalid_argument("square");
        ptr.push_back(0);
        for (long r = 0; r < n; ++r) { long k = t.i(); for (long e = 0; e < k; ++e) { col.push_back(t.i()); val.push_back(t.q()); } ptr.push_back(col.size()); }
    }
};
template <class P> static std::string dense_apply(const P &p, long n) {
    std::ostringstream os; os << "{" << n << " " << n;
    for (long i = 0; i < n; ++i) {
        std::vector<Q> e(n, Q(0)), x(n, Q(0)); e[i] = Q(1);
        p.apply(e, x);
        os << " |"; for (long j = 0; j < n; ++j) os << " " << j << ":" << x[j].str();
    }
    os << "}"; return os.str();
}
// make_block_solver has no apply(): one preonly "solve" from a zero guess is the preconditioner
template <class P> static std::string dense_solve(const P &p, long n) {
    std::ostringstream os; os << "{" << n << " " << n;
    for (long i = 0; i < n; ++i) {
        std::vector<Q> e(n, Q(0)), x(n, Q(0)); e[i] = Q(1);
        p(e, x);
        os << " |"; for (long j = 0; j < n; ++j) os << " " << j << ":" << x[j].str();
    }
    os << "}"; return os.str();
}
static std::string slug(const std::exception &e) {
    std::string w = e.what(), o; for (char c : w) o += (isalnum((unsigned char)c) ? c : '_'); return o.substr(0, 60);
}

typedef amgcl::relaxation::as_preconditioner<B, amgcl::relaxation::ilu0> AspIlu0;
typedef amgcl::amg<B, amgcl::coarsening::smoothed_aggregation, amgcl::relaxation::ilu0> AmgIlu0;

template <int bs> static std::string mbs(const std::string &kind, Arrays &a) {
    using namespace amgcl;
    typedef static_matrix<Q, bs, bs> BT; typedef be::builtin<BT> BB;
    auto A = std::tie(a.n, a.ptr, a.col, a.val);
    if (kind == "mbs_amg_ilu0") {
        typedef make_block_solver< amg<BB, coarsening::aggregation, relaxation::ilu0>, solver::preonly<BB> > P;
        typename P::params prm; prm.precond.coarse_enough = 2;
        P p(A, prm); return dense_solve(p, a.n);
    }
    typedef make_block_solver< relaxation::as_preconditioner<BB, relaxation::ilu0>, solver::preonly<BB> > P;
    P p(A); return dense_solve(p, a.n);
}

static std::string pc_body(Tok &t) {
    std::string kind = t.s();
    long bs = t.i();
    Arrays a(t);
    auto A = std::tie(a.n, a.ptr, a.col, a.val);
    using namespace amgcl;
    if (kind == "ms_amg_ilu0") {
        typedef make_solver<AmgIlu0, solver::preonly<B> > P;
        P::params prm; prm.precond.coarse_enough = 2;
        P p(A, prm); return dense_apply(p, a.n);
    }
    if (kind == "ms_asp_ilu0") {
        typedef make_solver<AspIlu0, solver::preonly<B> > P;
        P p(A); return dense_apply(p, a.n);
    }
    if (kind == "defl_asp_ilu0" || kind == "defl_amg_ilu0") {
        // two deflation vectors: constant and alternating sign
        std::vector<Q> z(2 * a.n);
        for (ptrdiff_t i = 0; i < a.n; ++i) { z[i] = Q(1); z[a.n + i] = Q((long)(i % 2 ? -1 : 1)); }
        if (kind == "defl_asp_ilu0") {
            typedef deflated_solver<AspIlu0, solver::preonly<B> > P;
            P::params prm; prm.nvec = (a.n > 1 ? 2 : 1); prm.vec = z.data();
            P p(A, prm); return dense_apply(p, a.n);
        } else {
            typedef deflated_solver<AmgIlu0, solver::preonly<B> > P;
            P::params prm; prm.nvec = (a.n > 1 ? 2 : 1); prm.vec = z.data(); prm.precond.coarse_enough = 2;
            P p(A, prm); return dense_apply(p, a.n);
        }
    }
    if (kind == "schur_ilu0" || kind == "schur_amg_ilu0") {
        if (kind == "schur_ilu0") {
            typedef make_solver<AspIlu0, solver::preonly<B> > US;
            typedef preconditioner::schur_pressure_correction<US, US> P;
            P::params prm; prm.pmask.resize(a.n);
            for (ptrdiff_t i = 0; i < a.n; ++i) prm.pmask[i] = (i % bs == bs - 1);
            prm.approx_schur = true; prm.adjust_p = 0;
            P p(A, prm); return dense_apply(p, a.n);
        } else {
            typedef make_solver<AmgIlu0, solver::preonly<B> > US;
            typedef preconditioner::schur_pressure_correction<US, US> P;
            P::params prm; prm.pmask.resize(a.n);
            for (ptrdiff_t i = 0; i < a.n; ++i) prm.pmask[i] = (i % bs == bs - 1);
            prm.usolver.precond.coarse_enough = 2; prm.psolver.precond.coarse_enough = 2;
            prm.approx_schur = true; prm.adjust_p = 0;
            P p(A, prm); return dense_apply(p, a.n);
        }
    }
    if (kind == "cpr_ilu0") {
        typedef preconditioner::cpr<AmgIlu0, AspIlu0> P;
        P::params prm; prm.block_size = bs; prm.pprecond.coarse_enough = 2;
        P p(A, prm); return dense_apply(p, a.n);
    }
    if (kind == "cpr_drs_ilu0") {
        typedef preconditioner::cpr_drs<AmgIlu0, AspIlu0> P;
        P::params prm; prm.block_size = bs; prm.pprecond.coarse_enough = 2;
        P p(A, prm); return dense_apply(p, a.n);
    }
    if (kind == "asp_zc_ilu0") {
        auto Z = adapter::zero_copy((size_t)a.n, a.ptr.data(), a.col.data(), a.val.data());
        AspIlu0 p(Z); return dense_apply(p, a.n);
    }
    if (kind == "cpr_zc_ilu0") {
        typedef preconditioner::cpr<AmgIlu0, AspIlu0> P;
        P::params prm; prm.block_size = bs; prm.pprecond.coarse_enough = 2;
        auto Z = adapter::zero_copy((size_t)a.n, a.ptr.data(), a.col.data(), a.val.data());
        P p(Z, prm); return dense_apply(p, a.n);
    }
    if (kind == "mbs_amg_ilu0" || kind == "mbs_asp_ilu0") {
        if (bs == 2) return mbs<2>(kind, a);
        if (bs == 3) return mbs<3>(kind, a);
        throw std::invalid_argument("block size");
    }
    throw std::invalid_argument("kind");
}
VQ_OP(pc3) {
    try { return pc_body(t); }
    catch (const std::exception &e) { return "EXC " + vq::exc_kind(e) + " " + slug(e); }
}
int main() { return vq::driver_main(); }
