// drv_ub.cpp -- C10: "uninitialised output buffers".  Every entry point whose output argument is
// write-only by contract is called with an output vector that was NEVER initialised by the caller:
// amgcl::backend::numa_vector<double>(n, false), i.e. new double[n] -- under the poisoning
// allocator (poison_new.hpp, -DVQ_POISON) its bytes are 0x00 / 0xFF (a NaN pattern) / 0xAA /
// pseudo-random.  The property module runs each case under every fill and requires bitwise
// identical results (the doubles are printed as their 64-bit patterns).
//
//   ub_spmv alpha A x            backend::spmv(alpha, A, x, 0, y)            y unwritten
//   ub_residual f A x            backend::residual(f, A, x, r)               r unwritten
//   ub_copy x                    backend::copy(x, y)                          y unwritten
//   ub_clear n                   backend::clear(y)                            y unwritten
//   ub_axpby a x                 backend::axpby(a, x, 0, y)                   y unwritten
//   ub_axpbypcz a x b y          backend::axpbypcz(a, x, b, y, 0, z)          z unwritten
//   ub_vmul a x y                backend::vmul(a, x, y, 0, z)                 z unwritten
//   ub_asprec <relax> A rhs      relaxation::as_preconditioner<B, relax>::apply(rhs, x)     x unwritten
//   ub_amg <coarsening> <relax> pre_cycles A rhs      amg::apply(rhs, x)     x unwritten
// The same binary without VQ_POISON works too (fresh malloc memory), but proves nothing.
#include "poison_new.hpp"
#include "vq_io.hpp"
#include <cstring>
#include <cstdint>
#include <amgcl/backend/builtin.hpp>
#include <amgcl/amg.hpp>
#include <amgcl/coarsening/aggregation.hpp>
#include <amgcl/coarsening/smoothed_aggregation.hpp>
#include <amgcl/coarsening/smoothed_aggr_emin.hpp>
#include <amgcl/coarsening/ruge_stuben.hpp>
#include <amgcl/relaxation/damped_jacobi.hpp>
#include <amgcl/relaxation/spai0.hpp>
#include <amgcl/relaxation/spai1.hpp>
#include <amgcl/relaxation/gauss_seidel.hpp>
#include <amgcl/relaxation/ilu0.hpp>
#include <amgcl/relaxation/iluk.hpp>
#include <amgcl/relaxation/ilup.hpp>
#include <amgcl/relaxation/ilut.hpp>
#include <amgcl/relaxation/chebyshev.hpp>
#include <amgcl/relaxation/as_preconditioner.hpp>

using vq::Q; using vq::Tok;
namespace be = amgcl::backend;
namespace rx = amgcl::relaxation;
namespace co = amgcl::coarsening;
typedef be::builtin<double> B;
typedef be::crs<double, ptrdiff_t, ptrdiff_t> M;
typedef be::numa_vector<double> NV;

static std::string bits(const NV &v) {
    std::ostringstream os; os << "[";
    for (size_t i = 0; i < v.size(); ++i) {
        uint64_t u; double d = v[i]; std::memcpy(&u, &d, 8);
        char buf[20]; std::snprintf(buf, sizeof buf, "%016llx", (unsigned long long)u);
        if (i) os << " "; os << buf;
    }
    os << "]"; return os.str();
}
static std::vector<double> dvec(Tok &t) { return t.vecT<double>(); }

VQ_OP(ub_spmv) { double a = t.d(); auto A = t.crsT<double>(); auto x = dvec(t);
    NV y(A->nrows, false); be::spmv(a, *A, x, 0.0, y); return bits(y); }
VQ_OP(ub_residual) { auto f = dvec(t); auto A = t.crsT<double>(); auto x = dvec(t);
    NV r(A->nrows, false); be::residual(f, *A, x, r); return bits(r); }
VQ_OP(ub_copy) { auto x = dvec(t); NV y(x.size(), false); be::copy(x, y); return bits(y); }
VQ_OP(ub_clear) { long n = t.i(); NV y(n, false); be::clear(y); return bits(y); }
VQ_OP(ub_axpby) { double a = t.d(); auto x = dvec(t); NV y(x.size(), false); be::axpby(a, x, 0.0, y); return bits(y); }
VQ_OP(ub_axpbypcz) { double a = t.d(); auto x = dvec(t); double b = t.d(); auto y = dvec(t);
    NV z(x.size(), false); be::axpbypcz(a, x, b, y, 0.0, z); return bits(z); }
VQ_OP(ub_vmul) { double a = t.d(); auto x = dvec(t); auto y = dvec(t);
    NV z(x.size(), false); be::vmul(a, x, y, 0.0, z); return bits(z); }

template <template <class> class R> static void tune(typename R<B>::params &, ...) {}
static void tune_gs(rx::gauss_seidel<B>::params &p) { p.serial = true; }
template <template <class> class R>
static std::string asprec(Tok &t) {
    auto A = t.crsT<double>(); auto rhs = dvec(t);
    typename R<B>::params p;
    B::params bprm;
    rx::as_preconditioner<B, R> P(*A, p, bprm);
    NV x(A->nrows, false);
    P.apply(rhs, x);
    return bits(x);
}
VQ_OP(ub_asprec) {
    std::string r = t.s();
    try {
        if (r == "damped_jacobi") return asprec<rx::damped_jacobi>(t);
        if (r == "spai0") return asprec<rx::spai0>(t);
        if (r == "spai1") return asprec<rx::spai1>(t);
        if (r == "gauss_seidel") return asprec<rx::gauss_seidel>(t);
        if (r == "ilu0") return asprec<rx::ilu0>(t);
        if (r == "iluk") return asprec<rx::iluk>(t);
        if (r == "ilup") return asprec<rx::ilup>(t);
        if (r == "ilut") return asprec<rx::ilut>(t);
        if (r == "chebyshev") return asprec<rx::chebyshev>(t);
    } catch (const std::runtime_error &e) { return std::string("EXC runtime_error"); }
    return "UNSUPPORTED";
}

template <template <class> class C, template <class> class R>
static std::string amg_apply(Tok &t) {
    typedef amgcl::amg<B, C, R> AMG;
    long pre = t.i(); auto A = t.crsT<double>(); auto rhs = dvec(t);
    typename AMG::params p; p.coarse_enough = 2; p.pre_cycles = (unsigned)pre;
    try {
        AMG amg(*A, p);
        NV x(A->nrows, false);
        amg.apply(rhs, x);
        NV y(A->nrows, false);              // a second, again unwritten, output of the same object
        amg.apply(rhs, y);
        return bits(x) + " " + bits(y);
    } catch (const std::runtime_error &e) { return std::string("EXC runtime_error"); }
}
VQ_OP(ub_amg) {
    std::string c = t.s(), r = t.s();
    if (c == "smoothed_aggregation" && r == "spai0") return amg_apply<co::smoothed_aggregation, rx::spai0>(t);
    if (c == "smoothed_aggregation" && r == "spai1") return amg_apply<co::smoothed_aggregation, rx::spai1>(t);
    if (c == "aggregation" && r == "damped_jacobi") return amg_apply<co::aggregation, rx::damped_jacobi>(t);
    if (c == "ruge_stuben" && r == "gauss_seidel") return amg_apply<co::ruge_stuben, rx::gauss_seidel>(t);
    if (c == "smoothed_aggr_emin" && r == "ilu0") return amg_apply<co::smoothed_aggr_emin, rx::ilu0>(t);
    if (c == "aggregation" && r == "chebyshev") return amg_apply<co::aggregation, rx::chebyshev>(t);
    return "UNSUPPORTED";
}

int main() { return vq::driver_main(); }
