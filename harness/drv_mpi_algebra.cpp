// drv_mpi_algebra.cpp -- C11: distributed matrix algebra (amgcl/mpi/distributed_matrix.hpp,
// util.hpp, inner_product.hpp) on the real templates, value type double.
//
// MPI cannot ship bignum rationals through amgcl::mpi::datatype<T>, so the harness runs
// in binary64 on small dyadic inputs: every +,-,* below is exact, results are printed as
// exact rationals (vq::show(double)) and compared byte for byte with the exact model.
//
// Protocol: rank 0 reads case lines from stdin and broadcasts them; every rank parses
// the whole case (global matrix, partitions, vectors), builds ITS strip with global column
// numbers, runs the op through amgcl::mpi, returns a per-rank string; the strings are
// gathered to rank 0, which prints   <id> <op> <s_0> ; <s_1> ; ... ; <s_{np-1}>
// Only rank 0 writes to stdout.
//
// Every op is bracketed by pmpi::begin_op() / pmpi::end_op() (pmpi_trace.hpp): the per-rank string ends with
// " PMPI ok" or " PMPI <violations of the request discipline>"; the model side prints " PMPI ok".
#include "vq_io.hpp"
#include "pmpi_trace.hpp"   // defines MPI_Isend/Irecv/Wait*/Test*: request-discipline monitor (PMPI)
#include <amgcl/backend/builtin.hpp>
#include <amgcl/mpi/util.hpp>
#include <amgcl/mpi/distributed_matrix.hpp>
#include <amgcl/mpi/inner_product.hpp>
#include <limits>
#ifdef _OPENMP
#include <omp.h>
#endif
#include <cstring>

using vq::Tok; using vq::show;
typedef amgcl::backend::builtin<double> Backend;
typedef amgcl::mpi::distributed_matrix<Backend> DM;
typedef amgcl::backend::crs<double> Mat;           // build_matrix (ptrdiff_t indices)
typedef amgcl::backend::crs<double, ptrdiff_t, ptrdiff_t> GMat;

static amgcl::mpi::communicator world;

struct Parts { std::vector<long> sz, beg; long total;
    Parts() : total(0) {}
    explicit Parts(const std::vector<long> &s) : sz(s), beg(s.size() + 1, 0) {
        for (size_t k = 0; k < s.size(); ++k) beg[k+1] = beg[k] + s[k];
        total = beg.back(); }
    long b(int r) const { return beg[r]; } long e(int r) const { return beg[r+1]; } long n(int r) const { return sz[r]; } };

static Parts parts(Tok &t) {
    std::vector<long> s = t.ivec();
    if ((int)s.size() != world.size) throw std::runtime_error("partition size != number of ranks");
    return Parts(s);
}

// rows [rb, re) of the global matrix as a strip with GLOBAL column numbers
static std::shared_ptr<Mat> strip(const GMat &A, long rb, long re) {
    auto S = std::make_shared<Mat>();
    S->set_size(re - rb, A.ncols, false);
    S->ptr[0] = 0;
    for (long i = rb; i < re; ++i) S->ptr[i - rb + 1] = S->ptr[i - rb] + (A.ptr[i+1] - A.ptr[i]);
    S->set_nonzeros(S->ptr[re - rb], true);
    for (long i = rb, h = 0; i < re; ++i)
        for (ptrdiff_t j = A.ptr[i]; j < A.ptr[i+1]; ++j, ++h) { S->col[h] = A.col[j]; S->val[h] = A.val[j]; }
    return S;
}

static std::shared_ptr<DM> dist(const GMat &A, const Parts &rp, const Parts &cp) {
    if (rp.total != (long)A.nrows || cp.total != (long)A.ncols) throw std::runtime_error("partition does not cover the matrix");
    auto S = strip(A, rp.b(world.rank), rp.e(world.rank));
    return std::make_shared<DM>(world, *S, cp.n(world.rank));
}

static std::vector<double> slice(const std::vector<double> &v, const Parts &p) {
    if ((long)v.size() != p.total) throw std::runtime_error("vector size");
    return std::vector<double>(v.begin() + p.b(world.rank), v.begin() + p.e(world.rank));
}

// strip of a distributed matrix with global columns: local entries (shifted) then remote
// entries, each in storage order ("assembled storage order"); canon: sorted by (col, value)
template <class DMT>
static std::string show_strip(const DMT &A, bool canon, long glob_cols) {
    const typename DMT::build_matrix &L = *A.local(); const typename DMT::build_matrix &R = *A.remote();
    long n = A.loc_rows(), shift = A.loc_col_shift();
    std::ostringstream os; os << "{" << n << " " << glob_cols;
    if ((long)L.nrows != n || (long)R.nrows != n) return "BADDM nrows";
    for (long i = 0; i < n; ++i) {
        os << " |";
        std::vector<std::pair<long, std::string> > es;
        if (L.ptr[i+1] < L.ptr[i] || R.ptr[i+1] < R.ptr[i]) return "BADDM ptr";
        for (ptrdiff_t j = L.ptr[i]; j < L.ptr[i+1]; ++j) {
            if (L.col[j] < 0 || L.col[j] >= (ptrdiff_t)L.ncols) return "BADDM local-col-out-of-range";
            es.push_back(std::make_pair((long)L.col[j] + shift, show((double)L.val[j]))); }
        for (ptrdiff_t j = R.ptr[i]; j < R.ptr[i+1]; ++j) {
            long c = R.col[j];
            if (c < 0 || c >= glob_cols) return "BADDM remote-col-out-of-range";
            if (c >= shift && c < shift + (long)L.ncols) return "BADDM remote-col-is-local";
            es.push_back(std::make_pair(c, show((double)R.val[j]))); }
        if (canon) std::sort(es.begin(), es.end());
        for (auto &e : es) os << " " << e.first << ":" << e.second;
    }
    os << "}"; return os.str();
}

template <class V> static std::string ivs(const V &v) { return vq::show_ivec(std::vector<long>(v.begin(), v.end())); }

// ---------------------------------------------------------------- ops
typedef std::string (*Op)(Tok&);
static std::map<std::string, Op>& ops() { static std::map<std::string, Op> m; return m; }
struct RegOp { RegOp(const char *n, Op f) { ops()[n] = f; } };
#define MOP(name) static std::string mop_##name(Tok &t); static RegOp rop_##name(#name, mop_##name); static std::string mop_##name(Tok &t)

static const double NaN = std::numeric_limits<double>::quiet_NaN();

// split A rparts cparts: the constructor's local/remote split (storage order)
MOP(split) {
    auto A = t.crsT<double>(); Parts rp = parts(t), cp = parts(t);
    auto D = dist(*A, rp, cp);
    std::ostringstream os;
    os << show_strip(*D, false, cp.total) << " " << D->glob_rows() << " " << D->glob_cols() << " " << D->glob_nonzeros();
    return os.str();
}

// cpat A rparts cparts: the communication pattern of this rank
MOP(cpat) {
    auto A = t.crsT<double>(); Parts rp = parts(t), cp = parts(t);
    auto D = dist(*A, rp, cp);
    const amgcl::mpi::comm_pattern<Backend> &C = D->cpat();
    std::vector< std::pair<long, std::pair<long,long> > > idx;
    for (auto it = C.remote_begin(); it != C.remote_end(); ++it)
        idx.push_back(std::make_pair((long)it->first, std::make_pair((long)std::get<0>(it->second), (long)std::get<1>(it->second))));
    std::sort(idx.begin(), idx.end());
    std::ostringstream os;
    os << "recv " << ivs(C.recv.nbr) << " " << ivs(C.recv.ptr) << " send " << ivs(C.send.nbr) << " " << ivs(C.send.ptr)
       << " " << ivs(C.send.col) << " idx [";
    for (size_t k = 0; k < idx.size(); ++k) os << (k ? " " : "") << idx[k].first << ">" << idx[k].second.first << "," << idx[k].second.second;
    os << "] cnt " << C.recv.count() << " " << C.send.count() << " " << (C.needs_remote() ? 1 : 0) << " " << C.loc_col_shift();
    return os.str();
}

// spmv alpha A rparts cparts x beta y
MOP(spmv) {
    double alpha = t.d(); auto A = t.crsT<double>(); Parts rp = parts(t), cp = parts(t);
    std::vector<double> x = t.vecT<double>(); double beta = t.d(); std::vector<double> y = t.vecT<double>();
    auto D = dist(*A, rp, cp); D->move_to_backend();
    std::vector<double> xl = slice(x, cp), yl = slice(y, rp);
    amgcl::backend::spmv(alpha, *D, xl, beta, yl);
    return show(yl);
}

// residual f A rparts cparts x   (the output vector starts as NaN junk)
MOP(residual) {
    std::vector<double> f = t.vecT<double>(); auto A = t.crsT<double>(); Parts rp = parts(t), cp = parts(t);
    std::vector<double> x = t.vecT<double>();
    auto D = dist(*A, rp, cp); D->move_to_backend();
    std::vector<double> xl = slice(x, cp), fl = slice(f, rp), r(fl.size(), NaN);
    amgcl::backend::residual(fl, *D, xl, r);
    return show(r);
}

// spmv2: two products in a row with the same matrix (exchange buffers are reused)
MOP(spmv2) {
    auto A = t.crsT<double>(); Parts rp = parts(t), cp = parts(t);
    std::vector<double> x1 = t.vecT<double>(), x2 = t.vecT<double>();
    auto D = dist(*A, rp, cp); D->move_to_backend();
    std::vector<double> a = slice(x1, cp), b = slice(x2, cp), y1(rp.n(world.rank), NaN), y2(rp.n(world.rank), NaN);
    amgcl::backend::spmv(1.0, *D, a, 0.0, y1);
    amgcl::backend::spmv(1.0, *D, b, 0.0, y2);
    return show(y1) + " " + show(y2);
}

// spmvres A rparts cparts x1 f x2 x3 : product, residual, product on the SAME matrix without any
// synchronisation in between (the exchange buffers and request variables are reused three times)
MOP(spmvres) {
    auto A = t.crsT<double>(); Parts rp = parts(t), cp = parts(t);
    std::vector<double> x1 = t.vecT<double>(), f = t.vecT<double>(), x2 = t.vecT<double>(), x3 = t.vecT<double>();
    auto D = dist(*A, rp, cp); D->move_to_backend();
    long n = rp.n(world.rank);
    std::vector<double> a = slice(x1, cp), b = slice(x2, cp), c = slice(x3, cp), fl = slice(f, rp), y1(n, NaN), r2(n, NaN), y3(n, NaN);
    amgcl::backend::spmv(1.0, *D, a, 0.0, y1);
    amgcl::backend::residual(fl, *D, b, r2);
    amgcl::backend::spmv(1.0, *D, c, 0.0, y3);
    return show(y1) + " " + show(r2) + " " + show(y3);
}

// xtrace A rparts cparts x1 x2 : the MPI call sequence (pmpi::trace) of two consecutive products, compared
// with the message-passing program of DistMsg.v (exch_prog, two rounds)
MOP(xtrace) {
    auto A = t.crsT<double>(); Parts rp = parts(t), cp = parts(t);
    std::vector<double> x1 = t.vecT<double>(), x2 = t.vecT<double>();
    auto D = dist(*A, rp, cp); D->move_to_backend();
    std::vector<double> a = slice(x1, cp), b = slice(x2, cp), y1(rp.n(world.rank), NaN), y2(rp.n(world.rank), NaN);
    pmpi::mark();
    amgcl::backend::spmv(1.0, *D, a, 0.0, y1);
    amgcl::backend::spmv(1.0, *D, b, 0.0, y2);
    return pmpi::trace();
}

// inner parts x y
MOP(inner) {
    Parts p = parts(t); std::vector<double> x = t.vecT<double>(), y = t.vecT<double>();
    std::vector<double> xl = slice(x, p), yl = slice(y, p);
    amgcl::mpi::inner_product ip(world);
    return show(ip(xl, yl));
}

// transpose A rparts cparts
MOP(transpose) {
    auto A = t.crsT<double>(); Parts rp = parts(t), cp = parts(t);
    auto D = dist(*A, rp, cp);
    auto T = amgcl::mpi::transpose(*D);
    std::ostringstream os;
    os << show_strip(*T, true, rp.total) << " " << T->glob_rows() << " " << T->glob_cols() << " " << T->glob_nonzeros();
    return os.str();
}

// transpose_s A rparts cparts : the same in storage order (local entries, then received remote
// entries in arrival-slot order), compared with the rank-by-rank model Dist.dist_transpose
MOP(transpose_s) {
    auto A = t.crsT<double>(); Parts rp = parts(t), cp = parts(t);
    auto D = dist(*A, rp, cp);
    auto T = amgcl::mpi::transpose(*D);
    return show_strip(*T, false, rp.total);
}

// product A rpA cpA B cpB   (rows of B are distributed like the columns of A)
MOP(product) {
    auto A = t.crsT<double>(); Parts rpA = parts(t), cpA = parts(t);
    auto B = t.crsT<double>(); Parts cpB = parts(t);
    auto DA = dist(*A, rpA, cpA); auto DB = dist(*B, cpA, cpB);
    auto C = amgcl::mpi::product(*DA, *DB);
    std::ostringstream os;
    os << show_strip(*C, true, cpB.total) << " " << C->glob_rows() << " " << C->glob_cols() << " " << C->glob_nonzeros();
    return os.str();
}

// product_s A rpA cpA B cpB : the same in storage order, compared with the rank-by-rank model Dist.dist_product
MOP(product_s) {
    auto A = t.crsT<double>(); Parts rpA = parts(t), cpA = parts(t);
    auto B = t.crsT<double>(); Parts cpB = parts(t);
    auto DA = dist(*A, rpA, cpA); auto DB = dist(*B, cpA, cpB);
    auto C = amgcl::mpi::product(*DA, *DB);
    return show_strip(*C, false, cpB.total);
}

// rrows A rpA cpA B cpB : remote_rows(A.cpat(), B) = rows of B for the ghost columns of A
MOP(rrows) {
    auto A = t.crsT<double>(); Parts rpA = parts(t), cpA = parts(t);
    auto B = t.crsT<double>(); Parts cpB = parts(t);
    auto DA = dist(*A, rpA, cpA); auto DB = dist(*B, cpA, cpB);
    auto N = amgcl::mpi::remote_rows(DA->cpat(), *DB, true);
    N->ncols = cpB.total;
    return vq::show_crs(*N, false);
}

// scale A rparts cparts s
MOP(scale) {
    auto A = t.crsT<double>(); Parts rp = parts(t), cp = parts(t); double s = t.d();
    auto D = dist(*A, rp, cp);
    amgcl::mpi::scale(*D, s);
    return show_strip(*D, false, cp.total);
}

// sort_rows A rparts cparts
MOP(sort_rows) {
    auto A = t.crsT<double>(); Parts rp = parts(t), cp = parts(t);
    auto D = dist(*A, rp, cp);
    amgcl::mpi::sort_rows(*D);
    return show_strip(*D, false, cp.total);
}

// tspmv A rparts cparts x : (A^T) x through transpose + move_to_backend + spmv
MOP(tspmv) {
    auto A = t.crsT<double>(); Parts rp = parts(t), cp = parts(t); std::vector<double> x = t.vecT<double>();
    auto D = dist(*A, rp, cp);
    auto T = amgcl::mpi::transpose(*D); T->move_to_backend();
    std::vector<double> xl = slice(x, rp), y(cp.n(world.rank), NaN);
    amgcl::backend::spmv(1.0, *T, xl, 0.0, y);
    return show(y);
}

// pspmv A rpA cpA B cpB x : (A B) x through product + move_to_backend + spmv
MOP(pspmv) {
    auto A = t.crsT<double>(); Parts rpA = parts(t), cpA = parts(t);
    auto B = t.crsT<double>(); Parts cpB = parts(t); std::vector<double> x = t.vecT<double>();
    auto DA = dist(*A, rpA, cpA); auto DB = dist(*B, cpA, cpB);
    auto C = amgcl::mpi::product(*DA, *DB); C->move_to_backend();
    std::vector<double> xl = slice(x, cpB), y(rpA.n(world.rank), NaN);
    amgcl::backend::spmv(1.0, *C, xl, 0.0, y);
    return show(y);
}

// gersh scale A parts : Gershgorin estimate (power_iters = 0), value seen by this rank
MOP(gersh) {
    long sc = t.i(); auto A = t.crsT<double>(); Parts p = parts(t);
    auto D = dist(*A, p, p);
    double r = sc ? amgcl::backend::spectral_radius<true>(*D, 0) : amgcl::backend::spectral_radius<false>(*D, 0);
    return show(r);
}

// gersht scale nt A parts : the same with nt OpenMP threads on every rank (per-thread maxima combined in
// the critical section, then Allreduce(MAX))
MOP(gersht) {
    long sc = t.i(); long nt = t.i(); auto A = t.crsT<double>(); Parts p = parts(t);
    if (nt < 1) throw std::runtime_error("thread count");
    auto D = dist(*A, p, p);
#ifdef _OPENMP
    int old_nt = omp_get_max_threads(), old_dyn = omp_get_dynamic();
    omp_set_dynamic(0); omp_set_num_threads((int)nt);
#endif
    double r = sc ? amgcl::backend::spectral_radius<true>(*D, 0) : amgcl::backend::spectral_radius<false>(*D, 0);
#ifdef _OPENMP
    omp_set_num_threads(old_nt); omp_set_dynamic(old_dyn);
#endif
    return show(r);
}

// power scale iters A parts : power-method estimate; only rank-consistency is checked
MOP(power) {
    long sc = t.i(); long it = t.i(); auto A = t.crsT<double>(); Parts p = parts(t);
    auto D = dist(*A, p, p);
    double r = sc ? amgcl::backend::spectral_radius<true>(*D, (int)it) : amgcl::backend::spectral_radius<false>(*D, (int)it);
    unsigned long long bits; std::memcpy(&bits, &r, 8);
    std::ostringstream os; os << "bits:" << std::hex << bits; return os.str();
}

// copyf A rparts cparts x : copy to another backend (builtin<float>), then spmv there
MOP(copyf) {
    typedef amgcl::backend::builtin<float> FB;
    auto A = t.crsT<double>(); Parts rp = parts(t), cp = parts(t); std::vector<double> x = t.vecT<double>();
    auto D = dist(*A, rp, cp);
    amgcl::mpi::distributed_matrix<FB> F(*D);
    F.move_to_backend();
    std::vector<double> xd = slice(x, cp); std::vector<float> xl(xd.begin(), xd.end()), y(rp.n(world.rank), std::numeric_limits<float>::quiet_NaN());
    amgcl::backend::spmv(1.0f, F, xl, 0.0f, y);
    std::vector<double> yd(y.begin(), y.end());
    std::ostringstream os; os << show(yd) << " " << F.glob_rows() << " " << F.glob_cols() << " " << F.glob_nonzeros();
    return os.str();
}

// ---------------------------------------------------------------- operation histories on ONE object (DistMove.v)
// hist A rparts cparts B kparts x f nsteps step*  : D = distributed_matrix(A); then the steps, in order, on the SAME object:
//   mv0 / mv1   D.move_to_backend(bprm, keep_src = false / true); prints which of A_loc A_rem a_loc a_rem exist and the size
//               of the ghost vector C->x_rem
//   dump        what local()/remote() return (strip in global numbering, storage order; "-" when released) and the two
//               backend matrices (remote one with renumbered columns, ncols = recv.count())
//   spmv / res  product / residual through the backend view ("NOBK" before the first mv)
//   copyf       copy constructor to builtin<float>, move_to_backend(keep) there, product there, its kept source
//   tr, prod (D*B), ata (D^T*D), rrt (remote_rows(D^T pattern, D)), g0 / g1 (Gershgorin), pw (power method: bitwise the
//               same as on a freshly built, never moved object)           -- consumers of local()/remote(): "NOSRC" when released
// Per-rank output: the step outputs joined by " / ".
// Before a consumer that communicates, all ranks agree (Allreduce) that every remote column of the source is a key of
// idx; if not (e.g. the kept source was renumbered in place) the history stops with "BADSRC": the real consumer would
// throw std::out_of_range on that rank only and leave the other ranks waiting in MPI_Waitall.
template <class DMT>
static bool src_ok(const DMT &D) {
    int ok = 1;
    if (D.local() && D.remote()) {
        const typename DMT::build_matrix &R = *D.remote();
        for (size_t j = 0; j < R.nnz; ++j) { try { (void)D.cpat().local_index(R.col[j]); } catch (const std::out_of_range&) { ok = 0; } }
    }
    int all = 0; MPI_Allreduce(&ok, &all, 1, MPI_INT, MPI_MIN, world);
    return all != 0;
}
template <class M> static std::string show_opt(const std::shared_ptr<M> &p) { return p ? vq::show_crs(*p, false) : std::string("-"); }

MOP(hist) {
    typedef amgcl::backend::builtin<float> FB;
    auto A = t.crsT<double>(); Parts rp = parts(t), cp = parts(t);
    auto B = t.crsT<double>(); Parts kp = parts(t);
    std::vector<double> x = t.vecT<double>(), f = t.vecT<double>();
    long ns = t.i(); std::vector<std::string> steps; for (long k = 0; k < ns; ++k) steps.push_back(t.s());
    auto D = dist(*A, rp, cp);
    std::vector<double> xl = slice(x, cp), fl = slice(f, rp);
    long n = rp.n(world.rank);
    std::string out;
    for (size_t k = 0; k < steps.size(); ++k) {
        const std::string &st = steps[k];
        std::ostringstream os;
        bool has_src = D->local() && D->remote();
        bool needs_src = !(st == "mv0" || st == "mv1" || st == "dump" || st == "spmv" || st == "res");
        if (st == "mv0" || st == "mv1") {
            D->move_to_backend(Backend::params(), st == "mv1");
            os << "mv" << (D->local_backend() ? 1 : 0) << (D->remote_backend() ? 1 : 0) << (D->local() ? 1 : 0) << (D->remote() ? 1 : 0)
               << " x";
            if (D->cpat().x_rem) os << D->cpat().x_rem->size(); else os << "-";
        } else if (st == "dump") {
            os << "src=";
            if (has_src) os << show_strip(*D, false, cp.total);
            else if (!D->local() && !D->remote()) os << "-";
            else os << "HALF" << (D->local() ? 1 : 0) << (D->remote() ? 1 : 0);
            os << " bk=" << show_opt(D->local_backend()) << "," << show_opt(D->remote_backend());
        } else if (st == "spmv" || st == "res") {
            if (!D->local_backend()) os << "NOBK";
            else {
                std::vector<double> y(n, NaN);
                if (st == "spmv") amgcl::backend::spmv(1.0, *D, xl, 0.0, y); else amgcl::backend::residual(fl, *D, xl, y);
                os << show(y);
            }
        } else if (needs_src && !has_src) {
            os << "NOSRC";
        } else if (!src_ok(*D)) {
            out += (k ? " / " : "") + std::string("BADSRC"); break;
        } else if (st == "tr") {
            auto T = amgcl::mpi::transpose(*D);
            os << show_strip(*T, false, rp.total) << " " << T->glob_rows() << " " << T->glob_cols() << " " << T->glob_nonzeros();
        } else if (st == "prod") {
            auto DB = dist(*B, cp, kp);
            auto C = amgcl::mpi::product(*D, *DB);
            os << show_strip(*C, false, kp.total) << " " << C->glob_rows() << " " << C->glob_cols() << " " << C->glob_nonzeros();
        } else if (st == "ata") {
            auto T = amgcl::mpi::transpose(*D);
            auto C = amgcl::mpi::product(*T, *D);
            os << show_strip(*C, false, cp.total) << " " << C->glob_rows() << " " << C->glob_cols() << " " << C->glob_nonzeros();
        } else if (st == "rrt") {
            auto T = amgcl::mpi::transpose(*D);
            auto N = amgcl::mpi::remote_rows(T->cpat(), *D, true);
            N->ncols = cp.total;
            os << vq::show_crs(*N, false);
        } else if (st == "copyf") {
            amgcl::mpi::distributed_matrix<FB> F(*D);
            F.move_to_backend(FB::params(), true);
            std::vector<float> xf(xl.begin(), xl.end()), y(n, std::numeric_limits<float>::quiet_NaN());
            amgcl::backend::spmv(1.0f, F, xf, 0.0f, y);
            std::vector<double> yd(y.begin(), y.end());
            os << show(yd) << " " << F.glob_rows() << " " << F.glob_cols() << " " << F.glob_nonzeros() << " " << show_strip(F, false, cp.total);
        } else if (st == "g0" || st == "g1") {
            double r = st == "g1" ? amgcl::backend::spectral_radius<true>(*D, 0) : amgcl::backend::spectral_radius<false>(*D, 0);
            os << show(r);
        } else if (st == "pw") {
            auto D0 = dist(*A, rp, cp);
            double r0 = amgcl::backend::spectral_radius<true>(*D0, 3), r1 = amgcl::backend::spectral_radius<true>(*D, 3);
            if (std::memcmp(&r0, &r1, 8) == 0) os << "pw same"; else os << "pw DIFF " << r0 << " " << r1;
        } else throw std::runtime_error("hist: unknown step " + st);
        out += (k ? " / " : "") + os.str();
    }
    return out;
}

// ---------------------------------------------------------------- main loop
int main(int argc, char **argv) {
    MPI_Init(&argc, &argv);
    {
        world = amgcl::mpi::communicator(MPI_COMM_WORLD);
        for (;;) {
            std::string line; long len = -1;
            if (world.rank == 0) { if (std::getline(std::cin, line)) len = (long)line.size(); }
            MPI_Bcast(&len, 1, MPI_LONG, 0, world);
            if (len < 0) break;
            line.resize(len);
            if (len) MPI_Bcast(&line[0], (int)len, MPI_CHAR, 0, world);
            if (line.empty() || line[0] == '#') continue;
            Tok t(line);
            std::string id = t.s(), op = t.s(), out;
            // "tr:<op>": run <op>, return the rank's MPI call sequence (pmpi::trace) instead of the result; the
            // extracted Coq discipline checker (DistMsg.v) is run on it by tools/props/C11.py
            bool want_trace = op.compare(0, 3, "tr:") == 0;
            auto it = ops().find(want_trace ? op.substr(3) : op);
            if (it == ops().end()) out = "UNSUPPORTED";
            else {
                pmpi::begin_op();
                try { out = it->second(t); if (want_trace) out = pmpi::trace(); }
                catch (const std::exception &e) { out = std::string("EXC ") + vq::exc_kind(e); }
                out += " PMPI " + pmpi::end_op();
            }
            // gather the per-rank strings on rank 0
            int mylen = (int)out.size();
            std::vector<int> lens(world.size), displ(world.size + 1, 0);
            MPI_Gather(&mylen, 1, MPI_INT, lens.data(), 1, MPI_INT, 0, world);
            std::string all;
            if (world.rank == 0) { for (int r = 0; r < world.size; ++r) displ[r+1] = displ[r] + lens[r]; all.resize(displ[world.size]); }
            MPI_Gatherv(const_cast<char*>(out.data()), mylen, MPI_CHAR, world.rank == 0 ? &all[0] : 0, lens.data(), displ.data(), MPI_CHAR, 0, world);
            if (world.rank == 0) {
                std::cout << id << " " << op << " ";
                for (int r = 0; r < world.size; ++r) { if (r) std::cout << " ; "; std::cout << all.substr(displ[r], lens[r]); }
                std::cout << " $" << std::endl;      // end-of-record mark: a line cut short by a dying launcher is detectable
            }
        }
    }
    MPI_Finalize();
    return 0;
}
