// drv_blocks_spmv.cpp -- C13-A2/A3: the block-valued matrix-vector product and residual, exact (vq::Q).
//   bspmv  b A x alpha beta y : crs<static_matrix<Q,b,b>>(adapter::block_matrix(A)); backend::spmv with the
//                               vectors re-interpreted by backend::reinterpret_as_rhs     -> {block crs} [y]
//   hspmv  b A x alpha beta y : backend::builtin_hybrid<block>::copy_matrix(A) (block storage) and
//                               backend::spmv with SCALAR vectors (mixed spmv_impl)        -> [y]
//   bresid b A f x r          : backend::residual, block matrix, re-interpreted vectors    -> [r]
//   hresid b A f x r          : backend::residual, hybrid (scalar vectors)                 -> [r]
// Model side: ocaml/blockspmv/ops_blockspmv.ml = the extracted Kernels.spmv / Kernels.residual evaluated AT THE
// SCALAR INSTANCE BlockInst.BlockS on BlockSpmv.block_matrix / as_rhs (the objects of theorem C13_block_spmv).
#include "vq_io.hpp"
#include <amgcl/adapter/crs_tuple.hpp>
#include <amgcl/adapter/block_matrix.hpp>
#include <amgcl/value_type/static_matrix.hpp>
#include <amgcl/backend/builtin.hpp>
#include <amgcl/backend/builtin_hybrid.hpp>
using vq::Q; using vq::Tok; using vq::show;
namespace be = amgcl::backend;

#define AD_OP(name) static std::string body_##name(vq::Tok &t); \
    VQ_OP(name) { try { return body_##name(t); } catch (const std::exception &e) { return "EXC " + vq::exc_kind(e); } } \
    static std::string body_##name(vq::Tok &t)

template <int b> static std::string show_blk(const amgcl::static_matrix<Q, b, b> &v) {
    std::ostringstream os; os << "(";
    for (int i = 0; i < b; ++i) { if (i) os << ";"; for (int j = 0; j < b; ++j) { if (j) os << ","; os << v(i, j).str(); } }
    os << ")"; return os.str();
}
template <int b, class M> static std::string dump_blocks(const M &A) {
    std::ostringstream os; size_t n = be::rows(A), m = be::cols(A);
    os << "{" << n << " " << m;
    for (size_t i = 0; i < n; ++i) {
        os << " |";
        for (auto a = be::row_begin(A, i); a; ++a) {
            if ((size_t)a.col() >= m) return "BADCRS col-out-of-range";
            os << " " << (long)a.col() << ":" << show_blk<b>(a.value());
        }
    }
    os << "}"; return os.str();
}

template <int b> static std::string run(const std::string &op, Tok &t) {
    typedef amgcl::static_matrix<Q, b, b> BT; typedef amgcl::static_matrix<Q, b, 1> RT;
    typedef be::builtin_hybrid<BT> HB;
    auto S = t.crs();
    if (op == "bspmv" || op == "hspmv") {
        std::vector<Q> x = t.vec(); Q alpha = t.q(), beta = t.q(); std::vector<Q> y = t.vec();
        if (op == "bspmv") {
            be::crs<BT> C(amgcl::adapter::block_matrix<BT>(*S));
            auto X = be::reinterpret_as_rhs<RT>(x); auto Y = be::reinterpret_as_rhs<RT>(y);
            be::spmv(alpha, C, X, beta, Y);
            return dump_blocks<b>(C) + " " + show(y);
        } else {
            auto M = HB::copy_matrix(S, typename HB::params());
            be::spmv(alpha, *M, x, beta, y);
            return show(y);
        }
    } else {
        std::vector<Q> f = t.vec(), x = t.vec(), r = t.vec();
        if (op == "bresid") {
            be::crs<BT> C(amgcl::adapter::block_matrix<BT>(*S));
            auto F = be::reinterpret_as_rhs<RT>(f); auto X = be::reinterpret_as_rhs<RT>(x); auto R = be::reinterpret_as_rhs<RT>(r);
            be::residual(F, C, X, R);
            return show(r);
        } else {
            auto M = HB::copy_matrix(S, typename HB::params());
            be::residual(f, *M, x, r);
            return show(r);
        }
    }
}
static std::string dispatch(const std::string &op, Tok &t) {
    long b = t.i();
    if (b == 2) return run<2>(op, t);
    if (b == 3) return run<3>(op, t);
    if (b == 4) return run<4>(op, t);
    throw std::invalid_argument("block size");
}
AD_OP(bspmv)  { return dispatch("bspmv", t); }
AD_OP(hspmv)  { return dispatch("hspmv", t); }
AD_OP(bresid) { return dispatch("bresid", t); }
AD_OP(hresid) { return dispatch("hresid", t); }
int main() { return vq::driver_main(); }
