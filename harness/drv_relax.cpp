// drv_relax.cpp -- C06: every relaxation class of amgcl instantiated with the exact
// rational value type on the builtin backend.
//
// Sweep ops:   <relax> <mode> <params...> <A> <rhs> <x>      -> x after the call
//   mode = pre | post | apply | asprec (relaxation::as_preconditioner<B,R>::apply)
//   relax/params:  jacobi <damping> | spai0 | gs | cheby <degree> <lower> <higher> <scale>
//                  ilu0 <damping> | iluk <k> <damping> | ilup <k> <damping> | ilut <p> <tau> <damping>
//   (gauss_seidel: params.serial = true; ILU family: params.solve.serial = true;
//    chebyshev: power_iters = 0, i.e. Gershgorin bound)
// Factor ops:  ilu0_factors <A> | iluk_factors <k> <A> | ilup_factors <k> <A> | ilut_factors <p> <tau> <A>
//              -> "{L} {U} [D]" exactly as handed to detail::ilu_solve (D = inverted pivots)
// Other:       spai0_m <A> -> M ;  jacobi_dia <A> -> dia ; gersh <scale> <A> -> spectral_radius<scale>(A, 0)
//
// The private member `ilu` (`base` for ilup) of the ILU classes is read through the
// explicit-instantiation idiom (access checks do not apply to explicit instantiation
// arguments); L/U/D inside detail::ilu_solve through the AMGCL_VERIF friend accessor.
#include "vq_io.hpp"
#include "vq_access.hpp"
#include <amgcl/backend/builtin.hpp>
#include <amgcl/relaxation/damped_jacobi.hpp>
#include <amgcl/relaxation/spai0.hpp>
#include <amgcl/relaxation/gauss_seidel.hpp>
#include <amgcl/relaxation/chebyshev.hpp>
#include <amgcl/relaxation/ilu0.hpp>
#include <amgcl/relaxation/iluk.hpp>
#include <amgcl/relaxation/ilup.hpp>
#ifdef VQ_Q_HAS_INT_CONV
#include <amgcl/relaxation/ilut.hpp>
#endif
#include <amgcl/relaxation/spai1.hpp>
#include <amgcl/relaxation/as_preconditioner.hpp>
#include <amgcl/value_type/complex.hpp>
#include <complex>

using vq::Q; using vq::Tok; using vq::show;
namespace rx = amgcl::relaxation;
typedef amgcl::backend::builtin<Q> B;
typedef rx::detail::ilu_solve<B> IluSolve;

// ---- private member access by explicit instantiation
template <class Tag> struct Stolen { static typename Tag::type ptr; };
template <class Tag> typename Tag::type Stolen<Tag>::ptr;
template <class Tag, typename Tag::type p> struct Steal {
    struct Init { Init() { Stolen<Tag>::ptr = p; } };
    static Init init;
};
template <class Tag, typename Tag::type p> typename Steal<Tag, p>::Init Steal<Tag, p>::init;

struct tag_ilu0 { typedef std::shared_ptr<IluSolve> rx::ilu0<B>::*type; };
template struct Steal<tag_ilu0, &rx::ilu0<B>::ilu>;
struct tag_iluk { typedef std::shared_ptr<IluSolve> rx::iluk<B>::*type; };
template struct Steal<tag_iluk, &rx::iluk<B>::ilu>;
struct tag_ilup { typedef std::shared_ptr< rx::ilu0<B> > rx::ilup<B>::*type; };
template struct Steal<tag_ilup, &rx::ilup<B>::base>;
#ifdef VQ_Q_HAS_INT_CONV
struct tag_ilut { typedef std::shared_ptr<IluSolve> rx::ilut<B>::*type; };
template struct Steal<tag_ilut, &rx::ilut<B>::ilu>;
#endif

static const IluSolve& solver_of(const rx::ilu0<B> &r) { return *(r.*Stolen<tag_ilu0>::ptr); }
static const IluSolve& solver_of(const rx::iluk<B> &r) { return *(r.*Stolen<tag_iluk>::ptr); }
static const IluSolve& solver_of(const rx::ilup<B> &r) { return solver_of(*(r.*Stolen<tag_ilup>::ptr)); }
#ifdef VQ_Q_HAS_INT_CONV
static const IluSolve& solver_of(const rx::ilut<B> &r) { return *(r.*Stolen<tag_ilut>::ptr); }
#endif

template <class V> static std::string show_numa(const V &v, size_t n) {
    std::vector<Q> w(n); for (size_t i = 0; i < n; ++i) w[i] = v[i]; return show(w);
}
template <class R> static std::string factors(const R &r) {
    const IluSolve &s = solver_of(r);
    auto L = amgcl::verif::access::ilu_L(s); auto U = amgcl::verif::access::ilu_U(s); auto D = amgcl::verif::access::ilu_D(s);
    if (!L || !U || !D) return "NOFACTORS (ilu_solve not in serial mode)";
    return vq::show_crs(*L) + " " + vq::show_crs(*U) + " " + show_numa(*D, L->nrows);
}

// precondition() throws std::runtime_error(message): keep the two ILU messages apart
static std::string exc_of(const std::runtime_error &e) {
    std::string w = e.what();
    if (w.find("Zero pivot") != std::string::npos) return "EXC zero_pivot";
    if (w.find("No diagonal") != std::string::npos) return "EXC no_diag";
    return "EXC runtime_error";
}

template <template <class> class R, class Prm>
static std::string sweep(const std::string &mode, const Prm &prm, Tok &t) {
    auto A = t.crs(); std::vector<Q> rhs = t.vec(); std::vector<Q> x = t.vec();
    B::params bprm;
    try {
        if (mode == "asprec") {
            rx::as_preconditioner<B, R> P(A, prm, bprm);
            P.apply(rhs, x);
            return show(x);
        }
        R<B> S(*A, prm, bprm);
        std::vector<Q> tmp(A->nrows);
        if      (mode == "pre")   S.apply_pre (*A, rhs, x, tmp);
        else if (mode == "post")  S.apply_post(*A, rhs, x, tmp);
        else if (mode == "apply") S.apply(*A, rhs, x);
        else return "BADMODE";
        return show(x);
    } catch (const std::runtime_error &e) { return exc_of(e); }
}

VQ_OP(jacobi) { std::string m = t.s(); rx::damped_jacobi<B>::params p; p.damping = t.q(); return sweep<rx::damped_jacobi>(m, p, t); }
VQ_OP(spai0)  { std::string m = t.s(); rx::spai0<B>::params p; return sweep<rx::spai0>(m, p, t); }
VQ_OP(gs)     { std::string m = t.s(); rx::gauss_seidel<B>::params p; p.serial = true; return sweep<rx::gauss_seidel>(m, p, t); }
static rx::chebyshev<B>::params cheby_prm(Tok &t) {
    rx::chebyshev<B>::params p;
    p.degree = (unsigned)t.i(); p.lower = (float)t.d(); p.higher = (float)t.d(); p.scale = (t.i() != 0); p.power_iters = 0;
    return p;
}
VQ_OP(cheby)  { std::string m = t.s(); auto p = cheby_prm(t); return sweep<rx::chebyshev>(m, p, t); }
static rx::ilu0<B>::params ilu0_prm(Tok &t) { rx::ilu0<B>::params p; p.damping = t.q(); p.solve.serial = true; return p; }
static rx::iluk<B>::params iluk_prm(Tok &t) { rx::iluk<B>::params p; p.k = (int)t.i(); p.damping = t.q(); p.solve.serial = true; return p; }
static rx::ilup<B>::params ilup_prm(Tok &t) { rx::ilup<B>::params p; p.k = (int)t.i(); p.damping = t.q(); p.solve.serial = true; return p; }
VQ_OP(ilu0)   { std::string m = t.s(); auto p = ilu0_prm(t); return sweep<rx::ilu0>(m, p, t); }
// the level-scheduled PARALLEL forms (taken when >= 4 OpenMP threads are available at construction):
// gauss_seidel::parallel_sweep and ilu_solve::sptr_solve; same model ops as the serial forms
// (C09 proves schedule-validity => serial result; C06 demands the sweep's definition of both forms)
VQ_OP(gsp)    { std::string m = t.s(); rx::gauss_seidel<B>::params p; p.serial = false; return sweep<rx::gauss_seidel>(m, p, t); }
VQ_OP(ilu0p)  { std::string m = t.s(); auto p = ilu0_prm(t); p.solve.serial = false; return sweep<rx::ilu0>(m, p, t); }
VQ_OP(iluk)   { std::string m = t.s(); auto p = iluk_prm(t); return sweep<rx::iluk>(m, p, t); }
VQ_OP(ilup)   { std::string m = t.s(); auto p = ilup_prm(t); return sweep<rx::ilup>(m, p, t); }

template <template <class> class R, class Prm>
static std::string factors_of(const Prm &prm, Tok &t) {
    auto A = t.crs();
    try { R<B> S(*A, prm, B::params()); return factors(S); }
    catch (const std::runtime_error &e) { return exc_of(e); }
}
VQ_OP(ilu0_factors) { rx::ilu0<B>::params p; p.solve.serial = true; return factors_of<rx::ilu0>(p, t); }
VQ_OP(iluk_factors) { rx::iluk<B>::params p; p.k = (int)t.i(); p.solve.serial = true; return factors_of<rx::iluk>(p, t); }
VQ_OP(ilup_factors) { rx::ilup<B>::params p; p.k = (int)t.i(); p.solve.serial = true; return factors_of<rx::ilup>(p, t); }

#ifdef VQ_Q_HAS_INT_CONV
static rx::ilut<B>::params ilut_prm(Tok &t, bool with_damping) {
    rx::ilut<B>::params p; p.p = t.q(); p.tau = t.q(); if (with_damping) p.damping = t.q(); p.solve.serial = true; return p;
}
VQ_OP(ilut)         { std::string m = t.s(); auto p = ilut_prm(t, true); return sweep<rx::ilut>(m, p, t); }
VQ_OP(ilut_factors) { auto p = ilut_prm(t, false); return factors_of<rx::ilut>(p, t); }
#endif

// the solver alone on given factors: ilu_solve <L> <U> <D> <x>
VQ_OP(ilu_solve) {
    auto L = t.crs(); auto U = t.crs(); std::vector<Q> d = t.vec(); std::vector<Q> x = t.vec();
    auto D = std::make_shared< amgcl::backend::numa_vector<Q> >(d.size(), false);
    for (size_t i = 0; i < d.size(); ++i) (*D)[i] = d[i];
    IluSolve::params p; p.serial = true;
    IluSolve s(L, U, D, p, B::params());
    s.solve(x);
    return show(x);
}

VQ_OP(spai0_m)    { auto A = t.crs(); rx::spai0<B> S(*A, rx::spai0<B>::params(), B::params()); return show_numa(*S.M, A->nrows); }
VQ_OP(jacobi_dia) { auto A = t.crs(); rx::damped_jacobi<B> S(*A, rx::damped_jacobi<B>::params(), B::params()); return show_numa(*S.dia, A->nrows); }
VQ_OP(gersh) {
    bool scale = (t.i() != 0); auto A = t.crs();
    return show(scale ? amgcl::backend::spectral_radius<true>(*A, 0) : amgcl::backend::spectral_radius<false>(*A, 0));
}

// complex value type (DESIGN section 8 item 9): spai0_cplx <n> (k (col re im)*k)*n -> M as [re im re im ...]
// (std::complex<double>, small Gaussian-integer entries; the division by den is rounded)
VQ_OP(spai0_cplx) {
    typedef std::complex<double> C; typedef amgcl::backend::builtin<C> BC;
    long n = t.i();
    std::vector<ptrdiff_t> ptr(1, 0), col; std::vector<C> val;
    for (long i = 0; i < n; ++i) { long k = t.i(); for (long e = 0; e < k; ++e) { col.push_back(t.i()); double re = t.d(), im = t.d(); val.push_back(C(re, im)); } ptr.push_back(col.size()); }
    amgcl::backend::crs<C, ptrdiff_t, ptrdiff_t> A(n, n, ptr, col, val);
    rx::spai0<BC> S(A, rx::spai0<BC>::params(), BC::params());
    std::vector<double> out; for (long i = 0; i < n; ++i) { out.push_back((*S.M)[i].real()); out.push_back((*S.M)[i].imag()); }
    return show(out);
}

// SPAI-1 in the double build (Householder QR needs a true square root): d.spai1_m <A> -> M,
// d.spai1 <mode> <A> <rhs> <x> -> x ; doubles printed as exact rationals, compared with the exact
// least-squares model up to a tolerance by tools/props/C06.py
typedef amgcl::backend::builtin<double> BD;
static std::string op_d_spai1_m(vq::Tok &t) {
    auto A = t.crsT<double>();
    rx::spai1<BD> S(*A, rx::spai1<BD>::params(), BD::params());
    return vq::show_crs(*S.M);
}
static vq::Reg reg_d_spai1_m("d.spai1_m", op_d_spai1_m);
static std::string op_d_spai1(vq::Tok &t) {
    std::string mode = t.s(); auto A = t.crsT<double>(); std::vector<double> rhs = t.vecT<double>(), x = t.vecT<double>();
    rx::spai1<BD>::params prm; BD::params bprm;
    if (mode == "asprec") { rx::as_preconditioner<BD, rx::spai1> P(A, prm, bprm); P.apply(rhs, x); return show(x); }
    rx::spai1<BD> S(*A, prm, bprm); std::vector<double> tmp(A->nrows);
    if      (mode == "pre")   S.apply_pre (*A, rhs, x, tmp);
    else if (mode == "post")  S.apply_post(*A, rhs, x, tmp);
    else if (mode == "apply") S.apply(*A, rhs, x);
    else return "BADMODE";
    return show(x);
}
static vq::Reg reg_d_spai1("d.spai1", op_d_spai1);

int main() { return vq::driver_main(); }
