// drv_krylov_vt.cpp -- C01 for BLOCK and COMPLEX valued systems (the property's quantifier names them):
// the eight Krylov solvers of amgcl driven through make_solver with
//   -DVT_BLOCK   : value_type = amgcl::static_matrix<vq::Q,2,2>, rhs_type = static_matrix<vq::Q,2,1>   (exact; ops "bk.*")
//   -DVT_COMPLEX : value_type = std::complex<double> on dyadic data                                    (ops "cx.*")
// The same source is compiled twice (build variants krylov_vt@b / krylov_vt@c of tools/props/C01.py).
//
// Parameter block: the 16 positional tokens of drv_krylov.cpp
//   maxiter tol abstol ns check_after M K L damping s omega smoothing replacement delta convex always_reset
// Ops (V = value type, R = rhs type):
//   bk.solve / cx.solve <solver> <side> <pk> <prm16> A [d|B] f x0   -> "<iters> <residual> [x]"
//     A : crs of V           pk = id   : amgcl-style dummy preconditioner (copy)
//                            pk = diag : vector d of V, applied with backend::vmul (block-Jacobi / complex diagonal)
//                            pk = mat  : matrix B of V, applied with backend::spmv
//     f, x0 : vectors of R
//   tokens of a value: block = 4 rationals row-major, block rhs entry = 2 rationals, complex = "re im" (2 rationals,
//   exactly representable in binary64);  x is printed FLAT, in the order of the expanded real system
//   (block entry i -> rows 2i, 2i+1;  complex entry i -> rows 2i (re), 2i+1 (im)).
// The truthfulness oracle (tools/props/C01.py) runs on the expanded real system:  z = a + ib  ->  [[a,-b],[b,a]].
// Inputs (matrix, rhs) are compared before/after every call: "INPUT-MODIFIED" replaces the payload.
#include "vq_io.hpp"
#include <cstring>
#include <complex>
// glue needed by bicgstabl.hpp (std::real on the coefficient type); must precede the solver headers
namespace std { inline vq::Q real(const vq::Q &a) { return a; } inline vq::Q imag(const vq::Q &) { return vq::Q(0); } }
#include <amgcl/backend/builtin.hpp>
#include <amgcl/value_type/static_matrix.hpp>
#include <amgcl/value_type/complex.hpp>
#include <amgcl/make_solver.hpp>
#include <amgcl/solver/cg.hpp>
#include <amgcl/solver/bicgstab.hpp>
#include <amgcl/solver/bicgstabl.hpp>
#include <amgcl/solver/gmres.hpp>
#include <amgcl/solver/fgmres.hpp>
#include <amgcl/solver/lgmres.hpp>
#include <amgcl/solver/idrs.hpp>
#include <amgcl/solver/richardson.hpp>
#include <cmath>
using vq::Q; using vq::Tok; using vq::show;
namespace be = amgcl::backend;
namespace sv = amgcl::solver;

typedef amgcl::static_matrix<Q, 2, 2> Blk;
typedef amgcl::static_matrix<Q, 2, 1> BlkR;
typedef std::complex<double> Cx;

// ------------------------------------------------------------ token readers for the value types
namespace vq {
template <> inline Blk  Tok::val<Blk>()  { Blk v;  for (int k = 0; k < 4; ++k) v(k) = q(); return v; }
template <> inline BlkR Tok::val<BlkR>() { BlkR v; for (int k = 0; k < 2; ++k) v(k) = q(); return v; }
template <> inline Cx   Tok::val<Cx>()   { double re = d(); double im = d(); return Cx(re, im); }
}

static bool same_val(const Q &a, const Q &b) { return a == b; }
static bool same_val(double a, double b) { return std::memcmp(&a, &b, sizeof(double)) == 0; }
static bool same_val(const Blk &a, const Blk &b) { for (int k = 0; k < 4; ++k) if (!(a(k) == b(k))) return false; return true; }
static bool same_val(const BlkR &a, const BlkR &b) { for (int k = 0; k < 2; ++k) if (!(a(k) == b(k))) return false; return true; }
static bool same_val(const Cx &a, const Cx &b) { return same_val(a.real(), b.real()) && same_val(a.imag(), b.imag()); }

static void flat(std::ostream &os, const BlkR &v, bool &first) { for (int k = 0; k < 2; ++k) { if (!first) os << " "; first = false; os << show(v(k)); } }
static void flat(std::ostream &os, const Cx &v, bool &first) { if (!first) os << " "; first = false; os << show(v.real()) << " " << show(v.imag()); }
template <class R> static std::string show_flat(const std::vector<R> &x) {
    std::ostringstream os; os << "["; bool first = true;
    for (size_t i = 0; i < x.size(); ++i) flat(os, x[i], first);
    os << "]"; return os.str();
}

struct Prm {
    long maxiter; Q tol, abstol; bool ns, ca; long M, K, L; Q damping; long s; Q omega; bool smoothing, replacement;
    Q delta; bool convex, areset; bool left;
    void read(Tok &t) {
        maxiter = t.i(); tol = t.q(); abstol = t.q(); ns = t.i() != 0; ca = t.i() != 0; M = t.i(); K = t.i(); L = t.i();
        damping = t.q(); s = t.i(); omega = t.q(); smoothing = t.i() != 0; replacement = t.i() != 0; delta = t.q();
        convex = t.i() != 0; areset = t.i() != 0;
    }
};
template <class T> T cv(const Q &q);
template <> Q cv<Q>(const Q &q) { return q; }
template <> double cv<double>(const Q &q) { return (double)q; }

// ------------------------------------------------------------ preconditioners (as in drv_krylov.cpp, value type V)
template <class V>
struct Pre {
    typedef be::builtin<V> backend_type;
    typedef typename backend_type::matrix matrix;
    typedef typename backend_type::matrix build_matrix;
    typedef typename backend_type::params backend_params;
    typedef V value_type;
    typedef typename amgcl::math::scalar_of<V>::type scalar_type;
    struct params {
        int kind; std::vector<V> d; std::shared_ptr<matrix> B;
        params() : kind(0) {}
    } prm;
    std::shared_ptr<matrix> A;
    Pre(std::shared_ptr<matrix> A, const params &p = params(), const backend_params& = backend_params()) : prm(p), A(A) {}
    template <class V1, class V2> void apply(const V1 &rhs, V2 &&x) const {
        switch (prm.kind) {
            case 0: be::copy(rhs, x); break;
            case 1: be::vmul(amgcl::math::identity<scalar_type>(), prm.d, rhs, amgcl::math::zero<scalar_type>(), x); break;
            default: be::spmv(amgcl::math::identity<scalar_type>(), *prm.B, rhs, amgcl::math::zero<scalar_type>(), x);
        }
    }
    const matrix& system_matrix() const { return *A; }
    std::shared_ptr<matrix> system_matrix_ptr() const { return A; }
    size_t bytes() const { return 0; }
};

template <class V> struct D {
    typedef be::builtin<V> B;
    typedef typename B::matrix matrix;
    typedef typename amgcl::math::rhs_of<V>::type R;
    typedef typename amgcl::math::scalar_of<V>::type T;

    static amgcl::preconditioner::side::type sd(const Prm &p) { return p.left ? amgcl::preconditioner::side::left : amgcl::preconditioner::side::right; }
    static typename sv::cg<B>::params cg(const Prm &p) { typename sv::cg<B>::params q; q.maxiter = p.maxiter; q.tol = cv<T>(p.tol); q.abstol = cv<T>(p.abstol); q.ns_search = p.ns; return q; }
    static typename sv::bicgstab<B>::params bicgstab(const Prm &p) { typename sv::bicgstab<B>::params q; q.pside = sd(p); q.maxiter = p.maxiter; q.tol = cv<T>(p.tol); q.abstol = cv<T>(p.abstol); q.check_after = p.ca; q.ns_search = p.ns; return q; }
    static typename sv::richardson<B>::params richardson(const Prm &p) { typename sv::richardson<B>::params q; q.damping = cv<T>(p.damping); q.maxiter = p.maxiter; q.tol = cv<T>(p.tol); q.abstol = cv<T>(p.abstol); q.ns_search = p.ns; return q; }
    static typename sv::gmres<B>::params gmres(const Prm &p) { typename sv::gmres<B>::params q; q.M = p.M; q.pside = sd(p); q.maxiter = p.maxiter; q.tol = cv<T>(p.tol); q.abstol = cv<T>(p.abstol); q.ns_search = p.ns; return q; }
    static typename sv::fgmres<B>::params fgmres(const Prm &p) { typename sv::fgmres<B>::params q; q.M = p.M; q.maxiter = p.maxiter; q.tol = cv<T>(p.tol); q.abstol = cv<T>(p.abstol); q.ns_search = p.ns; return q; }
    static typename sv::lgmres<B>::params lgmres(const Prm &p) { typename sv::lgmres<B>::params q; q.M = p.M; q.K = p.K; q.always_reset = p.areset; q.pside = sd(p); q.maxiter = p.maxiter; q.tol = cv<T>(p.tol); q.abstol = cv<T>(p.abstol); q.ns_search = p.ns; return q; }
    static typename sv::bicgstabl<B>::params bicgstabl(const Prm &p) { typename sv::bicgstabl<B>::params q; q.L = p.L; q.delta = cv<T>(p.delta); q.convex = p.convex; q.pside = sd(p); q.maxiter = p.maxiter; q.tol = cv<T>(p.tol); q.abstol = cv<T>(p.abstol); q.ns_search = p.ns; return q; }
    static typename sv::idrs<B>::params idrs(const Prm &p) { typename sv::idrs<B>::params q; q.s = p.s; q.omega = cv<T>(p.omega); q.smoothing = p.smoothing; q.replacement = p.replacement; q.maxiter = p.maxiter; q.tol = cv<T>(p.tol); q.abstol = cv<T>(p.abstol); q.ns_search = p.ns; return q; }

    struct Call { std::shared_ptr<matrix> A; typename Pre<V>::params pp; std::vector<R> f, x; };

    // through make_solver<Pre, Solver>: the constructor sets up P and S, operator()(rhs, x) uses P.system_matrix()
    template <class S>
    static std::tuple<size_t, T> via_make_solver(Call &c, const typename S::params &sp) {
        typedef amgcl::make_solver< Pre<V>, S > MS;
        typename MS::params mp; mp.precond = c.pp; mp.solver = sp;
        MS ms(c.A, mp);
        auto r = ms(c.f, c.x);
        return std::make_tuple((size_t)std::get<0>(r), (T)std::get<1>(r));
    }
    static std::tuple<size_t, T> solve_ms(const std::string &name, const Prm &p, Call &c) {
        if (name == "cg")         return via_make_solver< sv::cg<B> >(c, cg(p));
        if (name == "bicgstab")   return via_make_solver< sv::bicgstab<B> >(c, bicgstab(p));
        if (name == "richardson") return via_make_solver< sv::richardson<B> >(c, richardson(p));
        if (name == "gmres")      return via_make_solver< sv::gmres<B> >(c, gmres(p));
        if (name == "fgmres")     return via_make_solver< sv::fgmres<B> >(c, fgmres(p));
        if (name == "lgmres")     return via_make_solver< sv::lgmres<B> >(c, lgmres(p));
        if (name == "bicgstabl")  return via_make_solver< sv::bicgstabl<B> >(c, bicgstabl(p));
        if (name == "idrs")       return via_make_solver< sv::idrs<B> >(c, idrs(p));
        throw std::runtime_error("bad solver");
    }

    struct Snapshot {
        std::vector<ptrdiff_t> ptr, col; std::vector<V> val; std::vector<R> f; size_t n, m;
        Snapshot(const matrix &A, const std::vector<R> &f) : f(f), n(A.nrows), m(A.ncols) {
            ptr.assign(A.ptr, A.ptr + A.nrows + 1); col.assign(A.col, A.col + A.nnz); val.assign(A.val, A.val + A.nnz);
        }
        bool same(const matrix &A, const std::vector<R> &g) const {
            if (A.nrows != n || A.ncols != m || A.nnz != col.size() || g.size() != f.size()) return false;
            for (size_t i = 0; i <= n; ++i) if (A.ptr[i] != ptr[i]) return false;
            for (size_t j = 0; j < col.size(); ++j) if (A.col[j] != col[j] || !same_val(A.val[j], val[j])) return false;
            for (size_t i = 0; i < f.size(); ++i) if (!same_val(g[i], f[i])) return false;
            return true;
        }
    };

    static std::string solve(Tok &t) {
        std::string name = t.s(); Prm p; p.left = (t.s() == "left");
        std::string pk = t.s(); p.read(t);
        Call c; c.A = t.crsT<V>();
        if (pk == "id") c.pp.kind = 0;
        else if (pk == "diag") { c.pp.kind = 1; c.pp.d = t.vecT<V>(); }
        else if (pk == "mat") { c.pp.kind = 2; c.pp.B = t.crsT<V>(); }
        else throw std::runtime_error("bad pk");
        c.f = t.vecT<R>(); c.x = t.vecT<R>();
        Snapshot snap(*c.A, c.f);
        try {
            auto r = solve_ms(name, p, c);
            if (!snap.same(*c.A, c.f)) return "INPUT-MODIFIED";
            std::ostringstream os; os << std::get<0>(r) << " " << show(std::get<1>(r)) << " " << show_flat(c.x);
            return os.str();
        } catch (const std::exception &e) {
            if (getenv("VQ_WHAT")) std::cerr << e.what() << std::endl;
            return std::string("EXC ") + vq::exc_kind(e);
        }
    }
};

int main() {
#ifdef VT_BLOCK
    vq::registry()["bk.solve"] = D<Blk>::solve;
#endif
#ifdef VT_COMPLEX
    vq::registry()["cx.solve"] = D<Cx>::solve;
#endif
    return vq::driver_main();
}
