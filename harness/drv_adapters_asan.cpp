// drv_adapters_asan.cpp -- the same driver built with -fsanitize=address (tools/props/C17.py
// EXTRA_FLAGS): a free of / write into user memory by a zero-copy view becomes a crash.
#include "drv_adapters.cpp"
