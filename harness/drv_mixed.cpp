// drv_mixed.cpp -- C13, mixed precision (TESTED, not proved: a rounding statement):
// a single-precision preconditioner under a double-precision Krylov solver reaches the default
// relative tolerance 1e-8 on the model problems; the true residual (recomputed in double from
// the returned x) confirms the reported one.  Output: booleans only (no decimal floats).
#include "vq_io.hpp"
#include <amgcl/adapter/crs_tuple.hpp>
#include <amgcl/adapter/block_matrix.hpp>
#include <amgcl/value_type/static_matrix.hpp>
#include <amgcl/amg.hpp>
#include <amgcl/make_solver.hpp>
#include <amgcl/solver/cg.hpp>
#include <amgcl/solver/bicgstab.hpp>
#include <amgcl/coarsening/smoothed_aggregation.hpp>
#include <amgcl/coarsening/aggregation.hpp>
#include <amgcl/relaxation/spai0.hpp>
#include <amgcl/relaxation/ilu0.hpp>
#include <amgcl/relaxation/damped_jacobi.hpp>
using vq::Tok;
namespace be = amgcl::backend;

struct Sys { ptrdiff_t n; std::vector<ptrdiff_t> ptr, col; std::vector<double> val; };
// dim = 2 or 3, m points per direction, anisotropy eps on the y direction, block = Kronecker with I_b
static Sys poisson(int dim, int m, double eps, int b) {
    Sys s; ptrdiff_t N = 1; for (int d = 0; d < dim; ++d) N *= m; s.n = N * b; s.ptr.push_back(0);
    for (ptrdiff_t p = 0; p < N; ++p) for (int k = 0; k < b; ++k) {
        ptrdiff_t idx[3], q = p; for (int d = 0; d < dim; ++d) { idx[d] = q % m; q /= m; }
        double diag = 0; std::vector<std::pair<ptrdiff_t, double> > e;
        ptrdiff_t stride = 1;
        for (int d = 0; d < dim; ++d) {
            double w = (d == 1 ? eps : 1.0);
            if (idx[d] > 0)     e.push_back(std::make_pair((p - stride) * b + k, -w));
            if (idx[d] + 1 < m) e.push_back(std::make_pair((p + stride) * b + k, -w));
            diag += 2 * w; stride *= m;
        }
        e.push_back(std::make_pair(p * b + k, diag));
        if (b > 1) e.push_back(std::make_pair(p * b + (k + 1) % b, 0.125));   // couple the unknowns of a node
        std::sort(e.begin(), e.end());
        for (auto &x : e) { s.col.push_back(x.first); s.val.push_back(x.second); }
        s.ptr.push_back(s.col.size());
    }
    return s;
}
static double true_resid(const Sys &s, const std::vector<double> &f, const std::vector<double> &x) {
    double rr = 0, ff = 0;
    for (ptrdiff_t i = 0; i < s.n; ++i) { double a = f[i]; for (ptrdiff_t j = s.ptr[i]; j < s.ptr[i + 1]; ++j) a -= s.val[j] * x[s.col[j]]; rr += a * a; ff += f[i] * f[i]; }
    return std::sqrt(rr / ff);
}
template <class R> static std::string verdict(const R &r, const Sys &s, const std::vector<double> &f, const std::vector<double> &x, size_t maxiter) {
    double rep = std::get<1>(r), tr = true_resid(s, f, x);
    std::ostringstream os;
    os << "reported<=1e-8:" << (rep <= 1e-8) << " true<=1e-7:" << (tr <= 1e-7) << " iters<max:" << (std::get<0>(r) < maxiter);
    return os.str();
}
VQ_OP(mixed) {
    std::string kind = t.s(); int dim = t.i(), m = t.i(); double eps = t.d();
    using namespace amgcl;
    if (kind == "cg_sa_spai0") {
        Sys s = poisson(dim, m, eps, 1); std::vector<double> f(s.n, 1.0), x(s.n, 0.0);
        typedef make_solver< amg<be::builtin<float>, coarsening::smoothed_aggregation, relaxation::spai0>, solver::cg< be::builtin<double> > > S;
        auto A = std::tie(s.n, s.ptr, s.col, s.val);
        S solve(A); return verdict(solve(A, f, x), s, f, x, 100);
    }
    if (kind == "bicgstab_agg_ilu0") {
        Sys s = poisson(dim, m, eps, 1); std::vector<double> f(s.n, 1.0), x(s.n, 0.0);
        typedef make_solver< amg<be::builtin<float>, coarsening::aggregation, relaxation::ilu0>, solver::bicgstab< be::builtin<double> > > S;
        auto A = std::tie(s.n, s.ptr, s.col, s.val);
        S solve(A); return verdict(solve(A, f, x), s, f, x, 100);
    }
    if (kind == "block2_cg_sa_spai0") {     // float blocks under double blocks (backend/detail/mixing.hpp)
        Sys s = poisson(dim, m, eps, 2); std::vector<double> f(s.n, 1.0), x(s.n, 0.0);
        typedef static_matrix<float, 2, 2> FB; typedef static_matrix<double, 2, 2> DB; typedef static_matrix<double, 2, 1> DR;
        typedef make_solver< amg<be::builtin<FB>, coarsening::smoothed_aggregation, relaxation::spai0>, solver::cg< be::builtin<DB> > > S;
        auto A = std::tie(s.n, s.ptr, s.col, s.val);
        auto Ab = adapter::block_matrix<DB>(A);
        S solve(Ab);
        auto F = be::reinterpret_as_rhs<DR>(f); auto X = be::reinterpret_as_rhs<DR>(x);
        return verdict(solve(Ab, F, X), s, f, x, 100);
    }
    throw std::invalid_argument("kind");
}
int main() { return vq::driver_main(); }
