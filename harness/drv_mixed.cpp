// drv_mixed.cpp -- C13, mixed precision (TESTED, not proved: a rounding statement):
// a single-precision preconditioner under a double-precision Krylov solver reaches the default
// relative tolerance 1e-8 on the model problems; the true residual (recomputed in double from
// the returned x) confirms the reported one.  Output: booleans only (no decimal floats).
//
// Round 2b (seeded C13-2): mixed precision TOGETHER WITH the re-interpretation of scalar vectors as block
// vectors (backend::reinterpret_as_rhs, builtin.hpp: the view's element type is rhs_of<MatrixValue> with its
// scalar REPLACED by the scalar of the VECTOR, i.e. the view does not depend on the matrix precision).
//  (a) kernel level, EXACT: float block (and hybrid) matrices, DOUBLE scalar vectors, dyadic data small enough that
//      every float and every double operation is exact; compared digit for digit with the extracted model
//      (ops of the model driver "blockspmv": the model has ONE Scalar, the claim is that the matrix precision is
//      invisible in the result):
//        bspmv  b A x alpha beta y : crs<static_matrix<float,b,b>> + reinterpret_as_rhs<block>(double vectors)
//        hspmv  b A x alpha beta y : builtin_hybrid<float block>::copy_matrix, mixed spmv_impl, double vectors
//        bresid / hresid b A f x r : backend::residual, same two ways
//        bvmul  b X y alpha beta z : backend::vmul, X = float blocks (std::vector<block>), y, z double scalar vectors
//        sbspmv / sbresid          : SCALAR float matrix, vectors of double b-blocks (viewed as scalars by the mixed
//                                    overloads); model: the same scalar product (ops hspmv / hresid, C13_hybrid_*_is_scalar)
//        cview  b n                : re-interpretation of a std::complex<double> vector through complex blocks:
//                                    number of elements of the view and complex numbers per element
//  (b) solve level (op mixed): kinds hybrid_fd (float builtin_hybrid AMG under a double hybrid CG), as_block_fd
//      (relaxation::as_block with float blocks inside a float AMG under a double CG), mbs_fd (make_block_solver with
//      float blocks fed double vectors, as a preconditioner of a double CG: examples/schurpc_mixed.cpp).
#include "vq_io.hpp"
#include <complex>
#include <amgcl/value_type/complex.hpp>
#include <amgcl/backend/builtin_hybrid.hpp>
#include <amgcl/make_block_solver.hpp>
#include <amgcl/solver/preonly.hpp>
#include <amgcl/relaxation/as_block.hpp>
#include <amgcl/adapter/crs_tuple.hpp>
#include <amgcl/adapter/block_matrix.hpp>
#include <amgcl/value_type/static_matrix.hpp>
#include <amgcl/amg.hpp>
#include <amgcl/make_solver.hpp>
#include <amgcl/solver/cg.hpp>
#include <amgcl/solver/bicgstab.hpp>
#include <amgcl/coarsening/smoothed_aggregation.hpp>
#include <amgcl/coarsening/aggregation.hpp>
#include <amgcl/relaxation/spai0.hpp>
#include <amgcl/relaxation/ilu0.hpp>
#include <amgcl/relaxation/damped_jacobi.hpp>
using vq::Tok;
namespace be = amgcl::backend;


// ---------------------------------------------------------------- (a) kernel level, exact
namespace vq { template <> inline float Tok::val<float>() { return (float)d(); } }
using vq::show;
template <class T, int b> static std::string show_blk(const amgcl::static_matrix<T, b, b> &v) {
    std::ostringstream os; os << "(";
    for (int i = 0; i < b; ++i) { if (i) os << ";"; for (int j = 0; j < b; ++j) { if (j) os << ","; os << show((double)v(i, j)); } }
    os << ")"; return os.str();
}
template <int b, class M> static std::string dump_blocks(const M &A) {
    std::ostringstream os; size_t n = be::rows(A), m = be::cols(A);
    os << "{" << n << " " << m;
    for (size_t i = 0; i < n; ++i) {
        os << " |";
        for (auto a = be::row_begin(A, i); a; ++a) {
            if ((size_t)a.col() >= m) return "BADCRS col-out-of-range";
            os << " " << (long)a.col() << ":" << show_blk(a.value());
        }
    }
    os << "}"; return os.str();
}
template <int b> static std::string mxrun(const std::string &op, Tok &t) {
    typedef amgcl::static_matrix<float, b, b> FB;
    typedef be::builtin_hybrid<FB> HF;
    if (op == "bvmul") {
        long n = t.i(); std::vector<FB> X(n);
        for (long k = 0; k < n; ++k) for (int i = 0; i < b; ++i) for (int j = 0; j < b; ++j) X[k](i, j) = (float)t.d();
        std::vector<double> y = t.vecT<double>(); double alpha = t.d(), beta = t.d(); std::vector<double> z = t.vecT<double>();
        if ((long)y.size() != n * b || (long)z.size() != n * b) throw std::invalid_argument("sizes");
        be::vmul(alpha, X, y, beta, z);
        return show(z);
    }
    auto S = t.crsT<float>();
    if (op == "sbspmv" || op == "sbresid") {
        // SCALAR float matrix, vectors of DOUBLE b-blocks: the mixed overloads view the block vectors as scalars
        // (reinterpret_as_rhs<float>(vector of static_matrix<double,b,1>) must be a range of double)
        typedef amgcl::static_matrix<double, b, 1> DR;
        if (be::rows(*S) % b || be::cols(*S) % b) throw std::runtime_error("not divisible");   // the model's block view
        auto pack = [](const std::vector<double> &v) { std::vector<DR> V(v.size() / b); for (size_t k = 0; k < V.size() * b; ++k) V[k / b](k % b) = v[k]; return V; };
        auto flat = [](const std::vector<DR> &V) { std::vector<double> v(V.size() * b); for (size_t k = 0; k < v.size(); ++k) v[k] = V[k / b](k % b); return v; };
        if (op == "sbspmv") {
            std::vector<double> x = t.vecT<double>(); double alpha = t.d(), beta = t.d(); std::vector<double> y = t.vecT<double>();
            if (x.size() % b || y.size() % b) throw std::invalid_argument("sizes");
            auto X = pack(x); auto Y = pack(y);
            be::spmv(alpha, *S, X, beta, Y);
            return show(flat(Y));
        }
        std::vector<double> f = t.vecT<double>(), x = t.vecT<double>(), r = t.vecT<double>();
        if (f.size() % b || x.size() % b || r.size() % b) throw std::invalid_argument("sizes");
        auto F = pack(f); auto X = pack(x); auto R = pack(r);
        be::residual(F, *S, X, R);
        return show(flat(R));
    }
    if (op == "sspmv") {
        // plain SCALAR float matrix, plain DOUBLE vectors: the same-shape overload of spmv_impl / residual_impl, the one a
        // double Krylov solver uses on the float system matrix of a single-precision preconditioner
        // (make_solver::operator()(rhs, x)); the row sums must be accumulated in the precision of the VECTORS
        std::vector<double> x = t.vecT<double>(); double alpha = t.d(), beta = t.d(); std::vector<double> y = t.vecT<double>();
        be::spmv(alpha, *S, x, beta, y);
        return show(y);
    }
    if (op == "sresid") {
        std::vector<double> f = t.vecT<double>(), x = t.vecT<double>(), r = t.vecT<double>();
        be::residual(f, *S, x, r);
        return show(r);
    }
    if (op == "bspmv" || op == "hspmv") {
        std::vector<double> x = t.vecT<double>(); double alpha = t.d(), beta = t.d(); std::vector<double> y = t.vecT<double>();
        if (op == "bspmv") {
            be::crs<FB> C(amgcl::adapter::block_matrix<FB>(*S));
            auto X = be::reinterpret_as_rhs<FB>(x); auto Y = be::reinterpret_as_rhs<FB>(y);
            if ((size_t)X.size() * b != x.size() - x.size() % b) return "BADVIEW " + std::to_string(X.size()) + " elements for " + std::to_string(x.size()) + " scalars";
            be::spmv(alpha, C, X, beta, Y);
            return dump_blocks<b>(C) + " " + show(y);
        } else {
            auto M = HF::copy_matrix(S, typename HF::params());
            be::spmv(alpha, *M, x, beta, y);
            return show(y);
        }
    } else {
        std::vector<double> f = t.vecT<double>(), x = t.vecT<double>(), r = t.vecT<double>();
        if (op == "bresid") {
            be::crs<FB> C(amgcl::adapter::block_matrix<FB>(*S));
            auto F = be::reinterpret_as_rhs<FB>(f); auto X = be::reinterpret_as_rhs<FB>(x); auto R = be::reinterpret_as_rhs<FB>(r);
            be::residual(F, C, X, R);
            return show(r);
        } else {
            auto M = HF::copy_matrix(S, typename HF::params());
            be::residual(f, *M, x, r);
            return show(r);
        }
    }
}
static std::string mxdispatch(const std::string &op, Tok &t) {
    long b = t.i();
    if (b == 2) return mxrun<2>(op, t);
    if (b == 3) return mxrun<3>(op, t);
    if (b == 4) return mxrun<4>(op, t);
    throw std::invalid_argument("block size");
}
#define MX_OP(name) VQ_OP(name) { try { return mxdispatch(#name, t); } catch (const std::exception &e) { return "EXC " + vq::exc_kind(e); } }
MX_OP(bspmv) MX_OP(hspmv) MX_OP(bresid) MX_OP(hresid) MX_OP(bvmul) MX_OP(sbspmv) MX_OP(sbresid) MX_OP(sspmv) MX_OP(sresid)

// complex vector viewed through complex b x b blocks: n complex numbers must give n/b elements of b complex numbers
template <int b> static std::string cview(long n) {
    typedef std::complex<double> C; typedef amgcl::static_matrix<C, b, b> CB;
    std::vector<C> x(n);
    auto X = be::reinterpret_as_rhs<CB>(x);
    typedef typename std::decay<decltype(*X.begin())>::type E;
    std::ostringstream os; os << "elements=" << X.size() << " complex_per_element=" << sizeof(E) / sizeof(C)
                              << " bytes_per_element=" << sizeof(E);
    return os.str();
}
VQ_OP(cview) {
    long b = t.i(), n = t.i();
    if (b == 2) return cview<2>(n);
    if (b == 3) return cview<3>(n);
    if (b == 4) return cview<4>(n);
    throw std::invalid_argument("block size");
}

// ---------------------------------------------------------------- (b) solve level
struct Sys { ptrdiff_t n; std::vector<ptrdiff_t> ptr, col; std::vector<double> val; };
// dim = 2 or 3, m points per direction, anisotropy eps on the y direction, block = Kronecker with I_b
static Sys poisson(int dim, int m, double eps, int b) {
    Sys s; ptrdiff_t N = 1; for (int d = 0; d < dim; ++d) N *= m; s.n = N * b; s.ptr.push_back(0);
    for (ptrdiff_t p = 0; p < N; ++p) for (int k = 0; k < b; ++k) {
        ptrdiff_t idx[3], q = p; for (int d = 0; d < dim; ++d) { idx[d] = q % m; q /= m; }
        double diag = 0; std::vector<std::pair<ptrdiff_t, double> > e;
        ptrdiff_t stride = 1;
        for (int d = 0; d < dim; ++d) {
            double w = (d == 1 ? eps : 1.0);
            if (idx[d] > 0)     e.push_back(std::make_pair((p - stride) * b + k, -w));
            if (idx[d] + 1 < m) e.push_back(std::make_pair((p + stride) * b + k, -w));
            diag += 2 * w; stride *= m;
        }
        e.push_back(std::make_pair(p * b + k, diag));
        if (b > 1) e.push_back(std::make_pair(p * b + (k + 1) % b, 0.125));   // couple the unknowns of a node
        std::sort(e.begin(), e.end());
        for (auto &x : e) { s.col.push_back(x.first); s.val.push_back(x.second); }
        s.ptr.push_back(s.col.size());
    }
    return s;
}
static double true_resid(const Sys &s, const std::vector<double> &f, const std::vector<double> &x) {
    double rr = 0, ff = 0;
    for (ptrdiff_t i = 0; i < s.n; ++i) { double a = f[i]; for (ptrdiff_t j = s.ptr[i]; j < s.ptr[i + 1]; ++j) a -= s.val[j] * x[s.col[j]]; rr += a * a; ff += f[i] * f[i]; }
    return std::sqrt(rr / ff);
}
template <class R> static std::string verdict(const R &r, const Sys &s, const std::vector<double> &f, const std::vector<double> &x, size_t maxiter) {
    double rep = std::get<1>(r), tr = true_resid(s, f, x);
    std::ostringstream os;
    os << "reported<=1e-8:" << (rep <= 1e-8) << " true<=1e-7:" << (tr <= 1e-7) << " iters<max:" << (std::get<0>(r) < maxiter);
    return os.str();
}

// make_block_solver with FLOAT blocks used as a preconditioner of a DOUBLE solver: its operator() re-interprets the
// double vectors of the outer solver (examples/schurpc_mixed.cpp uses it this way inside schur_pressure_correction)
template <int b> struct MbsPrecond {
    typedef be::builtin<double> backend_type;
    typedef backend_type::matrix matrix; typedef double value_type;
    typedef amgcl::static_matrix<float, b, b> FB;
    typedef amgcl::make_block_solver< amgcl::amg<be::builtin<FB>, amgcl::coarsening::smoothed_aggregation, amgcl::relaxation::spai0>,
                                      amgcl::solver::preonly< be::builtin<FB> > > Inner;
    typedef typename Inner::params params; typedef backend_type::params backend_params;
    Inner inner; std::shared_ptr<matrix> A;
    template <class M> MbsPrecond(const M &M_, const params &p = params(), const backend_params & = backend_params())
        : inner(M_, p), A(std::make_shared<matrix>(M_)) {}
    template <class V1, class V2> void apply(const V1 &rhs, V2 &&x) const { inner(rhs, x); }
    const matrix& system_matrix() const { return *A; }
    std::shared_ptr<matrix> system_matrix_ptr() const { return A; }
};
// SPD block system: Poisson (x) I_b + I (x) C, C = 1/4 I + 1/8 (ring adjacency of the b unknowns of a node): symmetric,
// strictly diagonally dominant node coupling added to the SPD Poisson part (the older generator above couples the
// unknowns of a node without strengthening the diagonal and is indefinite for larger grids).
static Sys blocksys(int dim, int m, double eps, int b) {
    Sys s; ptrdiff_t N = 1; for (int d = 0; d < dim; ++d) N *= m; s.n = N * b; s.ptr.push_back(0);
    for (ptrdiff_t p = 0; p < N; ++p) for (int k = 0; k < b; ++k) {
        ptrdiff_t idx[3], q = p; for (int d = 0; d < dim; ++d) { idx[d] = q % m; q /= m; }
        double diag = 0.25; std::vector<std::pair<ptrdiff_t, double> > e;
        ptrdiff_t stride = 1;
        for (int d = 0; d < dim; ++d) {
            double w = (d == 1 ? eps : 1.0);
            if (idx[d] > 0)     e.push_back(std::make_pair((p - stride) * b + k, -w));
            if (idx[d] + 1 < m) e.push_back(std::make_pair((p + stride) * b + k, -w));
            diag += 2 * w; stride *= m;
        }
        e.push_back(std::make_pair(p * b + k, diag));
        if (b == 2) e.push_back(std::make_pair(p * b + (k + 1) % b, 0.125));
        if (b > 2) { e.push_back(std::make_pair(p * b + (k + 1) % b, 0.125)); e.push_back(std::make_pair(p * b + (k + b - 1) % b, 0.125)); }
        std::sort(e.begin(), e.end());
        for (auto &x : e) { s.col.push_back(x.first); s.val.push_back(x.second); }
        s.ptr.push_back(s.col.size());
    }
    return s;
}
// coarse_enough is lowered so that even the small quick-tier systems get a real multi-level hierarchy (smoothers and
// transfer operators applied to re-interpreted vectors), not a single level with a direct solver
template <int b> static std::string mixed_reinterp(const std::string &kind, int dim, int m, double eps) {
    using namespace amgcl;
    typedef static_matrix<float, b, b> FB; typedef static_matrix<double, b, b> DB;
    Sys s = blocksys(dim, m, eps, b); std::vector<double> f(s.n, 1.0), x(s.n, 0.0);
    for (ptrdiff_t i = 0; i < s.n; ++i) f[i] = 1.0 + 0.25 * (i % 3);
    auto A = std::tie(s.n, s.ptr, s.col, s.val);
    if (kind == "hybrid_fd") {
        typedef be::builtin_hybrid<FB> HF; typedef be::builtin_hybrid<DB> HD;
        typedef make_solver< amg<HF, coarsening::smoothed_aggregation, relaxation::spai0>, solver::cg<HD> > S;
        typename S::params prm; prm.precond.coarsening.aggr.block_size = b; prm.precond.coarse_enough = 60;
        S solve(A, prm); return verdict(solve(A, f, x), s, f, x, 100);
    }
    if (kind == "as_block_fd") {
        typedef make_solver< amg<be::builtin<float>, coarsening::smoothed_aggregation,
                                 relaxation::as_block<be::builtin<FB>, relaxation::spai0>::template type>,
                             solver::cg< be::builtin<double> > > S;
        typename S::params prm; prm.precond.coarsening.aggr.block_size = b; prm.precond.coarse_enough = 60;
        S solve(A, prm); return verdict(solve(A, f, x), s, f, x, 100);
    }
    if (kind == "mbs_fd") {
        typedef make_solver< MbsPrecond<b>, solver::cg< be::builtin<double> > > S;
        typename S::params prm; prm.precond.precond.coarse_enough = 30;
        S solve(A, prm); return verdict(solve(A, f, x), s, f, x, 100);
    }
    throw std::invalid_argument("kind");
}
VQ_OP(mixed) {
    std::string kind = t.s(); int dim = t.i(), m = t.i(); double eps = t.d();
    using namespace amgcl;
    if (kind == "hybrid_fd" || kind == "as_block_fd" || kind == "mbs_fd") {
        long b = t.i();
        if (b == 2) return mixed_reinterp<2>(kind, dim, m, eps);
        if (b == 3) return mixed_reinterp<3>(kind, dim, m, eps);
        throw std::invalid_argument("block size");
    }
    if (kind == "cg_sa_spai0") {
        Sys s = poisson(dim, m, eps, 1); std::vector<double> f(s.n, 1.0), x(s.n, 0.0);
        typedef make_solver< amg<be::builtin<float>, coarsening::smoothed_aggregation, relaxation::spai0>, solver::cg< be::builtin<double> > > S;
        auto A = std::tie(s.n, s.ptr, s.col, s.val);
        S::params prm; prm.precond.coarse_enough = 100;     // a real hierarchy also for the small quick-tier grids
        S solve(A, prm); return verdict(solve(A, f, x), s, f, x, 100);
    }
    if (kind == "bicgstab_agg_ilu0") {
        Sys s = poisson(dim, m, eps, 1); std::vector<double> f(s.n, 1.0), x(s.n, 0.0);
        typedef make_solver< amg<be::builtin<float>, coarsening::aggregation, relaxation::ilu0>, solver::bicgstab< be::builtin<double> > > S;
        auto A = std::tie(s.n, s.ptr, s.col, s.val);
        S::params prm; prm.precond.coarse_enough = 100;
        S solve(A, prm); return verdict(solve(A, f, x), s, f, x, 100);
    }
    if (kind == "block2_cg_sa_spai0") {     // float blocks under double blocks (backend/detail/mixing.hpp)
        Sys s = blocksys(dim, m, eps, 2); std::vector<double> f(s.n, 1.0), x(s.n, 0.0);
        typedef static_matrix<float, 2, 2> FB; typedef static_matrix<double, 2, 2> DB; typedef static_matrix<double, 2, 1> DR;
        typedef make_solver< amg<be::builtin<FB>, coarsening::smoothed_aggregation, relaxation::spai0>, solver::cg< be::builtin<DB> > > S;
        auto A = std::tie(s.n, s.ptr, s.col, s.val);
        auto Ab = adapter::block_matrix<DB>(A);
        S::params prm; prm.precond.coarse_enough = 50;
        S solve(Ab, prm);
        auto F = be::reinterpret_as_rhs<DR>(f); auto X = be::reinterpret_as_rhs<DR>(x);
        return verdict(solve(Ab, F, X), s, f, x, 100);
    }
    throw std::invalid_argument("kind");
}
int main() { return vq::driver_main(); }
