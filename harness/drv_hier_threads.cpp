// drv_hier_threads.cpp -- C09: whole AMG hierarchies at every OpenMP thread count.
//
// The process is started once per thread count (OMP_NUM_THREADS in the environment, as a user would
// set it; nothing in here calls omp_set_num_threads).  Every op builds an amgcl::amg<> hierarchy with the
// library's own constructor, dumps ALL levels (A, P, R of every level, the matrix of the direct-solver
// level) through the guarded accessor in STORAGE order and runs apply() and cycle() once.  The property
// module requires the output to be byte-identical for every thread count.
//
//   ht.<coarsening>    value_type vq::Q                         (exact arithmetic)
//   d.ht.<coarsening>  value_type double                        (values printed as exact rationals = bit patterns)
//        coarsening in {aggregation, smoothed_aggregation, ruge_stuben, smoothed_aggr_emin}
//   htb.<agg|sa>       value_type static_matrix<vq::Q,2,2>      (non-commuting values; printed expanded)
//   relaxation: spai0 everywhere (set up per level from the level matrix, no schedule of its own).
//
// case:  <id> <op> <coarse_enough> <direct_coarse> <max_levels> <npre> <npost> <ncycle> <pre_cycles>
//                  <eps_strong> <[g]relax|[g]-> <over_interp|-> <do_trunc|-> <eps_trunc|->  A  f  x0
//        (g: smoothed aggregation with estimate_spectral_radius, Gershgorin bound)
//        (A: crs, or bcrs with 4 rationals per entry for htb.*; f, x0: vec of n resp. 2n rationals)
// out:   nt=<omp_get_max_threads()> D <nlevels> (M {A} {P} {R} | L {A} | S {A}|-)* ; [apply] ; [cycle]
//
// The heap is poisoned (poison_new.hpp; VQ_POISON_FILL is set differently for every thread count by the
// property module), so that a read of never-written memory does not go unnoticed because the allocator
// happens to return zeroed pages at every thread count.
#define VQ_POISON
#include "poison_new.hpp"
#include "vq_io.hpp"
#include "vq_access.hpp"
#include <omp.h>
#include <amgcl/amg.hpp>
#include <amgcl/value_type/static_matrix.hpp>
#include <amgcl/adapter/crs_tuple.hpp>
#include <amgcl/coarsening/aggregation.hpp>
#include <amgcl/coarsening/smoothed_aggregation.hpp>
#include <amgcl/coarsening/smoothed_aggr_emin.hpp>
#include <amgcl/coarsening/ruge_stuben.hpp>
#include <amgcl/relaxation/spai0.hpp>

using vq::Q; using vq::Tok;

namespace ht {

struct Cfg {
    long coarse_enough, direct_coarse, max_levels, npre, npost, ncycle, pre_cycles;
    std::string eps_strong, relax, over_interp, do_trunc, eps_trunc;
};
static float f32(const std::string &s) { return (float)(double)vq::parse(s); }
static Cfg read_cfg(Tok &t) {
    Cfg c;
    c.coarse_enough = t.i(); c.direct_coarse = t.i(); c.max_levels = t.i();
    c.npre = t.i(); c.npost = t.i(); c.ncycle = t.i(); c.pre_cycles = t.i();
    c.eps_strong = t.s(); c.relax = t.s(); c.over_interp = t.s(); c.do_trunc = t.s(); c.eps_trunc = t.s();
    return c;
}

// coarsening parameters: one overload per family, selected by the parameter type
template <class B> static void set_cprm(typename amgcl::coarsening::aggregation<B>::params &p, const Cfg &c) {
    p.aggr.eps_strong = f32(c.eps_strong);
    if (c.over_interp != "-") p.over_interp = f32(c.over_interp);
}
template <class B> static void set_cprm(typename amgcl::coarsening::smoothed_aggregation<B>::params &p, const Cfg &c) {
    p.aggr.eps_strong = f32(c.eps_strong);
    // relax token: [g]<value|->   g: estimate_spectral_radius = true with power_iters = 0 (Gershgorin bound: a max-reduction
    // over the threads; the power method starts from thread-seeded random vectors and is excluded by the property)
    std::string rl = c.relax;
    if (!rl.empty() && rl[0] == 'g') { p.estimate_spectral_radius = true; p.power_iters = 0; rl = rl.substr(1); }
    if (rl != "-") p.relax = f32(rl);
}
template <class B> static void set_cprm(typename amgcl::coarsening::smoothed_aggr_emin<B>::params &p, const Cfg &c) {
    p.aggr.eps_strong = f32(c.eps_strong);
}
template <class B> static void set_cprm(typename amgcl::coarsening::ruge_stuben<B>::params &p, const Cfg &c) {
    p.eps_strong = f32(c.eps_strong);
    if (c.do_trunc != "-") p.do_trunc = (c.do_trunc == "1");
    if (c.eps_trunc != "-") p.eps_trunc = f32(c.eps_trunc);
}

// ---- value-type dependent reading / printing
template <class V> struct io {          // scalar value types: vq::Q, double
    typedef V rhs_type;
    typedef amgcl::backend::crs<V, ptrdiff_t, ptrdiff_t> M;
    static std::shared_ptr<M> mat(Tok &t) { return t.crsT<V>(); }
    static std::vector<V> vec(Tok &t) { return t.vecT<V>(); }
    static std::string show(const std::vector<V> &v) { return vq::show(v); }
    template <class X> static std::string show_mat(const X &A) { return vq::show_crs(A); }
};
typedef amgcl::static_matrix<Q, 2, 2> B2;
typedef amgcl::static_matrix<Q, 2, 1> R2;
template <> struct io<B2> {
    typedef R2 rhs_type;
    typedef amgcl::backend::crs<B2, ptrdiff_t, ptrdiff_t> M;
    static std::shared_ptr<M> mat(Tok &t) {
        long n = t.i(), m = t.i();
        std::vector<ptrdiff_t> ptr(1, 0), col; std::vector<B2> vl;
        for (long r = 0; r < n; ++r) {
            long k = t.i();
            for (long e = 0; e < k; ++e) { col.push_back(t.i()); B2 v; for (int c = 0; c < 4; ++c) v(c / 2, c % 2) = t.q(); vl.push_back(v); }
            ptr.push_back((ptrdiff_t)col.size());
        }
        auto A = std::make_shared<M>();
        A->set_size(n, m, false);
        A->ptr[0] = 0;
        for (long r = 0; r < n; ++r) A->ptr[r + 1] = ptr[r + 1];
        A->set_nonzeros(col.size(), true);
        for (size_t e = 0; e < col.size(); ++e) { A->col[e] = col[e]; A->val[e] = vl[e]; }
        return A;
    }
    static std::vector<R2> vec(Tok &t) {
        long n = t.i(); if (n % 2) throw std::runtime_error("case: vector length not a multiple of 2");
        std::vector<R2> v(n / 2);
        for (long i = 0; i < n; ++i) v[i / 2](i % 2) = t.q();
        return v;
    }
    static std::string show(const std::vector<R2> &v) {
        std::ostringstream os; os << "[";
        for (size_t i = 0; i < v.size(); ++i) for (int k = 0; k < 2; ++k) { if (i || k) os << " "; os << v[i](k).str(); }
        os << "]"; return os.str();
    }
    // block CRS expanded to scalar CRS (block (i,c) -> rows 2i+r, columns 2c+s), storage order, zero cells printed
    template <class X> static std::string show_mat(const X &A) {
        std::ostringstream os;
        long n = (long)A.nrows, m = (long)A.ncols;
        os << "{" << n * 2 << " " << m * 2;
        if ((n > 0 || A.ptr) && A.ptr[0] != 0) return "BADCRS ptr0";
        for (long i = 0; i < n; ++i) {
            if (A.ptr[i + 1] < A.ptr[i]) return "BADCRS nonmonotone-ptr";
            for (int r = 0; r < 2; ++r) {
                os << " |";
                for (ptrdiff_t j = A.ptr[i]; j < (ptrdiff_t)A.ptr[i + 1]; ++j) {
                    if (A.col[j] < 0 || (long)A.col[j] >= m) return "BADCRS col-out-of-range";
                    for (int s = 0; s < 2; ++s) os << " " << (long)A.col[j] * 2 + s << ":" << A.val[j](r, s).str();
                }
            }
        }
        if (n > 0 && (size_t)A.ptr[n] != A.nnz) return "BADCRS nnz";
        os << "}"; return os.str();
    }
};

template <class V, template <class> class C>
static std::string run(Tok &t) {
    typedef amgcl::backend::builtin<V> Backend;
    typedef amgcl::amg<Backend, C, amgcl::relaxation::spai0> AMG;
    typedef io<V> IO;
    Cfg c = read_cfg(t);
    auto A = IO::mat(t);
    auto f = IO::vec(t); auto x0 = IO::vec(t);
    typename AMG::params prm;
    prm.coarse_enough = c.coarse_enough; prm.direct_coarse = c.direct_coarse != 0;
    prm.max_levels = c.max_levels; prm.npre = c.npre; prm.npost = c.npost; prm.ncycle = c.ncycle;
    prm.pre_cycles = c.pre_cycles;
    set_cprm<Backend>(prm.coarsening, c);
    std::ostringstream os;
    os << "nt=" << omp_get_max_threads() << " ";
    AMG amg(*A, prm);           // amg(const Matrix&): copies and sorts the rows, as for a user's matrix
    const auto &lv = amgcl::verif::access::levels(amg);
    os << "D " << lv.size();
    for (const auto &l : lv) {
        if (l.solve) { os << " S "; if (l.A) os << IO::show_mat(*l.A); else os << "-"; }
        else if (l.P) { os << " M " << IO::show_mat(*l.A) << " " << IO::show_mat(*l.P) << " " << IO::show_mat(*l.R); }
        else { os << " L " << IO::show_mat(*l.A); }
    }
    { auto x = x0; amg.apply(f, x); os << " ; " << IO::show(x); }
    { auto x = x0; amg.cycle(f, x); os << " ; " << IO::show(x); }
    return os.str();
}

namespace co = amgcl::coarsening;
static vq::Reg r1("ht.aggregation",            run<Q, co::aggregation>);
static vq::Reg r2("ht.smoothed_aggregation",   run<Q, co::smoothed_aggregation>);
static vq::Reg r3("ht.ruge_stuben",            run<Q, co::ruge_stuben>);
static vq::Reg r4("ht.smoothed_aggr_emin",     run<Q, co::smoothed_aggr_emin>);
static vq::Reg d1("d.ht.aggregation",          run<double, co::aggregation>);
static vq::Reg d2("d.ht.smoothed_aggregation", run<double, co::smoothed_aggregation>);
static vq::Reg d3("d.ht.ruge_stuben",          run<double, co::ruge_stuben>);
static vq::Reg d4("d.ht.smoothed_aggr_emin",   run<double, co::smoothed_aggr_emin>);
static vq::Reg b1("htb.agg",                   run<B2, co::aggregation>);
static vq::Reg b2("htb.sa",                    run<B2, co::smoothed_aggregation>);
} // namespace ht

int main() { return vq::driver_main(); }
