// drv_sched.cpp -- C09: thread-count / interleaving independence.
//  * gs_sched / ilu_sched : dump the per-thread tables (tasks, ord, reordered rows, D)
//    that gauss_seidel::parallel_sweep / ilu_solve::sptr_solve build, through the
//    friend accessor (vq_access.hpp), for a given thread count;
//  * gs_sweep / ilu_solve : run the real sweeps/solves (exact arithmetic) at a given
//    thread count, several repetitions (a data race shows up as NONDET or as a result
//    that differs from the serial one);
//  * t.* / d.t.* : row-parallel kernels, matrix products, transfer operators and
//    reductions at a given thread count, exact (t.) and double (d.t.; doubles are
//    printed as exact rationals, i.e. bit patterns).
// The thread count is a token of the case; the driver calls omp_set_num_threads.
#include "vq_io.hpp"
#include "vq_access.hpp"
#include <set>
#include <omp.h>
#include <amgcl/backend/builtin.hpp>
#include <amgcl/relaxation/gauss_seidel.hpp>
#include <amgcl/relaxation/detail/ilu_solve.hpp>
#include <amgcl/coarsening/aggregation.hpp>
#include <amgcl/coarsening/smoothed_aggregation.hpp>
#include <amgcl/coarsening/ruge_stuben.hpp>

using vq::Q; using vq::Tok; using vq::show;
namespace be = amgcl::backend;
typedef amgcl::verif::access acc;

static void set_threads(long nt) { omp_set_dynamic(0); omp_set_num_threads((int)nt); }

// Poisoned heap: blocks of all small sizes are allocated, filled and freed again, so that a
// following `new T[n]` that is not initialised by the library sees non-zero recycled memory.
// The fill byte depends on the thread count (0xFF for odd, 0x00 for even counts, plus a
// pattern), so a result that depends on uninitialised memory differs ACROSS thread counts.
static void poison_heap(long nt) {
    std::vector<char*> blocks;
    unsigned char fill = (nt % 2) ? 0xFF : 0x00;
    for (int rep = 0; rep < 3; ++rep)
        for (size_t sz = 1; sz <= 8192; sz += (sz < 256 ? 1 : 64)) {
            char *p = new char[sz];
            for (size_t k = 0; k < sz; ++k) p[k] = (char)(fill ^ (unsigned char)((nt * 37 + k * 11) & (nt % 3 == 0 ? 0x55 : 0x00)));
            blocks.push_back(p);
        }
    for (size_t k = 0; k < blocks.size(); ++k) delete[] blocks[k];
}


// ---- reduced teams -------------------------------------------------------------------
// in_team(mode, k, f): run f() so that the parallel regions it opens get a team of k threads
// although more threads were configured at set-up; see the op comments below for the modes.
namespace vqt {
struct info { int team, mx; };
static info probe() {
    info r; r.mx = omp_get_max_threads(); r.team = -1;
#pragma omp parallel
    {
#pragma omp single
        r.team = omp_get_num_threads();
    }
    return r;
}
template <class F> static std::string guarded(F &f) {
    try { return f(); }
    catch (const std::exception &e) { return std::string("EXC ") + e.what(); }
    catch (...) { return "EXC unknown"; }
}
static std::string head(const info &i) {
    std::ostringstream os; os << "team=" << i.team << " max=" << i.mx << " "; return os.str();
}
template <class F> static std::string in_team(long mode, long k, F f) {
    info ti; ti.team = ti.mx = -1; std::string out;
    if (mode == 0) {
        omp_set_num_threads((int)k);
        ti = probe(); out = guarded(f);
        return head(ti) + out;
    }
    if (mode == 1) {
        int kk = (int)k;
#pragma omp teams num_teams(1) thread_limit(kk)
        {
            ti = probe(); out = guarded(f);
        }
        return head(ti) + out;
    }
    if (mode == 2) {
        int lev = omp_get_max_active_levels();
        omp_set_max_active_levels(1);
        info t2[2]; std::string o[2]; int outer = 0;
        t2[0].team = t2[0].mx = t2[1].team = t2[1].mx = -1;
#pragma omp parallel num_threads(2)
        {
            int t = omp_get_thread_num();
#pragma omp single
            outer = omp_get_num_threads();
            if (t < 2) { t2[t] = probe(); o[t] = guarded(f); }
        }
        omp_set_max_active_levels(lev);
        if (outer != 2) return "BADTEAM outer=" + std::to_string(outer);
        if (head(t2[0]) != head(t2[1])) return "BADTEAM " + head(t2[0]) + "| " + head(t2[1]);
        if (o[0] != o[1]) return head(t2[0]) + "NONDET " + o[0] + " | " + o[1];
        return head(t2[0]) + o[0];
    }
    return "BADMODE";
}
}

// ---- table dump -------------------------------------------------------------------
// payload: <nthreads> then per thread: [b e b e ...] [ord ...] {k ncols | c:v ... | ...} ([D ...])
template <class P, class V>
static std::string dump_tables(const P &p, long ncols, const std::vector< std::vector<V> > *D) {
    std::ostringstream os;
    os << p.nthreads;
    for (int t = 0; t < p.nthreads; ++t) {
        os << " [";
        for (size_t k = 0; k < p.tasks[t].size(); ++k) { if (k) os << " "; os << (long)p.tasks[t][k].beg << " " << (long)p.tasks[t][k].end; }
        os << "] " << vq::show_ivec(p.ord[t]);
        size_t nr = p.ord[t].size();
        if (p.ptr[t].size() != nr + 1 || p.ptr[t][0] != 0 || p.col[t].size() != p.val[t].size()
                || (size_t)p.ptr[t][nr] != p.col[t].size()) { os << " BADTAB"; }
        else {
            os << " {" << nr << " " << ncols;
            bool bad = false;
            for (size_t r = 0; r < nr && !bad; ++r) {
                if (p.ptr[t][r+1] < p.ptr[t][r]) { bad = true; break; }
                os << " |";
                for (ptrdiff_t j = p.ptr[t][r]; j < p.ptr[t][r+1]; ++j) os << " " << (long)p.col[t][j] << ":" << show(p.val[t][j]);
            }
            os << (bad ? " BADPTR}" : "}");
        }
        if (D) { os << " " << show((*D)[t]); }
    }
    return os.str();
}

template <class V> struct G {
    typedef be::builtin<V> Backend;
    typedef amgcl::relaxation::gauss_seidel<Backend> GS;
    typedef amgcl::relaxation::detail::ilu_solve<Backend> ILU;
    typedef std::vector<V> vec;
    typedef be::crs<V, ptrdiff_t, ptrdiff_t> M;

    // gs_sched <forward> <nt> <force> A
    //   force = 0: what gauss_seidel(A) builds (SERIAL below 4 threads);
    //   force = 1: parallel_sweep built directly (any thread count)
    static std::string gs_sched(Tok &t) {
        long fwd = t.i(), nt = t.i(), force = t.i(); auto A = t.crsT<V>();
        set_threads(nt);
        if (force) {
            if (fwd) { auto p = acc::gs_make_forward<GS>(*A);  return dump_tables<decltype(*p), V>(*p, A->ncols, 0); }
            else     { auto p = acc::gs_make_backward<GS>(*A); return dump_tables<decltype(*p), V>(*p, A->ncols, 0); }
        }
        typename GS::params prm; typename Backend::params bprm;
        GS gs(*A, prm, bprm);
        if (acc::gs_is_serial(gs)) return "SERIAL";
        if (fwd) return dump_tables<decltype(*acc::gs_forward(gs)), V>(*acc::gs_forward(gs), A->ncols, 0);
        return dump_tables<decltype(*acc::gs_backward(gs)), V>(*acc::gs_backward(gs), A->ncols, 0);
    }

    static std::string join(const std::set<std::string> &seen) {
        if (seen.size() == 1) return *seen.begin();
        std::string s = "NONDET";
        for (auto &x : seen) s += " " + x;
        return s;
    }

    // gs_sweep <forward> <nt> <reps> A rhs x : apply_pre (forward) / apply_post (backward)
    static std::string gs_sweep(Tok &t) {
        long fwd = t.i(), nt = t.i(), reps = t.i(); auto A = t.crsT<V>(); vec rhs = t.vecT<V>(); vec x0 = t.vecT<V>();
        set_threads(nt);
        typename GS::params prm; typename Backend::params bprm;
        GS gs(*A, prm, bprm);
        std::set<std::string> seen; vec tmp(x0.size());
        for (long k = 0; k < reps; ++k) {
            vec x = x0;
            if (fwd) gs.apply_pre(*A, rhs, x, tmp); else gs.apply_post(*A, rhs, x, tmp);
            seen.insert(show(x));
        }
        return join(seen);
    }

    static std::shared_ptr<ILU> make_ilu(Tok &t, long nt, long serial, std::shared_ptr<M> &L, std::shared_ptr<M> &U) {
        L = t.crsT<V>(); U = t.crsT<V>(); vec d = t.vecT<V>();
        auto D = std::make_shared< be::numa_vector<V> >(d.size(), false);
        for (size_t i = 0; i < d.size(); ++i) (*D)[i] = d[i];
        set_threads(nt);
        typename ILU::params prm; prm.serial = (serial != 0);
        return std::make_shared<ILU>(L, U, D, prm);
    }
    // ilu_sched <nt> L U D : tables of sptr_solve<true>(L) " ; " sptr_solve<false>(U, D)
    static std::string ilu_sched(Tok &t) {
        long nt = t.i(); std::shared_ptr<M> L, U;
        auto s = make_ilu(t, nt, 0, L, U);
        auto &lo = *acc::ilu_lower(*s); auto &up = *acc::ilu_upper(*s);
        return dump_tables<decltype(lo), V>(lo, L->ncols, 0) + " ; " + dump_tables<decltype(up), V>(up, U->ncols, &up.D);
    }
    // ilu_solve <nt> <serial> <reps> L U D x
    static std::string ilu_solve(Tok &t) {
        long nt = t.i(), serial = t.i(), reps = t.i(); std::shared_ptr<M> L, U;
        auto s = make_ilu(t, nt, serial, L, U);
        vec x0 = t.vecT<V>();
        std::set<std::string> seen;
        for (long k = 0; k < reps; ++k) { vec x = x0; s->solve(x); seen.insert(show(x)); }
        return join(seen);
    }

    // ---- kernels at a given thread count ----
    static std::string spmv(Tok &t) { set_threads(t.i());
        V alpha = t.val<V>(); auto A = t.crsT<V>(); vec x = t.vecT<V>(); V beta = t.val<V>(); vec y = t.vecT<V>();
        be::spmv(alpha, *A, x, beta, y); return show(y); }
    static std::string residual(Tok &t) { set_threads(t.i());
        vec f = t.vecT<V>(); auto A = t.crsT<V>(); vec x = t.vecT<V>(); vec r = t.vecT<V>();
        be::residual(f, *A, x, r); return show(r); }
    static std::string axpby(Tok &t) { set_threads(t.i());
        V a = t.val<V>(); vec x = t.vecT<V>(); V b = t.val<V>(); vec y = t.vecT<V>();
        be::axpby(a, x, b, y); return show(y); }
    static std::string axpbypcz(Tok &t) { set_threads(t.i());
        V a = t.val<V>(); vec x = t.vecT<V>(); V b = t.val<V>(); vec y = t.vecT<V>(); V c = t.val<V>(); vec z = t.vecT<V>();
        be::axpbypcz(a, x, b, y, c, z); return show(z); }
    static std::string vmul(Tok &t) { set_threads(t.i());
        V a = t.val<V>(); vec x = t.vecT<V>(); vec y = t.vecT<V>(); V b = t.val<V>(); vec z = t.vecT<V>();
        be::vmul(a, x, y, b, z); return show(z); }
    // product: storage order (U) and sorted (S) forms; saad for nt <= 16, rmerge above
    static std::string product(Tok &t) { set_threads(t.i());
        auto A = t.crsT<V>(); auto B = t.crsT<V>();
        auto C = be::product(*A, *B);
        return "U " + vq::show_crs(*C, false) + " S " + vq::show_crs(*C, true); }
    static std::string msum(Tok &t) { set_threads(t.i());
        V a = t.val<V>(); auto A = t.crsT<V>(); V b = t.val<V>(); auto B = t.crsT<V>();
        auto C = be::sum(a, *A, b, *B); return vq::show_crs(*C, false); }
    static std::string transpose(Tok &t) { set_threads(t.i());
        auto A = t.crsT<V>(); auto T = be::transpose(*A); return vq::show_crs(*T, false); }
    static std::string gershgorin(Tok &t) { set_threads(t.i());
        long scale = t.i(); auto A = t.crsT<V>();
        V r = scale ? be::spectral_radius<true>(*A, 0) : be::spectral_radius<false>(*A, 0);
        return show(r); }
    // transfer operators: P and R of one coarsening step
    template <class C> static std::string transfer(C &c, const M &A) {
        try {
            auto PR = c.transfer_operators(A);
            return "P " + vq::show_crs(*std::get<0>(PR), false) + " R " + vq::show_crs(*std::get<1>(PR), false);
        } catch (const amgcl::error::empty_level&) { return "EXC empty_level"; }
    }
    static std::string aggr(Tok &t) { long nt_ = t.i(); set_threads(nt_);
        std::string eps = t.s(); auto A = t.crsT<V>(); be::sort_rows(*A);
        typename amgcl::coarsening::aggregation<Backend>::params p; p.aggr.eps_strong = (float)(double)vq::parse(eps);
        amgcl::coarsening::aggregation<Backend> c(p); poison_heap(nt_); return transfer(c, *A); }
    static std::string saggr(Tok &t) { long nt_ = t.i(); set_threads(nt_);
        std::string eps = t.s(); long est = t.i(); auto A = t.crsT<V>(); be::sort_rows(*A);
        typename amgcl::coarsening::smoothed_aggregation<Backend>::params p; p.aggr.eps_strong = (float)(double)vq::parse(eps);
        p.estimate_spectral_radius = (est != 0); p.power_iters = 0;
        amgcl::coarsening::smoothed_aggregation<Backend> c(p); poison_heap(nt_); return transfer(c, *A); }
    static std::string rs(Tok &t) { long nt_ = t.i(); set_threads(nt_);
        std::string eps = t.s(); long trunc = t.i(); auto A = t.crsT<V>(); be::sort_rows(*A);
        typename amgcl::coarsening::ruge_stuben<Backend>::params p; p.eps_strong = (float)(double)vq::parse(eps);
        p.do_trunc = (trunc != 0);
        amgcl::coarsening::ruge_stuben<Backend> c(p); poison_heap(nt_); return transfer(c, *A); }

    // ---- executions whose OpenMP team is smaller than the thread count seen at set-up ----
    // <nt> = omp_set_num_threads before set-up, <k> = size of the executing team, <mode>:
    //   0  omp_set_num_threads(k) between set-up and call             (max = k,  team = k)
    //   1  call inside  #pragma omp teams num_teams(1) thread_limit(k) (max = nt, team = k)
    //   2  call from both threads of an enclosing active parallel region, nested
    //      parallelism off (each thread on its own copy of the data)   (max = nt, team = 1)
    //   3  like 1, set-up inside the limited region as well
    //   4  like 2, set-up inside the enclosing region as well (one object per outer thread)
    // The payload starts with "team=<omp_get_num_threads() seen in a probe region at the call
    // site> max=<omp_get_max_threads() there>": the model prints what the mode is meant to give.
    // gs_team <forward> <nt> <k> <mode> A rhs x : gauss_seidel (serial = false) apply_pre / apply_post
    static std::string gs_team(Tok &t) {
        long fwd = t.i(), nt = t.i(), k = t.i(), mode = t.i(); auto A = t.crsT<V>(); vec rhs = t.vecT<V>(); vec x0 = t.vecT<V>();
        set_threads(nt);
        typename GS::params prm; prm.serial = false; typename Backend::params bprm;
        std::shared_ptr<GS> gs0;
        if (mode < 3) gs0 = std::make_shared<GS>(*A, prm, bprm);
        return vqt::in_team(mode < 3 ? mode : mode - 2, k, [&]() -> std::string {
            std::shared_ptr<GS> gs = gs0; if (!gs) gs = std::make_shared<GS>(*A, prm, bprm);
            if (acc::gs_is_serial(*gs)) return "SERIAL";
            std::set<std::string> seen; vec tmp(x0.size());
            for (int rep = 0; rep < 2; ++rep) {
                vec x = x0;
                if (fwd) gs->apply_pre(*A, rhs, x, tmp); else gs->apply_post(*A, rhs, x, tmp);
                seen.insert(show(x));
            }
            return join(seen); });
    }
    // ilu_team <nt> <k> <mode> L U D x : ilu_solve (serial = false) solve
    static std::string ilu_team(Tok &t) {
        long nt = t.i(), k = t.i(), mode = t.i();
        auto L = t.crsT<V>(); auto U = t.crsT<V>(); vec d = t.vecT<V>(); vec x0 = t.vecT<V>();
        auto D = std::make_shared< be::numa_vector<V> >(d.size(), false);
        for (size_t i = 0; i < d.size(); ++i) (*D)[i] = d[i];
        set_threads(nt);
        typename ILU::params prm; prm.serial = false;
        std::shared_ptr<ILU> s0;
        if (mode < 3) s0 = std::make_shared<ILU>(L, U, D, prm);
        return vqt::in_team(mode < 3 ? mode : mode - 2, k, [&]() -> std::string {
            std::shared_ptr<ILU> s = s0; if (!s) s = std::make_shared<ILU>(L, U, D, prm);
            std::set<std::string> seen;
            for (int rep = 0; rep < 2; ++rep) { vec x = x0; s->solve(x); seen.insert(show(x)); }
            return join(seen); });
    }
    // tt.<kernel> <nt> <k> <mode> ... : the row-parallel backend primitives in a reduced team
    static std::string tt_spmv(Tok &t) { long nt = t.i(), k = t.i(), mode = t.i(); set_threads(nt);
        V alpha = t.val<V>(); auto A = t.crsT<V>(); vec x = t.vecT<V>(); V beta = t.val<V>(); vec y0 = t.vecT<V>();
        return vqt::in_team(mode, k, [&]() -> std::string { vec y = y0; be::spmv(alpha, *A, x, beta, y); return show(y); }); }
    static std::string tt_residual(Tok &t) { long nt = t.i(), k = t.i(), mode = t.i(); set_threads(nt);
        vec f = t.vecT<V>(); auto A = t.crsT<V>(); vec x = t.vecT<V>(); vec r0 = t.vecT<V>();
        return vqt::in_team(mode, k, [&]() -> std::string { vec r = r0; be::residual(f, *A, x, r); return show(r); }); }
    static std::string tt_axpby(Tok &t) { long nt = t.i(), k = t.i(), mode = t.i(); set_threads(nt);
        V a = t.val<V>(); vec x = t.vecT<V>(); V b = t.val<V>(); vec y0 = t.vecT<V>();
        return vqt::in_team(mode, k, [&]() -> std::string { vec y = y0; be::axpby(a, x, b, y); return show(y); }); }
    static std::string tt_axpbypcz(Tok &t) { long nt = t.i(), k = t.i(), mode = t.i(); set_threads(nt);
        V a = t.val<V>(); vec x = t.vecT<V>(); V b = t.val<V>(); vec y = t.vecT<V>(); V c = t.val<V>(); vec z0 = t.vecT<V>();
        return vqt::in_team(mode, k, [&]() -> std::string { vec z = z0; be::axpbypcz(a, x, b, y, c, z); return show(z); }); }
    static std::string tt_vmul(Tok &t) { long nt = t.i(), k = t.i(), mode = t.i(); set_threads(nt);
        V a = t.val<V>(); vec x = t.vecT<V>(); vec y = t.vecT<V>(); V b = t.val<V>(); vec z0 = t.vecT<V>();
        return vqt::in_team(mode, k, [&]() -> std::string { vec z = z0; be::vmul(a, x, y, b, z); return show(z); }); }
    static std::string tt_inner(Tok &t) { long nt = t.i(), k = t.i(), mode = t.i(); set_threads(nt);
        vec x = t.vecT<V>(); vec y = t.vecT<V>();
        return vqt::in_team(mode, k, [&]() -> std::string { return show(be::inner_product(x, y)); }); }
    static std::string tt_product(Tok &t) { long nt = t.i(), k = t.i(), mode = t.i(); set_threads(nt);
        auto A = t.crsT<V>(); auto B = t.crsT<V>();
        return vqt::in_team(mode, k, [&]() -> std::string { auto C = be::product(*A, *B);
            return "U " + vq::show_crs(*C, false) + " S " + vq::show_crs(*C, true); }); }
    static std::string tt_rmerge(Tok &t) { long nt = t.i(), k = t.i(), mode = t.i(); set_threads(nt);
        auto A = t.crsT<V>(); auto B = t.crsT<V>();
        return vqt::in_team(mode, k, [&]() -> std::string { M C; be::spgemm_rmerge(*A, *B, C); return vq::show_crs(C, true); }); }
    static std::string tt_sum(Tok &t) { long nt = t.i(), k = t.i(), mode = t.i(); set_threads(nt);
        V a = t.val<V>(); auto A = t.crsT<V>(); V b = t.val<V>(); auto B = t.crsT<V>();
        return vqt::in_team(mode, k, [&]() -> std::string { auto C = be::sum(a, *A, b, *B); return vq::show_crs(*C, false); }); }
    static std::string tt_transpose(Tok &t) { long nt = t.i(), k = t.i(), mode = t.i(); set_threads(nt);
        auto A = t.crsT<V>();
        return vqt::in_team(mode, k, [&]() -> std::string { auto T = be::transpose(*A); return vq::show_crs(*T, false); }); }
    static std::string tt_gershgorin(Tok &t) { long nt = t.i(), k = t.i(), mode = t.i(); set_threads(nt);
        long scale = t.i(); auto A = t.crsT<V>();
        return vqt::in_team(mode, k, [&]() -> std::string {
            V r = scale ? be::spectral_radius<true>(*A, 0) : be::spectral_radius<false>(*A, 0); return show(r); }); }

    static void reg(const std::string &pfx) {
        auto &r = vq::registry();
        r[pfx + "gs_sched"] = gs_sched; r[pfx + "gs_sweep"] = gs_sweep;
        r[pfx + "ilu_sched"] = ilu_sched; r[pfx + "ilu_solve"] = ilu_solve;
        r[pfx + "t.spmv"] = spmv; r[pfx + "t.residual"] = residual; r[pfx + "t.axpby"] = axpby;
        r[pfx + "t.axpbypcz"] = axpbypcz; r[pfx + "t.vmul"] = vmul; r[pfx + "t.product"] = product;
        r[pfx + "t.sum"] = msum; r[pfx + "t.transpose"] = transpose; r[pfx + "t.gershgorin"] = gershgorin;
        r[pfx + "t.aggr"] = aggr; r[pfx + "t.saggr"] = saggr; r[pfx + "t.rs"] = rs;
        r[pfx + "gs_team"] = gs_team; r[pfx + "ilu_team"] = ilu_team;
        r[pfx + "tt.spmv"] = tt_spmv; r[pfx + "tt.residual"] = tt_residual; r[pfx + "tt.axpby"] = tt_axpby;
        r[pfx + "tt.axpbypcz"] = tt_axpbypcz; r[pfx + "tt.vmul"] = tt_vmul; r[pfx + "tt.inner"] = tt_inner;
        r[pfx + "tt.product"] = tt_product; r[pfx + "tt.rmerge"] = tt_rmerge; r[pfx + "tt.sum"] = tt_sum;
        r[pfx + "tt.transpose"] = tt_transpose; r[pfx + "tt.gershgorin"] = tt_gershgorin;
    }
};

// reductions, exact arithmetic only
VQ_OP(t_inner) { set_threads(t.i()); auto x = t.vec(); auto y = t.vec(); return show(be::inner_product(x, y)); }

int main() {
    G<Q>::reg(""); G<double>::reg("d.");
    vq::registry()["t.inner"] = vq::registry()["t_inner"];
    return vq::driver_main();
}
