// drv_own.cpp -- C10-A3: life cycle of crs::own_data on the real amgcl::backend::crs<double>
// (amgcl/backend/builtin.hpp constructors / operator= / free_data / destructor and
// amgcl/adapter/zero_copy.hpp) under a tracking allocator.  Model side: coq/Own.v via
// ocaml/own/ops_own.ml.
//
// Case:   <id> own <nops> (<tag> <ints>)*
//           E k    crs()                                 O k    crs(n, m, ptr, col, val)
//           V k u  adapter::zero_copy over user block u   C k j  crs(const crs &j)
//           M k j  crs(crs &&j)                           c k j  k = j        m k j  k = move(j)
//           D k    ~crs()
//         ops naming an object that does not exist, or constructing into a live id, are skipped
//         (the model treats them as no-ops).
// Output: leaks=<n> freed_user=<n> double_free=<n> blocks=<n> live_objects=[id:own:arr ...]
//         blocks / live_objects describe the state before the remaining objects are destroyed,
//         the counters the state after.  Unit = the three arrays ptr/col/val of one matrix; a
//         count that is not a multiple of three is printed as <arrays>/3.
//
// Tracker: operator new[] / delete[] are replaced (crs uses exactly these for ptr/col/val; the
// containers of the driver use operator new).  While a case runs every new[] block is entered
// in the live set; delete[] of a live block moves it to a quarantine (the memory is kept until
// the end of the case so that a second delete[] of the same address is recognised and nothing
// is handed out twice); delete[] of a quarantined block counts as double free; delete[] of an
// array registered as user memory counts as freed_user and is not executed.
//
// With -DOWN_NO_TRACKER (sanitizer build) the allocator is left alone and the same sequences
// run under AddressSanitizer/LeakSanitizer: leaks=<0|1> comes from
// __lsan_do_recoverable_leak_check(), bad frees abort.
// Every case runs in a forked child (a crash is reported for that case as ABORT status=<n>).
#include <cstdlib>
#include <new>
#include <set>
#include <map>
#include <vector>

#ifndef OWN_NO_TRACKER
namespace own_track {
    static bool on = false;
    static std::set<void*> *live = 0, *freed = 0, *user = 0;
    static long n_double = 0, n_user = 0;
    static void init() { if (!live) { live = new std::set<void*>(); freed = new std::set<void*>(); user = new std::set<void*>(); } }
}
void* operator new[](std::size_t n) {
    void *p = std::malloc(n ? n : 1);
    if (!p) throw std::bad_alloc();
    if (own_track::on) { own_track::on = false; own_track::live->insert(p); own_track::on = true; }
    return p;
}
static void own_delete(void *p) noexcept {
    if (!p) return;
    if (own_track::on) {
        own_track::on = false;
        bool release = false;
        if (own_track::user->count(p)) ++own_track::n_user;                    // borrowed memory: never ours
        else if (own_track::live->count(p)) { own_track::live->erase(p); own_track::freed->insert(p); }
        else if (own_track::freed->count(p)) ++own_track::n_double;
        else release = true;                                                   // allocated before the case started
        own_track::on = true;
        if (release) std::free(p);
        return;
    }
    std::free(p);
}
void operator delete[](void *p) noexcept { own_delete(p); }
void operator delete[](void *p, std::size_t) noexcept { own_delete(p); }
#else
#include <sanitizer/lsan_interface.h>
#endif
#include <unistd.h>
#include <sys/types.h>
#include <sys/wait.h>

#include "vq_io.hpp"
#include <amgcl/backend/builtin.hpp>
#include <amgcl/adapter/zero_copy.hpp>

typedef amgcl::backend::crs<double> M;

namespace {

struct UserBlock {              // memory owned by the "user" of a zero-copy view
    ptrdiff_t *ptr, *col; double *val; size_t n;
    UserBlock() : ptr(0), col(0), val(0), n(0) {}
};
UserBlock make_user(int u) {
    UserBlock b; b.n = 2 + (u % 3);
    b.ptr = (ptrdiff_t*)std::malloc(sizeof(ptrdiff_t) * (b.n + 1));
    b.col = (ptrdiff_t*)std::malloc(sizeof(ptrdiff_t) * b.n);
    b.val = (double*)std::malloc(sizeof(double) * b.n);
    for (size_t i = 0; i < b.n; ++i) { b.ptr[i] = (ptrdiff_t)i; b.col[i] = (ptrdiff_t)i; b.val[i] = 2.0 + u + i; }
    b.ptr[b.n] = (ptrdiff_t)b.n;
    return b;
}
void drop_user(UserBlock &b) { std::free(b.ptr); std::free(b.col); std::free(b.val); }

struct Tracking {               // RAII: the tracker sees only what the crs operations do
    Tracking()  {
#ifndef OWN_NO_TRACKER
        own_track::on = true;
#endif
    }
    ~Tracking() {
#ifndef OWN_NO_TRACKER
        own_track::on = false;
#endif
    }
};

std::string units(long arrays) {
    std::ostringstream os;
    if (arrays % 3 == 0) os << arrays / 3; else os << arrays << "/3";
    return os.str();
}

} // namespace

struct Op { char tag; int k, j; };

static std::string run_case(const std::vector<Op> &ops) {
    std::map<int, std::shared_ptr<M> > obj;
    std::map<int, UserBlock> user;
#ifndef OWN_NO_TRACKER
    own_track::init();
    own_track::live->clear(); own_track::freed->clear(); own_track::user->clear();
    own_track::n_double = 0; own_track::n_user = 0;
#endif
    for (size_t i = 0; i < ops.size(); ++i) {
        const Op &o = ops[i];
        bool has_k = obj.count(o.k) > 0;
        bool has_j = obj.count(o.j) > 0;
        switch (o.tag) {
            case 'E':
                if (!has_k) { Tracking g; obj[o.k] = std::make_shared<M>(); }
                break;
            case 'O':
                if (!has_k) {
                    size_t n = 1 + (o.k % 3);
                    std::vector<ptrdiff_t> ptr(n + 1), col(n); std::vector<double> val(n);
                    for (size_t r = 0; r < n; ++r) { ptr[r] = r; col[r] = r; val[r] = 1.0 + r; }
                    ptr[n] = n;
                    Tracking g; obj[o.k] = std::make_shared<M>(n, n, ptr, col, val);
                }
                break;
            case 'V':
                if (!has_k) {
                    if (!user.count(o.j)) {
                        user[o.j] = make_user(o.j);
#ifndef OWN_NO_TRACKER
                        own_track::user->insert(user[o.j].ptr); own_track::user->insert(user[o.j].col); own_track::user->insert(user[o.j].val);
#endif
                    }
                    const UserBlock &b = user[o.j];
                    Tracking g; obj[o.k] = amgcl::adapter::zero_copy(b.n, b.ptr, b.col, b.val);
                }
                break;
            case 'C':
                if (!has_k && has_j) { const M &src = *obj[o.j]; Tracking g; obj[o.k] = std::make_shared<M>(src); }
                break;
            case 'M':
                if (!has_k && has_j) { M &src = *obj[o.j]; Tracking g; obj[o.k] = std::make_shared<M>(std::move(src)); }
                break;
            case 'c':
                if (has_k && has_j) { M &dst = *obj[o.k]; const M &src = *obj[o.j]; Tracking g; dst = src; }
                break;
            case 'm':
                if (has_k && has_j) { M &dst = *obj[o.k]; M &src = *obj[o.j]; Tracking g; dst = std::move(src); }
                break;
            case 'D':
                if (has_k) { Tracking g; obj.erase(o.k); }
                break;
            default: throw std::runtime_error("own: bad op tag");
        }
    }
    // the state before cleanup
    std::ostringstream live;
    bool first = true;
    for (auto it = obj.begin(); it != obj.end(); ++it) {
        const M &A = *it->second;
        std::string a;
        if (!A.ptr && !A.col && !A.val) a = "null";
        else {
            for (auto ub = user.begin(); ub != user.end(); ++ub)
                if ((void*)A.ptr == (void*)ub->second.ptr && (void*)A.col == (void*)ub->second.col && (void*)A.val == (void*)ub->second.val) {
                    std::ostringstream os; os << "u" << ub->first; a = os.str();
                }
            if (a.empty()) {
#ifndef OWN_NO_TRACKER
                bool l = own_track::live->count(A.ptr) && own_track::live->count(A.col) && own_track::live->count(A.val);
                bool f = own_track::freed->count(A.ptr) || own_track::freed->count(A.col) || own_track::freed->count(A.val);
                a = l ? "lib" : f ? "dangling" : "mixed";
#else
                a = "lib";
#endif
            }
            // the arrays an object points to are well-formed CRS data (reads them: a dangling
            // pointer is a heap-use-after-free in the sanitizer build)
            if (a != "dangling" && a != "mixed") {
                if (A.nrows && (A.ptr[0] != 0 || (size_t)A.ptr[A.nrows] != A.nnz)) a += "!badptr";
            }
        }
        if (!first) live << " ";
        first = false;
        live << it->first << ":" << (A.own_data ? 1 : 0) << ":" << a;
    }
    std::ostringstream out;
#ifndef OWN_NO_TRACKER
    long blocks = (long)own_track::live->size();
    { Tracking g; obj.clear(); }            // end of scope: every remaining object is destroyed
    out << "leaks=" << units((long)own_track::live->size())
        << " freed_user=" << units(own_track::n_user)
        << " double_free=" << units(own_track::n_double)
        << " blocks=" << units(blocks)
        << " live_objects=[" << live.str() << "]";
    for (auto p = own_track::live->begin(); p != own_track::live->end(); ++p) std::free(*p);
    for (auto p = own_track::freed->begin(); p != own_track::freed->end(); ++p) std::free(*p);
    own_track::live->clear(); own_track::freed->clear(); own_track::user->clear();
#else
    obj.clear();
    int leaked = __lsan_do_recoverable_leak_check();
    out << "leaks=" << (leaked ? 1 : 0) << " live_objects=[" << live.str() << "]";
#endif
    for (auto ub = user.begin(); ub != user.end(); ++ub) drop_user(ub->second);
    return out.str();
}

VQ_OP(own) {
    long nops = t.i();
    std::vector<Op> ops;
    for (long i = 0; i < nops; ++i) {
        Op o; o.tag = t.s()[0]; o.k = (int)t.i(); o.j = 0;
        if (o.tag != 'E' && o.tag != 'O' && o.tag != 'D') o.j = (int)t.i();
        ops.push_back(o);
    }
    // one process per case: a crash, a sanitizer abort or a leak must not spill into the next case
    int fd[2];
    if (pipe(fd) != 0) throw std::runtime_error("pipe");
    std::cout.flush();
    pid_t pid = fork();
    if (pid < 0) throw std::runtime_error("fork");
    if (pid == 0) {
        close(fd[0]);
        alarm(5);       // memory corruption can send the child into an endless loop
        std::string r = run_case(ops);
        ssize_t w = write(fd[1], r.data(), r.size()); (void)w;
        close(fd[1]);
        _exit(0);
    }
    close(fd[1]);
    std::string r; char buf[4096]; ssize_t n;
    while ((n = read(fd[0], buf, sizeof buf)) > 0) r.append(buf, (size_t)n);
    close(fd[0]);
    int status = 0; waitpid(pid, &status, 0);
    if (!(WIFEXITED(status) && WEXITSTATUS(status) == 0) || r.empty()) {
        std::ostringstream os; os << "ABORT status=" << status; return os.str();
    }
    return r;
}

int main() { return vq::driver_main(); }
