// drv_adapters.cpp -- C17 (and the adapter part of C13): every way of handing a matrix
// to the library, observed through backend::rows/cols/nonzeros/row_begin, through the
// generic CRS copy constructor and through backend::spmv on the adapter itself.
// Exact arithmetic (vq::Q); the complex adapter runs in double on dyadic values.
#include "vq_io.hpp"
#include <complex>
#include <deque>
#include <iterator>
#include <amgcl/adapter/crs_tuple.hpp>
#include <amgcl/adapter/zero_copy.hpp>
#include <amgcl/adapter/crs_builder.hpp>
#include <amgcl/adapter/block_matrix.hpp>
#include <amgcl/adapter/complex.hpp>
#include <amgcl/adapter/reorder.hpp>
#include <amgcl/adapter/scaled_problem.hpp>
#include <amgcl/value_type/static_matrix.hpp>
#include <amgcl/value_type/complex.hpp>
#include <amgcl/amg.hpp>
#include <amgcl/make_solver.hpp>
#include <amgcl/solver/preonly.hpp>
#include <amgcl/coarsening/aggregation.hpp>
#include <amgcl/relaxation/damped_jacobi.hpp>
using vq::Q; using vq::Tok; using vq::show;
namespace be = amgcl::backend;
typedef be::builtin<Q> B;

#define AD_OP(name) static std::string body_##name(vq::Tok &t); \
    VQ_OP(name) { try { return body_##name(t); } catch (const std::exception &e) { return "EXC " + vq::exc_kind(e); } } \
    static std::string body_##name(vq::Tok &t)

// user-side arrays with index type I
template <class I, class V = Q> struct Arr {
    I n, m; std::vector<I> ptr, col; std::vector<V> val;
    Arr(Tok &t) {
        long nn = t.i(), mm = t.i(); n = (I)nn; m = (I)mm;
        ptr.push_back(0);
        for (long r = 0; r < nn; ++r) { long k = t.i(); for (long e = 0; e < k; ++e) { col.push_back((I)t.i()); val.push_back(t.val<V>()); } ptr.push_back((I)col.size()); }
    }
};

// what the library sees through the adapter interface, in iteration order
template <class M> static std::string show_scalar(const typename be::value_type<M>::type &v) { return show(v); }
template <class M> static std::string dump_rows(const M &A) {
    std::ostringstream os; size_t n = be::rows(A), m = be::cols(A);
    os << "{" << n << " " << m;
    for (size_t i = 0; i < n; ++i) {
        os << " |";
        for (auto a = be::row_begin(A, i); a; ++a) {
            if ((size_t)a.col() >= m) return "BADCRS col-out-of-range";
            os << " " << (long)a.col() << ":" << show(a.value());
        }
    }
    os << "}"; return os.str();
}
template <class M> static std::string dims(const M &A) {
    std::ostringstream os; os << be::rows(A) << " " << be::cols(A) << " " << be::nonzeros(A); return os.str();
}
template <class M> static std::string spmv_str(const M &A, const std::vector<Q> &x) {
    std::vector<Q> y(be::rows(A), Q(7));
    be::spmv(Q(1), A, x, Q(0), y); return show(y);
}

// ---------------------------------------------------------------- tuple of ranges
template <class I> static std::string tuple_op(Tok &t, bool ranges) {
    Arr<I> a(t); std::vector<Q> x = t.vec();
    if (a.m != a.n) throw std::invalid_argument("square");
    std::string out;
    if (!ranges) {
        auto A = std::tie(a.n, a.ptr, a.col, a.val);
        be::crs<Q> C(A);
        out = dims(A) + " " + dump_rows(A) + " " + vq::show_crs(C) + " " + spmv_str(A, x);
    } else {
        const I *p = a.ptr.data(), *c = a.col.data(); const Q *v = a.val.data();
        size_t nnz = a.col.size();
        auto A = std::make_tuple(a.n, amgcl::make_iterator_range(p, p + (size_t)a.n + 1),
                amgcl::make_iterator_range(c, c + nnz), amgcl::make_iterator_range(v, v + nnz));
        be::crs<Q> C(A);
        out = dims(A) + " " + dump_rows(A) + " " + vq::show_crs(C) + " " + spmv_str(A, x);
    }
    return out;
}
// tuple of NON-CONTIGUOUS random-access ranges with real references: a strided view into an interleaved buffer
// (element k lives at buf[2*k]) and std::deque.  A range with addressable elements need not be contiguous.
template <class T> struct StridedRange {
    std::vector<T> buf;   // payload at even positions, filler at odd positions
    StridedRange(const std::vector<T> &v, const T &filler) { buf.reserve(2 * v.size()); for (size_t k = 0; k < v.size(); ++k) { buf.push_back(v[k]); buf.push_back(filler); } }
    struct iterator {
        typedef std::random_access_iterator_tag iterator_category; typedef T value_type; typedef ptrdiff_t difference_type;
        typedef const T* pointer; typedef const T& reference;
        const T *p;
        iterator(const T *p = 0) : p(p) {}
        reference operator*() const { return *p; }
        pointer operator->() const { return p; }
        reference operator[](difference_type k) const { return p[2 * k]; }
        iterator& operator++() { p += 2; return *this; }
        iterator operator++(int) { iterator r = *this; p += 2; return r; }
        iterator& operator--() { p -= 2; return *this; }
        iterator operator--(int) { iterator r = *this; p -= 2; return r; }
        iterator& operator+=(difference_type k) { p += 2 * k; return *this; }
        iterator& operator-=(difference_type k) { p -= 2 * k; return *this; }
        iterator operator+(difference_type k) const { return iterator(p + 2 * k); }
        iterator operator-(difference_type k) const { return iterator(p - 2 * k); }
        difference_type operator-(const iterator &o) const { return (p - o.p) / 2; }
        bool operator==(const iterator &o) const { return p == o.p; }
        bool operator!=(const iterator &o) const { return p != o.p; }
        bool operator<(const iterator &o) const { return p < o.p; }
        bool operator>(const iterator &o) const { return p > o.p; }
        bool operator<=(const iterator &o) const { return p <= o.p; }
        bool operator>=(const iterator &o) const { return p >= o.p; }
    };
    typedef iterator const_iterator; typedef T value_type;
    iterator begin() const { return iterator(buf.data()); }
    iterator end() const { return iterator(buf.data() + buf.size()); }
    size_t size() const { return buf.size() / 2; }
    const T& operator[](size_t k) const { return buf[2 * k]; }
};
template <class T> typename StridedRange<T>::iterator operator+(ptrdiff_t k, const typename StridedRange<T>::iterator &i) { return i + k; }
template <class I> static std::string tuple_noncontig(const std::string &kind, Tok &t) {
    Arr<I> a(t); std::vector<Q> x = t.vec();
    if (a.m != a.n) throw std::invalid_argument("square");
    if (kind == "strided") {
        StridedRange<I> p(a.ptr, (I)0), c(a.col, (I)(a.n > 0 ? a.n - 1 : 0)); StridedRange<Q> v(a.val, Q(99));
        auto A = std::tie(a.n, p, c, v);
        be::crs<Q> C(A);
        return dims(A) + " " + dump_rows(A) + " " + vq::show_crs(C) + " " + spmv_str(A, x);
    }
    if (kind == "deque") {
        std::deque<I> p(a.ptr.begin(), a.ptr.end()), c(a.col.begin(), a.col.end()); std::deque<Q> v(a.val.begin(), a.val.end());
        auto A = std::tie(a.n, p, c, v);
        be::crs<Q> C(A);
        return dims(A) + " " + dump_rows(A) + " " + vq::show_crs(C) + " " + spmv_str(A, x);
    }
    throw std::invalid_argument("kind");
}
AD_OP(tuple_nc) {
    std::string kind = t.s(), it = t.s();
    if (it == "int")       return tuple_noncontig<int>(kind, t);
    if (it == "long")      return tuple_noncontig<long>(kind, t);
    if (it == "unsigned")  return tuple_noncontig<unsigned>(kind, t);
    if (it == "size_t")    return tuple_noncontig<size_t>(kind, t);
    if (it == "ptrdiff_t") return tuple_noncontig<ptrdiff_t>(kind, t);
    throw std::invalid_argument("itype");
}
AD_OP(tuple) {
    std::string it = t.s();
    if (it == "int")       return tuple_op<int>(t, false);
    if (it == "long")      return tuple_op<long>(t, false);
    if (it == "unsigned")  return tuple_op<unsigned>(t, false);
    if (it == "size_t")    return tuple_op<size_t>(t, false);
    if (it == "ptrdiff_t") return tuple_op<ptrdiff_t>(t, false);
    throw std::invalid_argument("itype");
}
AD_OP(tuple_range) {
    std::string it = t.s();
    if (it == "int")       return tuple_op<int>(t, true);
    if (it == "long")      return tuple_op<long>(t, true);
    if (it == "unsigned")  return tuple_op<unsigned>(t, true);
    if (it == "size_t")    return tuple_op<size_t>(t, true);
    if (it == "ptrdiff_t") return tuple_op<ptrdiff_t>(t, true);
    throw std::invalid_argument("itype");
}

// ---------------------------------------------------------------- zero copy
// pointer identity, own_data flag, user memory untouched after the library objects
// (the view, a deep copy of it, a moved-from/moved-to pair, an amg hierarchy built
// from the view) are destroyed.  An ASan build of this driver turns a double free or
// a write into user memory into a crash.
template <class M> static void copy_move_cycle(const M &A, bool &copy_owns) {
    M C(A); copy_owns = C.own_data && (const void*)C.ptr != (const void*)A.ptr; M D(std::move(C)); M E; E = std::move(D);
}
template <class I, bool direct> struct ZcMake;
template <class I> struct ZcMake<I, true> {
    static auto make(Arr<I> &a) -> decltype(amgcl::adapter::zero_copy_direct((size_t)0, (size_t)0, a.ptr.data(), a.col.data(), a.val.data())) {
        return amgcl::adapter::zero_copy_direct((size_t)a.n, (size_t)a.m, a.ptr.data(), a.col.data(), a.val.data()); }
    template <class P> static void solver(P, Arr<I>&) {}
};
template <class I> struct ZcMake<I, false> {
    static auto make(Arr<I> &a) -> decltype(amgcl::adapter::zero_copy((size_t)0, (size_t)0, a.ptr.data(), a.col.data(), a.val.data())) {
        return amgcl::adapter::zero_copy((size_t)a.n, (size_t)a.m, a.ptr.data(), a.col.data(), a.val.data()); }
    template <class P> static void solver(P A, Arr<I> &a) {
        if (a.n == a.m && a.n > 0) {   // the documented use: hand the view to a solver
            typedef amgcl::amg<B, amgcl::coarsening::aggregation, amgcl::relaxation::damped_jacobi> AMG;
            try { AMG::params prm; prm.coarse_enough = 1; AMG amg(A, prm); } catch (const std::exception&) {}
        }
    }
};
template <class I, bool direct> static std::string zc_op(Tok &t) {
    Arr<I> a(t); std::vector<Q> x = t.vec();
    std::vector<I> ptr0 = a.ptr, col0 = a.col; std::vector<Q> val0 = a.val;
    std::ostringstream os;
    bool same = true, own = true, copy_owns = false;
    std::string d, dm, y;
    {
        auto A = ZcMake<I, direct>::make(a);
        same = ((const void*)A->ptr == (const void*)a.ptr.data()) && ((const void*)A->col == (const void*)a.col.data()) && ((const void*)A->val == (const void*)a.val.data());
        own = A->own_data;
        d = dims(*A); dm = vq::show_crs(*A); y = spmv_str(*A, x);
        copy_move_cycle(*A, copy_owns);
        ZcMake<I, direct>::solver(A, a);
    }
    bool intact = (ptr0 == a.ptr) && (col0 == a.col);
    for (size_t k = 0; k < val0.size() && intact; ++k) if (!(val0[k] == a.val[k])) intact = false;
    os << "alias=" << same << " own=" << own << " copy_owns=" << copy_owns << " " << d << " " << dm << " " << y << " intact=" << intact;
    return os.str();
}
AD_OP(zero_copy) {
    std::string it = t.s();
    if (it == "ptrdiff_t") return zc_op<ptrdiff_t, false>(t);
    if (it == "long")      return zc_op<long, false>(t);
    if (it == "size_t")    return zc_op<size_t, false>(t);
    throw std::invalid_argument("itype");
}
AD_OP(zero_copy_direct) {
    std::string it = t.s();
    if (it == "int")       return zc_op<int, true>(t);
    if (it == "long")      return zc_op<long, true>(t);
    if (it == "unsigned")  return zc_op<unsigned, true>(t);
    if (it == "size_t")    return zc_op<size_t, true>(t);
    if (it == "ptrdiff_t") return zc_op<ptrdiff_t, true>(t);
    throw std::invalid_argument("itype");
}

// ---------------------------------------------------------------- row builder
struct RowsFromCase {
    typedef Q val_type; typedef ptrdiff_t col_type;
    std::shared_ptr< Arr<ptrdiff_t> > a;
    size_t rows() const { return a->n; }
    size_t nonzeros() const { return a->col.size(); }
    void operator()(size_t row, std::vector<col_type> &col, std::vector<val_type> &val) const {
        for (ptrdiff_t j = a->ptr[row]; j < a->ptr[row + 1]; ++j) { col.push_back(a->col[j]); val.push_back(a->val[j]); }
    }
};
AD_OP(builder) {
    RowsFromCase rb; rb.a = std::make_shared< Arr<ptrdiff_t> >(t); std::vector<Q> x = t.vec();
    if (rb.a->m != rb.a->n) throw std::invalid_argument("square");
    auto A = amgcl::adapter::make_matrix(rb);
    be::crs<Q> C(A);
    return dims(A) + " " + dump_rows(A) + " " + vq::show_crs(C) + " " + spmv_str(A, x);
}

// ---------------------------------------------------------------- block adapter
template <int b> struct Blk { typedef amgcl::static_matrix<Q, b, b> type; typedef amgcl::static_matrix<Q, b, 1> rhs; };
template <int b> static std::string show_blk(const amgcl::static_matrix<Q, b, b> &v) {
    std::ostringstream os; os << "(";
    for (int i = 0; i < b; ++i) { if (i) os << ";"; for (int j = 0; j < b; ++j) { if (j) os << ","; os << v(i, j).str(); } }
    os << ")"; return os.str();
}
template <int b, class M> static std::string dump_blocks(const M &A) {
    std::ostringstream os; size_t n = be::rows(A), m = be::cols(A);
    os << "{" << n << " " << m;
    for (size_t i = 0; i < n; ++i) {
        os << " |";
        for (auto a = be::row_begin(A, i); a; ++a) {
            if ((size_t)a.col() >= m) return "BADCRS col-out-of-range";
            os << " " << (long)a.col() << ":" << show_blk<b>(a.value());
        }
    }
    os << "}"; return os.str();
}
template <int b> static std::string block_op(Tok &t) {
    Arr<ptrdiff_t> a(t); std::vector<Q> x = t.vec(); Q alpha = t.q(), beta = t.q(); std::vector<Q> y = t.vec();
    typedef typename Blk<b>::type BT; typedef typename Blk<b>::rhs RT;
    // rectangular matrices are handed over as the internal CRS (tuples are square)
    auto S = std::make_shared< be::crs<Q> >((size_t)a.n, (size_t)a.m, a.ptr, a.col, a.val);
    auto A = amgcl::adapter::block_matrix<BT>(*S);
    std::string d = dims(A), it = dump_blocks<b>(A);
    be::crs<BT> C(A);                             // generic copy constructor over the block iterator
    std::string cp = dump_blocks<b>(C);
    auto U = amgcl::adapter::unblock_matrix(C);   // inverse transformation
    // block spmv on re-interpreted scalar vectors (builtin.hpp reinterpret_as_rhs)
    auto xb = be::reinterpret_as_rhs<RT>(x); auto yb = be::reinterpret_as_rhs<RT>(y);
    be::spmv(alpha, C, xb, beta, yb);
    return d + " " + it + " " + cp + " " + vq::show_crs(*U) + " " + show(y);
}
// the block adapter on top of OTHER adapters (it keeps b row iterators of the underlying matrix alive at the same
// time): block_matrix(make_matrix(row builder)), block_matrix(zero_copy(...)), block_matrix(tuple); same output
// format and the same model op as `block` (square matrices)
template <int b, class Under> static std::string block_over(Under &U0, std::vector<Q> x, Q alpha, Q beta, std::vector<Q> y) {
    typedef typename Blk<b>::type BT; typedef typename Blk<b>::rhs RT;
    auto A = amgcl::adapter::block_matrix<BT>(U0);
    std::string d = dims(A), it = dump_blocks<b>(A);
    be::crs<BT> C(A);
    std::string cp = dump_blocks<b>(C);
    auto U = amgcl::adapter::unblock_matrix(C);
    auto xb = be::reinterpret_as_rhs<RT>(x); auto yb = be::reinterpret_as_rhs<RT>(y);
    be::spmv(alpha, C, xb, beta, yb);
    return d + " " + it + " " + cp + " " + vq::show_crs(*U) + " " + show(y);
}
template <int b> static std::string block_comp(const std::string &under, Tok &t) {
    auto a = std::make_shared< Arr<ptrdiff_t> >(t); std::vector<Q> x = t.vec(); Q alpha = t.q(), beta = t.q(); std::vector<Q> y = t.vec();
    if (a->m != a->n) throw std::invalid_argument("square");
    if (under == "builder") { RowsFromCase rb; rb.a = a; auto M = amgcl::adapter::make_matrix(rb); return block_over<b>(M, x, alpha, beta, y); }
    if (under == "zero_copy") { auto M = amgcl::adapter::zero_copy((size_t)a->n, a->ptr.data(), a->col.data(), a->val.data()); return block_over<b>(*M, x, alpha, beta, y); }
    if (under == "tuple") { size_t n = a->n; auto M = std::tie(n, a->ptr, a->col, a->val); return block_over<b>(M, x, alpha, beta, y); }
    throw std::invalid_argument("under");
}
AD_OP(block_over) {
    std::string under = t.s(); long b = t.i();
    if (b == 2) return block_comp<2>(under, t);
    if (b == 3) return block_comp<3>(under, t);
    if (b == 4) return block_comp<4>(under, t);
    throw std::invalid_argument("block size");
}
AD_OP(block) {
    long b = t.i();
    if (b == 2) return block_op<2>(t);
    if (b == 3) return block_op<3>(t);
    if (b == 4) return block_op<4>(t);
    throw std::invalid_argument("block size");
}

// ---------------------------------------------------------------- complex adapter (double, dyadic values)
static std::string showc(const std::vector<double> &v) { return show(v); }
AD_OP(cplx) {
    Arr<ptrdiff_t, double> re(t), im(t);
    std::vector<double> xr = t.vecT<double>(), xi = t.vecT<double>();
    typedef std::complex<double> C;
    if (re.col != im.col || re.ptr != im.ptr) throw std::invalid_argument("pattern");
    std::vector<C> val(re.val.size()); for (size_t k = 0; k < val.size(); ++k) val[k] = C(re.val[k], im.val[k]);
    std::vector<C> z(xr.size()); for (size_t k = 0; k < z.size(); ++k) z[k] = C(xr[k], xi[k]);
    if (re.m != re.n) throw std::invalid_argument("square");
    auto A = std::tie(re.n, re.ptr, re.col, val);
    auto R = amgcl::adapter::complex_matrix(A);
    // real-equivalent product on the interleaved vector
    auto zr = amgcl::adapter::complex_range(z);
    std::vector<double> xx(zr.begin(), zr.end()), yy(2 * re.n, 7.0);
    be::crs<double> RC(R);
    be::spmv(1.0, RC, xx, 0.0, yy);
    // complex product
    std::vector<C> w(re.n, C(7, 7)); be::spmv(1.0, A, z, 0.0, w);
    std::vector<double> wi; for (auto &c : w) { wi.push_back(c.real()); wi.push_back(c.imag()); }
    return dims(R) + " " + dump_rows(R) + " " + showc(yy) + " " + showc(wi);
}

// ---------------------------------------------------------------- exact inner solver
// single-level amg = skyline LU of the whole matrix, applied once by preonly: exact in Q
typedef amgcl::make_solver< amgcl::amg<B, amgcl::coarsening::aggregation, amgcl::relaxation::damped_jacobi>,
                            amgcl::solver::preonly<B> > ExactSolver;
static ExactSolver::params exact_prm() { ExactSolver::params p; p.precond.coarse_enough = 1000000; return p; }

// complex system solved through its real-equivalent form (C13): std::complex<Q> is used as a
// plain pair (constructor, real(), imag()); all arithmetic happens on the expanded Q matrix
AD_OP(cplx_solve) {
    Arr<ptrdiff_t> re(t), im(t); std::vector<Q> fr = t.vec(), fi = t.vec();
    typedef std::complex<Q> C;
    if (re.col != im.col || re.ptr != im.ptr || re.n != re.m) throw std::invalid_argument("pattern");
    std::vector<C> val(re.val.size()); for (size_t k = 0; k < val.size(); ++k) val[k] = C(re.val[k], im.val[k]);
    auto A = std::tie(re.n, re.ptr, re.col, val);
    auto R = amgcl::adapter::complex_matrix(A);
    ExactSolver solve(R, exact_prm());
    std::vector<Q> f(2 * re.n), x(2 * re.n, Q(0));
    for (ptrdiff_t i = 0; i < re.n; ++i) { f[2 * i] = fr[i]; f[2 * i + 1] = fi[i]; }
    solve(f, x);
    return show(x);
}

// ---------------------------------------------------------------- reorder
static std::vector<ptrdiff_t> g_perm;             // injected ordering for reorder<>
struct given_order { template <class M, class V> static void get(const M&, V &perm) { for (size_t i = 0; i < g_perm.size(); ++i) perm[i] = g_perm[i]; } };

AD_OP(reorder_view) {
    Arr<ptrdiff_t> a(t); auto p = t.ivec(); std::vector<Q> x = t.vec();
    g_perm.assign(p.begin(), p.end());
    auto A = std::tie(a.n, a.ptr, a.col, a.val);
    amgcl::adapter::reorder<given_order> perm(A);
    auto R = perm(A);
    be::crs<Q> C(R);
    std::vector<Q> fw(a.n), iv(a.n, Q(7));
    perm.forward(x, fw); perm.inverse(x, iv);
    // the vector view: perm(x)[i] = x[perm[i]]
    auto xv = perm(x); std::vector<Q> vw(a.n); for (ptrdiff_t i = 0; i < a.n; ++i) vw[i] = xv[i];
    return dims(R) + " " + dump_rows(R) + " " + vq::show_crs(C) + " " + show(fw) + " " + show(iv) + " " + show(vw) + " " + spmv_str(R, x);
}
AD_OP(reorder_solve) {
    Arr<ptrdiff_t> a(t); auto p = t.ivec(); std::vector<Q> f = t.vec();
    auto A = std::tie(a.n, a.ptr, a.col, a.val);
    std::vector<Q> fo(a.n), y(a.n, Q(0)), x(a.n, Q(0));
    std::vector<ptrdiff_t> used(a.n);
    if (p.empty()) {
        amgcl::adapter::reorder<> perm(A);          // Cuthill-McKee
        ExactSolver solve(perm(A), exact_prm());
        perm.forward(f, fo); solve(fo, y); perm.inverse(y, x);
        std::vector<Q> id(a.n); for (ptrdiff_t i = 0; i < a.n; ++i) id[i] = Q((long)i);
        std::vector<Q> pid(a.n); perm.forward(id, pid);
        for (ptrdiff_t i = 0; i < a.n; ++i) used[i] = (ptrdiff_t)(double)pid[i];
    } else {
        g_perm.assign(p.begin(), p.end());
        amgcl::adapter::reorder<given_order> perm(A);
        ExactSolver solve(perm(A), exact_prm());
        perm.forward(f, fo); solve(fo, y); perm.inverse(y, x);
        used = g_perm;
    }
    return vq::show_ivec(used) + " " + show(y) + " " + show(x);
}

// ---------------------------------------------------------------- scaled problem
AD_OP(scaled_view) {
    Arr<ptrdiff_t> a(t); auto s = std::make_shared< std::vector<Q> >(t.vec()); std::vector<Q> x = t.vec();
    auto A = std::tie(a.n, a.ptr, a.col, a.val);
    amgcl::adapter::scaled_problem<B, std::vector<Q> > scale(s);
    auto M = scale.matrix(A);
    be::crs<Q> C(M);
    std::vector<Q> sx = x; scale(sx);
    auto r = scale.rhs(x); std::vector<Q> rv(r->data(), r->data() + r->size());
    return dims(M) + " " + dump_rows(M) + " " + vq::show_crs(C) + " " + show(sx) + " " + show(rv);
}
AD_OP(scaled_solve) {
    Arr<ptrdiff_t> a(t); std::vector<Q> sv = t.vec(); std::vector<Q> f = t.vec();
    auto A = std::tie(a.n, a.ptr, a.col, a.val);
    std::vector<Q> y(a.n, Q(0));
    if (sv.empty()) {
        auto scale = amgcl::adapter::scale_diagonal<B>(A);
        ExactSolver solve(scale.matrix(A), exact_prm());
        solve(*scale.rhs(f), y);
        std::vector<Q> x = y; scale(x);
        return show(*scale.s) + " " + show(y) + " " + show(x);
    } else {
        auto s = std::make_shared< std::vector<Q> >(sv);
        amgcl::adapter::scaled_problem<B, std::vector<Q> > scale(s);
        ExactSolver solve(scale.matrix(A), exact_prm());
        std::vector<Q> fs = f; scale(fs);           // option 2 of the documentation: prescale in place
        solve(fs, y);
        std::vector<Q> x = y; scale(x);
        return show(*scale.s) + " " + show(y) + " " + show(x);
    }
}

int main() { return vq::driver_main(); }
