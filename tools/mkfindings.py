#!/usr/bin/env python3
"""mkfindings.py -- rewrite known_findings.json as the merge of known_findings.d/*.json
(one file per finding is the source of truth; the merged file is what a reader looks at)."""
import json, os, sys
sys.path.insert(0, os.path.dirname(os.path.abspath(__file__)))
import vcheck
kf = vcheck.load_known_findings()
fs = sorted(kf["findings"], key=lambda f: (f["property"], f["id"]))
json.dump(dict(findings=fs), open(os.path.join(vcheck.VERIF, "known_findings.json"), "w"), indent=1)
print("known:", sum(f["status"] == "known" for f in fs), "fixed:", sum(f["status"] == "fixed" for f in fs))
