"""C03 -- every coarse level is the (re-scaled) Galerkin product; rebuild keeps it so."""
import random, re
from fractions import Fraction as F
import vcheck
from vcheck import fmt_q
import gen
from props import amg_common as ac
from props import amg_block as ab

DRIVERS = ac.DRIVERS + ab.DRIVERS
MODEL = "amg"
MODEL_BLOCK = "amgb"     # second model driver (coq/Extract_amgb.v, ocaml/amgb): built by run()
RMERGE_ENV = {"OMP_NUM_THREADS": "17"}
ASSUMPTIONS = [
    "transfer operators P, R are taken from the implementation's own hierarchy dump (their correctness is property C04); everything downstream (row sorting, Galerkin products, over-interpolation scaling, level rules, rebuild) is recomputed by the model",
    "the direct coarse solver is modelled by an exact dense solve (skyline LU itself is property C16)",
]
ASSUMPTIONS += [
    "block value types / coarsening wrappers: hierarchies are dumped EXPANDED to scalar CRS and compared with the scalar model / the scalar statement on the expanded matrices (block product = product of expansions, block adjoint = transpose of the expansion, in exact arithmetic); sizes are converted to expanded rows",
    "block-valued smoothers and the block cycle are not modelled here (C06/C02): 'acts like a fresh hierarchy' is an implementation-vs-implementation comparison against a new amg object whose coarsening replays the stored transfer operators (harness policy tape<C>)",
]
RULE = "seeded random hierarchies (SPD M-matrices on paths/grids/random graphs, non-symmetric diagonally dominant), 4 coarsenings x 3 modelled relaxations x level parameters, scripts of dump/rebuild/apply; block part: SPD block matrices (b = 1, 2; 3 in the thorough tier), 5 coarsening routes incl. as_scalar and the runtime wrapper, with/without near-null-space vectors, both constructors and rebuild overloads; a subset again with 17 OpenMP threads; distinct = distinct case line; non-trivial = implementation output contains a non-zero value"

def dense(n, m, rows):
    D = [[F(0)] * m for _ in range(n)]
    for i, rw in enumerate(rows):
        for c, v in rw: D[i][c] += v
    return D
def matmul(A, B):
    n, k, m = len(A), len(B), (len(B[0]) if B else 0)
    return [[sum(A[i][t] * B[t][j] for t in range(k) if A[i][t] != 0) for j in range(m)] for i in range(n)]

def level_oracles(c, lv, A0rows, scale):
    """property statements evaluated directly on the implementation's hierarchy dump"""
    errs = []
    sizes = [(l[1][0] if l[1] is not None else None) for l in lv]
    for k, l in enumerate(lv):
        kind, A, P, R = l
        if kind == "M":
            # R = adjoint(P) for aggregation / SA / RS
            if c.coarsening in ("aggregation", "smoothed_aggregation", "ruge_stuben"):
                DP, DR = dense(*P), dense(*R)
                if [[DP[i][j] for i in range(P[0])] for j in range(P[1])] != DR:
                    errs.append("level %d: R != transpose(P)" % k)
            # level sizes strictly decrease
            if not (P[1] < A[0]): errs.append("level %d: coarse size %d not < fine size %d" % (k, P[1], A[0]))
            # next matrix = s * R A P
            if k + 1 < len(lv) and lv[k + 1][1] is not None:
                An = dense(*lv[k + 1][1])
                G = matmul(dense(*R), matmul(dense(*A), dense(*P)))
                s = F(1) if scale == "-" else F(scale)
                G = [[s * v for v in rw] for rw in G]
                if G != An: errs.append("level %d: A_next != s*R*A*P" % k)
            # sorted rows, no duplicate columns
            for nm, Mx in (("A", A), ("P", P), ("R", R)):
                for rw in Mx[2]:
                    cs = [e[0] for e in rw]
                    if cs != sorted(cs) or len(set(cs)) != len(cs):
                        errs.append("level %d: %s row not sorted/distinct" % (k, nm)); break
    # last-level rule
    cf = c.cfg
    last = lv[-1]
    if last[0] == "S":
        if not cf["direct_coarse"]: errs.append("direct solver used although direct_coarse = false")
        n_last = last[1][0] if last[1] is not None else (lv[-2][2][1] if len(lv) > 1 else None)
        if n_last is not None and n_last > cf["coarse_enough"]:
            errs.append("direct solver on %d > coarse_enough unknowns" % n_last)
    else:
        n_last = last[1][0]
        if n_last <= cf["coarse_enough"] and cf["direct_coarse"] and len(lv) < cf["max_levels"] and len(lv) > 0 and last[0] == "L":
            # allowed only when the level could not be coarsened (empty_level) or max_levels was hit
            pass
    if len(lv) > cf["max_levels"]: errs.append("more levels than max_levels")
    return errs

def perturb(r, rows, sym=True):
    """same pattern, perturbed values keeping diagonal dominance (scaled + diagonal shift)"""
    s = r.choice([F(2), F(1, 2), F(3), F(5, 4)])
    sh = r.choice([F(0), F(1), F(1, 2)])
    return [[(c, v * s + (sh if c == i else 0)) for c, v in rw] for i, rw in enumerate(rows)]

def make_cases(tier, seed):
    r = random.Random(seed * 1000 + 3)
    N = 120 if tier == "quick" else 900
    cases = []
    for k in range(N):
        n = r.choice([1, 2, 3, 4, 5, 6, 8, 10, 12, 16]) if tier == "quick" else r.choice([1, 2, 3, 5, 8, 12, 16, 20, 24, 32])
        rows = gen.spd_mmatrix(r, n) if r.random() < 0.75 else gen.nonsym_dd(r, n, density=min(0.5, 3.0 / max(n, 1)))
        if r.random() < 0.3: rows = gen.shuffle_rows(r, rows)      # amg sorts on entry
        co = ac.COARSENINGS[k % 4]; rx = ac.MODEL_RELAX[(k // 4) % 3]
        cfg = ac.rand_cfg(r, n)
        script = [("dump",)]
        f1 = gen.rvec(r, n); x0 = gen.rvec(r, n)
        script.append(("apply", f1, x0))
        if r.random() < 0.7:
            A1 = perturb(r, rows)
            script += [("rebuild", A1), ("dump",), ("apply", f1, x0)]
            if r.random() < 0.7:
                script += [("rebuild", rows), ("dump",), ("apply", f1, x0)]
            if r.random() < 0.3:
                script += [("rebuild", perturb(r, A1)), ("dump",), ("apply", gen.rvec(r, n), x0)]
        cp = ac.rand_cprm(r, co)
        # over-interpolation factors BELOW one are valid parameters too: the coarse operator is R A P / over_interp whatever its size
        if co == "aggregation" and k % 3 == 0: cp["over_interp"] = ["4/5", "1/2", "3/4"][(k // 3) % 3]
        cases.append(ac.Case("c%d" % k, co, rx, cfg, cp, r.choice(["1", "1/2", "3/4", "-", "5/8"]), n, rows, script))
    return cases

def classify(f):
    """signature of a failure (matched against known_findings.d/C03-*.json)"""
    th = f.get("theorem") or ""; blk = f.get("block")
    if blk and "level sizes do not strictly decrease" in th:
        m = re.search(r"FAIL sizes ([0-9,>-]+) ", th)
        pairs = [p.split("->") for p in m.group(1).split(",")] if m else []
        return dict(clause="sizes-strictly-decrease", stall=bool(pairs) and all(a == b_ for a, b_ in pairs),
                    nullspace_cols_gt_block_size=blk["nullspace_cols"] > blk["block_size"])
    if blk and "implementation crashed" in th and blk.get("diagnosis") == "empty-coarse-level":
        return dict(crash="direct-solver-on-empty-coarse-level", nullspace_cols_gt_block_size=blk["nullspace_cols"] > blk["block_size"])
    return {}

def run_block(ctx, cases_override=None):
    """block value types and coarsening wrappers (tools/props/amg_block.py)"""
    cases = ab.make_cases(ctx["tier"], ctx["seed"])
    if cases_override:
        ids = set(l.split(" ", 1)[0] for l in cases_override)
        cases = [c for c in cases if c.cid in ids]
        if not cases: return []
    try:
        model_exe = block_model(ctx)
    except Exception as e:
        return [dict(kind="broken-model-build", case=None, has_input=False, impl=None, model=None, op="amgbm", size=0,
                     theorem="Extract_amgb.v / OCaml driver of the amgb group does not build: " + str(e)[-1500:])]
    try:
        fails = ab.run_cases(ctx, cases, model_exe)
        # both SpGEMM algorithms: with more than 16 OpenMP threads product() switches from spgemm_saad to
        # spgemm_rmerge; the hierarchy (exact arithmetic, rows sorted by amg) must not change
        # (a subset of the cases; all of them in a replay)
        k = len(cases) if cases_override else (24 if ctx["tier"] == "quick" else 96)
        for f in ab.run_cases(ctx, cases[:k], model_exe, env=RMERGE_ENV):
            f["theorem"] = "[OMP_NUM_THREADS=17: spgemm_rmerge] " + f["theorem"]; f["env"] = RMERGE_ENV; fails.append(f)
        return fails
    except Exception:
        import traceback
        return [dict(kind="counterexample", case=None, has_input=False, impl=None, model=None, op="amgb", size=0,
                     theorem="block stage of the C03 check failed to evaluate: " + traceback.format_exc()[-1500:])]

def full_policy_tokens(c):
    """the coarsening policy of Coarsen.coarsen_step for an amg_common.Case (block_size 1, no null space)"""
    cp = c.cprm
    return ab.policy_tokens(c.coarsening, cp["eps_strong"], cp["relax"], c.scale(), 1, cp["do_trunc"], cp["eps_trunc"])

def run_full(ctx, cases, impl, model_exe):
    """hierarchies built ENTIRELY inside the model (coq/AmgFull.v amg_init_full: transfer operators from
    Coarsen.coarsen_step, Galerkin products, level rules, rebuild) against the implementation's dumps:
    nothing of the implementation's output is an input of the model"""
    fails = []; lines = []; want = {}
    for c in cases:
        o = impl.get(c.cid)
        if o is None or o.startswith(("CRASH", "EXC", "UNSUPPORTED")): continue
        segs = o.split(" ; ")
        if len(segs) != len(c.script): continue
        sc = []; w = []
        for i, cmd in enumerate(c.script):
            if cmd[0] == "dump": sc.append("dump"); w.append(segs[i])
            elif cmd[0] == "rebuild": sc.append("rebuild " + vcheck.fmt_crs(c.n, c.n, cmd[1])); w.append(segs[i])
        cf = c.cfg
        lines.append(" ".join([c.cid, "amgfull", c.coarsening, "1", str(cf["coarse_enough"]), str(cf["direct_coarse"]), str(cf["max_levels"]),
                               full_policy_tokens(c), vcheck.fmt_crs(c.n, c.n, c.rows), str(len(sc)), " ".join(sc)]))
        want[c.cid] = w
    res = ctx["run_driver"](model_exe, lines, timeout=1500)
    for c in cases:
        if c.cid not in want: continue
        ctx["stats"]["oracle_checks"] += 1
        ctx["stats"].setdefault("full_model_hierarchies", 0); ctx["stats"]["full_model_hierarchies"] += 1
        got = (res.get(c.cid) or "").split(" ; ")
        if got != want[c.cid]:
            ctx["stats"]["mismatches"] += 1
            k = next((i for i in range(max(len(got), len(want[c.cid]))) if i >= len(got) or i >= len(want[c.cid]) or got[i] != want[c.cid][i]), 0)
            fails.append(dict(kind="counterexample", case=c.impl_line(), impl=(want[c.cid][k] if k < len(want[c.cid]) else None),
                              model=(got[k] if k < len(got) else None), op="amg." + c.coarsening, size=len(c.impl_line()), segment=k,
                              theorem="correspondence amg(%s): implementation's hierarchy vs the hierarchy built entirely inside the model (AmgFull.amg_init_full), dump/rebuild step %d" % (c.coarsening, k)))
    return fails

def block_model(ctx):
    """second model driver (group amgb).  Every .vo that coq/Extract_amgb.v needs is in the dependency
    closure of Properties_C03.v / Extract_amg.v, which the runner has built already."""
    if "model_amgb" not in ctx:
        ctx["model_amgb"] = vcheck.build_model(ctx["log"], MODEL_BLOCK)
    return ctx["model_amgb"]

def run(ctx, cases_override=None):
    bfails = run_block(ctx, cases_override)
    cases = make_cases(ctx["tier"], ctx["seed"])
    if cases_override:
        ids = set(l.split(" ", 1)[0] for l in cases_override)
        if ids and all(i.startswith("b") for i in ids): return bfails
        cases = [c for c in cases if c.cid in ids] or cases
    fails, impl, model, levels = ac.run_cases(ctx, cases)
    fails = bfails + fails
    try:
        fails += run_full(ctx, cases, impl, block_model(ctx))
        k = len(cases) if cases_override else (24 if ctx["tier"] == "quick" else 96)
        f2, impl2, _, _ = ac.run_cases(ctx, cases[:k], env=RMERGE_ENV)
        f2 += run_full(ctx, cases[:k], impl2, block_model(ctx))
        for f in f2:
            f["theorem"] = "[OMP_NUM_THREADS=17: spgemm_rmerge] " + f["theorem"]; f["env"] = RMERGE_ENV; fails.append(f)
    except Exception as e:
        import traceback
        fails.append(dict(kind="broken-model-build", case=None, has_input=False, impl=None, model=None, op="amgfull", size=0,
                          theorem="amgfull stage failed: " + traceback.format_exc()[-1500:]))
    # implementation-side oracles on every dump (independent of the model)
    for c in cases:
        o = impl.get(c.cid)
        if not o or o.startswith(("EXC", "CRASH", "UNSUPPORTED")): continue
        segs = o.split(" ; ")
        applies = [segs[i] for i, cmd in enumerate(c.script) if cmd[0] == "apply" and i < len(segs)]
        for i, cmd in enumerate(c.script):
            if cmd[0] != "dump" or i >= len(segs): continue
            lv = ac.parse_dump(segs[i])
            ctx["stats"]["oracle_checks"] += 1
            errs = level_oracles(c, lv, c.rows, c.scale())
            if errs:
                fails.append(dict(kind="counterexample", case=c.impl_line(), impl=segs[i][:2000], model=None, op="amg." + c.coarsening,
                                  size=len(c.impl_line()), oracle=dict(statement="Galerkin / adjoint / level rules on the implementation's hierarchy", errors=errs),
                                  theorem="C03 oracle on implementation hierarchy: " + errs[0]))
        # rebuild with the original matrix restores the original action
        ap = [i for i, cmd in enumerate(c.script) if cmd[0] == "apply"]
        if len(ap) >= 3 and c.script[ap[2]][1:] == c.script[ap[0]][1:] and [x for x in c.script[:ap[2]] if x[0] == "rebuild"][-1][1] == c.rows:
            ctx["stats"]["oracle_checks"] += 1
            if segs[ap[0]] != segs[ap[2]]:
                fails.append(dict(kind="counterexample", case=c.impl_line(), impl=segs[ap[2]], model=segs[ap[0]], op="amg." + c.coarsening,
                                  size=len(c.impl_line()), theorem="C03 oracle: rebuild with the original matrix does not restore the original action"))
    return fails
