"""common.py -- shared flow for property modules: run implementation and model on the same
case lines, compare, update statistics."""
import hashlib, re
from fractions import Fraction

ZERO_OUT = re.compile(r"^[\[\]\{\}\|\s0:]*$")

def default_nontrivial(op, payload_in, impl_out):
    if impl_out is None: return False
    if impl_out.startswith(("EXC", "UNSUPPORTED", "CRASH", "BADCRS")): return False
    # strip structure, keep values: any non-zero digit in a value position?
    vals = re.findall(r"(?::|\[|\s)(-?\d+(?:/\d+)?)", " " + impl_out)
    return any(Fraction(v) != 0 for v in vals) if vals else False

def account(ctx, lines, impl, nontrivial=default_nontrivial):
    st = ctx["stats"]
    for l in lines:
        cid, op, payload = (l.split(" ", 2) + [""])[:3]
        st["evaluations"] += 1
        st["by_op"][op] = st["by_op"].get(op, 0) + 1
        h = hashlib.sha256((op + " " + payload).encode()).hexdigest()
        if h not in st["distinct"]:
            st["distinct"].add(h)
            if nontrivial(op, payload, impl.get(cid)):
                st["nontrivial"] += 1
        if cid in impl: st["traces"] += 1
        if len(st["samples"]) < 8 and (st["evaluations"] % 37 == 1):
            st["samples"].append(dict(case=l[:400], impl=(impl.get(cid) or "")[:300]))

def diff_run(ctx, driver, lines, env=None, theorem=None, nontrivial=default_nontrivial, shards=None, model_lines=None,
             prefix=None, timeout=1800):
    """Run implementation and model on the same cases. Returns (fails, impl, model)."""
    kw = {}
    if shards: kw["shards"] = shards
    impl = ctx["run_driver"](ctx["cpp"][driver], lines, env_extra=env, prefix=prefix, timeout=timeout, **kw)
    model = ctx["run_driver"](ctx["model"], model_lines or lines, timeout=timeout)
    account(ctx, lines, impl, nontrivial)
    fails = []
    for l in lines:
        cid, op = l.split(" ", 2)[:2]
        a, b = impl.get(cid), model.get(cid)
        if a != b:
            ctx["stats"]["mismatches"] += 1
            fails.append(dict(kind="counterexample" , case=l, impl=a, model=b, op=op, size=len(l),
                              theorem=theorem or ("correspondence %s: implementation vs Coq model (%s)" % (driver, op)),
                              env=env))
    return fails, impl, model

def oracle_run(ctx, olines, theorem, case_of):
    """Second stage: oracle ops evaluated by the extracted Coq spec functions on implementation
    outputs. olines are case lines whose model output must be 'OK'."""
    if not olines: return []
    res = ctx["run_driver"](ctx["model"], olines)
    fails = []
    for l in olines:
        cid, op = l.split(" ", 2)[:2]
        ctx["stats"]["oracle_checks"] += 1
        r = res.get(cid)
        if r is None or not r.startswith("OK"):
            ctx["stats"]["oracle_fail"] += 1
            fails.append(dict(kind="counterexample", case=case_of(cid), impl=None, model=None, op=op,
                              oracle=dict(op=op, result=r, line=l[:2000]), size=len(l), theorem=theorem))
    return fails
