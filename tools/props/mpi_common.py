"""mpi_common.py -- helpers shared by the MPI property modules (C11, C12)."""
def run_mpi(ctx, exe, lines, np_, mpirun, shards=1, timeout=300, env=None, retries=2):
    """Run an MPI line driver under `mpirun -n np_`; Open MPI's launcher itself crashes sporadically when many mpiruns
    start at once (shared session directory), which shows up as CRASH + unanswered cases although the driver is fine.
    Unanswered/crashed cases are re-run (one mpirun, private session directory): a deterministic crash or hang of the
    driver reproduces and is reported, a launcher flake does not.  Retries are recorded in ctx['log']."""
    import tempfile, shutil
    def strip(res):
        """every complete record ends with the mark ' $'; a record without it was cut short -> unanswered"""
        clean = {}
        for k, v in res.items():
            if v.startswith("CRASH"): clean[k] = v
            elif v.endswith(" $"): clean[k] = v[:-2]
            elif v == "$": clean[k] = ""
        return clean
    out = strip(ctx["run_driver"](exe, lines, env_extra=env, prefix=mpirun + [str(np_)], timeout=timeout, shards=shards))
    for attempt in range(retries):
        todo = [l for l in lines if (out.get(l.split(" ", 1)[0]) is None) or out[l.split(" ", 1)[0]].startswith("CRASH")]
        if not todo: break
        # a hang (timeout, rc=124) is not retried: it is a finding, and retrying would double the wait
        if any((out.get(l.split(" ", 1)[0]) or "").startswith("CRASH rc=124") for l in todo): break
        ctx["log"].append(("mpirun retry np=%d attempt=%d cases=%d" % (np_, attempt + 1, len(todo)), 0))
        d = tempfile.mkdtemp(prefix="vq_ompi_")
        try:
            again = strip(ctx["run_driver"](exe, todo, env_extra=env, prefix=mpirun[:1] + ["--mca", "orte_tmpdir_base", d] + mpirun[1:] + [str(np_)],
                                            timeout=timeout, shards=1))
        finally:
            shutil.rmtree(d, ignore_errors=True)
        for l in todo:
            cid = l.split(" ", 1)[0]
            if cid in again: out[cid] = again[cid]
            elif cid in out and out[cid].startswith("CRASH"): pass
    return out
