"""C02 -- the AMG cycle is a fixed linear, symmetric positive, contracting operator."""
import random
from fractions import Fraction as F
from vcheck import fmt_q, parse_out_vec
import gen
from props import amg_common as ac

DRIVERS = ac.DRIVERS
MODEL = "amg"
ASSUMPTIONS = [
    "transfer operators are taken from the implementation's hierarchy (property C04 covers them); coarse direct solve modelled as exact solve (C16)",
    "contraction is checked as strict energy-norm decrease on sampled error vectors (a test); the spectral-radius formulation is not formalised",
    "ILU(0)/Chebyshev smoothers inside the cycle: oracle-only until their models are linked into the amg driver",
]
RULE = "seeded SPD M-matrices (paths, grids, random graphs) x 4 coarsenings x {damped_jacobi, spai0, gauss_seidel | ilu0, chebyshev oracle-only} x ncycle/npre/npost/pre_cycles/coarse_enough/max_levels/direct_coarse; scripts: apply f, apply g, apply a f + b g, apply f again, cycle with non-zero x, unit vectors for small n; non-trivial = non-zero output"

def dot(u, v): return sum(a * b for a, b in zip(u, v))
def matvec(rows, x): return [sum(v * x[c] for c, v in rw) for rw in rows]

def make_cases(tier, seed):
    r = random.Random(seed * 1000 + 2)
    N = 160 if tier == "quick" else 1200
    cases = []
    relaxes = ac.MODEL_RELAX + ["damped_jacobi", "gauss_seidel", "ilu0", "chebyshev"]
    for k in range(N):
        n = r.choice([1, 2, 3, 4, 5, 6, 8, 10, 12]) if tier == "quick" else r.choice([1, 2, 3, 5, 8, 12, 16, 20, 24])
        rows = gen.spd_mmatrix(r, n, extra_diag=(F(r.choice([1, 2]), r.choice([1, 2, 4])) if r.random() < 0.7 else None))
        co = ac.COARSENINGS[k % 4]; rx = relaxes[(k // 4) % len(relaxes)]
        cfg = ac.rand_cfg(r, n)
        sym = (r.random() < 0.6)
        if sym: cfg["npost"] = cfg["npre"] = max(1, cfg["npre"])
        f = gen.rvec(r, n); g = gen.rvec(r, n); a, b = gen.rq(r, nz=True), gen.rq(r)
        x0 = gen.rvec(r, n); z = [F(0)] * n
        script = [("dump",), ("apply", f, x0), ("apply", g, z), ("apply", [a * u + b * v for u, v in zip(f, g)], x0), ("apply", f, z),
                  ("cycle", f, x0)]
        units = (n <= (6 if tier == "quick" else 10)) and cfg["pre_cycles"] >= 1
        if units:
            for i in range(n):
                e = [F(0)] * n; e[i] = F(1); script.append(("apply", e, x0))
        damping = r.choice(["1/2", "3/4", "5/8", "-", "1"]) 
        c = ac.Case("c%d" % k, co, rx, cfg, ac.rand_cprm(r, co), damping, n, rows, script)
        c.meta = dict(a=a, b=b, units=units, sym=sym)
        cases.append(c)
    return cases

def run(ctx, cases_override=None):
    cases = make_cases(ctx["tier"], ctx["seed"])
    if cases_override:
        ids = set(l.split(" ", 1)[0] for l in cases_override)
        cases = [c for c in cases if c.cid in ids] or cases
    fails, impl, model, levels = ac.run_cases(ctx, cases)
    def fail(c, msg, got=None, exp=None):
        fails.append(dict(kind="counterexample", case=c.impl_line(), impl=got, model=exp, op="amg." + c.coarsening,
                          size=len(c.impl_line()), oracle=dict(statement=msg), theorem="C02 oracle on the implementation: " + msg))
    for c in cases:
        o = impl.get(c.cid)
        if not o or o.startswith(("EXC", "CRASH", "UNSUPPORTED")): continue
        segs = [parse_out_vec(s) for s in o.split(" ; ")[1:]]
        n = c.n; m = c.meta
        Bf, Bg, Bfg, Bf2 = segs[0], segs[1], segs[2], segs[3]
        st = ctx["stats"]
        # one fixed operator: independent of earlier applications and of the initial content of x
        st["oracle_checks"] += 1
        if Bf != Bf2: fail(c, "apply(f) differs between the 1st and the 4th application (history / initial x dependence)", str(Bf2), str(Bf))
        # linearity
        st["oracle_checks"] += 1
        lin = [m["a"] * u + m["b"] * v for u, v in zip(Bf, Bg)]
        if c.cfg["pre_cycles"] >= 0 and lin != Bfg: fail(c, "B(a f + b g) != a B f + b B g", str(Bfg), str(lin))
        if m["units"] and len(segs) >= 5 + n:
            B = [segs[5 + j] for j in range(n)]          # B[j] = B e_j (columns)
            symcfg = (c.cfg["npre"] == c.cfg["npost"] and c.coarsening != "smoothed_aggr_emin"
                      and c.relax in ("damped_jacobi", "spai0", "gauss_seidel", "ilu0", "chebyshev"))
            if symcfg:
                st["oracle_checks"] += 1
                if any(B[j][i] != B[i][j] for i in range(n) for j in range(i)):
                    fail(c, "B is not symmetric although A is SPD, R = P^T, npre = npost and the smoother is symmetric")
                # positive definite on the unit basis and on sample vectors; strict energy decrease
                damp_ok = (c.relax != "damped_jacobi") or (c.damping in ("1/2", "5/8", "3/4", "-"))
                for t in range(3):
                    rr = random.Random(hash((c.cid, t)) & 0xffffff)
                    gvec = [F(rr.randint(-3, 3)) for _ in range(n)]
                    if all(v == 0 for v in gvec): continue
                    Bg_ = [sum(B[j][i] * gvec[j] for j in range(n)) for i in range(n)]
                    st["oracle_checks"] += 1
                    if c.relax != "chebyshev" and damp_ok and not dot(Bg_, gvec) > 0: fail(c, "<B g, g> <= 0 for g = %s" % gvec)
                    # error propagation e' = e - B A e ; energy strictly decreases
                    Ae = matvec(c.rows, gvec); BAe = [sum(B[j][i] * Ae[j] for j in range(n)) for i in range(n)]
                    e2 = [u - v for u, v in zip(gvec, BAe)]
                    en0 = dot(Ae, gvec); en1 = dot(matvec(c.rows, e2), e2)
                    if c.relax in ("damped_jacobi", "spai0", "gauss_seidel") and damp_ok and c.cfg["npre"] >= 1 and not en1 < en0:
                        fail(c, "energy norm does not decrease: <A Ee, Ee> = %s >= <A e, e> = %s" % (en1, en0))
    return fails
