"""C02 -- the AMG cycle is a fixed linear, symmetric positive, contracting operator."""
import random, zlib
from fractions import Fraction as F
from vcheck import fmt_q, parse_out_vec
import gen
from props import amg_common as ac
from props import c02_block as cb
from props.common import account

# exact builds (tie against the model + oracles) and double builds (power-of-two scaling, bitwise).
# The double builds are the poisoned-heap binaries of C10 (same source, same flags => same cache entry).
DDRIVERS = ["amgd_%s@poison" % c for c in ac.COARSENINGS]
DRIVERS = ac.DRIVERS + DDRIVERS + cb.DRIVERS      # cb: block value types (harness/amgc_driver.hh, tools/props/c02_block.py)
EXTRA_FLAGS = dict({"@poison": ["-DVQ_POISON"]}, **cb.extra_flags())
MODEL = "amg"
ASSUMPTIONS = [
    "transfer operators are taken from the implementation's hierarchy (property C04 covers them); coarse direct solve modelled as exact solve (C16)",
    "contraction is proved as strict decrease of the energy norm of every non-zero error (and |lambda| < 1 for every eigenvalue of I - BA that lies in the field); the step from there to the spectral radius (existence of an A-orthogonal eigenbasis over the reals) is not formalised",
    "ILU(0)/Chebyshev smoothers inside the cycle: model linked into the amg driver for the correspondence; no energy theorem for them (hypotheses of the cycle theorem); scaling: the Chebyshev sweep is proved (C02_chebyshev_scales), ILU(0) is covered by the scaling oracle on the implementation only",
    "block value types (static_matrix<Q,b,b>, b = 2, 3; tools/props/c02_block.py): the block coarse direct solver is modelled by its specification (exact solve of the expanded scalar system); base scalars are embedded as c*I; proved for blocks: history independence, linearity over base scalars (right-linearity over the ring), symmetry of the V(1,1) cycle with damped Jacobi / SPAI-0 over a ring with an anti-automorphism; symmetry for the other smoothers and cycle shapes, positive definiteness and energy decrease are implementation-side oracles only (full symmetry statement kept in Properties_C02.v); implementation runs that abort in detail::inverse on a singular diagonal block (non-symmetric matrices with smoothed aggregation) are out of domain and counted, not compared",
    "scaling clause: proved for the model over any field (c <> 0, transfer operators given); on the implementation checked in exact arithmetic for c = 2^k and a few other c > 0 (all coarsenings build the SAME transfer operators from c*A) and in the double build bitwise for c = 2^k, |k| <= 40 (no overflow / underflow in the generated range)",
]
RULE = "seeded SPD M-matrices (paths, grids, random graphs) x 4 coarsenings x {damped_jacobi, spai0, gauss_seidel, ilu0, chebyshev} x ncycle/npre/npost/pre_cycles/coarse_enough/max_levels/direct_coarse; scripts: apply f, apply g, apply a f + b g, apply f again, cycle with non-zero x, unit vectors for small n; every third case has a twin built from c*A (exact build; c = 2^k, |k| <= 40, 3, 5/7), plus 120 (quick) / 600 (thorough) pairs A / 2^k A on dyadic data in the double build compared bitwise, plus Ruge-Stuben twins at 2^-60 that exhibit the known finding C02-rs-absolute-eps; block values: 240 (quick) / 1200 (thorough) block M-matrices (b = 2, every sixth b = 3; three in four symmetric A_JI = A_IJ^T, generic non-commuting blocks) x {aggregation, smoothed_aggregation} x the five relaxations x cycle parameters, same script shape (unit vectors for n*b <= 12 / 16); non-trivial = non-zero output"

def bump(st, key): st["by_op"][key] = st["by_op"].get(key, 0) + 1
def dot(u, v): return sum(a * b for a, b in zip(u, v))
def matvec(rows, x): return [sum(v * x[c] for c, v in rw) for rw in rows]

SCALES = [F(2), F(1, 2), F(4), F(8), F(1, 16), F(1024), F(1, 4096), F(2) ** 20, F(2) ** 40, F(1, 2 ** 40), F(3), F(5, 7)]
TINY = F(1, 2 ** 60)    # below the absolute threshold of ruge_stuben.hpp (known finding C02-rs-absolute-eps)

def idprefix(tier, seed):
    """case ids carry tier and seed, so that a replay file can be re-run under any VERIF_SEED"""
    return "%s%d_" % (tier[0], seed)

def twin_of(c, s, suffix="s"):
    """the same case built from s*A; apply right-hand sides unchanged, cycle right-hand side scaled
    (cycle(s*A; s*f, x) = cycle(A; f, x) for x <> 0, apply(s*A; f) = apply(A; f) / s)"""
    rows = [[(j, v * s) for j, v in rw] for rw in c.rows]
    script = []
    for cmd in c.script:
        if cmd[0] == "cycle": script.append(("cycle", [s * u for u in cmd[1]], cmd[2]))
        else: script.append(cmd)
    t = ac.Case(c.cid + suffix, c.coarsening, c.relax, c.cfg, c.cprm, c.damping, c.n, rows, script)
    t.meta = dict(c.meta); t.meta["twin_of"] = c.cid; t.meta["scale"] = s
    return t

def make_cases(tier, seed):
    r = random.Random(seed * 1000 + 2)
    N = 160 if tier == "quick" else 1200
    cases = []
    relaxes = ac.MODEL_RELAX + ["damped_jacobi", "gauss_seidel", "ilu0", "chebyshev"]
    for k in range(N):
        n = r.choice([1, 2, 3, 4, 5, 6, 8, 10, 12]) if tier == "quick" else r.choice([1, 2, 3, 5, 8, 12, 16, 20, 24])
        rows = gen.spd_mmatrix(r, n, extra_diag=(F(r.choice([1, 2]), r.choice([1, 2, 4])) if r.random() < 0.7 else None))
        co = ac.COARSENINGS[k % 4]; rx = relaxes[(k // 4) % len(relaxes)]
        cfg = ac.rand_cfg(r, n)
        sym = (r.random() < 0.6)
        if sym: cfg["npost"] = cfg["npre"] = max(1, cfg["npre"])
        f = gen.rvec(r, n); g = gen.rvec(r, n); a, b = gen.rq(r, nz=True), gen.rq(r)
        x0 = gen.rvec(r, n); z = [F(0)] * n
        script = [("dump",), ("apply", f, x0), ("apply", g, z), ("apply", [a * u + b * v for u, v in zip(f, g)], x0), ("apply", f, z),
                  ("cycle", f, x0)]
        units = (n <= (6 if tier == "quick" else 10)) and cfg["pre_cycles"] >= 1
        if units:
            for i in range(n):
                e = [F(0)] * n; e[i] = F(1); script.append(("apply", e, x0))
        damping = r.choice(["1/2", "3/4", "5/8", "-", "1"])
        c = ac.Case("%sc%d" % (idprefix(tier, seed), k), co, rx, cfg, ac.rand_cprm(r, co), damping, n, rows, script)
        c.meta = dict(a=a, b=b, units=units, sym=sym)
        cases.append(c)
    # scaling twins (their own random stream so that the base cases stay what they were)
    rs = random.Random(seed * 1000 + 202)
    twins = []
    for k, c in enumerate(cases):
        s = rs.choice(SCALES)
        if k % 3 == 0: twins.append(twin_of(c, s))
        # Ruge-Stuben at a scale where its absolute threshold bites (n >= 3 so that there is something to coarsen)
        if c.coarsening == "ruge_stuben" and k % 8 == 2 and c.n >= 3: twins.append(twin_of(c, TINY, "t"))
    return cases + twins

def double_pairs(tier, seed):
    """(base line, scaled line, exponent, case) for the double build: dyadic data, 2^e * A"""
    r = random.Random(seed * 1000 + 302)
    N = 120 if tier == "quick" else 600
    relaxes = ["damped_jacobi", "spai0", "gauss_seidel", "ilu0", "chebyshev"]
    out = []
    for k in range(N):
        n = r.choice([1, 2, 3, 4, 6, 8, 12, 16, 25, 40])
        rows = gen.spd_mmatrix(r, n, extra_diag=(F(r.choice([1, 2]), r.choice([1, 2, 4])) if r.random() < 0.7 else None))
        co = ac.COARSENINGS[k % 4]; rx = relaxes[(k // 4) % len(relaxes)]
        cfg = ac.rand_cfg(r, n)
        if cfg["pre_cycles"] == 0: cfg["pre_cycles"] = 1
        e = r.choice([1, -1, 2, 3, -4, 7, 10, -13, 20, -27, 40, -40])
        s = F(2) ** e
        f = gen.dyvec(r, n); g = gen.dyvec(r, n); x0 = gen.dyvec(r, n); z = [F(0)] * n
        damping = r.choice(["1/2", "3/4", "5/8", "-", "1"])
        cprm = ac.rand_cprm(r, co)
        pre = idprefix(tier, seed)
        base = ac.Case("%sd%d" % (pre, k), co, rx, cfg, cprm, damping, n, rows,
                       [("dump",), ("apply", f, z), ("apply", g, x0), ("cycle", f, x0)])
        scaled = ac.Case("%sd%ds" % (pre, k), co, rx, cfg, cprm, damping, n, [[(j, v * s) for j, v in rw] for rw in rows],
                         [("dump",), ("apply", f, z), ("apply", g, x0), ("cycle", [s * u for u in f], x0)])
        out.append((base, scaled, s))
        if co == "ruge_stuben" and k % 8 == 2 and n >= 3:
            tiny = ac.Case("%sd%dt" % (pre, k), co, rx, cfg, cprm, damping, n, [[(j, v * TINY) for j, v in rw] for rw in rows],
                           [("dump",), ("apply", f, z), ("apply", g, x0), ("cycle", [TINY * u for u in f], x0)])
            out.append((base, tiny, TINY))
    return out

NONFINITE = ("nan", "inf", "-inf")
def pval(tok):
    """a printed value: exact rational, or one of the tokens nan / inf / -inf (double build)"""
    return tok if tok in NONFINITE else F(tok)
def pvec(sg):
    sg = sg.strip(); assert sg[0] == "[" and sg[-1] == "]", sg[:40]
    return [pval(x) for x in sg[1:-1].split()]
def pcrs(sg):
    """'{n m | c:v c:v | ...}' -> (n, m, [[(c, value or token)]])"""
    sg = sg.strip(); assert sg[0] == "{" and sg[-1] == "}", sg[:40]
    parts = sg[1:-1].split("|")
    n, m = [int(x) for x in parts[0].split()]
    return n, m, [[(int(e.split(":")[0]), pval(e.split(":")[1])) for e in p.split()] for p in parts[1:]]
def pdump(seg):
    """'D n (M {A} {P} {R} | L {A} | S {A}|-)*n' -> list of (kind, A, P, R) (None where absent)"""
    from vcheck import split_top
    it = split_top(seg); assert it[0] == "D", seg[:40]
    n = int(it[1]); i = 2; out = []
    for _ in range(n):
        k = it[i]; i += 1
        if k == "M": out.append(("M", pcrs(it[i]), pcrs(it[i + 1]), pcrs(it[i + 2]))); i += 3
        elif k == "L": out.append(("L", pcrs(it[i]), None, None)); i += 1
        else: out.append(("S", None if it[i] == "-" else pcrs(it[i]), None, None)); i += 1
    return out
def scaled_eq(v1, v2, s):
    """v2 = s * v1, entry by entry; non-finite tokens must coincide (s > 0)"""
    if isinstance(v1, str) or isinstance(v2, str): return v1 == v2
    return v2 == s * v1

RS_EPS = F(1, 2 ** 51)       # amgcl::detail::eps<double>(1) = 2 * DBL_EPSILON (ruge_stuben.hpp:114, 277)

def min_offdiag(o):
    """smallest non-zero |a_ij|, i <> j, over the level matrices of the first dump of payload o"""
    best = None
    for seg in (o or "").split(" ; "):
        if not seg.startswith("D "): continue
        for lv in pdump(seg):
            if lv[1] is None: continue
            for i, rw in enumerate(lv[1][2]):
                for c, v in rw:
                    if c != i and not isinstance(v, str) and v != 0 and (best is None or abs(v) < best): best = abs(v)
        break
    return best

def zero_coarse_diagonal(o):
    """does some level below the finest one have a zero (or missing) diagonal entry?"""
    for seg in (o or "").split(" ; "):
        if not seg.startswith("D "): continue
        for lv in pdump(seg)[1:]:
            if lv[1] is None: continue
            for i, rw in enumerate(lv[1][2]):
                d = [v for c, v in rw if c == i]
                if not d or all((not isinstance(v, str)) and v == 0 for v in d): return True
        break
    return False

def transfer_nonfinite(o):
    """does some P or R of the hierarchy contain NaN / Inf?"""
    for seg in (o or "").split(" ; "):
        if not seg.startswith("D "): continue
        return any(isinstance(v, str) for lv in pdump(seg) for M in lv[2:4] if M is not None for rw in M[2] for _, v in rw)
    return False

def compare_scaled(o, o2, s, kinds, pre_cycles):
    """o, o2: payloads of the base case and of the case built from s*A (cycle right-hand sides
    scaled by s); kinds: the script commands.  Returns None or (symptom, message); symptom is
    'outcome' | 'structure' (levels, patterns, P, R) | 'matrix' (values of A_l) | 'values' (apply / cycle)."""
    if o is None or o2 is None: return ("outcome", "no answer")
    bad = ("EXC", "CRASH", "UNSUPPORTED")
    if o.startswith(bad) or o2.startswith(bad):
        # construction must fail for both (same exception) or for none
        return None if (o.startswith("EXC") and o.split(" ")[:2] == o2.split(" ")[:2]) else \
            ("outcome", "construction outcome differs: %s vs %s" % (o[:40], o2[:40]))
    sa, sb = o.split(" ; "), o2.split(" ; ")
    if len(sa) != len(sb) or len(sa) != len(kinds): return ("outcome", "different number of script results")
    for i, (u, v) in enumerate(zip(sa, sb)):
        if kinds[i] == "dump":
            la, lb = pdump(u), pdump(v)
            if [x[0] for x in la] != [x[0] for x in lb]:
                return ("structure", "level structure differs: %s vs %s" % ([x[0] for x in la], [x[0] for x in lb]))
            for lv, (x, y) in enumerate(zip(la, lb)):
                if (x[1] is None) != (y[1] is None): return ("structure", "level %d: matrix present / absent" % lv)
                if x[1] is not None:
                    (n1, m1, r1), (n2, m2, r2) = x[1], y[1]
                    if (n1, m1) != (n2, m2) or [[c for c, _ in rw] for rw in r1] != [[c for c, _ in rw] for rw in r2]:
                        return ("structure", "level %d: pattern of A differs" % lv)
                    if not all(scaled_eq(v1, v2, s) for rw1, rw2 in zip(r1, r2) for (_, v1), (_, v2) in zip(rw1, rw2)):
                        return ("matrix", "level %d: A(c*M) != c * A(M)" % lv)
                if x[2] != y[2]: return ("structure", "level %d: P differs" % lv)
                if x[3] != y[3]: return ("structure", "level %d: R differs" % lv)
        else:
            a, b = pvec(u), pvec(v)
            if len(a) != len(b): return ("values", "script step %d: lengths differ" % i)
            if kinds[i] == "cycle" or pre_cycles == 0:
                if a != b: return ("values", "script step %d (%s): results differ" % (i, kinds[i]))
            elif not all(scaled_eq(y, x, s) for x, y in zip(a, b)):
                return ("values", "script step %d (apply): B(c*A) f != B(A) f / c" % i)
    return None

def scaling_record(base_out, s, coarsening, build, res):
    """the part of a scaling failure that classify() turns into the signature"""
    mo = min_offdiag(base_out)
    return dict(coarsening=coarsening, build=build, symptom=res[0], scale=str(s),
                below_rs_eps=bool(mo is not None and mo * s < RS_EPS))

def classify(fail):
    """signature of a failure.  Scaling failures: which coarsening, what differs, and whether the
    scaled matrix has off-diagonal entries below the ABSOLUTE threshold 2^-51 that Ruge-Stuben
    compares them with (known finding C02-rs-absolute-eps); everything else has no signature."""
    nf = fail.get("nonfinite")
    if nf: return dict(oracle="finite", coarsening=nf["coarsening"],
                       degenerate_transfer=bool(nf["zero_coarse_diagonal"] or nf["transfer_nonfinite"]))
    sc = fail.get("scaling")
    if not sc: return {}
    return dict(oracle="scaling", coarsening=sc["coarsening"], symptom=sc["symptom"], below_rs_eps=sc["below_rs_eps"])

def run_block(ctx, cases_override=None):
    """block value types: amg<builtin<static_matrix<Q,b,b>>, ...> against Amg.cycle / Amg.apply at BlockS (c02_block.py)"""
    try:
        return cb.run(ctx, cases_override)
    except Exception:
        import traceback
        return [dict(kind="counterexample", case=None, has_input=False, impl=None, model=None, op="amgc", size=0,
                     theorem="block stage of the C02 check failed to evaluate: " + traceback.format_exc()[-1500:])]

def run(ctx, cases_override=None):
    import re
    if cases_override and all(re.match(r"[qt]\d+_k\d+$", l.split(" ", 1)[0]) for l in cases_override):
        return run_block(ctx, cases_override)          # replay of a block-valued case
    bfails = [] if cases_override else run_block(ctx)
    return bfails + run_scalar(ctx, cases_override)

def run_scalar(ctx, cases_override=None):
    tier, seed = ctx["tier"], ctx["seed"]
    if cases_override:
        # replay: regenerate the run the case comes from (ids are "<q|t><seed>_c<k>[s|t]")
        import re
        m = re.match(r"([qt])(\d+)_", cases_override[0].split(" ", 1)[0])
        if m: tier, seed = {"q": "quick", "t": "thorough"}[m.group(1)], int(m.group(2))
    cases = make_cases(tier, seed)
    dpairs = double_pairs(tier, seed)
    if cases_override:
        ids = set(l.split(" ", 1)[0] for l in cases_override)
        # a twin needs its base case and vice versa
        ids |= set(c.meta["twin_of"] for c in cases if c.cid in ids and "twin_of" in c.meta)
        ids |= set(c.cid for c in cases if c.meta.get("twin_of") in ids)
        sel = [c for c in cases if c.cid in ids]
        seld = [p for p in dpairs if p[0].cid in ids or p[1].cid in ids]
        if sel or seld: cases, dpairs = sel, seld
    fails, impl, model, levels = ac.run_cases(ctx, cases) if cases else ([], {}, {}, {})
    st = ctx["stats"]
    def fail(c, msg, got=None, exp=None, **extra):
        fails.append(dict(kind="counterexample", case=c.impl_line(), impl=got, model=exp, op="amg." + c.coarsening,
                          size=len(c.impl_line()), oracle=dict(statement=msg), theorem="C02 oracle on the implementation: " + msg, **extra))
    byid = dict((c.cid, c) for c in cases)
    for c in cases:
        o = impl.get(c.cid)
        # ---- scaling clause, exact arithmetic: twin built from s*A
        if "twin_of" in c.meta and c.meta["twin_of"] in byid:
            st["oracle_checks"] += 1
            b0 = impl.get(c.meta["twin_of"]) or ""
            res = compare_scaled(b0 or None, o, c.meta["scale"], [cmd[0] for cmd in c.script], c.cfg["pre_cycles"])
            bump(st, "oracle:scaling-exact")
            if b0.startswith("D ") and not b0.startswith("D 1 "): bump(st, "oracle:scaling-exact-multilevel")
            if res: fail(c, "scaling by c = %s (exact arithmetic): %s" % (c.meta["scale"], res[1]), (o or "")[:300], b0[:300],
                         scaling=scaling_record(b0, c.meta["scale"], c.coarsening, "exact", res))
        if not o or o.startswith(("EXC", "CRASH", "UNSUPPORTED")): continue
        segs = [parse_out_vec(s) for s in o.split(" ; ")[1:]]
        n = c.n; m = c.meta
        Bf, Bg, Bfg, Bf2 = segs[0], segs[1], segs[2], segs[3]
        # one fixed operator: independent of earlier applications and of the initial content of x
        st["oracle_checks"] += 1
        if Bf != Bf2: fail(c, "apply(f) differs between the 1st and the 4th application (history / initial x dependence)", str(Bf2), str(Bf))
        # linearity
        st["oracle_checks"] += 1
        lin = [m["a"] * u + m["b"] * v for u, v in zip(Bf, Bg)]
        if c.cfg["pre_cycles"] >= 0 and lin != Bfg: fail(c, "B(a f + b g) != a B f + b B g", str(Bfg), str(lin))
        if m["units"] and len(segs) >= 5 + n:
            B = [segs[5 + j] for j in range(n)]          # B[j] = B e_j (columns)
            symcfg = (c.cfg["npre"] == c.cfg["npost"] and c.coarsening != "smoothed_aggr_emin"
                      and c.relax in ("damped_jacobi", "spai0", "gauss_seidel", "ilu0", "chebyshev"))
            if symcfg:
                st["oracle_checks"] += 1
                if any(B[j][i] != B[i][j] for i in range(n) for j in range(i)):
                    fail(c, "B is not symmetric although A is SPD, R = P^T, npre = npost and the smoother is symmetric")
                # positive definite on sample vectors; strict energy decrease.  Only with smoothing
                # steps >= 1 (the property's quantifier): with npre = npost = 0 the operator is the bare
                # coarse-grid correction P B_c R, positive SEMI-definite only.
                damp_ok = (c.relax != "damped_jacobi") or (c.damping in ("1/2", "5/8", "3/4", "-"))
                rows = c.rows
                for t in range(3 if c.cfg["npre"] >= 1 else 0):
                    rr = random.Random(zlib.crc32(("%s:%d" % (c.cid.rstrip("s"), t)).encode()))
                    gvec = [F(rr.randint(-3, 3)) for _ in range(n)]
                    if all(v == 0 for v in gvec): continue
                    Bg_ = [sum(B[j][i] * gvec[j] for j in range(n)) for i in range(n)]
                    st["oracle_checks"] += 1
                    if c.relax != "chebyshev" and damp_ok and not dot(Bg_, gvec) > 0: fail(c, "<B g, g> <= 0 for g = %s" % gvec)
                    # error propagation e' = e - B A e ; energy strictly decreases
                    Ae = matvec(rows, gvec); BAe = [sum(B[j][i] * Ae[j] for j in range(n)) for i in range(n)]
                    e2 = [u - v for u, v in zip(gvec, BAe)]
                    en0 = dot(Ae, gvec); en1 = dot(matvec(rows, e2), e2)
                    if c.relax in ("damped_jacobi", "spai0", "gauss_seidel") and damp_ok and c.cfg["npre"] >= 1 and not en1 < en0:
                        fail(c, "energy norm does not decrease: <A Ee, Ee> = %s >= <A e, e> = %s" % (en1, en0))
    # ---- scaling clause, double build: A vs 2^e A, bitwise (results printed as exact rationals)
    by_drv = {}
    for b, s2, s in dpairs: by_drv.setdefault("amgd_%s@poison" % b.coarsening, []).append((b, s2, s))
    for d, ps in by_drv.items():
        if d not in ctx["cpp"]: continue
        lines = list(dict((x.cid, x.impl_line()) for p in ps for x in p[:2]).values())
        out = ctx["run_driver"](ctx["cpp"][d], lines, timeout=1500)
        account(ctx, lines, out)
        seen = set()
        for b, s2, s in ps:
            b0 = out.get(b.cid) or ""
            # the preconditioner of an SPD M-matrix must be finite in binary64
            if b.cid not in seen and b0.startswith("D "):
                seen.add(b.cid); st["oracle_checks"] += 1; bump(st, "oracle:double-finite")
                if any(w in seg for seg in b0.split(" ; ")[1:] for w in ("nan", "inf")):
                    fails.append(dict(kind="counterexample", case=b.impl_line(), impl=b0[:300], model=None, op="amgd." + b.coarsening,
                                      size=len(b.impl_line()), build="double",
                                      nonfinite=dict(coarsening=b.coarsening, zero_coarse_diagonal=zero_coarse_diagonal(b0),
                                                     transfer_nonfinite=transfer_nonfinite(b0)),
                                      oracle=dict(statement="double build: apply / cycle of an SPD M-matrix returns NaN or Inf"),
                                      theorem="C02 oracle on the implementation (double build): B f is finite for an SPD M-matrix"))
            st["oracle_checks"] += 1
            res = compare_scaled(b0 or None, out.get(s2.cid), s, [cmd[0] for cmd in b.script], b.cfg["pre_cycles"])
            bump(st, "oracle:scaling-double")
            if b0.startswith("D ") and not b0.startswith("D 1 "): bump(st, "oracle:scaling-double-multilevel")
            if res:
                fails.append(dict(kind="counterexample", case=s2.impl_line(), impl=(out.get(s2.cid) or "")[:300], model=b0[:300],
                                  op="amgd." + b.coarsening, size=len(s2.impl_line()), build="double",
                                  oracle=dict(statement="scaling by 2^k in binary64, bitwise: " + res[1], scale=str(s)),
                                  scaling=scaling_record(b0, s, b.coarsening, "double", res),
                                  theorem="C02 oracle on the implementation (double build): B(2^k A) = 2^-k B(A) bitwise: " + res[1]))
    return fails
