"""blockvals.py -- generators / formatters / parsers for block-valued (static_matrix<Q,b,b>) and complex-valued
cases of C07 and C08 (harness/drv_kernels_block.cpp, harness/drv_matops_block.cpp).

Blocks are b x b lists of lists of Fractions; block CRS rows are lists of (col, block) in storage order.
Generic pairs of generated blocks do NOT commute (the fraction is measured by noncommuting_fraction and logged)."""
from fractions import Fraction as F
from vcheck import fmt_q
import gen

# ---------------------------------------------------------------- block algebra (python reference)
def bl_zero(b): return [[F(0)] * b for _ in range(b)]
def bl_id(b, c=F(1)): return [[c if i == j else F(0) for j in range(b)] for i in range(b)]
def bl_mul(X, Y):
    b = len(X); return [[sum(X[i][k] * Y[k][j] for k in range(b)) for j in range(b)] for i in range(b)]
def bl_add(X, Y): return [[x + y for x, y in zip(rx, ry)] for rx, ry in zip(X, Y)]
def bl_scale(c, X): return [[c * x for x in rw] for rw in X]
def bl_T(X): b = len(X); return [[X[j][i] for j in range(b)] for i in range(b)]
def bl_matvec(X, v): b = len(X); return [sum(X[i][k] * v[k] for k in range(b)) for i in range(b)]
def bl_flat(X): return [x for rw in X for x in rw]
def bl_unflat(v, b): return [list(v[i * b:(i + 1) * b]) for i in range(b)]
def bl_is_zero(X): return all(x == 0 for rw in X for x in rw)
def bl_det(X):
    b = len(X)
    if b == 1: return X[0][0]
    if b == 2: return X[0][0] * X[1][1] - X[0][1] * X[1][0]
    return sum(((-1) ** j) * X[0][j] * bl_det([rw[:j] + rw[j + 1:] for rw in X[1:]]) for j in range(b))

# ---------------------------------------------------------------- formatting / parsing
def fmt_blk(B): return " ".join(fmt_q(x) for x in bl_flat(B))
def fmt_bcrs(n, m, rows):
    out = [str(n), str(m)]
    for rw in rows:
        out.append(str(len(rw)))
        for c, B in rw: out += [str(c), fmt_blk(B)]
    return " ".join(out)
def fmt_bvec(v, b):
    """v: flat list of n*b scalars"""
    assert len(v) % b == 0
    return " ".join([str(len(v) // b)] + [fmt_q(x) for x in v])
def fmt_blocks(bl):
    return " ".join([str(len(bl))] + [fmt_q(x) for B in bl for x in bl_flat(B)])
def parse_out_bcrs(s_, b):
    """'{n m | c:v;v;v;v c:... | ...}' -> (n, m, rows of (col, block))"""
    s_ = s_.strip(); assert s_[0] == "{" and s_[-1] == "}", s_
    parts = s_[1:-1].split("|")
    n, m = [int(x) for x in parts[0].split()]
    rows = []
    for p_ in parts[1:]:
        rw = []
        for e in p_.split():
            c, v = e.split(":"); vs = [F(x) for x in v.split(";")]; assert len(vs) == b * b
            rw.append((int(c), bl_unflat(vs, b)))
        rows.append(rw)
    assert len(rows) == n
    return n, m, rows
def b_expand(rows, b):
    """the scalar matrix of a block matrix (unblock): scalar row i*b+r lists (c*b+s, B[r][s]) in storage order"""
    return [[(c * b + s_, B[r_][s_]) for c, B in rw for s_ in range(b)] for rw in rows for r_ in range(b)]

class Toks:
    def __init__(self, s): self.t = s.split(); self.p = 0
    def s(self): self.p += 1; return self.t[self.p - 1]
    def i(self): return int(self.s())
    def q(self): return F(self.s())
    def blk(self, b): return bl_unflat([self.q() for _ in range(b * b)], b)
    def bcrs(self, b):
        n, m = self.i(), self.i()
        return n, m, [[(self.i(), self.blk(b)) for _ in range(self.i())] for _ in range(n)]
    def bvec(self, b): return [self.q() for _ in range(self.i() * b)]
    def blocks(self, b): return [self.blk(b) for _ in range(self.i())]
    def coef(self, kind, b): return self.q() if kind == "s" else self.blk(b)
    def crs(self):
        n, m = self.i(), self.i()
        return n, m, [[(self.i(), self.q()) for _ in range(self.i())] for _ in range(n)]

# ---------------------------------------------------------------- generators
def rblock(r, b, kind=None):
    """a random b x b block; kinds chosen so that generic pairs do NOT commute"""
    kind = kind or r.choice(["gen", "gen", "gen", "sparse", "upper", "lower", "rot", "perm", "scalar", "diag", "nilp"])
    if kind == "gen": return [[gen.rq(r, nz=True) for _ in range(b)] for _ in range(b)]
    if kind == "sparse": return [[gen.rq(r) if r.random() < 0.6 else F(0) for _ in range(b)] for _ in range(b)]
    if kind == "upper": return [[gen.rq(r, nz=True) if j >= i else F(0) for j in range(b)] for i in range(b)]
    if kind == "lower": return [[gen.rq(r, nz=True) if j <= i else F(0) for j in range(b)] for i in range(b)]
    if kind == "nilp": return [[gen.rq(r, nz=True) if j > i else F(0) for j in range(b)] for i in range(b)]   # singular
    if kind == "rot":
        X = bl_zero(b)
        for i in range(b):
            for j in range(i + 1, b): v = gen.rq(r, nz=True); X[i][j] = v; X[j][i] = -v
        return X
    if kind == "perm":
        pm = list(range(b)); r.shuffle(pm); v = gen.rq(r, nz=True)
        return [[v if pm[i] == j else F(0) for j in range(b)] for i in range(b)]
    if kind == "scalar": return bl_id(b, gen.rq(r, nz=True))
    return [[gen.rq(r, nz=True) if i == j else F(0) for j in range(b)] for i in range(b)]

def rblock_inv(r, b):
    """a random INVERTIBLE block (generic; diagonally dominated if the first draw is singular)"""
    for _ in range(8):
        X = rblock(r, b, r.choice(["gen", "gen", "upper", "lower", "perm", "diag", "scalar"]))
        if bl_det(X) != 0: return X
    X = rblock(r, b, "gen")
    for i in range(b): X[i][i] = sum(abs(x) for x in X[i]) + 1
    return X

def bcoef(r, b):
    """coefficient classes {0, 1, -1, generic} x {base scalar 's', block 'm'}; returns (kind, value)"""
    if r.random() < 0.5: return ("s", gen.coef(r))
    k = r.random()
    if k < 0.25: return ("m", bl_zero(b))
    if k < 0.35: return ("m", bl_id(b))
    if k < 0.45: return ("m", bl_id(b, F(-1)))
    return ("m", rblock(r, b))
def fmt_coef(kc):
    kind, v = kc
    return fmt_q(v) if kind == "s" else fmt_blk(v)

def rbcrs(r, b, n, m, density=None, sorted_rows=None, dups=False, empty_rows=True, kinds=None):
    """random block CRS rows"""
    pat = gen.rcrs(r, n, m, density=density, sorted_rows=sorted_rows, dups=dups, empty_rows=empty_rows)
    return [[(c, rblock(r, b, r.choice(kinds) if kinds else None)) for c, _ in rw] for rw in pat]

def sorted_distinct(rows, b):
    """sort block rows by column and merge duplicate columns (blocks add)"""
    out = []
    for rw in rows:
        d = {}
        for c, B in rw: d[c] = bl_add(d[c], B) if c in d else B
        out.append(sorted(d.items()))
    return out

def noncommuting_fraction(r, mats):
    """mats: list of (rows, b). Returns dict(pairs, noncommuting, blocks, scalar, diagonal, symmetric)"""
    tot = nc = nbl = nsc = ndi = nsy = 0
    for rows, b in mats:
        bl = [B for rw in rows for _, B in rw]
        for B in bl:
            nbl += 1
            if all(B[i][j] == 0 for i in range(b) for j in range(b) if i != j): ndi += 1
            if all(B[i][j] == B[j][i] for i in range(b) for j in range(b)): nsy += 1
            if all(B[i][j] == (B[0][0] if i == j else 0) for i in range(b) for j in range(b)): nsc += 1
        for _ in range(min(6, len(bl) * (len(bl) - 1) // 2)):
            X, Y = r.sample(bl, 2); tot += 1
            if bl_mul(X, Y) != bl_mul(Y, X): nc += 1
    return dict(pairs=tot, noncommuting=nc, blocks=nbl, scalar=nsc, diagonal=ndi, symmetric=nsy)

# ---------------------------------------------------------------- complex (small dyadic Gaussian rationals: exact in binary64)
CDY = [F(k, d) for k in range(-6, 7) for d in (1, 2)]
def rcx(r, nz=False):
    while True:
        z = (r.choice(CDY), r.choice(CDY))
        if r.random() < 0.15: z = (z[0], F(0))
        if r.random() < 0.1: z = (F(0), z[1])
        if not nz or z != (0, 0): return z
def fmt_cx(z): return "%s %s" % (fmt_q(z[0]), fmt_q(z[1]))
def fmt_cvec(v): return " ".join([str(len(v))] + [fmt_cx(z) for z in v])
def fmt_ccrs(n, m, rows):
    out = [str(n), str(m)]
    for rw in rows:
        out.append(str(len(rw)))
        for c, z in rw: out += [str(c), fmt_cx(z)]
    return " ".join(out)
def cx_mul(a, b): return (a[0] * b[0] - a[1] * b[1], a[0] * b[1] + a[1] * b[0])
def cx_add(a, b): return (a[0] + b[0], a[1] + b[1])
def cx_conj(a): return (a[0], -a[1])
def parse_cx(s_):
    re, im = s_.split(","); return (F(re), F(im))
def parse_out_cvec(s_):
    s_ = s_.strip(); assert s_[0] == "[" and s_[-1] == "]", s_
    return [parse_cx(x) for x in s_[1:-1].split()]
def parse_out_ccrs(s_):
    s_ = s_.strip(); assert s_[0] == "{" and s_[-1] == "}", s_
    parts = s_[1:-1].split("|")
    n, m = [int(x) for x in parts[0].split()]
    rows = [[(int(e.split(":")[0]), parse_cx(e.split(":")[1])) for e in p_.split()] for p_ in parts[1:]]
    assert len(rows) == n
    return n, m, rows
def ccoef(r):
    """coefficient classes {0, 1, -1, i, generic} x {complex 'c', real 'r'}"""
    if r.random() < 0.3:
        return ("r", r.choice([F(0), F(0), F(1), F(-1), r.choice(CDY)]))
    k = r.random()
    if k < 0.25: return ("c", (F(0), F(0)))
    if k < 0.35: return ("c", (F(1), F(0)))
    if k < 0.45: return ("c", (F(-1), F(0)))
    if k < 0.55: return ("c", (F(0), F(1)))
    return ("c", rcx(r, nz=True))
def fmt_ccoef(kc):
    kind, v = kc
    return fmt_q(v) if kind == "r" else fmt_cx(v)
def rccrs(r, n, m, dups=False):
    pat = gen.rcrs(r, n, m, dups=dups)
    return [[(c, rcx(r, nz=(r.random() < 0.9))) for c, _ in rw] for rw in pat]
