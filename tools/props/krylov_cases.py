"""krylov_cases.py -- shared case construction for C01 / C05 / C15 (drv_krylov, ocaml/krylov)."""
import random, re
from fractions import Fraction as F
from vcheck import fmt_q, fmt_vec, fmt_crs
import gen

SOLVERS = ["cg", "bicgstab", "richardson", "gmres", "fgmres", "lgmres", "bicgstabl", "idrs"]
MODELLED = ["cg", "bicgstab", "richardson", "gmres", "fgmres", "lgmres", "bicgstabl", "idrs"]
SIDED = ["bicgstab", "gmres", "lgmres", "bicgstabl"]
SQRT_FREE = ["cg", "bicgstab", "richardson"]          # recurrences without square roots: rationals stay small
ABSTOL_MIN = F(1, 2 ** 1022)                           # numeric_limits<double>::min(), the default abstol

PRM_ORDER = ["maxiter", "tol", "abstol", "ns", "ca", "M", "K", "L", "damping", "s", "omega", "smoothing", "replacement",
             "delta", "convex", "areset"]
PRM_DEFAULT = dict(maxiter=100, tol=F(1, 10 ** 8), abstol=ABSTOL_MIN, ns=0, ca=0, M=30, K=3, L=2, damping=F(1), s=4,
                   omega=F(7, 10), smoothing=0, replacement=0, delta=F(0), convex=1, areset=1)

def fmt_prm(**kw):
    d = dict(PRM_DEFAULT); d.update(kw)
    out = []
    for k in PRM_ORDER:
        v = d[k]
        out.append(fmt_q(v) if isinstance(v, F) else str(int(v)))
    return " ".join(out)

# ---------------------------------------------------------------- exact dense helpers
def dense(rows, n):
    D = [[F(0)] * n for _ in range(n)]
    for i, rw in enumerate(rows):
        for c, v in rw: D[i][c] += v
    return D

def to_rows(D, drop_zero=True):
    return [[(j, v) for j, v in enumerate(r) if (v != 0 or not drop_zero)] for r in D]

def inverse(D):
    n = len(D)
    M = [list(r) + [F(int(i == j)) for j in range(n)] for i, r in enumerate(D)]
    for c in range(n):
        p = next((r for r in range(c, n) if M[r][c] != 0), None)
        if p is None: return None
        M[c], M[p] = M[p], M[c]
        piv = M[c][c]
        M[c] = [v / piv for v in M[c]]
        for r in range(n):
            if r != c and M[r][c] != 0:
                fct = M[r][c]
                M[r] = [a - fct * b for a, b in zip(M[r], M[c])]
    return [r[n:] for r in M]

def matvec(D, x): return [sum((a * b for a, b in zip(r, x)), F(0)) for r in D]

# ---------------------------------------------------------------- systems
class Sys:
    """A: rows; pk/pdata: preconditioner; f, x0"""
    def __init__(self, n, rows, pk, pdata, f, x0, sym):
        self.n, self.rows, self.pk, self.pdata, self.f, self.x0, self.sym = n, rows, pk, pdata, f, x0, sym
    def call_tokens(self):
        t = [fmt_crs(self.n, self.n, self.rows)]
        if self.pk == "diag": t.append(fmt_vec(self.pdata))
        elif self.pk == "mat": t.append(fmt_crs(self.n, self.n, self.pdata))
        t += [fmt_vec(self.f), fmt_vec(self.x0)]
        return " ".join(t)

def small_vec(r, n, nz=True):
    v = [F(r.randint(-4, 4), r.choice([1, 1, 2])) for _ in range(n)]
    if nz and all(x == 0 for x in v): v[r.randrange(n)] = F(1)
    return v

def make_precond(r, n, rows, kind):
    D = dense(rows, n)
    if kind == "id": return "id", None
    if kind == "diag": return "diag", [F(1) / D[i][i] for i in range(n)]
    if kind == "jacmat": return "mat", [[(i, F(1) / D[i][i])] for i in range(n)]
    if kind == "inv":
        Bi = inverse(D)
        return "mat", to_rows(Bi)
    if kind == "gs":   # (D+L)^-1 : forward Gauss-Seidel as a matrix (non-symmetric preconditioner)
        Lw = [[D[i][j] if j <= i else F(0) for j in range(n)] for i in range(n)]
        return "mat", to_rows(inverse(Lw))
    if kind == "sgs":  # symmetric Gauss-Seidel (D+U)^-1 D (D+L)^-1 : SPD for SPD A
        Lw = [[D[i][j] if j <= i else F(0) for j in range(n)] for i in range(n)]
        Uw = [[D[i][j] if j >= i else F(0) for j in range(n)] for i in range(n)]
        Li, Ui = inverse(Lw), inverse(Uw)
        Dm = [[D[i][j] if i == j else F(0) for j in range(n)] for i in range(n)]
        T = [matvec(Dm, c) for c in zip(*Li)]            # columns of D L^-1
        T = [list(c) for c in zip(*T)]
        B = [[sum((Ui[i][k] * T[k][j] for k in range(n)), F(0)) for j in range(n)] for i in range(n)]
        return "mat", to_rows(B)
    if kind == "rand":  # an arbitrary fixed diagonally dominant matrix
        return "mat", gen.nonsym_dd(r, n, density=0.3)
    raise ValueError(kind)

def make_sys(r, n, sym, pkind, x0zero=None, shuffled=None):
    rows = gen.spd_mmatrix(r, n) if sym else gen.nonsym_dd(r, n, density=r.choice([0.3, 0.6]))
    pk, pdata = make_precond(r, n, rows, pkind)
    if shuffled is None: shuffled = r.random() < 0.3
    if shuffled: rows = gen.shuffle_rows(r, rows)
    f = small_vec(r, n)
    if x0zero is None: x0zero = r.random() < 0.5
    x0 = [F(0)] * n if x0zero else small_vec(r, n, nz=True)
    return Sys(n, rows, pk, pdata, f, x0, sym)

def solve_line(cid, solver, side, S, op="solve", **prm):
    return "%s %s %s %s %s %s %s" % (cid, op, solver, side, S.pk, fmt_prm(**prm), S.call_tokens())

def seq_line(cid, op, solver, side, n, calls, **prm):
    """calls: list of Sys (same n)"""
    return "%s %s %s %s %s %d %d %s" % (cid, op, solver, side, fmt_prm(**prm), n, len(calls),
                                      " ".join(S.pk + " " + S.call_tokens() for S in calls))

# ---------------------------------------------------------------- output parsing
def parse_result(payload):
    """'iters res [x ...]' -> (iters, res, [x]) or None for EXC/other"""
    if payload is None: return None
    p = payload.strip()
    if not p or not (p[0].isdigit()): return None
    try:
        head, vec = p.split("[", 1)
        it, res = head.split()
        xs = vec.rstrip("]").split()
        return int(it), res, xs
    except Exception:
        return None

def truth_line(case_line, payload):
    """oracle line for a solve case line and the implementation's payload"""
    pr = parse_result(payload)
    if pr is None: return None
    cid, op, rest = case_line.split(" ", 2)
    it, res, xs = pr
    return "%s o.truth %s %d %s %d %s" % (cid, rest, it, res, len(xs), " ".join(xs))

# ---------------------------------------------------------------- IDR(s): the constructor's random draws
# The idrs constructor fills its shadow space from std::mt19937.  The Coq model (KrylovIdrs.idrs_shadow / idrs)
# takes the raw draws as an explicit input: the implementation-side op `idrs.raw n s` prints them (same
# statements as the constructor) and the MODEL-side case line is the implementation's line with the s raw
# vectors appended.
def idrs_key(line):
    """(n, s) of a solve / seq case line of solver idrs, else None"""
    tk = line.split(" ")
    if len(tk) < 4 or tk[2] != "idrs": return None
    op = tk[1].split(".")[-1]               # d.solve / f.solve / d.seq / f.seq: same layout
    if op == "solve": base = 5             # id op solver side pk <prm16> A ...
    elif op in ("seq", "seqfresh"): base = 4      # id op solver side <prm16> n ncalls ...
    else: return None
    try:
        return int(tk[base + len(PRM_ORDER)]), int(tk[base + PRM_ORDER.index("s")])
    except (ValueError, IndexError):
        return None

_RAW = {}
def idrs_raw(ctx, keys):
    """{(n, s): 'tokens of the s raw vectors'} from the implementation-side op idrs.raw"""
    exe = ctx["cpp"]["krylov"]
    need = sorted(k for k in set(keys) if (exe, k) not in _RAW)
    if need:
        res = ctx["run_driver"](exe, ["r%d idrs.raw %d %d" % (i, n, s) for i, (n, s) in enumerate(need)])
        for i, k in enumerate(need):
            o = res.get("r%d" % i) or ""
            if not o.startswith("[") and k[1] > 0: continue       # crash / unsupported: the model line stays short and fails
            vs = [v.strip().split() for v in o.replace("]", "").split("[")[1:]]
            _RAW[(exe, k)] = " ".join(" ".join([str(len(v))] + v) for v in vs)
    return {k: _RAW[(exe, k)] for k in set(keys) if (exe, k) in _RAW}

def with_idrs_raw(ctx, lines):
    """model-side versions of the case lines: idrs lines get the raw draws appended"""
    ks = [idrs_key(l) for l in lines]
    raw = idrs_raw(ctx, [k for k in ks if k])
    return [(l + " " + raw[k]) if (k and k in raw) else l for l, k in zip(lines, ks)]

# ---------------------------------------------------------------- binary64 tie
# The extracted models are also evaluated at a binary64 instance of the Scalar record (ocaml/krylov/ops_krylov.ml,
# ops f.solve / f.seq) and compared bit for bit with the double build of the implementation (d.solve / d.seq).
# Every number of such a case must be exactly representable (dyadic): the model-side parser checks it.
def dyadic_sys(r, n, solver, x0zero=None, pk=None):
    sym = sym_needed(solver)
    rows = gen.spd_mmatrix(r, n, kind="grid") if sym else gen.convdiff(r, n)
    if pk is None: pk = r.choice(["id", "diag"]) if solver != "richardson" else "diag"
    pdata = [F(1, r.choice([2, 4])) for _ in range(n)] if pk == "diag" else None
    f = [F(r.randint(-8, 8), 4) for _ in range(n)]
    if all(v == 0 for v in f): f[0] = F(1)
    if x0zero is None: x0zero = r.random() < 0.5
    x0 = [F(0)] * n if x0zero else [F(r.randint(-4, 4), 2) for _ in range(n)]
    return Sys(n, rows, pk, pdata, f, x0, sym)

def dyadic_prm(r, **kw):
    d = dict(tol=F(1, 2 ** r.choice([20, 30, 40])), abstol=ABSTOL_MIN, M=r.choice([2, 3, 4, 6, 30]), K=r.choice([1, 2, 3, 4]),
             L=r.choice([1, 2, 3]), s=r.choice([1, 2, 4]), damping=F(3, 4), omega=r.choice([F(3, 4), F(3, 4), F(0), F(1, 2)]),
             smoothing=int(r.random() < 0.3), replacement=int(r.random() < 0.3), delta=r.choice([F(0), F(1, 128), F(1, 2)]),
             convex=int(r.random() < 0.7), ca=int(r.random() < 0.3), areset=1)
    d.update(kw)
    return d

def float_pair(ctx, lines):
    """(implementation lines, model lines) of binary64 cases written with the ops solve / seq"""
    il = [re.sub(r"^(\S+) (solve|seq|seqfresh) ", r"\1 d.\2 ", l) for l in lines]
    ml = [re.sub(r"^(\S+) (solve|seq|seqfresh) ", r"\1 f.\2 ", l) for l in with_idrs_raw(ctx, lines)]
    return il, ml

def side_for(r, solver): return r.choice(["left", "right"]) if solver in SIDED else "right"

def sym_needed(solver): return solver == "cg"

def pkinds_for(solver, sym):
    if solver == "cg": return ["id", "diag", "sgs", "jacmat", "inv"]
    return ["id", "diag", "gs", "rand", "inv", "jacmat"]
