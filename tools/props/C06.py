"""C06 -- every relaxation sweep equals its mathematical definition.

Correspondence: public apply_pre / apply_post / apply of damped_jacobi, spai0, gauss_seidel
(serial), chebyshev (Gershgorin bounds), ilu0, iluk, ilup, ilut and of
relaxation::as_preconditioner<B,R>, instantiated with the exact rational value type,
against the extracted Coq models (Relax.v, Ilu.v, Cheby.v); additionally the factors
L, U, D that the ILU classes hand to detail::ilu_solve, and ilu_solve (serial) alone.

Implementation-side oracles (evaluated by extracted Coq specification functions on the
implementation's outputs):
  fx  fixed point          sweep(A x*, x*) = x*                       (all smoothers, pre and post)
  lu  exactness on pattern ((I+L)(U+D^-1))_ij = a_ij on the admitted pattern
                           (ilu0: pattern(A); ilup: pattern(A^(k+1)); iluk: pattern of the
                            emitted factors -- known finding C06-iluk-readmit)
  ex  exact solve          A * apply(rhs) = rhs and pre-sweep with damping 1 from any x solves,
                           when the exact factors fit the pattern (tridiagonal, arrow,
                           iluk with k >= n, ilut with tau = 0 and p >= n)
  tri triangular solve     (I+L)(D^-1+U) x = b for ilu_solve on random strict factors
spai1 (double build) is compared with the exact least-squares model Spai1.v up to 1e-9; spai0 with
std::complex<double> against the least-squares minimiser conj(a_ii)/sum_j|a_ij|^2 (python reference; the formula
of the repaired spai0.hpp and of Relax.spai0_row, proved minimal in Spai0Min.v: C06_spai0_minimiser_complex).
Case ids carry the oracle kind as prefix (fx.., ex.., lu.., tri..), so a replayed case re-runs its oracle.

BLOCK VALUE TYPES (ops "b.<op> <b> ...", harness/drv_relax_block.cpp, ocaml/relax/ops_relax_block.ml): the same
classes instantiated with value_type = static_matrix<Q,b,b>, rhs_type = static_matrix<Q,b,1>, b = 2, 3, against
the same extracted models run at the Scalar instance BlockInst.BlockS QcS b.  Block products do not commute, so
the operand order of every product in the C++ is observable.  Oracles: fixed point, exact solve on block
tridiagonal / block arrow matrices (A x = rhs checked on the EXPANDED scalar system by the scalar oracle op, and with
block products), (L U)_ij = a_ij on the pattern with block products, triangular-solve identity with left
products.  Case ids: bc.., bfx.., bex.., blu0.., bluk.., blup.., btri.. .
"""
import random
from fractions import Fraction as F
from vcheck import fmt_q, fmt_vec, fmt_crs, parse_out_vec, parse_out_crs, split_top
import gen
from props.common import diff_run, oracle_run

DRIVERS = ["relax", "relax_block"]
MODEL = "relax"
TRUSTED_BASE = [
    "harness/drv_relax.cpp reads the private members ilu0/iluk/ilut::ilu and ilup::base through the explicit-instantiation idiom and L/U/D of detail::ilu_solve through the AMGCL_VERIF friend accessor",
    "ocaml/relax/ops_relax.ml (argument plumbing and the OK/FAIL wrappers around Ilu.lu_entry, Crs.mget, Kernels.spmv)",
    "python pattern power for the ilup oracle (tools/props/C06.py: pattern_power) and the ILU(k) level simulation used only to CLASSIFY failures",
    "block value types: harness/drv_relax_block.cpp (block CRS / block vector parsing and printing, same private-member access), ocaml/relax/ops_relax_block.ml (embedding of static_matrix<Q,b,1> entries as column-0 blocks and of base scalars as c*I, shape check on output, Model_exc singular_block guard around the extracted blk_inverse), python block generators and the expansion of a block system to its scalar system (tools/props/C06.py)",
]
ASSUMPTIONS = [
    "builtin backend instantiated with vq::Q runs the same template code as with double; double/float parameters are dyadic and converted exactly",
    "ILU-type smoothers are exercised on matrices with sorted rows and a structurally full diagonal (their documented precondition); unsorted input through as_preconditioner is property C17",
    "chebyshev: power_iters = 0 (Gershgorin); the power-method estimate is an input of the model (RNG + sqrt), not compared here",
    "ilut: cases in which the p-largest cut of std::nth_element goes through a tie of magnitudes are skipped (result implementation-defined)",
    "spai1: Householder QR needs a true square root, so spai1.hpp is run in the double build (dyadic, diagonally dominant inputs) and compared with the exact least-squares model (normal equations solved by DenseSolve.dense_solve) up to a relative tolerance 1e-9 -- tested, not an exact tie",
    "gauss_seidel with params.serial = true and ilu_solve with params.serial = true; the level-scheduled variants belong to C09",
    "block value types: math::inverse(static_matrix) asserts on a singular block (detail::inverse); cases on which the MODEL reports a singular block (Model_exc singular_block, decided by the extracted blk_inverse before the implementation is run) are outside the domain and are not sent to the implementation (counted in the log); generated matrices are block diagonally dominant so this does not normally happen",
    "block value types: base scalars (damping, eps, norms, Chebyshev coefficients) are embedded as c*I and vector entries as column-0 blocks (BlockInst.v header: checked op by op against the C++); math::norm of a block is the Frobenius norm with the pseudo square root of the exact instance",
]
RULE = ("cases derived from VERIF_SEED by tools/props/C06.py; distinct = distinct case payload; non-trivial = "
        "implementation output contains a non-zero value and is not an exception")

DAMP = [F(1), F(1), F(1, 2), F(3, 4), F(18, 25), F(5, 4)]


# ------------------------------------------------------------------ case-line parsing
class Toks:
    def __init__(self, s): self.t = s.split(); self.p = 0
    def s(self): self.p += 1; return self.t[self.p - 1]
    def i(self): return int(self.s())
    def q(self): return F(self.s())
    def vec(self): return [self.q() for _ in range(self.i())]
    def crs(self):
        n, m = self.i(), self.i(); rows = []
        for _ in range(n):
            rows.append([(self.i(), self.q()) for _ in range(self.i())])
        return n, m, rows

NPARAM = {"jacobi": 1, "spai0": 0, "spai1": 0, "gs": 0, "cheby": 4, "ilu0": 1, "iluk": 2, "ilup": 2, "ilut": 3}
FPARAM = {"ilu0_factors": 0, "iluk_factors": 1, "ilup_factors": 1, "ilut_factors": 2}

def parse_case(line):
    t = Toks(line); cid = t.s(); op = t.s()
    d = dict(id=cid, op=op)
    if op in NPARAM:
        d["mode"] = t.s(); d["params"] = [t.s() for _ in range(NPARAM[op])]
        d["A"] = t.crs(); d["rhs"] = t.vec(); d["x"] = t.vec()
    elif op in FPARAM:
        d["params"] = [t.s() for _ in range(FPARAM[op])]; d["A"] = t.crs()
    elif op == "ilu_solve":
        d["L"] = t.crs(); d["U"] = t.crs(); d["D"] = t.vec(); d["x"] = t.vec()
    return d


# ------------------------------------------------------------------ python-side helpers
def pattern_power(rows, k):
    """pattern of A^(k+1) as list of sorted column lists (k >= 1), pattern of A for k = 0"""
    pa = [sorted(set(c for c, _ in rw)) for rw in rows]
    p = pa
    for _ in range(k):
        p = [sorted(set(cb for ca in pr for cb in pa[ca])) for pr in p]
    return p

def iluk_readmitted(rows, k):
    """symbolic replay of iluk.hpp's level bookkeeping: set of positions (i,j) that were
    dropped at creation (level > k) and created later by an update of level <= k"""
    n = len(rows); Ulev = []; out = set()
    for i in range(n):
        w = {}; dropped = set()
        for c, _ in rows[i]:
            if c not in w: w[c] = 0
        for c in range(i):
            if c not in w: continue
            for uc, ul in Ulev[c]:
                lev = max(w[c], ul) + 1
                if uc in w: w[uc] = min(w[uc], lev)
                elif lev <= k:
                    w[uc] = lev
                    if uc in dropped: out.add((i, uc))
                else: dropped.add(uc)
        Ulev.append(sorted((c, l) for c, l in w.items() if c > i))
    return out


# ------------------------------------------------------------------ case generation
def matrices(r, tier):
    """yield (family, n, rows) ; all with sorted rows and full non-zero diagonal"""
    N = 90 if tier == "quick" else 320
    big = 22 if tier == "quick" else 32
    for it in range(N):
        n = r.choice([1, 2, 3, 4, 5, 6, 8, 10]) if it % 7 else r.randint(10, big)
        fam = r.choice(["spd", "spd", "nonsym", "nonsym", "tridiag", "arrow", "pattern", "pattern_sym", "nodom",
                        "upper", "lower"])
        if fam == "spd": rows = gen.spd_mmatrix(r, n)
        elif fam == "nonsym": rows = gen.nonsym_dd(r, n, density=r.choice([0.2, 0.4, 0.6]))
        elif fam == "tridiag": rows = gen.tridiag(r, n)
        elif fam == "arrow": rows = gen.arrow(r, n)
        elif fam == "pattern": rows = gen.full_diag_pattern(r, n, density=r.choice([0.15, 0.3, 0.5]))
        elif fam == "pattern_sym": rows = gen.full_diag_pattern(r, n, density=r.choice([0.15, 0.3]), sym_pattern=True)
        elif fam in ("upper", "lower"):
            # triangular: the diagonal is the first (upper) / last (lower) entry of every row
            rows = gen.full_diag_pattern(r, n, density=r.choice([0.3, 0.6]))
            rows = [[(c, v) for c, v in rw if (c >= i if fam == "upper" else c <= i)] for i, rw in enumerate(rows)]
        else: rows = gen.full_diag_pattern(r, n, density=r.choice([0.2, 0.4]), dominant=False)
        if r.random() < 0.3:
            # explicit zero entries (stored zeros) off the diagonal
            rows = [[(c, (F(0) if (c != i and r.random() < 0.3) else v)) for c, v in rw] for i, rw in enumerate(rows)]
        yield fam, n, rows

def small_patterns(r, tier):
    """all 3x3 sparsity patterns with full diagonal (x value palettes); 4x4 sampled / exhaustive"""
    out = []
    def mk(n, mask, pal):
        rows = []; b = 0
        for i in range(n):
            rw = []
            for j in range(n):
                if i == j: rw.append((j, pal[0] + F(i, 2)))
                else:
                    if mask >> b & 1: rw.append((j, pal[1 + (b % (len(pal) - 1))]))
                    b += 1
            rows.append(rw)
        return rows
    pals = [[F(4), F(-1), F(1, 2), F(-2)], [F(1), F(1), F(-1), F(3)]]
    for mask in range(64):
        for pal in pals: out.append((3, mk(3, mask, pal)))
    if tier == "quick":
        for _ in range(60): out.append((4, mk(4, r.randrange(4096), r.choice(pals))))
    else:
        for mask in range(4096): out.append((4, mk(4, mask, pals[mask % 2])))
        for _ in range(300): out.append((5, mk(5, r.randrange(1 << 20), r.choice(pals))))
    return out

def cases(tier, seed):
    r = random.Random(seed * 1000 + 6)
    out = []; cnt = [0]
    def add(prefix, op, payload):
        out.append("%s%d %s %s" % (prefix, cnt[0], op, payload)); cnt[0] += 1
    def cheby_p():
        return "%d %s %s %d" % (r.choice([0, 1, 2, 3, 3, 5]), fmt_q(r.choice([F(1, 32), F(1, 16), F(1, 4)])),
                                fmt_q(r.choice([F(1), F(5, 4), F(9, 8)])), r.choice([0, 1]))
    for fam, n, rows in matrices(r, tier):
        A = fmt_crs(n, n, rows)
        xs = gen.rvec(r, n); rhs = gen.rvec(r, n); x0 = gen.rvec(r, n)
        fx_rhs = gen.matvec(rows, xs)
        exact = fam in ("tridiag", "arrow")
        # variants of A for the point smoothers: shuffled rows, duplicate entries
        rowsv = rows
        if r.random() < 0.4: rowsv = gen.shuffle_rows(r, rows)
        if r.random() < 0.25 and n > 1:
            rowsv = [list(rw) for rw in rowsv]
            i = r.randrange(n); c = r.choice(rowsv[i])[0]
            rowsv[i].insert(r.randrange(len(rowsv[i]) + 1), (c, gen.rq(r, nz=True)))
        Av = fmt_crs(n, n, rowsv)
        # fixed-point cases: duplicates only off the diagonal (gauss_seidel takes the LAST diagonal entry of a
        # row, damped_jacobi the FIRST, residual adds them up: with a duplicated diagonal entry A x* = f is not
        # a fixed point of the GS sweep; theorem hypothesis diag_unique)
        rowsfx = [[e for k, e in enumerate(rw) if not (e[0] == i and any(e2[0] == i for e2 in rw[:k]))] for i, rw in enumerate(rowsv)]
        Afx = fmt_crs(n, n, rowsfx)
        fx_rhs_v = gen.matvec(rowsfx, xs)
        point = [("jacobi", lambda: fmt_q(r.choice(DAMP))), ("spai0", lambda: ""), ("gs", lambda: ""), ("cheby", cheby_p)]
        for op, pf in point:
            for mode in ("pre", "post", "apply", "asprec"):
                p = pf()
                add("c", op, " ".join(x for x in [mode, p, Av, fmt_vec(rhs), fmt_vec(x0)] if x))
            for mode in ("pre", "post"):
                p = pf()
                add("fx", op, " ".join(x for x in [mode, p, Afx, fmt_vec(fx_rhs_v), fmt_vec(xs)] if x))
        add("c", "spai0_m", Av); add("c", "jacobi_dia", Av); add("c", "gersh", "0 " + Av); add("c", "gersh", "1 " + Av)
        kbig = n + 1
        ilus = [("ilu0", lambda: fmt_q(r.choice(DAMP))),
                ("iluk", lambda: "%d %s" % (r.choice([0, 1, 1, 2, 3]), fmt_q(r.choice(DAMP)))),
                ("ilup", lambda: "%d %s" % (r.choice([0, 1, 1, 2]), fmt_q(r.choice(DAMP)))),
                ("ilut", lambda: "%s %s %s" % (fmt_q(r.choice([F(1), F(3, 2), F(2), F(5, 2), F(n + 1)])),
                                               fmt_q(r.choice([F(0), F(1, 100), F(1, 8), F(1, 2)])), fmt_q(r.choice(DAMP))))]
        for op, pf in ilus:
            for mode in ("pre", "post", "apply", "asprec"):
                add("c", op, " ".join([mode, pf(), A, fmt_vec(rhs), fmt_vec(x0)]))
            for mode in ("pre", "post"):
                add("fx", op, " ".join([mode, pf(), A, fmt_vec(fx_rhs), fmt_vec(xs)]))
        add("lu0", "ilu0_factors", A)
        for k in (0, 1, 2, n):
            add("luk", "iluk_factors", "%d %s" % (k, A))
        for k in (0, 1, 2):
            add("lup", "ilup_factors", "%d %s" % (k, A))
        # every case-split boundary of the sweeps, damping != 1 for every ILU variant
        dnz = [F(1, 2), F(3, 4), F(18, 25), F(5, 4)]
        for k in (0, 1, 2, n):
            add("c", "iluk", " ".join([r.choice(["pre", "post"]), "%d %s" % (k, fmt_q(r.choice(dnz))), A, fmt_vec(rhs), fmt_vec(x0)]))
        for k in (0, 1, 2):
            add("c", "ilup", " ".join([r.choice(["pre", "post"]), "%d %s" % (k, fmt_q(r.choice(dnz))), A, fmt_vec(rhs), fmt_vec(x0)]))
        add("c", "ilu0", " ".join([r.choice(["pre", "post"]), fmt_q(r.choice(dnz)), A, fmt_vec(rhs), fmt_vec(x0)]))
        add("c", "ilut", " ".join([r.choice(["pre", "post"]), "2 1/100 " + fmt_q(r.choice(dnz)), A, fmt_vec(rhs), fmt_vec(x0)]))
        for deg in (1, 2, 3, 5):
            for sc_ in (0, 1):
                add("c", "cheby", " ".join([r.choice(["pre", "post", "apply"]), "%d %s %s %d" % (deg, fmt_q(r.choice([F(1, 32), F(1, 4)])),
                    fmt_q(r.choice([F(1), F(9, 8)])), sc_), Av, fmt_vec(rhs), fmt_vec(x0)]))
        add("c", "ilut_factors", "%s %s %s" % (fmt_q(r.choice([F(1), F(3, 2), F(2), F(3)])), fmt_q(r.choice([F(0), F(1, 100), F(1, 8)])), A))
        # exact inverse cases
        full = [("iluk", "%d 1" % kbig)]
        if exact:
            # ilut: the diagonal occupies one of the int(lenU*p) places of the U part, so p >= 2 is needed
            full += [("ilu0", "1"), ("iluk", "%d 1" % r.choice([0, 1, 2])), ("ilup", "%d 1" % r.choice([0, 1, 2])),
                     ("ilut", "%s 0 1" % fmt_q(r.choice([F(2), F(5, 2), F(kbig)])))]
        for op, p in full:
            add("ex", op, " ".join(["apply", p, A, fmt_vec(rhs), fmt_vec(x0)]))
            add("ex", op, " ".join(["asprec", p, A, fmt_vec(rhs), fmt_vec(x0)]))
            add("ex", op, " ".join(["pre", p, A, fmt_vec(rhs), fmt_vec(x0)]))
        # the triangular solver alone
        L = gen.strict_tri(r, n, True); U = gen.strict_tri(r, n, False); D = gen.rvec(r, n, nz=True)
        add("tri", "ilu_solve", " ".join([fmt_crs(n, n, L), fmt_crs(n, n, U), fmt_vec(D), fmt_vec(rhs)]))
    for _ in range(20 if tier == "quick" else 150):
        n = r.choice([1, 2, 3, 5, 8]); rows = gen.rcrs(r, n, n, dups=(r.random() < 0.3))
        add("c", "gersh", "1 " + fmt_crs(n, n, rows)); add("c", "gersh", "0 " + fmt_crs(n, n, rows))
    # small exhaustive patterns: factors of every ILU variant
    for n, rows in small_patterns(r, tier):
        A = fmt_crs(n, n, rows)
        add("lu0", "ilu0_factors", A)
        add("luk", "iluk_factors", "%d %s" % (r.choice([0, 1, 2]), A))
        add("lup", "ilup_factors", "%d %s" % (r.choice([1, 2]), A))
        add("c", "ilut_factors", "%s %s %s" % (fmt_q(r.choice([F(1), F(3, 2), F(2)])), fmt_q(r.choice([F(0), F(1, 8)])), A))
    # iluk, k >= 2: the level of an entry is the MINIMUM over all elimination paths that reach it
    # (sparse_vector::add lowers the level of an existing entry); this only matters when a position is
    # reached first through a small pivot column at a high level and later through a larger pivot at a
    # lower level and then generates fill at the admission boundary: sparse non-symmetric patterns,
    # n = 6..12, two or three off-diagonals per row, k = 2, 3, 4
    for _ in range(700 if tier == "quick" else 5000):
        n = r.randint(6, 12); rows = []
        for i in range(n):
            cols = set(r.sample([c for c in range(n) if c != i], r.choice([1, 2, 2, 3])))
            row = [(c, F(-r.choice([1, 1, 2, 3]), r.choice([1, 2, 4]))) for c in sorted(cols)]
            row.append((i, F(sum(abs(v) for _, v in row)) + r.choice([1, 2, F(1, 2)])))
            rows.append(sorted(row))
        add("lukp", "iluk_factors", "%d %s" % (r.choice([2, 2, 3, 4]), fmt_crs(n, n, rows)))
    # ilut: values exactly ON the dropping threshold (|w_k| == tol, |entry| == tol)
    for _ in range(12 if tier == "quick" else 80):
        u, v, w_ = gen.rq(r, nz=True), gen.rq(r, nz=True), gen.rq(r, nz=True)
        a11 = F(r.choice([3, 7, 11]))
        T = [[(0, F(1)), (1, u), (2, v)], [(0, F(1)), (1, a11)], [(1, w_), (2, F(5))]]
        tau = F(1) / (1 + a11)          # row 1: tol = (1 + a11) * tau / 1 = 1 = |1 * D_0|
        add("c", "ilut_factors", "%s %s %s" % (fmt_q(F(3)), fmt_q(tau), fmt_crs(3, 3, T)))
        T2 = [[(0, F(2)), (1, u)], [(0, v), (1, a11), (2, F(1))], [(1, w_), (2, F(5))]]
        tau2 = F(1) / (abs(v) + a11 + 1)  # row 1: tol = 1/2 * ... ; entry (1,2) = 1
        add("c", "ilut_factors", "%s %s %s" % (fmt_q(F(3)), fmt_q(2 * tau2), fmt_crs(3, 3, T2)))
    # ilut with fill factor p = 1 and tau = 0 on tridiagonal matrices: the original entries fit the budget
    # int(lenU*p) = lenU, but the diagonal takes one of these places (known finding C06-ilut-diag-budget)
    for _ in range(3 if tier == "quick" else 20):
        n = r.choice([2, 3, 5, 8]); rows = gen.tridiag(r, n)
        add("ex", "ilut", " ".join(["apply", "1 0 1", fmt_crs(n, n, rows), fmt_vec(gen.rvec(r, n)), fmt_vec(gen.rvec(r, n))]))
    # the DESIGN section 8 item 6 witness (ILU(1) re-admission), always present
    W = [[(0, F(4)), (4, F(1))], [(0, F(1)), (1, F(4))], [(2, F(4)), (4, F(1))], [(1, F(1)), (2, F(1)), (3, F(4))], [(4, F(4))]]
    add("luk", "iluk_factors", "1 " + fmt_crs(5, 5, W))
    return out


# ------------------------------------------------------------------ oracles
def derive_oracles(lines, impl):
    """oracle lines from implementation outputs; returns (olines, theorem_of, case_of)"""
    ol = []; case_of = {}; th = {}
    def put(cid, kind, payload, theorem):
        oid = "o_" + cid
        ol.append("%s %s %s" % (oid, kind, payload)); case_of[oid] = cid; th[oid] = theorem
    for l in lines:
        cid = l.split(" ", 1)[0]
        out = impl.get(cid)
        if out is None or out.startswith(("EXC", "UNSUPPORTED", "CRASH", "BADCRS", "NOFACTORS", "BADMODE")): continue
        try:
            if cid.startswith("fx"):
                d = parse_case(l)
                put(cid, "o_veq", fmt_vec(d["x"]) + " " + fmt_vec(parse_out_vec(out)),
                    "fixed point: A x* = f => %s.apply_%s(A, f, x*) leaves x* unchanged" % (d["op"], d["mode"]))
            elif cid.startswith("ex"):
                d = parse_case(l); n, m, rows = d["A"]
                put(cid, "o_exact_solve", " ".join([fmt_crs(n, m, rows), fmt_vec(d["rhs"]), fmt_vec(parse_out_vec(out))]),
                    "exact factors fit the pattern => %s (%s) is an exact solve: A x = rhs" % (d["op"], d["mode"]))
            elif cid.startswith("lu"):
                d = parse_case(l); n, m, rows = d["A"]
                Ls, Us, Ds = split_top(out)
                Ln, Lm, Lr = parse_out_crs(Ls); Un, Um, Ur = parse_out_crs(Us); Dv = parse_out_vec(Ds)
                # zero pivot (iluk/ilut do not test for it; D = inverse(0) = 0 in the exact instance, inf in
                # double): the exactness claim is "provided no zero pivot" -- breakdown side, no oracle
                if any(v == 0 for v in Dv): continue
                if d["op"] == "ilu0_factors":
                    pat = [[c for c, _ in rw] for rw in rows]; what = "pattern(A)"
                elif d["op"] == "ilup_factors":
                    k = int(d["params"][0]); pat = pattern_power(rows, k); what = "pattern(A^%d)" % (k + 1)
                else:
                    pat = [sorted(set([c for c, _ in Lr[i]] + [i] + [c for c, _ in Ur[i]])) for i in range(n)]
                    what = "the admitted pattern (level of fill <= %s)" % d["params"][0]
                P = [[(c, F(1)) for c in pr] for pr in pat]
                put(cid, "o_lu_pattern", " ".join([fmt_crs(n, m, rows), fmt_crs(Ln, Lm, Lr), fmt_crs(Un, Um, Ur), fmt_vec(Dv), fmt_crs(n, m, P)]),
                    "%s: ((I+L)(U+D^-1))_ij = a_ij on %s" % (d["op"].replace("_factors", ""), what))
            elif cid.startswith("tri"):
                d = parse_case(l)
                put(cid, "o_triangular", " ".join([fmt_crs(*d["L"]), fmt_crs(*d["U"]), fmt_vec(d["D"]), fmt_vec(d["x"]), fmt_vec(parse_out_vec(out))]),
                    "ilu_solve (serial): (I+L)(D^-1+U) x = b")
        except Exception as e:   # malformed implementation output: let the diff report it
            continue
    return ol, th, case_of


# ------------------------------------------------------------------ block value types (ops "b.*")
BSTAT = {}

def bl_mul(X, Y):
    b = len(X); return [[sum(X[i][k] * Y[k][j] for k in range(b)) for j in range(b)] for i in range(b)]
def bl_matvec(X, v):
    b = len(X); return [sum(X[i][k] * v[k] for k in range(b)) for i in range(b)]
def bl_flat(X): return [x for rw in X for x in rw]
def bl_unflat(v, b): return [list(v[i * b:(i + 1) * b]) for i in range(b)]
def bl_is_zero(X): return all(x == 0 for rw in X for x in rw)

def fmt_bcrs(n, m, rows):
    """rows: list of lists of (col, block); block = b x b list of lists"""
    out = [str(n), str(m)]
    for rw in rows:
        out.append(str(len(rw)))
        for c, B in rw: out += [str(c)] + [fmt_q(x) for x in bl_flat(B)]
    return " ".join(out)
def fmt_bvec(v, b):
    """v: flat list of n*b scalars"""
    assert len(v) % b == 0
    return " ".join([str(len(v) // b)] + [fmt_q(x) for x in v])
def fmt_blocks(bl):
    return " ".join([str(len(bl))] + [fmt_q(x) for B in bl for x in bl_flat(B)])
def parse_out_bcrs(s_, b):
    """'{n m | c:v;v;v;v c:... | ...}' -> (n, m, rows of (col, block))"""
    s_ = s_.strip(); assert s_[0] == "{" and s_[-1] == "}", s_
    parts = s_[1:-1].split("|")
    n, m = [int(x) for x in parts[0].split()]
    rows = []
    for p_ in parts[1:]:
        rw = []
        for e in p_.split():
            c, v = e.split(":"); vs = [F(x) for x in v.split(";")]; assert len(vs) == b * b
            rw.append((int(c), bl_unflat(vs, b)))
        rows.append(rw)
    assert len(rows) == n
    return n, m, rows
def b_matvec(rows, x, b):
    """block rows times flat vector"""
    out = []
    for rw in rows:
        acc = [F(0)] * b
        for c, B in rw:
            y = bl_matvec(B, x[c * b:(c + 1) * b]); acc = [a + t for a, t in zip(acc, y)]
        out += acc
    return out
def b_expand(rows, b):
    """the scalar system of a block matrix: scalar row i*b+r lists (c*b+s, B[r][s]) in storage order"""
    return [[(c * b + s_, B[r_][s_]) for c, B in rw for s_ in range(b)] for rw in rows for r_ in range(b)]

class BToks(Toks):
    def blk(self, b): return bl_unflat([self.q() for _ in range(b * b)], b)
    def bcrs(self, b):
        n, m = self.i(), self.i()
        return n, m, [[(self.i(), self.blk(b)) for _ in range(self.i())] for _ in range(n)]
    def bvec(self, b): return [self.q() for _ in range(self.i() * b)]
    def blocks(self, b): return [self.blk(b) for _ in range(self.i())]

def parse_bcase(line):
    t = BToks(line); cid = t.s(); op = t.s(); b = t.i()
    d = dict(id=cid, op=op, b=b); base = op[2:]
    if base in NPARAM:
        d["mode"] = t.s(); d["params"] = [t.s() for _ in range(NPARAM[base])]
        d["A"] = t.bcrs(b); d["rhs"] = t.bvec(b); d["x"] = t.bvec(b)
    elif base in FPARAM:
        d["params"] = [t.s() for _ in range(FPARAM[base])]; d["A"] = t.bcrs(b)
    elif base == "ilu_solve":
        d["L"] = t.bcrs(b); d["U"] = t.bcrs(b); d["D"] = t.blocks(b); d["x"] = t.bvec(b)
    return d

def rblock(r, b, kind=None):
    """a random b x b block; kinds chosen so that generic pairs do NOT commute"""
    kind = kind or r.choice(["gen", "gen", "gen", "sparse", "upper", "lower", "rot", "perm", "scalar", "diag"])
    if kind == "gen": return [[gen.rq(r, nz=True) for _ in range(b)] for _ in range(b)]
    if kind == "sparse": return [[gen.rq(r) if r.random() < 0.6 else F(0) for _ in range(b)] for _ in range(b)]
    if kind == "upper": return [[gen.rq(r, nz=True) if j >= i else F(0) for j in range(b)] for i in range(b)]
    if kind == "lower": return [[gen.rq(r, nz=True) if j <= i else F(0) for j in range(b)] for i in range(b)]
    if kind == "rot":   # skew part + something
        X = [[F(0)] * b for _ in range(b)]
        for i in range(b):
            for j in range(i + 1, b): v = gen.rq(r, nz=True); X[i][j] = v; X[j][i] = -v
        return X
    if kind == "perm":
        pm = list(range(b)); r.shuffle(pm); v = gen.rq(r, nz=True)
        return [[v if pm[i] == j else F(0) for j in range(b)] for i in range(b)]
    if kind == "scalar":
        v = gen.rq(r, nz=True); return [[v if i == j else F(0) for j in range(b)] for i in range(b)]
    return [[gen.rq(r, nz=True) if i == j else F(0) for j in range(b)] for i in range(b)]

def b_dominate(r, b, rows, strict=True):
    """replace the diagonal cells of the diagonal blocks so that the EXPANDED matrix is strictly row
    diagonally dominant (=> every pivot block of every (incomplete) block factorisation is non-singular)"""
    out = []
    for i, rw in enumerate(rows):
        rw = [(c, [list(x) for x in B]) for c, B in rw]
        dpos = [k for k, (c, _) in enumerate(rw) if c == i]
        assert dpos
        k0 = dpos[-1]
        for r_ in range(b):
            off = sum(abs(B[r_][s_]) for k, (c, B) in enumerate(rw) for s_ in range(b) if not (k == k0 and s_ == r_))
            rw[k0][1][r_][r_] = (off + r.choice([F(1, 2), F(1), F(2), F(3)])) * r.choice([1, 1, 1, -1])
        out.append(rw)
    return out

def block_matrix_family(r, b, n, fam):
    """sorted block rows with a full block diagonal, expanded matrix strictly diagonally dominant"""
    def pat():
        if fam == "btridiag": return [[j for j in (i - 1, i, i + 1) if 0 <= j < n] for i in range(n)]
        if fam == "barrow": return [sorted(set([0, i])) if i else list(range(n)) for i in range(n)]
        if fam == "barrow_last": return [sorted(set([i, n - 1])) if i < n - 1 else list(range(n)) for i in range(n)]
        if fam == "bdense": return [list(range(n)) for _ in range(n)]
        if fam == "bupper": return [[j for j in range(i, n) if j == i or r.random() < 0.6] for i in range(n)]
        if fam == "blower": return [[j for j in range(0, i + 1) if j == i or r.random() < 0.6] for i in range(n)]
        dens = r.choice([0.2, 0.4, 0.6])
        if fam == "bsympat":
            e = set((i, j) for i in range(n) for j in range(i) if r.random() < dens)
            return [sorted(set([i] + [j for j in range(n) if (i, j) in e or (j, i) in e])) for i in range(n)]
        return [sorted(set([i] + [j for j in range(n) if r.random() < dens])) for i in range(n)]   # structurally non-symmetric
    if fam == "bmmat":
        # block M-matrix: graph of a scalar SPD M-matrix, off-diagonal blocks entry-wise <= 0, diagonal blocks dominant
        rows0 = gen.spd_mmatrix(r, n)
        rows = [[(c, [[(-abs(x) if c != i else x) for x in rw_] for rw_ in rblock(r, b, r.choice(["gen", "sparse", "upper", "lower"]))])
                 for c, _ in rw] for i, rw in enumerate(rows0)]
        rows = b_dominate(r, b, rows)
        return [[(c, ([[abs(x) if p_ == q_ else x for q_, x in enumerate(rw_)] for p_, rw_ in enumerate(B)] if c == i else B))
                 for c, B in rw] for i, rw in enumerate(rows)]
    if fam == "bkron":
        # commuting blocks (scalar M-matrix (x) I_b): the only block family of amgcl's own test-suite
        rows0 = gen.spd_mmatrix(r, n)
        return [[(c, [[v if i == j else F(0) for j in range(b)] for i in range(b)]) for c, v in rw] for rw in rows0]
    rows = [[(c, rblock(r, b)) for c in cs] for cs in pat()]
    return b_dominate(r, b, rows)

BFAMS = ["btridiag", "btridiag", "barrow", "barrow_last", "bpattern", "bpattern", "bsympat", "bdense", "bupper", "blower", "bkron", "bmmat"]

def noncommuting_fraction(r, mats, b_of):
    """fraction of non-commuting pairs among sampled pairs of stored blocks of one matrix"""
    tot = nc = 0; allscal = alldiag = allsym = True
    for rows, b in zip(mats, b_of):
        bl = [B for rw in rows for _, B in rw]
        for B in bl:
            if any(B[i][j] != 0 for i in range(b) for j in range(b) if i != j): alldiag = False
            if any(B[i][j] != B[j][i] for i in range(b) for j in range(b)): allsym = False
            if any(B[i][j] != (B[0][0] if i == j else 0) for i in range(b) for j in range(b)): allscal = False
        for _ in range(min(12, len(bl) * (len(bl) - 1) // 2)):
            X, Y = r.sample(bl, 2); tot += 1
            if bl_mul(X, Y) != bl_mul(Y, X): nc += 1
    return dict(pairs=tot, noncommuting=nc, all_blocks_scalar=allscal, all_blocks_diagonal=alldiag, all_blocks_symmetric=allsym)

def block_cases(tier, seed):
    r = random.Random(seed * 1000 + 606)
    out = []; cnt = [0]; mats = []; bs = []
    def add(prefix, op, b, payload):
        out.append("%s%d b.%s %d %s" % (prefix, cnt[0], op, b, payload)); cnt[0] += 1
    N = 26 if tier == "quick" else 110
    dnz = [F(1, 2), F(3, 4), F(18, 25), F(5, 4)]
    for it in range(N):
        b = 2 if it % 3 else 3
        n = r.choice([1, 2, 3, 3, 4, 5, 6]) if it % 6 else r.randint(6, 9 if tier == "quick" else 12)
        fam = BFAMS[it % len(BFAMS)] if it < 2 * len(BFAMS) else r.choice(BFAMS)
        rows = block_matrix_family(r, b, n, fam)
        mats.append(rows); bs.append(b)
        if r.random() < 0.25:
            # explicit zero blocks / blocks with zero cells off the diagonal
            rows = [[(c, ([[F(0)] * b for _ in range(b)] if (c != i and r.random() < 0.3) else B)) for c, B in rw] for i, rw in enumerate(rows)]
        A = fmt_bcrs(n, n, rows)
        xs = gen.rvec(r, n * b); rhs = gen.rvec(r, n * b); x0 = gen.rvec(r, n * b)
        fx_rhs = b_matvec(rows, xs, b)
        V = lambda v: fmt_bvec(v, b)
        # block pattern closed under elimination (no fill): tridiagonal, arrow pointing to the LAST row/column,
        # triangular.  ("barrow", head in row/column 0, fills completely: not exact.)
        exact = fam in ("btridiag", "barrow_last", "bupper", "blower")
        # point smoothers also on shuffled rows / duplicated off-diagonal blocks
        rowsv = rows
        if r.random() < 0.4: rowsv = gen.shuffle_rows(r, rows)
        if r.random() < 0.25 and n > 1:
            rowsv = [list(rw) for rw in rowsv]
            i = r.randrange(n); offs = [c for c, _ in rowsv[i] if c != i]
            if offs: rowsv[i].insert(r.randrange(len(rowsv[i]) + 1), (r.choice(offs), rblock(r, b)))
        Av = fmt_bcrs(n, n, rowsv); fx_rhs_v = b_matvec(rowsv, xs, b)
        cheby_p = lambda: "%d %s %s %d" % (r.choice([1, 2, 3]), fmt_q(r.choice([F(1, 32), F(1, 16), F(1, 4)])),
                                           fmt_q(r.choice([F(1), F(5, 4), F(9, 8)])), r.choice([0, 1]))
        point = [("jacobi", lambda: fmt_q(r.choice(DAMP))), ("spai0", lambda: ""), ("gs", lambda: ""), ("cheby", cheby_p)]
        for op, pf in point:
            for mode in ("pre", "post", "apply", "asprec"):
                if op == "cheby" and mode == "asprec" and it % 2: continue
                add("bc", op, b, " ".join(x for x in [mode, pf(), Av, V(rhs), V(x0)] if x))
            for mode in ("pre", "post"):
                add("bfx", op, b, " ".join(x for x in [mode, pf(), Av, V(fx_rhs_v), V(xs)] if x))
        add("bc", "spai0_m", b, Av); add("bc", "jacobi_dia", b, Av)
        add("bc", "gersh", b, "0 " + Av); add("bc", "gersh", b, "1 " + Av)
        ilus = [("ilu0", lambda: fmt_q(r.choice(DAMP))),
                ("iluk", lambda: "%d %s" % (r.choice([0, 1, 1, 2]), fmt_q(r.choice(DAMP)))),
                ("ilup", lambda: "%d %s" % (r.choice([0, 1, 1, 2]), fmt_q(r.choice(DAMP)))),
                ("ilut", lambda: "%s %s %s" % (fmt_q(r.choice([F(1), F(3, 2), F(2), F(n + 1)])),
                                               fmt_q(r.choice([F(0), F(1, 100), F(1, 8)])), fmt_q(r.choice(DAMP))))]
        for op, pf in ilus:
            for mode in ("pre", "post", "apply", "asprec"):
                add("bc", op, b, " ".join([mode, pf(), A, V(rhs), V(x0)]))
            add("bfx", op, b, " ".join([r.choice(["pre", "post"]), pf(), A, V(fx_rhs), V(xs)]))
            # damping != 1 for every ILU variant (damping is the last parameter)
            add("bc", op, b, " ".join([r.choice(["pre", "post"]), " ".join(pf().split(" ")[:-1] + [fmt_q(r.choice(dnz))]), A, V(rhs), V(x0)]))
        add("blu0", "ilu0_factors", b, A)
        for k in (0, 1, n):
            add("bluk", "iluk_factors", b, "%d %s" % (k, A))
        for k in (0, 1, 2):
            add("blup", "ilup_factors", b, "%d %s" % (k, A))
        add("bc", "ilut_factors", b, "%s %s %s" % (fmt_q(r.choice([F(1), F(2), F(3)])), fmt_q(r.choice([F(0), F(1, 100), F(1, 8)])), A))
        # exact inverse cases: complete factorisation (iluk with k > n) on every matrix; ilu0 / iluk(any k) / ilup /
        # ilut(tau = 0, p >= 2) when the block pattern is closed under elimination
        full = [("iluk", "%d 1" % (n + 1))]
        if exact:
            full += [("ilu0", "1"), ("iluk", "%d 1" % r.choice([0, 1, 2])), ("ilup", "%d 1" % r.choice([0, 1, 2])),
                     ("ilut", "%s 0 1" % fmt_q(r.choice([F(2), F(5, 2), F(n + 1)])))]
        for op, p_ in full:
            for mode in ("apply", "asprec", "pre"):
                add("bex", op, b, " ".join([mode, p_, A, V(rhs), V(x0)]))
        # the triangular solver alone, on random strict block factors and random (non-singular or not) D blocks
        Lr = [[(c, rblock(r, b)) for c in range(i) if r.random() < 0.5] for i in range(n)]
        Ur = [[(c, rblock(r, b)) for c in range(i + 1, n) if r.random() < 0.5] for i in range(n)]
        Dr = [rblock(r, b, "gen") for _ in range(n)]
        add("btri", "ilu_solve", b, " ".join([fmt_bcrs(n, n, Lr), fmt_bcrs(n, n, Ur), fmt_blocks(Dr), V(rhs)]))
    # the 2x2 block witness of the operand order in the ILU(0) multiplier (always present): block tridiagonal,
    # sub-diagonal block does not commute with the inverse pivot block
    for b in (2, 3):
        E = lambda i, j, v=F(1): [[v if (p_, q_) == (i, j) else F(0) for q_ in range(b)] for p_ in range(b)]
        I = [[F(1) if p_ == q_ else F(0) for q_ in range(b)] for p_ in range(b)]
        D0 = [[F(4) if p_ == q_ else (F(1) if q_ == p_ + 1 else F(0)) for q_ in range(b)] for p_ in range(b)]
        W = [[(0, D0), (1, E(0, b - 1))], [(0, E(b - 1, 0, F(2))), (1, [[F(5) * x for x in rw] for rw in I])]]
        A = fmt_bcrs(2, 2, W); rhs = [F(k + 1) for k in range(2 * b)]; x0 = [F(0)] * (2 * b)
        add("blu0", "ilu0_factors", b, A)
        for mode in ("apply", "pre"):
            add("bex", "ilu0", b, " ".join([mode, "1", A, fmt_bvec(rhs, b), fmt_bvec(x0, b)]))
    # guard branches: a zero diagonal block (ilu0/ilup: "Zero pivot"; diagonal(): identity), a missing diagonal
    # block (ilu0/ilup: "No diagonal value"; gauss_seidel: D = identity), only for the classes that test for it
    for it in range(6 if tier == "quick" else 30):
        b = r.choice([2, 3]); n = r.choice([2, 3, 4])
        rows = block_matrix_family(r, b, n, r.choice(["btridiag", "bpattern", "bdense"]))
        i = r.randrange(n)
        if it % 2: rows[i] = [(c, ([[F(0)] * b for _ in range(b)] if c == i else B)) for c, B in rows[i]]
        else: rows[i] = [(c, B) for c, B in rows[i] if c != i]
        A = fmt_bcrs(n, n, rows); rhs = gen.rvec(r, n * b); x0 = gen.rvec(r, n * b)
        for op, p_ in (("jacobi", "3/4"), ("gs", ""), ("ilu0", "1"), ("ilup", "1 1")):
            add("bc", op, b, " ".join(x for x in [r.choice(["pre", "post", "apply"]), p_, A, fmt_bvec(rhs, b), fmt_bvec(x0, b)] if x))
        add("bc", "jacobi_dia", b, A); add("bc", "ilu0_factors", b, A); add("bc", "ilup_factors", b, "1 " + A)
    # block arithmetic itself (operator*, math::inverse) -- also tied by C16; cheap sanity for this driver
    for _ in range(10 if tier == "quick" else 60):
        b = r.choice([2, 3]); X = rblock(r, b, "gen"); Y = rblock(r, b)
        add("bc", "mul", b, " ".join(fmt_q(x) for x in bl_flat(X) + bl_flat(Y)))
        Z = b_dominate(r, b, [[(0, X)]])[0][0][1]
        add("bc", "inverse", b, " ".join(fmt_q(x) for x in bl_flat(Z)))
    BSTAT.clear(); BSTAT.update(noncommuting_fraction(r, mats, bs))
    return out

def block_oracles(lines, impl):
    ol = []; case_of = {}; th = {}
    def put(cid, kind, payload, theorem, suffix=""):
        oid = "o_" + cid + suffix
        ol.append("%s %s %s" % (oid, kind, payload)); case_of[oid] = cid; th[oid] = theorem
    for l in lines:
        cid = l.split(" ", 1)[0]
        out = impl.get(cid)
        if out is None or out.startswith(("EXC", "UNSUPPORTED", "CRASH", "BADCRS", "NOFACTORS", "BADMODE")): continue
        try:
            if cid.startswith("bfx"):
                d = parse_bcase(l)
                put(cid, "o_veq", fmt_vec(d["x"]) + " " + fmt_vec(parse_out_vec(out)),
                    "block values (b=%d): fixed point: A x* = f => %s.apply_%s(A, f, x*) leaves x* unchanged" % (d["b"], d["op"][2:], d["mode"]))
            elif cid.startswith("bex"):
                d = parse_bcase(l); b = d["b"]; n, m, rows = d["A"]; x = parse_out_vec(out)
                th_ = "block values (b=%d): exact factors fit the block pattern => %s (%s) is an exact solve: A x = rhs" % (b, d["op"][2:], d["mode"])
                # on the EXPANDED scalar system, by the scalar oracle op (independent of every block-level definition)
                put(cid, "o_exact_solve", " ".join([fmt_crs(n * b, m * b, b_expand(rows, b)), fmt_vec(d["rhs"]), fmt_vec(x)]), th_ + " (expanded scalar system)")
                put(cid, "b.o_exact_solve", " ".join([str(b), fmt_bcrs(n, m, rows), fmt_bvec(d["rhs"], b), fmt_bvec(x, b)]), th_ + " (block products)", "_b")
            elif cid.startswith("blu"):
                d = parse_bcase(l); b = d["b"]; n, m, rows = d["A"]
                Ls, Us, Ds = split_top(out)
                Ln, Lm, Lr = parse_out_bcrs(Ls, b); Un, Um, Ur = parse_out_bcrs(Us, b)
                Dv = parse_out_vec(Ds); Db = [bl_unflat(Dv[k * b * b:(k + 1) * b * b], b) for k in range(n)]
                if any(bl_is_zero(B) for B in Db): continue       # breakdown side (iluk/ilut do not test)
                base = d["op"][2:]
                if base == "ilu0_factors":
                    pat = [[c for c, _ in rw] for rw in rows]; what = "pattern(A)"
                elif base == "ilup_factors":
                    k = int(d["params"][0]); pat = pattern_power(rows, k); what = "pattern(A^%d)" % (k + 1)
                else:
                    pat = [sorted(set([c for c, _ in Lr[i]] + [i] + [c for c, _ in Ur[i]])) for i in range(n)]
                    what = "the admitted pattern (level of fill <= %s)" % d["params"][0]
                P = [[(c, F(1)) for c in pr] for pr in pat]
                put(cid, "b.o_lu_pattern", " ".join([str(b), fmt_bcrs(n, m, rows), fmt_bcrs(Ln, Lm, Lr), fmt_bcrs(Un, Um, Ur), fmt_blocks(Db), fmt_crs(n, m, P)]),
                    "block values (b=%d): %s: ((I+L)(U+D^-1))_ij = a_ij (block products) on %s" % (b, base.replace("_factors", ""), what))
            elif cid.startswith("btri"):
                d = parse_bcase(l); b = d["b"]
                put(cid, "b.o_triangular", " ".join([str(b), fmt_bcrs(*d["L"]), fmt_bcrs(*d["U"]), fmt_blocks(d["D"]), fmt_bvec(d["x"], b), fmt_bvec(parse_out_vec(out), b)]),
                    "block values (b=%d): ilu_solve (serial): y + L y = b, x_i = D_i (y_i - (U x)_i), left products" % b)
        except Exception as e:
            continue
    return ol, th, case_of

def block_run(ctx, lines):
    """block-valued smoothers: drv_relax_block vs the extracted models at BlockS QcS b, plus oracles"""
    from props.common import account
    if not lines: return []
    fails = []
    env = {"OMP_NUM_THREADS": "1"}
    model = ctx["run_driver"](ctx["model"], lines)
    # domain: math::inverse(static_matrix) asserts on a singular block
    dom = [l for l in lines if not (model.get(l.split(" ", 1)[0]) or "").startswith("EXC singular_block")]
    ctx["log"].append(("C06 block cases outside the domain (singular block: C++ asserts), not run", len(lines) - len(dom)))
    impl = ctx["run_driver"](ctx["cpp"]["relax_block"], dom, env_extra=env)
    account(ctx, dom, impl)
    skipped = 0
    for l in dom:
        cid, op = l.split(" ", 2)[:2]
        a, m_ = impl.get(cid), model.get(cid)
        if a != m_:
            if m_ == "EXC TIE" or a == "UNSUPPORTED": skipped += 1; continue
            ctx["stats"]["mismatches"] += 1
            fails.append(dict(kind="counterexample", case=l, impl=a, model=m_, op=op, size=len(l), env=env,
                              theorem="correspondence drv_relax_block (%s, static_matrix<Q,b,b>) vs Relax.v/Ilu.v/Cheby.v at BlockInst.BlockS" % op))
    ctx["log"].append(("C06 block skipped (ilut tie / unsupported)", skipped))
    # a second thread count for the omp-parallel setup loops (spai0, diagonal, Gershgorin reduction, symb_product, vmul/residual)
    sub = [l for l in dom if l.split(" ", 2)[1] in ("b.spai0", "b.jacobi", "b.cheby", "b.ilup", "b.gersh", "b.spai0_m", "b.ilup_factors", "b.jacobi_dia")][::3]
    if sub:
        env3 = {"OMP_NUM_THREADS": "3"}
        impl3 = ctx["run_driver"](ctx["cpp"]["relax_block"], sub, env_extra=env3, shards=8)
        for l in sub:
            cid, op = l.split(" ", 2)[:2]
            ctx["stats"]["evaluations"] += 1
            if impl3.get(cid) != model.get(cid):
                ctx["stats"]["mismatches"] += 1
                fails.append(dict(kind="counterexample", case=l, impl=impl3.get(cid), model=model.get(cid), op=op, size=len(l), env=env3,
                                  theorem="correspondence drv_relax_block (%s, OMP_NUM_THREADS=3) vs model at BlockInst.BlockS" % op))
    if BSTAT: ctx["log"].append(("C06 block generators: sampled block pairs / non-commuting / all-scalar / all-diagonal / all-symmetric",
                                 "%(pairs)d / %(noncommuting)d / %(all_blocks_scalar)s / %(all_blocks_diagonal)s / %(all_blocks_symmetric)s" % BSTAT))
    ol, th, case_of = block_oracles(dom, impl)
    by_id = {l.split(" ", 1)[0]: l for l in dom}
    of = oracle_run(ctx, ol, "C06 block oracle", lambda oid: by_id[case_of[oid]])
    for x in of:
        oid = x["oracle"]["line"].split(" ", 1)[0]
        x["theorem"] = th.get(oid, "C06 block oracle")
    fails += of
    return fails


def run(ctx, cases_override=None):
    lines = cases_override or (cases(ctx["tier"], ctx["seed"]) + block_cases(ctx["tier"], ctx["seed"]))
    fails = []
    blines = [l for l in lines if l.split(" ", 2)[1].startswith("b.")]
    lines = [l for l in lines if not l.split(" ", 2)[1].startswith("b.")]
    fails += block_run(ctx, blines)
    zlines = [l for l in lines if l.split(" ", 2)[1] == "spai0_cplx"]
    slines = [l for l in lines if l.split(" ", 2)[1] in ("spai1", "spai1_m")]
    lines = [l for l in lines if l.split(" ", 2)[1] not in ("spai0_cplx", "spai1", "spai1_m")]
    fails += spai1_run(ctx, slines if cases_override else None)
    # complex value type: SPAI-0 against the row-wise least-squares minimiser conj(a_ii)/sum|a_ij|^2
    # (std::complex<double>; python reference, tolerance 1e-12).  Since the repair of finding C06-spai0-no-conj
    # (spai0.hpp: num += math::adjoint(v)) this passes; Coq: C06_spai0_minimiser_complex (Spai0Min.v) proves that the
    # model formula IS the minimiser over ComplexS of an ordered field.  classify() still recognises the old defect
    # (M_i = a_ii/sum|a_ij|^2 on a non-real diagonal): the finding is 'fixed', so its return is a VIOLATION.
    fails += complex_spai0(ctx, zlines if cases_override else None)
    if not lines: return fails
    f, impl, model = diff_run(ctx, "relax", lines, env={"OMP_NUM_THREADS": "1"})
    skipped = 0
    for x in f:
        if x["model"] == "EXC TIE" or x["impl"] == "UNSUPPORTED":
            skipped += 1; ctx["stats"]["mismatches"] -= 1; continue
        x["theorem"] = "correspondence drv_relax (%s) vs Relax.v/Ilu.v/Cheby.v" % x["op"]
        fails.append(x)
    ctx["log"].append(("C06 skipped (ilut tie / unsupported)", skipped))
    # a second thread count for the omp-parallel setup loops (spai0, diagonal, Gershgorin reduction, symb_product)
    if not cases_override:
        sub = [l for l in lines if l.split(" ", 2)[1] in ("spai0", "jacobi", "cheby", "ilup", "gersh", "spai0_m", "ilup_factors")][::2]
        f2, _, _ = diff_run(ctx, "relax", sub, env={"OMP_NUM_THREADS": "3"}, shards=8)
        for x in f2:
            x["theorem"] = "correspondence drv_relax (%s, OMP_NUM_THREADS=3) vs model" % x["op"]
        fails += f2
    # the level-scheduled parallel forms (gauss_seidel::parallel_sweep, ilu_solve::sptr_solve) are taken
    # with >= 4 threads: every gs / ilu0 case again through them, at 4 and 5 threads, vs the same model
    if not cases_override:
        psub = []
        for l in lines:
            sp = l.split(" ", 2)
            if sp[1] in ("gs", "ilu0") and sp[2].split(" ", 1)[0] in ("pre", "post", "apply"):
                psub.append("%sP %sp %s" % (sp[0], sp[1], sp[2]))
        for nt in ("4", "5"):
            f3, _, _ = diff_run(ctx, "relax", psub, env={"OMP_NUM_THREADS": nt}, shards=4)
            for x in f3:
                x["theorem"] = "correspondence drv_relax (%s = level-scheduled parallel form, OMP_NUM_THREADS=%s) vs the serial sweep model" % (x["op"], nt)
            fails += f3
    else:
        plines = [l for l in lines if l.split(" ", 2)[1] in ("gsp", "ilu0p")]
        if plines:
            f3, _, _ = diff_run(ctx, "relax", plines, env={"OMP_NUM_THREADS": "4"}, shards=1)
            fails += f3
        lines = [l for l in lines if l.split(" ", 2)[1] not in ("gsp", "ilu0p")]
    # oracles on the implementation's outputs
    ol, th, case_of = derive_oracles(lines, impl)
    by_id = {l.split(" ", 1)[0]: l for l in lines}
    of = oracle_run(ctx, ol, "C06 oracle", lambda oid: by_id[case_of[oid]])
    for x in of:
        oid = x["oracle"]["line"].split(" ", 1)[0]
        x["theorem"] = th.get(oid, "C06 oracle")
    fails += of
    return fails


def spai1_cases(tier, seed):
    """dyadic, diagonally dominant matrices (well conditioned normal equations), sorted or shuffled rows"""
    r = random.Random(seed * 1000 + 61); out = []
    DY = [F(k, d) for k in range(-6, 7) for d in (1, 2, 4) if k != 0]
    for k in range(25 if tier == "quick" else 200):
        n = r.choice([1, 2, 3, 4, 6, 9, 12])
        rows = []
        for i in range(n):
            rw = {j: r.choice(DY) for j in range(n) if j != i and r.random() < r.choice([0.2, 0.4])}
            rw[i] = sum(abs(v) for v in rw.values()) + r.choice([1, 2, 3])
            it = sorted(rw.items())
            if r.random() < 0.3: r.shuffle(it)
            rows.append(it)
        A = fmt_crs(n, n, rows)
        xs = [r.choice(DY) for _ in range(n)]; rhs = [r.choice(DY) for _ in range(n)]; x0 = [r.choice(DY) for _ in range(n)]
        out.append("s%da spai1_m %s" % (k, A))
        for mode in ("pre", "post", "apply", "asprec"):
            out.append("s%d%s spai1 %s %s %s %s" % (k, mode, mode, A, fmt_vec(rhs), fmt_vec(x0)))
        out.append("sfx%d spai1 pre %s %s %s" % (k, A, fmt_vec(gen.matvec(rows, xs)), fmt_vec(xs)))
    return out

def spai1_run(ctx, lines=None):
    """spai1.hpp (double, Householder QR) against the exact least-squares model, relative tolerance 1e-9"""
    lines = lines if lines is not None else spai1_cases(ctx["tier"], ctx["seed"])
    if not lines: return []
    dl = []
    for l in lines:
        cid, op, rest = l.split(" ", 2); dl.append("%s d.%s %s" % (cid, op, rest))
    impl = ctx["run_driver"](ctx["cpp"]["relax"], dl, env_extra={"OMP_NUM_THREADS": "1"})
    model = ctx["run_driver"](ctx["model"], lines)
    fails = []
    def nums(s_):
        import re
        return [F(x) for x in re.findall(r"(?::|\[|\s)(-?\d+(?:/\d+)?)(?=[\s\]\}|])", " " + s_)]
    def shape(s_):
        import re
        return re.sub(r"-?\d+(?:/\d+)?(?=[\s\]\}])", "#", re.sub(r":-?\d+(?:/\d+)?", ":#", s_))
    for l in lines:
        cid, op = l.split(" ", 2)[:2]
        a, b = impl.get(cid) or "", model.get(cid) or ""
        ctx["stats"]["evaluations"] += 1; ctx["stats"]["by_op"]["d." + op] = ctx["stats"]["by_op"].get("d." + op, 0) + 1
        if b.startswith("EXC singular"): continue
        ok = False
        try:
            va, vb = nums(a), nums(b)
            ok = (shape(a) == shape(b) and len(va) == len(vb) and
                  all(abs(x - y) <= F(1, 10 ** 9) * max(1, abs(y)) for x, y in zip(va, vb)))
            if ok and any(y != 0 for y in vb): ctx["stats"]["nontrivial"] += 1
            if ok and cid.startswith("sfx"):
                xs = parse_case("x spai0 pre " + l.split(" ", 3)[3])["x"]
                ctx["stats"]["oracle_checks"] += 1
                ok = all(abs(x - y) <= F(1, 10 ** 9) * max(1, abs(y)) for x, y in zip(parse_out_vec(a), xs))
        except Exception:
            ok = False
        if not ok:
            ctx["stats"]["mismatches"] += 1
            fails.append(dict(kind="counterexample", case=l, impl=a[:2000], model=b[:2000], op=op, size=len(l),
                theorem="spai1 (double build, tolerance 1e-9) vs exact least-squares model Spai1.v (%s)" % op))
    return fails


def complex_cases(tier, seed):
    r = random.Random(seed * 1000 + 66); out = []
    for k in range(6 if tier == "quick" else 40):
        n = r.choice([1, 2, 3, 4])
        toks = [str(n)]
        for i in range(n):
            cols = sorted(set([i] + [j for j in range(n) if r.random() < 0.5]))
            toks.append(str(len(cols)))
            for c in cols:
                re, im = r.randint(-3, 3), r.randint(-3, 3)
                if c == i and k % 3 == 0: im = 0                 # some real diagonals
                if c == i and re == 0 and im == 0: re = 2
                toks += [str(c), str(re), str(im)]
        out.append("z%d spai0_cplx %s" % (k, " ".join(toks)))
    return out

def complex_spai0(ctx, lines=None):
    lines = lines if lines is not None else complex_cases(ctx["tier"], ctx["seed"])
    if not lines: return []
    impl = ctx["run_driver"](ctx["cpp"]["relax"], lines, env_extra={"OMP_NUM_THREADS": "1"})
    fails = []
    for l in lines:
        cid = l.split(" ", 1)[0]; t = Toks(l); t.s(); t.s(); n = t.i()
        rows = [[(t.i(), complex(int(t.s()), int(t.s()))) for _ in range(t.i())] for _ in range(n)]
        ctx["stats"]["oracle_checks"] += 1; ctx["stats"]["evaluations"] += 1
        out = impl.get(cid) or ""
        try:
            v = [float(x) for x in parse_out_vec(out)]; M = [complex(v[2 * i], v[2 * i + 1]) for i in range(n)]
        except Exception:
            fails.append(dict(kind="counterexample", case=l, impl=out, model=None, op="spai0_cplx", size=len(l),
                              theorem="spai0 (complex): driver output", oracle=dict(op="py_ls_minimiser", result="BAD OUTPUT"))); continue
        for i in range(n):
            den = sum(abs(a) ** 2 for _, a in rows[i]); aii = sum(a for c, a in rows[i] if c == i)
            ls = aii.conjugate() / den; coded = aii / den
            if abs(M[i] - ls) > 1e-12:
                ctx["stats"]["oracle_fail"] += 1
                fails.append(dict(kind="counterexample", case=l, impl=out, model=None, op="spai0_cplx", size=len(l),
                    theorem="spai0 (complex values): M_i is the least-squares minimiser conj(a_ii)/sum_j|a_ij|^2 of ||e_i - m a_i||",
                    oracle=dict(op="py_ls_minimiser", result="FAIL row %d M=%r minimiser=%r" % (i, M[i], ls),
                                matches_formula_without_conj=abs(M[i] - coded) <= 1e-12, diag_nonreal=(aii.imag != 0))))
                break
    # the extracted Coq model Relax.spai0_setup at the instance ComplexS QcS (ocaml/relax/ops_relax_cplx.ml), run on the
    # same cases: exact numerator (adjoint), denominator through the 2^-64-grid pseudo square root -> tolerance 1e-12
    model = ctx["run_driver"](ctx["model"], lines)
    failed = set(f["case"] for f in fails)
    for l in lines:
        if l in failed: continue
        cid = l.split(" ", 1)[0]; a, b = impl.get(cid) or "", model.get(cid) or ""
        ctx["stats"]["evaluations"] += 1; ctx["stats"]["by_op"]["m.spai0_cplx"] = ctx["stats"]["by_op"].get("m.spai0_cplx", 0) + 1
        ok = False
        try:
            va = [F(float(x)) for x in parse_out_vec(a)]; vb = [F(x) for x in b.strip()[1:-1].split()]
            ok = len(va) == len(vb) and len(va) > 0 and all(abs(x - y) <= F(1, 10 ** 12) for x, y in zip(va, vb))
            if ok and any(y != 0 for y in vb): ctx["stats"]["nontrivial"] += 1
        except Exception:
            ok = False
        if not ok:
            ctx["stats"]["mismatches"] += 1
            fails.append(dict(kind="counterexample", case=l, impl=a[:2000], model=b[:2000], op="spai0_cplx", size=len(l),
                theorem="spai0 (std::complex<double>, tolerance 1e-12) vs the extracted Coq model Relax.spai0_setup at ComplexS QcS"))
    return fails


def classify(fail):
    """signature of a failure; the known finding is specific to: ILU(k) exactness oracle fails at a
    position that iluk.hpp dropped at creation and re-admitted later (computed from the case)."""
    try:
        case = fail.get("case") or ""
        sp = case.split(" ", 2)
        if len(sp) >= 3 and sp[1] == "spai0_cplx" and fail.get("oracle"):
            o = fail["oracle"]
            return {"site": "spai0", "missing_conj": bool(o.get("matches_formula_without_conj") and o.get("diag_nonreal"))}
        if len(sp) >= 3 and sp[1] == "ilut" and fail.get("oracle") and fail["oracle"].get("op") == "o_exact_solve":
            d = parse_case(case); p = F(d["params"][0]); tau = F(d["params"][1]); rows = d["A"][2]
            lenU = [sum(1 for c, _ in rw if c > i) for i, rw in enumerate(rows)]
            # some row whose own upper entries exactly fill int(lenU*p) places, none left for the diagonal
            hit = tau == 0 and any(lu >= 1 and int(lu * p) == lu for lu in lenU)
            return {"site": "ilut", "diag_counted_in_u_budget": hit}
        if len(sp) < 3 or sp[1] not in ("iluk_factors", "b.iluk_factors") or not fail.get("oracle"): return {}
        if fail["oracle"].get("op") not in ("o_lu_pattern", "b.o_lu_pattern"): return {}
        res = fail["oracle"].get("result") or ""
        if not res.startswith("FAIL "): return {}
        i, j = int(res.split()[1]), int(res.split()[2])
        # the level bookkeeping of iluk.hpp is purely structural: the same replay serves block-valued matrices
        d = parse_bcase(case) if sp[1].startswith("b.") else parse_case(case)
        k = int(d["params"][0]); rows = d["A"][2]
        return {"site": "iluk", "re_admitted_after_drop": (i, j) in iluk_readmitted(rows, k)}
    except Exception:
        return {}
