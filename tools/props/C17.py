"""C17 -- matrix adapters preserve the operator; input row order does not matter.

Three groups of cases:
  V  views      : every adapter (tuple ranges x 5 index types, zero-copy, row builder, block,
                  complex, reorder view, scaled view) -> rows/cols/nonzeros, row iteration dump,
                  generic CRS copy, spmv on the adapter; implementation vs extracted Adapters.v.
  S  solves     : reorder<> (given permutation / Cuthill-McKee) and scaled_problem through a full
                  exact solve; oracle = extracted specification (dense A x) on the outputs.
  P  row order  : each preconditioner class that accepts a user matrix, built from a shuffled and
                  from the sorted listing of the same matrix; apply() on all unit vectors must agree
                  exactly (implementation vs implementation), plus implementation vs model where the
                  base model has the smoother.
"""
import random, re
from fractions import Fraction as F
from vcheck import fmt_q, fmt_vec, fmt_ivec, fmt_crs, split_top
import gen
from props.common import diff_run, oracle_run, account

DRIVERS = ["adapters", "adapters_asan", "adapters3p", "pcorder", "pcorder2"]
EXTRA_FLAGS = {"adapters_asan": ["-fsanitize=address", "-fno-omit-frame-pointer", "-g"],
               "adapters3p": ["-I/usr/include/eigen3"]}
MODEL = "adapters"
ASSUMPTIONS = [
    "amgcl templates instantiated at the exact rational vq::Q execute the same code as at double",
    "index types are modelled as two's complement integers of 32/64 bits (LP64 ABI of the harness build)",
    "Eigen / uBlas containers are not modelled: their adapters are compared with the source matrix only (correspondence in double on dyadic values)",
    "zero-copy 'never frees user memory' is observed (pointer identity, own_data flag, content after destruction, AddressSanitizer build), not proved",
]
TRUSTED_BASE = ["harness/drv_adapters.cpp, drv_adapters3p.cpp, drv_pcorder.cpp, drv_pcorder2.cpp; ocaml/adapters/ops_adapters.ml",
                "AddressSanitizer (g++ -fsanitize=address) for the zero-copy cases"]
RULE = ("cases derived from VERIF_SEED by tools/props/C17.py; distinct = distinct case payload; non-trivial = "
        "implementation output contains a non-zero value and is not an exception")

ITYPES = ["int", "long", "unsigned", "size_t", "ptrdiff_t"]
PC_KINDS = ["asp_damped_jacobi", "asp_spai0", "asp_gauss_seidel", "asp_ilu0", "asp_iluk", "asp_ilup", "asp_ilut",
            "asp_chebyshev", "dummy", "amg_sa_ilu0", "amg_agg_gs", "amg_direct", "amg_zc_ilu0"]
PC2_KINDS = ["cpr", "cpr_drs", "schur", "schur_adj2", "schur_adj0", "schur_amg"]
SITE = {"asp": "relaxation::as_preconditioner", "amg": "amg", "amg_zc": "amg(shared_ptr) via adapter::zero_copy",
        "cpr": "preconditioner::cpr", "cpr_drs": "preconditioner::cpr_drs",
        "schur": "preconditioner::schur_pressure_correction", "dummy": "preconditioner::dummy"}


def perm_of(r, n):
    p = list(range(n)); r.shuffle(p); return p

def dy(r, nz=False):
    v = F(r.randint(-8, 8), r.choice([1, 2, 4]))
    return F(1) if (nz and v == 0) else v

def block_matrix_case(r, b, nb, mb, kind):
    """sorted scalar rows of an (nb*b) x (mb*b) matrix with block structure.
    kind: 'kron' (A (x) dense block), 'incomplete' (random subsets of each block), 'full'"""
    rows = [dict() for _ in range(nb * b)]
    for I in range(nb):
        Js = [J for J in range(mb) if r.random() < 0.5 or J == I]
        for J in Js:
            if kind == "kron":
                a = gen.rq(r, nz=True)
                for i in range(b): rows[I * b + i][J * b + i] = a
            else:
                for i in range(b):
                    for j in range(b):
                        if kind == "full" or r.random() < 0.55:
                            rows[I * b + i][J * b + j] = gen.rq(r, nz=(r.random() < 0.9))
    return [sorted(rw.items()) for rw in rows]


def view_cases(tier, seed):
    r = random.Random(seed * 1000 + 17)
    N = 120 if tier == "quick" else 600
    out = []
    def add(op, payload): out.append("v%d %s %s" % (len(out), op, payload))
    for it in range(N):
        n = r.choice([0, 1, 2, 3, 4, 5, 7, 9]) if it % 8 else r.randint(10, 30)
        rows = gen.rcrs(r, n, n, dups=(r.random() < 0.3))
        A = fmt_crs(n, n, rows); x = fmt_vec(gen.rvec(r, n))
        for ity in ITYPES:
            add("tuple " + ity, A + " " + x)
        add("tuple_range " + r.choice(ITYPES), A + " " + x)
        add("builder", A + " " + x)
        add("zero_copy_direct " + r.choice(ITYPES), A + " " + x)
        m = max(1, n + r.randint(-2, 3))
        rrows = gen.rcrs(r, n, m, dups=(r.random() < 0.2))
        add("zero_copy " + r.choice(["ptrdiff_t", "long", "size_t"]), fmt_crs(n, m, rrows) + " " + fmt_vec(gen.rvec(r, m)))
        add("zero_copy_direct " + r.choice(ITYPES), fmt_crs(n, m, rrows) + " " + fmt_vec(gen.rvec(r, m)))
        # reorder / scaled views
        if n > 0:
            p = perm_of(r, n)
            add("reorder_view", A + " " + fmt_ivec(p) + " " + x)
            s = [r.choice([F(0), F(1), F(-1), gen.rq(r, nz=True), gen.rq(r, nz=True)]) for _ in range(n)]
            add("scaled_view", A + " " + fmt_vec(s) + " " + x)
    return out


def block_cases(tier, seed, prefix="b"):
    r = random.Random(seed * 1000 + 13)
    N = 150 if tier == "quick" else 800
    out = []
    def add(op, payload): out.append("%s%d %s %s" % (prefix, len(out), op, payload))
    for it in range(N):
        b = r.choice([2, 3, 4]); nb = r.choice([1, 2, 3, 4]); mb = r.choice([nb, nb, max(1, nb + r.randint(-1, 2))])
        kind = r.choice(["kron", "incomplete", "incomplete", "full"])
        rows = block_matrix_case(r, b, nb, mb, kind)
        n, m = nb * b, mb * b
        alpha, beta = gen.coef(r), gen.coef(r)
        add("block %d" % b, " ".join([fmt_crs(n, m, rows), fmt_vec(gen.rvec(r, m)), fmt_q(alpha), fmt_q(beta), fmt_vec(gen.rvec(r, n))]))
        if it % 10 == 0:   # precondition branch: size not divisible by the block size
            n2 = n + 1
            add("block %d" % b, " ".join([fmt_crs(n2, m, rows + [[]]), fmt_vec(gen.rvec(r, m)), "1", "0", fmt_vec(gen.rvec(r, n2))]))
    return out


def complex_cases(tier, seed, prefix="z"):
    r = random.Random(seed * 1000 + 14)
    N = 40 if tier == "quick" else 400
    out = []
    for it in range(N):
        n = r.choice([1, 2, 3, 4, 6])
        pat = [sorted(r.sample(range(n), r.randint(0, n))) for _ in range(n)]
        if r.random() < 0.3: pat = [list(reversed(p)) for p in pat]
        re_ = [[(c, dy(r)) for c in p] for p in pat]; im_ = [[(c, dy(r)) for c in p] for p in pat]
        xr = [dy(r) for _ in range(n)]; xi = [dy(r) for _ in range(n)]
        out.append("%s%d cplx %s %s %s %s" % (prefix, it, fmt_crs(n, n, re_), fmt_crs(n, n, im_), fmt_vec(xr), fmt_vec(xi)))
    return out


def solve_cases(tier, seed):
    r = random.Random(seed * 1000 + 18)
    N = 80 if tier == "quick" else 400
    out = []
    for it in range(N):
        n = r.choice([1, 2, 3, 4, 5, 6, 8, 10]) if it % 6 else r.randint(11, 24)
        rows = gen.nonsym_dd(r, n) if r.random() < 0.5 else gen.spd_mmatrix(r, n)
        if r.random() < 0.5: rows = gen.shuffle_rows(r, rows)
        A = fmt_crs(n, n, rows); f = fmt_vec(gen.rvec(r, n))
        p = perm_of(r, n) if r.random() < 0.6 else []
        out.append("s%d reorder_solve %s %s %s" % (len(out), A, fmt_ivec(p), f))
        s = [gen.rq(r, nz=True) for _ in range(n)] if r.random() < 0.5 else []
        out.append("s%d scaled_solve %s %s %s" % (len(out), A, fmt_vec(s), f))
    return out


def pc_cases(tier, seed):
    """pairs (shuffled, sorted) of the same matrix for each preconditioner class"""
    r = random.Random(seed * 1000 + 19)
    N = 30 if tier == "quick" else 120
    out = []   # (id, kind, driver, line_shuffled, line_sorted, meta)
    # the refutation witness of Properties_C17.C17_unsorted_ilu0_scan_refuted: tridiagonal matrix,
    # row 1 listed as (2,1,0) and as (1,0,2)
    tri = [[(0, F(2)), (1, F(-1))], [(0, F(-1)), (1, F(2)), (2, F(-1))], [(1, F(-1)), (2, F(2))]]
    w1 = [tri[0], [tri[1][2], tri[1][1], tri[1][0]], tri[2]]
    w2 = [tri[0], [tri[1][1], tri[1][0], tri[1][2]], tri[2]]
    for k, w in enumerate([w1, w2]):
        out.append(("pw%d" % k, "asp_ilu0", "pcorder", "pc asp_ilu0 " + fmt_crs(3, 3, w), "pc asp_ilu0 " + fmt_crs(3, 3, tri),
                    dict(n=3, witness=True)))
    for it in range(N):
        n = r.choice([3, 4, 5, 6, 8]) if it % 5 else r.randint(9, 14)
        rows = gen.nonsym_dd(r, n) if r.random() < 0.5 else gen.spd_mmatrix(r, n, kind=r.choice(["path", "grid", "graph"]))
        sh = gen.shuffle_rows(r, rows)
        for kind in PC_KINDS:
            out.append(("p%d" % len(out), kind, "pcorder", "pc %s %s" % (kind, fmt_crs(n, n, sh)), "pc %s %s" % (kind, fmt_crs(n, n, rows)),
                        dict(n=n)))
        # composites: block size / pressure stride 2 or 3, diagonally dominant so that every
        # diagonal block and every sub-block pivot is non-zero
        bs = r.choice([2, 2, 3]); nb = r.choice([2, 3, 4]); n2 = bs * nb
        rows2 = gen.nonsym_dd(r, n2, density=r.choice([0.3, 0.6, 1.0]))
        sh2 = gen.shuffle_rows(r, rows2)
        for kind in PC2_KINDS:
            out.append(("p%d" % len(out), kind, "pcorder2", "pc2 %s %d %s" % (kind, bs, fmt_crs(n2, n2, sh2)),
                        "pc2 %s %d %s" % (kind, bs, fmt_crs(n2, n2, rows2)), dict(n=n2, bs=bs)))
    return out


def third_party_cases(tier, seed):
    r = random.Random(seed * 1000 + 20)
    N = 30 if tier == "quick" else 300
    out = []
    for it in range(N):
        n = r.choice([1, 2, 3, 4, 6, 9]); m = r.choice([n, n, n + 1, max(1, n - 1)])
        rows = [[(c, dy(r, nz=True)) for c in sorted(r.sample(range(m), r.randint(0, min(m, 4))))] for _ in range(n)]
        x = [dy(r) for _ in range(m)]
        for op in ("eigen", "eigen_map", "ublas"):
            out.append("t%d %s %s %s" % (len(out), op, fmt_crs(n, m, rows), fmt_vec(x)))
    return out


def kind_site(kind):
    if kind.startswith("asp_"): return SITE["asp"], kind[4:]
    if kind.startswith("amg_zc"): return SITE["amg_zc"], kind.split("_", 2)[2]
    if kind.startswith("amg_"): return SITE["amg"], kind[4:]
    if kind.startswith("cpr_drs"): return SITE["cpr_drs"], "spai0+amg"
    if kind.startswith("cpr"): return SITE["cpr"], "spai0+amg"
    if kind.startswith("schur"): return SITE["schur"], kind
    return SITE.get(kind, kind), ""


def classify(fail):
    """signature of a row-order failure: the class whose entry point took the user matrix, the
    component it hands the unsorted rows to, and whether the rows of the input were unsorted"""
    m = fail.get("meta") or {}
    if fail.get("group") == "dims":
        return dict(group="dims", adapter=m.get("adapter"), rectangular=m.get("rectangular"))
    if fail.get("group") != "row-order": return {}
    site, comp = kind_site(m.get("kind", ""))
    return dict(group="row-order", site=site, component=comp, input_rows_unsorted=True)


def run(ctx, cases_override=None):
    tier, seed = ctx["tier"], ctx["seed"]
    fails = []
    if cases_override:
        # replay: route by op
        for l in cases_override:
            op = l.split()[1]
            if op in ("pc", "pc2"):
                fails += run_pc(ctx, replay=cases_override); break
            drv = "adapters3p" if op in ("eigen", "eigen_map", "ublas") else "adapters"
            if op in ("reorder_solve", "scaled_solve"): fails += run_solves(ctx, [l])
            else:
                f, _, _ = diff_run(ctx, drv, [l]); fails += f
        return fails
    # ---- V: views (exact) + the same under AddressSanitizer for the zero-copy ops
    v = view_cases(tier, seed) + block_cases(tier, seed) + complex_cases(tier, seed)
    f, impl, model = diff_run(ctx, "adapters", v, theorem="correspondence drv_adapters vs Adapters.v (views; theorems C17_*_view, C17_reorder_entries, C17_scaled_entries)")
    fails += f
    zc = [l for l in v if l.split()[1].startswith("zero_copy")]
    f, _, _ = diff_run(ctx, "adapters_asan", zc, env={"ASAN_OPTIONS": "detect_leaks=0"},
                       theorem="zero-copy adapters under AddressSanitizer: no free / write of user memory", shards=8)
    fails += f
    # block spmv equals the scalar spmv of the source matrix (spec-level oracle)
    ol = []; byid = {}
    for l in v:
        sp = l.split(" ", 3)
        if sp[1] == "block" and impl.get(sp[0], "").startswith(tuple("0123456789")):
            items = split_top(impl[sp[0]])
            toks = sp[3].split()
            # payload after the block size: crs x alpha beta y ; reuse verbatim
            ol.append("%s o.spmv_same %s %s" % (sp[0], " ".join(toks), out_vec_to_tok(items[-1])))
            byid[sp[0]] = l
    fails += oracle_run(ctx, ol, "block formulation represents the same operator: block spmv = scalar spmv (C13_block_spmv, C17 block adapter)", lambda cid: byid[cid])
    # ---- third-party containers (double, dyadic)
    tp = third_party_cases(tier, seed)
    f, impl3, _ = diff_run(ctx, "adapters3p", tp, theorem="Eigen / uBlas adapters expose the source matrix (correspondence only)")
    fails += f
    fails += dims_oracle(ctx, tp, impl3)
    # ---- S: solves through reorder / scaled_problem
    fails += run_solves(ctx, solve_cases(tier, seed))
    # ---- P: row order
    fails += run_pc(ctx)
    return fails


def dims_oracle(ctx, lines, impl):
    """rows / cols / nonzeros reported through the adapter = those of the source container"""
    fails = []
    for l in lines:
        cid, op, payload = l.split(" ", 2)
        toks = payload.split(); n, m = int(toks[0]), int(toks[1])
        k = 2; nnz = 0
        for _ in range(n):
            cnt = int(toks[k]); nnz += cnt; k += 1 + 2 * cnt
        o = (impl.get(cid) or "").split()
        ctx["stats"]["oracle_checks"] += 1
        if len(o) < 3 or o[:3] != [str(n), str(m), str(nnz)]:
            ctx["stats"]["oracle_fail"] += 1
            fails.append(dict(kind="counterexample", group="dims", meta=dict(adapter=op, rectangular=(n != m)),
                              case=l, impl=impl.get(cid), model="%d %d %d ..." % (n, m, nnz), op=op, size=len(l),
                              oracle=dict(statement="backend::rows/cols/nonzeros(adapter) = source", expected=[n, m, nnz], got=o[:3]),
                              theorem="C17: rows, columns and non-zero count seen through the adapter agree with the source matrix (%s)" % op))
    return fails


def out_vec_to_tok(s):
    xs = s.strip()[1:-1].split()
    return " ".join([str(len(xs))] + xs)


def run_solves(ctx, lines):
    impl = ctx["run_driver"](ctx["cpp"]["adapters"], lines)
    account(ctx, lines, impl)
    ol = []; byid = {}; fails = []
    for l in lines:
        cid, op, payload = l.split(" ", 2)
        o = impl.get(cid, "")
        byid[cid] = l
        if not o.startswith("["):
            fails.append(dict(kind="counterexample", case=l, impl=o, model=None, op=op, size=len(l),
                              theorem="%s: exact solve through the adapter failed" % op)); continue
        items = split_top(o)
        toks = payload.split()
        # payload = crs, (perm | s), f ; cut the crs
        n = int(toks[0]); k = 2
        for _ in range(n):
            cnt = int(toks[k]); k += 1 + 2 * cnt
        crs = " ".join(toks[:k]); rest = toks[k:]
        na = int(rest[0]); arg = rest[:1 + na]; f = rest[1 + na:]
        if op == "reorder_solve":
            ol.append("%s o.reorder_solve %s %s %s %s %s" % (cid, crs, " ".join(f), out_vec_to_tok(items[0]), out_vec_to_tok(items[1]), out_vec_to_tok(items[2])))
        else:
            ol.append("%s o.scaled_solve %s %s %d %s %s %s" % (cid, crs, " ".join(f), 1 if na == 0 else 0, out_vec_to_tok(items[0]), out_vec_to_tok(items[1]), out_vec_to_tok(items[2])))
    fails += oracle_run(ctx, ol, "reorder / scaled_problem: the post-processed solution solves the original system (C17_reorder_solves, C17_scaled_solves)", lambda cid: byid[cid])
    return fails


def run_all(ctx, exe, lines, timeout=1200):
    """run_driver, re-running the cases that were left unanswered because an earlier case of the
    same shard killed the driver (abort / assert); every case ends up with an output"""
    out = {}
    todo = list(lines)
    for _ in range(40):
        if not todo: break
        res = ctx["run_driver"](exe, todo, timeout=timeout)
        out.update(res)
        nxt = [l for l in todo if l.split(" ", 1)[0] not in res]
        if len(nxt) == len(todo): break
        todo = nxt
    return out


def run_pc(ctx, replay=None):
    tier, seed = ctx["tier"], ctx["seed"]
    fails = []
    if replay:
        cs = []
        for k in range(0, len(replay), 2):
            a = replay[k]; b = replay[k + 1] if k + 1 < len(replay) else replay[k]
            cid = a.split()[0].rstrip("ab"); op = a.split()[1]; kind = a.split()[2]
            cs.append((cid, kind, "pcorder" if op == "pc" else "pcorder2", a.split(" ", 1)[1], b.split(" ", 1)[1], dict(n=0)))
    else:
        cs = pc_cases(tier, seed)
    for drv in ("pcorder", "pcorder2"):
        sub = [c for c in cs if c[2] == drv]
        if not sub: continue
        la = ["%sa %s" % (c[0], c[3]) for c in sub]; lb = ["%sb %s" % (c[0], c[4]) for c in sub]
        impl = run_all(ctx, ctx["cpp"][drv], la + lb)
        account(ctx, la + lb, impl)
        # implementation vs model where the base model has the smoother (faithful: no sorting in
        # as_preconditioner); "UNMODELLED" kinds are compared implementation-vs-implementation only
        if drv == "pcorder":
            model = ctx["run_driver"](ctx["model"], la + lb)
            for l in la + lb:
                cid = l.split()[0]
                mo = model.get(cid)
                if mo is None or mo.startswith("UNMODELLED") or mo.startswith("UNSUPPORTED"): continue
                if impl.get(cid) != mo:
                    ctx["stats"]["mismatches"] += 1
                    fails.append(dict(kind="counterexample", case=l, impl=impl.get(cid), model=mo, op="pc", size=len(l),
                                      theorem="correspondence drv_pcorder vs Relax.v through Adapters.plain_entry"))
        for c in sub:
            a, b = impl.get(c[0] + "a"), impl.get(c[0] + "b")
            ctx["stats"]["oracle_checks"] += 1
            bad_sorted = b is None or b.startswith(("EXC", "CRASH"))
            if bad_sorted:
                # the sorted listing itself failed: generator left the supported domain, or a crash
                if b is None or b.startswith("CRASH"):
                    fails.append(dict(kind="counterexample", case=lb[sub.index(c)], impl=b, model=None, op="pc", size=len(c[4]),
                                      theorem="preconditioner on sorted input crashed"))
                continue
            if a != b:
                ctx["stats"]["oracle_fail"] += 1
                meta = dict(c[5]); meta["kind"] = c[1]
                outcome = "throws" if (a or "").startswith("EXC") else ("crash" if (a or "").startswith("CRASH") else "different-operator")
                fails.append(dict(kind="counterexample", group="row-order", meta=meta,
                                  case="%sa %s" % (c[0], c[3]), case_lines=["%sa %s" % (c[0], c[3]), "%sb %s" % (c[0], c[4])],
                                  impl=a, model=b, op=c[3].split()[0], size=len(c[3]),
                                  oracle=dict(statement="P(shuffled rows) e_i = P(sorted rows) e_i for all i", outcome=outcome,
                                              shuffled=a, sorted=b),
                                  theorem="C17: a preconditioner built from a matrix whose row entries are listed in arbitrary order equals the one built from the sorted matrix (%s)" % c[1]))
    return fails
