"""C17 -- matrix adapters preserve the operator; input row order does not matter.

Three groups of cases:
  V  views      : every adapter (tuple ranges x 5 index types, zero-copy, row builder, block,
                  complex, reorder view, scaled view) -> rows/cols/nonzeros, row iteration dump,
                  generic CRS copy, spmv on the adapter; implementation vs extracted Adapters.v.
  S  solves     : reorder<> (given permutation / Cuthill-McKee) and scaled_problem through a full
                  exact solve; oracle = extracted specification (dense A x) on the outputs.
  P  row order  : each preconditioner class that accepts a user matrix, built from a shuffled and
                  from the sorted listing of the same matrix; apply() on all unit vectors must agree
                  exactly (implementation vs implementation), plus implementation vs model where the
                  base model has the smoother.  Round 2: make_solver, deflated_solver, schur / cpr / cpr_drs
                  with ILU(0) inside, make_block_solver, shared_ptr entry points over zero-copy views
                  (drv_pcorder3), run-time wrapper (drv_pcorder_rt, double, bitwise).  Round 2b: the entry points that
                  take a user matrix AFTER construction -- amg::rebuild(const Matrix&) (also through make_solver::precond()
                  and runtime::preconditioner::rebuild), cpr / cpr_drs::partial_update -- with ILU(0) / skyline LU behind
                  them (drv_pcorder4; theorem C17_amg_rebuild_entry_order_independent).
  I  index types: column indices / counts at the edge of each index type (drv_adapters_idx).
  VT value types: scaled_problem over complex / Eigen-block / static_matrix-block values (drv_adapters_vt*)
                  vs Adapters.scaled_adapter at the ComplexS / BlockS instances (model driver blockspmv).
"""
import random, re
from fractions import Fraction as F
from vcheck import fmt_q, fmt_vec, fmt_ivec, fmt_crs, split_top
import gen
from props.common import diff_run, oracle_run, account
from props import vtmodel

DRIVERS = ["adapters", "adapters_asan", "adapters3p", "pcorder", "pcorder2", "pcorder3", "pcorder4", "pcorder_rt",
           "adapters_vt", "adapters_vteig", "adapters_idx"]
EXTRA_FLAGS = {"adapters_asan": ["-fsanitize=address", "-fno-omit-frame-pointer", "-g"],
               "adapters3p": ["-I/usr/include/eigen3"], "adapters_vteig": ["-I/usr/include/eigen3"]}
MODEL = "adapters"
ASSUMPTIONS = [
    "amgcl templates instantiated at the exact rational vq::Q execute the same code as at double",
    "index types are modelled as two's complement integers of 32/64 bits (LP64 ABI of the harness build)",
    "Eigen / uBlas containers are not modelled: their adapters are compared with the source matrix only (correspondence in double on dyadic values)",
    "zero-copy 'never frees user memory' is proved in the ownership state machine of C10 (Own.v: C17_zero_copy_view_is_borrow) and observed on the implementation (pointer identity, own_data flag, content after destruction, AddressSanitizer build); 'never writes' is observed only",
    "value types: std::complex<double>, Eigen / static_matrix blocks run in double on dyadic data (every operation exact) against the model at the ComplexS / BlockS instances",
    "run-time preconditioner wrapper: double build, shuffled vs sorted listings must give bit-identical operators (one thread)",
]
TRUSTED_BASE = ["harness/drv_adapters.cpp, drv_adapters3p.cpp, drv_adapters_vt.cpp (+ Eigen build), drv_adapters_idx.cpp, drv_pcorder.cpp, drv_pcorder2.cpp, drv_pcorder3.cpp, drv_pcorder4.cpp, drv_pcorder_rt.cpp; ocaml/adapters/ops_adapters.ml, ocaml/blockspmv/ops_blockspmv.ml (second extracted model driver: Extract_blockspmv.v)",
                "AddressSanitizer (g++ -fsanitize=address) for the zero-copy cases"]
RULE = ("cases derived from VERIF_SEED by tools/props/C17.py; distinct = distinct case payload; non-trivial = "
        "implementation output contains a non-zero value and is not an exception")

ITYPES = ["int", "long", "unsigned", "size_t", "ptrdiff_t"]
PC_KINDS = ["asp_damped_jacobi", "asp_spai0", "asp_gauss_seidel", "asp_ilu0", "asp_iluk", "asp_ilup", "asp_ilut",
            "asp_chebyshev", "dummy", "amg_sa_ilu0", "amg_agg_gs", "amg_direct", "amg_zc_ilu0"]
PC2_KINDS = ["cpr", "cpr_drs", "schur", "schur_adj2", "schur_adj0", "schur_amg"]
# round 2: the remaining classes that accept a user matrix, each with the order-SENSITIVE ILU(0) inside
PC3_KINDS = ["ms_amg_ilu0", "ms_asp_ilu0", "defl_asp_ilu0", "defl_amg_ilu0", "schur_ilu0", "schur_amg_ilu0",
             "cpr_ilu0", "cpr_drs_ilu0", "mbs_amg_ilu0", "mbs_asp_ilu0", "asp_zc_ilu0", "cpr_zc_ilu0"]
# round 2b: entry points that accept a user matrix AFTER construction (rebuild / partial_update), ILU(0) or skyline LU inside
PC4_KINDS = ["rb_amg_ilu0", "rb_amg_direct", "rb_amg_chain", "rb_ms_amg_ilu0", "pu_cpr_ilu0_t", "pu_cpr_ilu0_f",
             "pu_cpr_drs_ilu0_t", "pu_cpr_drs_ilu0_f"]
# run-time wrapper (double, dyadic data, bitwise comparison): class x relaxation
RT_CLASSES = ["amg", "relaxation", "dummy", "nested", "ms_amg", "ms_relaxation", "rb_amg", "rb_ms_amg"]
RT_RELAX = ["ilu0", "iluk", "ilup", "ilut", "spai0", "spai1", "gauss_seidel", "damped_jacobi", "chebyshev"]
DRV_OF_OP = {"pc": "pcorder", "pc2": "pcorder2", "pc3": "pcorder3", "pc4": "pcorder4", "pcrt": "pcorder_rt"}
SITE = {"asp": "relaxation::as_preconditioner", "amg": "amg", "amg_zc": "amg(shared_ptr) via adapter::zero_copy",
        "cpr": "preconditioner::cpr", "cpr_drs": "preconditioner::cpr_drs",
        "schur": "preconditioner::schur_pressure_correction", "dummy": "preconditioner::dummy",
        "mbs": "make_block_solver", "ms": "make_solver", "defl": "deflated_solver", "rt": "runtime::preconditioner",
        "rb_amg": "amg::rebuild(const Matrix&)", "rb_ms": "make_solver::precond().rebuild(const Matrix&)",
        "pu_cpr": "preconditioner::cpr::partial_update", "pu_cpr_drs": "preconditioner::cpr_drs::partial_update",
        "rt_rb": "runtime::preconditioner::rebuild"}


def perm_of(r, n):
    p = list(range(n)); r.shuffle(p); return p

def dy(r, nz=False):
    v = F(r.randint(-8, 8), r.choice([1, 2, 4]))
    return F(1) if (nz and v == 0) else v

def block_matrix_case(r, b, nb, mb, kind, val=None):
    """sorted scalar rows of an (nb*b) x (mb*b) matrix with block structure.
    kind: 'kron' (A (x) dense block), 'incomplete' (random subsets of each block), 'full',
          'ragged' (every SCALAR row of a block row picks its own set of block columns, so the heads of the b
          row iterators sit in different block columns: the shape that exposed seeded change C13-1)"""
    val = val or (lambda nz=False: gen.rq(r, nz=nz))
    rows = [dict() for _ in range(nb * b)]
    for I in range(nb):
        if kind == "ragged":
            for i in range(b):
                Js = [J for J in range(mb) if r.random() < 0.45]
                if i == b - 1 and mb > 1 and r.random() < 0.7:      # a later row reaches a smaller block column
                    Js = sorted(set(Js + [0]))
                for J in Js:
                    for j in range(b):
                        if r.random() < 0.6: rows[I * b + i][J * b + j] = val(nz=(r.random() < 0.9))
            continue
        Js = [J for J in range(mb) if r.random() < 0.5 or J == I]
        for J in Js:
            if kind == "kron":
                a = val(nz=True)
                for i in range(b): rows[I * b + i][J * b + i] = a
            else:
                for i in range(b):
                    for j in range(b):
                        if kind == "full" or r.random() < 0.55:
                            rows[I * b + i][J * b + j] = val(nz=(r.random() < 0.9))
    return [sorted(rw.items()) for rw in rows]


def view_cases(tier, seed):
    r = random.Random(seed * 1000 + 17)
    N = 120 if tier == "quick" else 600
    out = []
    def add(op, payload): out.append("v%d %s %s" % (len(out), op, payload))
    for it in range(N):
        n = r.choice([0, 1, 2, 3, 4, 5, 7, 9]) if it % 8 else r.randint(10, 30)
        rows = gen.rcrs(r, n, n, dups=(r.random() < 0.3))
        A = fmt_crs(n, n, rows); x = fmt_vec(gen.rvec(r, n))
        for ity in ITYPES:
            add("tuple " + ity, A + " " + x)
        add("tuple_range " + r.choice(ITYPES), A + " " + x)
        add("tuple_nc strided " + r.choice(ITYPES), A + " " + x)
        add("tuple_nc deque " + r.choice(ITYPES), A + " " + x)
        add("builder", A + " " + x)
        add("zero_copy_direct " + r.choice(ITYPES), A + " " + x)
        m = max(1, n + r.randint(-2, 3))
        rrows = gen.rcrs(r, n, m, dups=(r.random() < 0.2))
        add("zero_copy " + r.choice(["ptrdiff_t", "long", "size_t"]), fmt_crs(n, m, rrows) + " " + fmt_vec(gen.rvec(r, m)))
        add("zero_copy_direct " + r.choice(ITYPES), fmt_crs(n, m, rrows) + " " + fmt_vec(gen.rvec(r, m)))
        # reorder / scaled views
        if n > 0:
            p = perm_of(r, n)
            add("reorder_view", A + " " + fmt_ivec(p) + " " + x)
            s = [r.choice([F(0), F(1), F(-1), gen.rq(r, nz=True), gen.rq(r, nz=True)]) for _ in range(n)]
            add("scaled_view", A + " " + fmt_vec(s) + " " + x)
    return out


ILIMIT = {"int": 2**31 - 1, "unsigned": 2**32 - 1, "long": 2**62 - 1, "size_t": 2**62 - 1, "ptrdiff_t": 2**62 - 1}

def idx_cases(tier, seed):
    """column indices / column counts near the largest value of each index type (64-bit types: near the largest
    index the extracted model can carry, 2^62-1, and around the 32-bit boundaries)"""
    r = random.Random(seed * 1000 + 21)
    N = 8 if tier == "quick" else 60
    out = []
    for it in range(N):
        for ity in ITYPES:
            L = ILIMIT[ity]
            m = L - r.choice([0, 0, 1, 5])
            n = r.choice([1, 2, 3, 4])
            special = [m - 1, m - 2, m - 1 - r.randint(0, 1000), 0, 1, r.randint(0, 10**6)]
            if L > 2**32: special += [2**31 - 1, 2**31, 2**32 - 1, 2**32, 2**32 + 1]
            elif L > 2**31: special += [2**31 - 1, 2**31, 2**31 + 1]
            rows = []
            for i in range(n):
                cs = sorted(set(r.sample(special, r.randint(0, min(4, len(special))))))
                cs = [c for c in cs if 0 <= c < m]
                if r.random() < 0.3: r.shuffle(cs)
                rows.append([(c, gen.rq(r, nz=True)) for c in cs])
            out.append("i%d idx %s %s" % (len(out), ity, fmt_crs(n, m, rows)))
    return out


def block_cases(tier, seed, prefix="b", op="block", dyadic=False):
    """dyadic=True: values that are exact in binary64 (for the double / Eigen-block drivers)"""
    r = random.Random(seed * 1000 + 13)
    N = 150 if tier == "quick" else 800
    out = []
    val = (lambda nz=False: dy(r, nz)) if dyadic else None
    vec = (lambda k: [dy(r) for _ in range(k)]) if dyadic else (lambda k: gen.rvec(r, k))
    coef = (lambda: r.choice([F(0), F(1), F(-1), dy(r, True)])) if dyadic else (lambda: gen.coef(r))
    def add(payload): out.append("%s%d %s %s" % (prefix, len(out), op, payload))
    for it in range(N):
        b = r.choice([2, 3, 4]); nb = r.choice([1, 2, 3, 4]); mb = r.choice([nb, nb, max(1, nb + r.randint(-1, 2))])
        kind = r.choice(["kron", "incomplete", "incomplete", "full", "ragged", "ragged"])
        rows = block_matrix_case(r, b, nb, mb, kind, val)
        n, m = nb * b, mb * b
        alpha, beta = coef(), coef()
        add("%d " % b + " ".join([fmt_crs(n, m, rows), fmt_vec(vec(m)), fmt_q(alpha), fmt_q(beta), fmt_vec(vec(n))]))
        if it % 10 == 0:   # precondition branch: size not divisible by the block size
            n2 = n + 1
            add("%d " % b + " ".join([fmt_crs(n2, m, rows + [[]]), fmt_vec(vec(m)), "1", "0", fmt_vec(vec(n2))]))
    return out


def complex_cases(tier, seed, prefix="z"):
    r = random.Random(seed * 1000 + 14)
    N = 40 if tier == "quick" else 400
    out = []
    for it in range(N):
        n = r.choice([1, 2, 3, 4, 6])
        pat = [sorted(r.sample(range(n), r.randint(0, n))) for _ in range(n)]
        if r.random() < 0.3: pat = [list(reversed(p)) for p in pat]
        re_ = [[(c, dy(r)) for c in p] for p in pat]; im_ = [[(c, dy(r)) for c in p] for p in pat]
        xr = [dy(r) for _ in range(n)]; xi = [dy(r) for _ in range(n)]
        out.append("%s%d cplx %s %s %s %s" % (prefix, it, fmt_crs(n, n, re_), fmt_crs(n, n, im_), fmt_vec(xr), fmt_vec(xi)))
    return out


def solve_cases(tier, seed):
    r = random.Random(seed * 1000 + 18)
    N = 80 if tier == "quick" else 400
    out = []
    for it in range(N):
        n = r.choice([1, 2, 3, 4, 5, 6, 8, 10]) if it % 6 else r.randint(11, 24)
        rows = gen.nonsym_dd(r, n) if r.random() < 0.5 else gen.spd_mmatrix(r, n)
        if r.random() < 0.5: rows = gen.shuffle_rows(r, rows)
        A = fmt_crs(n, n, rows); f = fmt_vec(gen.rvec(r, n))
        p = perm_of(r, n) if r.random() < 0.6 else []
        out.append("s%d reorder_solve %s %s %s" % (len(out), A, fmt_ivec(p), f))
        s = [gen.rq(r, nz=True) for _ in range(n)] if r.random() < 0.5 else []
        out.append("s%d scaled_solve %s %s %s" % (len(out), A, fmt_vec(s), f))
    return out


def shuf(r, rows):
    """a listing of the same matrix with rows that are not sorted: every row shuffled, or (half of the time) only the rows
    from a random position on listed in descending column order while the leading rows stay sorted -- a constructor that
    looks at some rows only to decide whether it has to sort (seeded C13-5) must still see the same matrix"""
    if r.random() < 0.5 or len(rows) < 2: return gen.shuffle_rows(r, rows)
    s0 = r.randint(1, len(rows) - 1)
    if r.random() < 0.5: s0 = max(s0, len(rows) - 1 - r.randint(0, 1))        # only the last one or two rows
    out = [list(rw) if i < s0 else list(reversed(rw)) for i, rw in enumerate(rows)]
    return out if out != [list(rw) for rw in rows] else gen.shuffle_rows(r, rows)


def pc_cases(tier, seed):
    """pairs (shuffled, sorted) of the same matrix for each preconditioner class"""
    r = random.Random(seed * 1000 + 19)
    N = 30 if tier == "quick" else 120
    out = []   # (id, kind, driver, line_shuffled, line_sorted, meta)
    # the refutation witness of Properties_C17.C17_unsorted_ilu0_scan_refuted: tridiagonal matrix,
    # row 1 listed as (2,1,0) and as (1,0,2)
    tri = [[(0, F(2)), (1, F(-1))], [(0, F(-1)), (1, F(2)), (2, F(-1))], [(1, F(-1)), (2, F(2))]]
    w1 = [tri[0], [tri[1][2], tri[1][1], tri[1][0]], tri[2]]
    w2 = [tri[0], [tri[1][1], tri[1][0], tri[1][2]], tri[2]]
    for k, w in enumerate([w1, w2]):
        out.append(("pw%d" % k, "asp_ilu0", "pcorder", "pc asp_ilu0 " + fmt_crs(3, 3, w), "pc asp_ilu0 " + fmt_crs(3, 3, tri),
                    dict(n=3, witness=True)))
    for it in range(N):
        n = r.choice([3, 4, 5, 6, 8]) if it % 5 else r.randint(9, 14)
        rows = gen.nonsym_dd(r, n) if r.random() < 0.5 else gen.spd_mmatrix(r, n, kind=r.choice(["path", "grid", "graph"]))
        sh = shuf(r, rows)
        for kind in PC_KINDS:
            out.append(("p%d" % len(out), kind, "pcorder", "pc %s %s" % (kind, fmt_crs(n, n, sh)), "pc %s %s" % (kind, fmt_crs(n, n, rows)),
                        dict(n=n)))
        # composites: block size / pressure stride 2 or 3, diagonally dominant so that every
        # diagonal block and every sub-block pivot is non-zero
        bs = r.choice([2, 2, 3]); nb = r.choice([2, 3, 4]); n2 = bs * nb
        rows2 = gen.nonsym_dd(r, n2, density=r.choice([0.3, 0.6, 1.0]))
        sh2 = shuf(r, rows2)
        for kind in PC2_KINDS:
            out.append(("p%d" % len(out), kind, "pcorder2", "pc2 %s %d %s" % (kind, bs, fmt_crs(n2, n2, sh2)),
                        "pc2 %s %d %s" % (kind, bs, fmt_crs(n2, n2, rows2)), dict(n=n2, bs=bs)))
        for kind in PC3_KINDS:
            out.append(("p%d" % len(out), kind, "pcorder3", "pc3 %s %d %s" % (kind, bs, fmt_crs(n2, n2, sh2)),
                        "pc3 %s %d %s" % (kind, bs, fmt_crs(n2, n2, rows2)), dict(n=n2, bs=bs)))
        for kind in PC4_KINDS:
            out.append(("p%d" % len(out), kind, "pcorder4", "pc4 %s %d %s" % (kind, bs, fmt_crs(n2, n2, sh2)),
                        "pc4 %s %d %s" % (kind, bs, fmt_crs(n2, n2, rows2)), dict(n=n2, bs=bs)))
        # run-time wrapper: dyadic, strictly diagonally dominant; two (class, relaxation) pairs per matrix,
        # cycling through the whole table
        n3 = r.choice([3, 4, 6, 9])
        rows3 = []
        for i in range(n3):
            rw = {}
            for j in range(n3):
                if j != i and r.random() < 0.5: rw[j] = dy(r, nz=True)
            rw[i] = sum(abs(v) for v in rw.values()) + F(r.choice([1, 2, 3]), r.choice([1, 2]))
            rows3.append(sorted(rw.items()))
        sh3 = shuf(r, rows3)
        for q in range(4):
            k = (4 * it + q) % (len(RT_CLASSES) * len(RT_RELAX))
            cls, rel = RT_CLASSES[k % len(RT_CLASSES)], RT_RELAX[(k // len(RT_CLASSES)) % len(RT_RELAX)]
            out.append(("p%d" % len(out), "rt_%s_%s" % (cls, rel), "pcorder_rt", "pcrt %s %s %s" % (cls, rel, fmt_crs(n3, n3, sh3)),
                        "pcrt %s %s %s" % (cls, rel, fmt_crs(n3, n3, rows3)), dict(n=n3)))
    return out


def third_party_cases(tier, seed):
    r = random.Random(seed * 1000 + 20)
    N = 30 if tier == "quick" else 300
    out = []
    for it in range(N):
        n = r.choice([1, 2, 3, 4, 6, 9]); m = r.choice([n, n, n + 1, max(1, n - 1)])
        rows = [[(c, dy(r, nz=True)) for c in sorted(r.sample(range(m), r.randint(0, min(m, 4))))] for _ in range(n)]
        x = [dy(r) for _ in range(m)]
        for op in ("eigen", "eigen_map", "eigen_unc", "ublas"):
            out.append("t%d %s %s %s" % (len(out), op, fmt_crs(n, m, rows), fmt_vec(x)))
    return out


def kind_site(kind):
    if kind.startswith("rb_ms_"): return SITE["rb_ms"], kind[6:]
    if kind.startswith("rb_amg"): return SITE["rb_amg"], kind[3:]
    if kind.startswith("pu_cpr_drs"): return SITE["pu_cpr_drs"], kind[3:]
    if kind.startswith("pu_cpr"): return SITE["pu_cpr"], kind[3:]
    if kind.startswith(("rt_rb_amg", "rt_rb_ms_amg")): return SITE["rt_rb"], kind[3:]
    if kind.startswith("mbs_"): return SITE["mbs"], "adapter::block_matrix"
    if kind == "asp_zc_ilu0": return "relaxation::as_preconditioner(shared_ptr) via adapter::zero_copy", "ilu0"
    if kind == "cpr_zc_ilu0": return "preconditioner::cpr(shared_ptr) via adapter::zero_copy", "block scan + ilu0"
    if kind.startswith("ms_"): return SITE["ms"], kind[3:]
    if kind.startswith("defl_"): return SITE["defl"], kind[5:]
    if kind.startswith("rt_"): return SITE["rt"], kind[3:]
    if kind.startswith(("schur_ilu0", "schur_amg_ilu0", "cpr_ilu0", "cpr_drs_ilu0")): return SITE["cpr_drs" if kind.startswith("cpr_drs") else kind.split("_")[0]], kind
    if kind.startswith("asp_"): return SITE["asp"], kind[4:]
    if kind.startswith("amg_zc"): return SITE["amg_zc"], kind.split("_", 2)[2]
    if kind.startswith("amg_"): return SITE["amg"], kind[4:]
    if kind.startswith("cpr_drs"): return SITE["cpr_drs"], "spai0+amg"
    if kind.startswith("cpr"): return SITE["cpr"], "spai0+amg"
    if kind.startswith("schur"): return SITE["schur"], kind
    return SITE.get(kind, kind), ""


def classify(fail):
    """signature of a row-order failure: the class whose entry point took the user matrix, the
    component it hands the unsorted rows to, and whether the rows of the input were unsorted"""
    m = fail.get("meta") or {}
    if fail.get("group") == "dims":
        return dict(group="dims", adapter=m.get("adapter"), rectangular=m.get("rectangular"))
    if fail.get("group") == "scaled-vt":
        return classify_scaled_vt(fail)
    if fail.get("group") == "idx":
        # deep copy of a zero-copy view of a matrix WITHOUT non-zeros whose col/val pointers are null
        # (data() of empty user vectors): the copy claims rows but has no arrays
        imp = fail.get("impl") or ""; mod = fail.get("model") or ""
        toks = (fail.get("case") or "").split()
        try:
            n = int(toks[3]); empty = all(t == "0" for t in toks[5:5 + n]) and len(toks) == 5 + n
        except Exception:
            empty = False
        if empty and "BADCRS copy-has-rows-but-null-ptr" in imp and imp.replace("BADCRS copy-has-rows-but-null-ptr", split_top(mod)[4] if len(split_top(mod)) > 4 else "?") == mod:
            return dict(group="idx", adapter="zero_copy_direct", nnz=0, outcome="copy-has-rows-but-null-ptr")
        return {}
    if fail.get("group") != "row-order": return {}
    site, comp = kind_site(m.get("kind", ""))
    return dict(group="row-order", site=site, component=comp, input_rows_unsorted=True)


def _vec_of(item):
    return [F(x) for x in item.strip()[1:-1].split()]

def classify_scaled_vt(fail):
    """scaled_problem over Eigen blocks: is the ONLY difference the post-scaling of the vector, and is it exactly
    'the first n SCALAR entries multiplied by s[i], the rest untouched' (vmul's mixed-type overload applied to a
    scalar scale vector and a block vector)?  Anything else gets an empty signature (= a new violation)."""
    try:
        a, m = split_top(fail["impl"]), split_top(fail["model"])
        if len(a) != len(m) or a[:-1] != m[:-1] or a[-1] == m[-1]: return {}
        toks = fail["case"].split()
        if toks[1] != "scaled_eig": return {}
        b = int(toks[2]); n = int(toks[3])
        sv = _vec_of(a[3]); got = _vec_of(a[-1]); want = _vec_of(m[-1])
        x = [F(t) for t in toks[-n * b:]]
        wrong = [sv[i] * x[i] if i < n else x[i] for i in range(n * b)]
        right = [sv[i // b] * x[i] for i in range(n * b)]
        if got == wrong and want == right:
            return dict(group="scaled-vt", adapter="scaled_problem", value_type="eigen-block", part="vector-scaling",
                        pattern="first-n-scalars-only")
    except Exception:
        pass
    return {}


def run_vt(ctx, lines=None):
    """scaled_problem views over block-valued (Eigen blocks + scalar scale / scale_diagonal; static_matrix blocks +
    block-diagonal scale) and complex-valued matrices, double on dyadic data, vs the extracted Adapters.scaled_adapter
    evaluated at BlockS / ComplexS"""
    tier, seed = ctx["tier"], ctx["seed"]
    ctx2 = vtmodel.model_ctx(ctx)
    if lines is None:
        eig, blk = vtmodel.blockvalued_cases(tier, seed)
        cx = vtmodel.complexvalued_cases(tier, seed)
    else:
        eig = [l for l in lines if l.split()[1] == "scaled_eig"]
        blk = [l for l in lines if l.split()[1] == "scaled_blk"]; cx = [l for l in lines if l.split()[1] == "scaled_cplx"]
    fails = []
    th = "correspondence scaled_problem over %s vs Adapters.scaled_adapter at the %s Scalar instance (C17_scaled_entries, C17_scaled_solves)"
    if blk or cx:
        f, _, _ = diff_run(ctx2, "adapters_vt", blk + cx, theorem=th % ("static_matrix / std::complex values", "BlockS / ComplexS"), shards=8)
        fails += f
    if eig:
        f, _, _ = diff_run(ctx2, "adapters_vteig", eig, theorem=th % ("Eigen block values", "BlockS"), shards=8)
        for x in f: x["group"] = "scaled-vt"
        fails += f
    return fails


def run(ctx, cases_override=None):
    tier, seed = ctx["tier"], ctx["seed"]
    fails = []
    if cases_override:
        # replay: route by op
        for l in cases_override:
            op = l.split()[1]
            if op in ("scaled_eig", "scaled_blk", "scaled_cplx"):
                fails += run_vt(ctx, [l]); continue
            if op in DRV_OF_OP:
                fails += run_pc(ctx, replay=cases_override); break
            if op == "nested":
                f, _, _ = diff_run(ctx, "adapters3p", [l], env={"OMP_NUM_THREADS": "4", "OMP_NESTED": "false", "OMP_MAX_ACTIVE_LEVELS": "1"},
                                   model_lines=[l.replace(" nested ", " ", 1)])
                fails += f; continue
            drv = "adapters3p" if op in ("eigen", "eigen_map", "eigen_unc", "ublas") else "adapters_idx" if op == "idx" else "adapters"
            if op in ("reorder_solve", "scaled_solve"): fails += run_solves(ctx, [l])
            else:
                f, _, _ = diff_run(ctx, drv, [l])
                if op == "idx":
                    for x in f: x["group"] = "idx"
                fails += f
        return fails
    # ---- V: views (exact) + the same under AddressSanitizer for the zero-copy ops
    v = view_cases(tier, seed) + block_cases(tier, seed) + complex_cases(tier, seed)
    # adapters composed: the block adapter on top of the row-builder / zero-copy / tuple adapters (it keeps several row
    # iterators of the underlying adapter alive at once)
    comp = []
    for l in v:
        sp = l.split(" ", 3)
        if sp[1] == "block":
            dims_ = sp[3].split(" ", 2)
            if dims_[0] == dims_[1]:
                for u in ("builder", "zero_copy", "tuple"):
                    comp.append("%s%s block_over %s %s %s" % (sp[0], u[0], u, sp[2], sp[3]))
    v = v + comp
    f, impl, model = diff_run(ctx, "adapters", v, theorem="correspondence drv_adapters vs Adapters.v (views; theorems C17_*_view, C17_reorder_entries, C17_scaled_entries)")
    fails += f
    zc = [l for l in v if l.split()[1].startswith("zero_copy")]
    f, _, _ = diff_run(ctx, "adapters_asan", zc, env={"ASAN_OPTIONS": "detect_leaks=0"},
                       theorem="zero-copy adapters under AddressSanitizer: no free / write of user memory", shards=8)
    fails += f
    # block spmv equals the scalar spmv of the source matrix (spec-level oracle)
    ol = []; byid = {}
    for l in v:
        sp = l.split(" ", 3)
        if sp[1] == "block" and impl.get(sp[0], "").startswith(tuple("0123456789")):
            items = split_top(impl[sp[0]])
            toks = sp[3].split()
            # payload after the block size: crs x alpha beta y ; reuse verbatim
            ol.append("%s o.spmv_same %s %s" % (sp[0], " ".join(toks), out_vec_to_tok(items[-1])))
            byid[sp[0]] = l
    fails += oracle_run(ctx, ol, "block formulation represents the same operator: block spmv = scalar spmv (C13_block_spmv, C17 block adapter)", lambda cid: byid[cid])
    # ---- index types near their limits
    f, _, _ = diff_run(ctx, "adapters_idx", idx_cases(tier, seed),
                       theorem="index types at the edge of their range: zero_copy_direct view, generic copy, tuple iteration (C17_index_conversion_identity, C17_zero_copy_view)")
    for x in f: x["group"] = "idx"
    fails += f
    # ---- value types: scaled_problem over block-valued and complex-valued matrices
    fails += run_vt(ctx)
    # ---- third-party containers (double, dyadic)
    tp = third_party_cases(tier, seed)
    f, impl3, _ = diff_run(ctx, "adapters3p", tp, theorem="Eigen / uBlas adapters expose the source matrix (correspondence only)")
    fails += f
    fails += dims_oracle(ctx, tp, impl3)
    # the same views taken from inside an active parallel region of the caller (4 threads configured, inner team of one): the copy
    # into the internal CRS format must not depend on the team that executes it (seeded C17-7)
    ntp = [l.replace(" ", " nested ", 1) for l in tp]
    f, _, _ = diff_run(ctx, "adapters3p", ntp, env={"OMP_NUM_THREADS": "4", "OMP_NESTED": "false", "OMP_MAX_ACTIVE_LEVELS": "1"}, model_lines=tp,
                       theorem="Eigen / uBlas / tuple adapters copied into the internal CRS format from inside an active parallel region "
                               "(reduced inner team) expose the source matrix")
    fails += f
    # ---- S: solves through reorder / scaled_problem
    fails += run_solves(ctx, solve_cases(tier, seed))
    # ---- P: row order
    fails += run_pc(ctx)
    return fails


def dims_oracle(ctx, lines, impl):
    """rows / cols / nonzeros reported through the adapter = those of the source container"""
    fails = []
    for l in lines:
        cid, op, payload = l.split(" ", 2)
        toks = payload.split(); n, m = int(toks[0]), int(toks[1])
        k = 2; nnz = 0
        for _ in range(n):
            cnt = int(toks[k]); nnz += cnt; k += 1 + 2 * cnt
        o = (impl.get(cid) or "").split()
        ctx["stats"]["oracle_checks"] += 1
        if len(o) < 3 or o[:3] != [str(n), str(m), str(nnz)]:
            ctx["stats"]["oracle_fail"] += 1
            fails.append(dict(kind="counterexample", group="dims", meta=dict(adapter=op, rectangular=(n != m)),
                              case=l, impl=impl.get(cid), model="%d %d %d ..." % (n, m, nnz), op=op, size=len(l),
                              oracle=dict(statement="backend::rows/cols/nonzeros(adapter) = source", expected=[n, m, nnz], got=o[:3]),
                              theorem="C17: rows, columns and non-zero count seen through the adapter agree with the source matrix (%s)" % op))
    return fails


def out_vec_to_tok(s):
    xs = s.strip()[1:-1].split()
    return " ".join([str(len(xs))] + xs)


def run_solves(ctx, lines):
    impl = ctx["run_driver"](ctx["cpp"]["adapters"], lines)
    account(ctx, lines, impl)
    ol = []; byid = {}; fails = []
    for l in lines:
        cid, op, payload = l.split(" ", 2)
        o = impl.get(cid, "")
        byid[cid] = l
        if not o.startswith("["):
            fails.append(dict(kind="counterexample", case=l, impl=o, model=None, op=op, size=len(l),
                              theorem="%s: exact solve through the adapter failed" % op)); continue
        items = split_top(o)
        toks = payload.split()
        # payload = crs, (perm | s), f ; cut the crs
        n = int(toks[0]); k = 2
        for _ in range(n):
            cnt = int(toks[k]); k += 1 + 2 * cnt
        crs = " ".join(toks[:k]); rest = toks[k:]
        na = int(rest[0]); arg = rest[:1 + na]; f = rest[1 + na:]
        if op == "reorder_solve":
            ol.append("%s o.reorder_solve %s %s %s %s %s" % (cid, crs, " ".join(f), out_vec_to_tok(items[0]), out_vec_to_tok(items[1]), out_vec_to_tok(items[2])))
        else:
            ol.append("%s o.scaled_solve %s %s %d %s %s %s" % (cid, crs, " ".join(f), 1 if na == 0 else 0, out_vec_to_tok(items[0]), out_vec_to_tok(items[1]), out_vec_to_tok(items[2])))
    fails += oracle_run(ctx, ol, "reorder / scaled_problem: the post-processed solution solves the original system (C17_reorder_solves, C17_scaled_solves)", lambda cid: byid[cid])
    return fails


def run_all(ctx, exe, lines, timeout=1200):
    """run_driver, re-running the cases that were left unanswered because an earlier case of the
    same shard killed the driver (abort / assert); every case ends up with an output"""
    out = {}
    todo = list(lines)
    for _ in range(40):
        if not todo: break
        res = ctx["run_driver"](exe, todo, timeout=timeout)
        out.update(res)
        nxt = [l for l in todo if l.split(" ", 1)[0] not in res]
        if len(nxt) == len(todo): break
        todo = nxt
    return out


def run_pc(ctx, replay=None):
    tier, seed = ctx["tier"], ctx["seed"]
    fails = []
    if replay:
        cs = []
        for k in range(0, len(replay), 2):
            a = replay[k]; b = replay[k + 1] if k + 1 < len(replay) else replay[k]
            cid = a.split()[0].rstrip("ab"); op = a.split()[1]; kind = a.split()[2]
            if op == "pcrt": kind = "rt_%s_%s" % (a.split()[2], a.split()[3])
            cs.append((cid, kind, DRV_OF_OP[op], a.split(" ", 1)[1], b.split(" ", 1)[1], dict(n=0)))
    else:
        cs = pc_cases(tier, seed)
    for drv in ("pcorder", "pcorder2", "pcorder3", "pcorder4", "pcorder_rt"):
        sub = [c for c in cs if c[2] == drv]
        if not sub: continue
        la = ["%sa %s" % (c[0], c[3]) for c in sub]; lb = ["%sb %s" % (c[0], c[4]) for c in sub]
        impl = run_all(ctx, ctx["cpp"][drv], la + lb)
        account(ctx, la + lb, impl)
        # implementation vs model where the base model has the smoother (faithful: no sorting in
        # as_preconditioner); "UNMODELLED" kinds are compared implementation-vs-implementation only
        if drv == "pcorder":
            model = ctx["run_driver"](ctx["model"], la + lb)
            for l in la + lb:
                cid = l.split()[0]
                mo = model.get(cid)
                if mo is None or mo.startswith("UNMODELLED") or mo.startswith("UNSUPPORTED"): continue
                if impl.get(cid) != mo:
                    ctx["stats"]["mismatches"] += 1
                    fails.append(dict(kind="counterexample", case=l, impl=impl.get(cid), model=mo, op="pc", size=len(l),
                                      theorem="correspondence drv_pcorder vs Relax.v through Adapters.plain_entry"))
        for c in sub:
            a, b = impl.get(c[0] + "a"), impl.get(c[0] + "b")
            ctx["stats"]["oracle_checks"] += 1
            bad_sorted = b is None or b.startswith(("EXC", "CRASH"))
            if bad_sorted:
                # the sorted listing itself failed: generator left the supported domain, or a crash
                if b is None or b.startswith("CRASH"):
                    fails.append(dict(kind="counterexample", case=lb[sub.index(c)], impl=b, model=None, op="pc", size=len(c[4]),
                                      theorem="preconditioner on sorted input crashed"))
                continue
            if a != b:
                ctx["stats"]["oracle_fail"] += 1
                meta = dict(c[5]); meta["kind"] = c[1]
                outcome = "throws" if (a or "").startswith("EXC") else ("crash" if (a or "").startswith("CRASH") else "different-operator")
                fails.append(dict(kind="counterexample", group="row-order", meta=meta,
                                  case="%sa %s" % (c[0], c[3]), case_lines=["%sa %s" % (c[0], c[3]), "%sb %s" % (c[0], c[4])],
                                  impl=a, model=b, op=c[3].split()[0], size=len(c[3]),
                                  oracle=dict(statement="P(shuffled rows) e_i = P(sorted rows) e_i for all i", outcome=outcome,
                                              shuffled=a, sorted=b),
                                  theorem="C17: a preconditioner built from a matrix whose row entries are listed in arbitrary order equals the one built from the sorted matrix (%s)" % c[1]))
    return fails
