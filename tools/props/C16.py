"""C16 -- direct and dense kernels are exact: skyline LU, small inverse, QR, reordering.

Stages:
  1. exact correspondence (vq::Q vs extracted Coq model, byte-identical lines):
     sky / sky_t (several rhs on ONE solver object), cm, inv, sminv, sm, smident, qr, qr2, qrsolve;
  2. specification oracles evaluated by the extracted Coq spec functions on the implementation's
     outputs: o.solves (A x = b with Kernels.spmv), o.perm (permutation of 0..n-1),
     o.inverse (A inv(A) = I); skyb (block value type) has only this oracle;
  2a. A3-B outcome oracle (python, exact rank): detail::inverse / math::inverse(static_matrix) end in the assertion
     exactly on the singular inputs (C16_inverse_nonsingular and its converse via A inv(A) = I);
  2b. exact QR oracles (python, exact rationals, NO tolerance) on the implementation's QR<vq::Q> outputs for
     the "perfect square" family qr/qr2/qrsolve/qrsolvec with meta sq=True: A = Q0 R0 with Q0 rational
     orthogonal and dyadic diag(R0), so that every square root met is exact in vq::Q and the theorems
     C16_qr_factorize_correct / C16_qr_solve_* apply literally: Q R = A, Q'Q = I, R upper triangular,
     R'R = A'A, normal equations / A x = b and x in the row space;
  2c. QR object reuse (ops qrseq / qrseqf, d.qrseq / d.qrseqf; model coq/QrObj.v): sequences of compute / factorize /
     solve calls of different shapes and storage orders on ONE QR object (tall, square, wide; wide after a longer work
     vector; the same wide shape again; computed = true after solve / compute / factorize / the caller's own transposed
     compute): each call's output vs the extracted object model (stage 1, exact), vs the same call on a fresh object
     (exact: digit for digit, double: bit for bit), and the stage 2b / 3 oracles on every factorize / solve of a sequence;
  3. double build (tested, not proved): d.qr / d.qr2 / d.qrsolve / d.inv / d.sky outputs are exact
     binary64 values printed as rationals; residual oracles in exact rational arithmetic below with
     tolerance 1e-10 * scale.
"""
import random, itertools
from fractions import Fraction as F
from vcheck import fmt_q, fmt_vec, fmt_ivec, fmt_crs, parse_out_vec, split_top
import gen
from props.common import diff_run, oracle_run, account

DRIVERS = ["direct"]
MODEL = "direct"
ASSUMPTIONS = [
    "skyline_lu / detail::inverse / QR / static_matrix instantiated with the exact rational vq::Q execute the same template code as with double",
    "CRS inputs have no duplicate column inside a row (skyline_lu overwrites a duplicate entry where spmv adds it) and are square with n >= 1",
    "assert() in detail::inverse is active (no NDEBUG); it is mapped to the outcome 'EXC assert'",
    "QR: A = QR / Q'Q = I / least-squares / minimum-norm are PROVED for the model Qr.v over any field with a true square root (closed at R); the exact QR<vq::Q> run (pseudo-root) ties the code to the model digit for digit; on inputs whose column norms are squares of dyadic rationals the pseudo-root is exact and the proved identities are checked on the implementation's output in exact arithmetic; for general inputs they are TESTED in binary64 with tolerance 1e-10*scale",
    "complex value types are not instantiated; block value types only through static_matrix<vq::Q,b,b>",
    "QR object reuse: the array a QR object's pointer r refers to stays alive and unmodified until the next compute / factorize / solve(computed = false) "
    "(the model QrObj.v keeps its content in the object state); Q(i,j) / R(i,j) are read right after factorize() only; shapes have no zero dimension",
]
TRUSTED_BASE = [
    "harness/drv_direct.cpp turns __assert_fail into an outcome with longjmp (glibc symbol interposition)",
    "python-side exact rational residual oracles for the double build and for the exact perfect-square QR family (tools/props/C16.py)",
    "harness/drv_direct.cpp QrSeq: one detail::QR object per sequence, all arrays of a sequence kept alive; a 'fresh object' for a computed = true call is a "
    "fresh object on which the establishing call has been repeated",
]
RULE = ("cases derived from VERIF_SEED by tools/props/C16.py: exhaustive small sparsity patterns x value palettes + random; "
        "distinct = distinct case payload; non-trivial = implementation output contains a non-zero value and is not an exception")

TOL = F(1, 10 ** 10)
MAXOUT = 200000

# ------------------------------------------------------------------ generators

# ---- local copies of small generators (so that renames in tools/gen.py by other groups cannot break C16)
DYADIC = [F(k, d) for k in range(-8, 9) for d in (1, 2, 4)]
def dyq(r, nz=False):
    v = r.choice(DYADIC)
    return F(1) if (nz and v == 0) else v
def dyvec(r, n): return [dyq(r) for _ in range(n)]
def matvec(rows, x): return [sum((v * x[c] for c, v in rw), F(0)) for rw in rows]
def tridiag(r, n):
    rows = []
    for i in range(n):
        rw = {}
        if i > 0: rw[i - 1] = gen.rq(r, nz=True)
        if i + 1 < n: rw[i + 1] = gen.rq(r, nz=True)
        rw[i] = sum(abs(v) for v in rw.values()) + F(r.choice([1, 2, 3]), r.choice([1, 2]))
        rows.append(sorted(rw.items()))
    return rows
def arrow(r, n):
    rows = []
    for i in range(n):
        rw = {}
        if i < n - 1:
            if r.random() < 0.85: rw[n - 1] = gen.rq(r, nz=True)
        else:
            for j in range(n - 1):
                if r.random() < 0.85: rw[j] = gen.rq(r, nz=True)
        rw[i] = sum(abs(v) for v in rw.values()) + F(r.choice([1, 2, 3]), r.choice([1, 2]))
        rows.append(sorted(rw.items()))
    return rows
def dd_values(r, n, pat_rows, style):
    """values for a pattern (list of column lists, diagonal may be absent): strictly row diagonally
    dominant where the diagonal is present; style: 'int' | 'frac' | 'zeros' (some stored zeros)"""
    rows = []
    for i, cols in enumerate(pat_rows):
        rw = {}
        for j in cols:
            if j == i: continue
            if style == "int": v = F(r.choice([1, -1, 2, -2, 3]))
            elif style == "frac": v = gen.rq(r, nz=True)
            else: v = F(0) if r.random() < 0.3 else gen.rq(r, nz=True)
            rw[j] = v
        if i in cols:
            rw[i] = sum(abs(v) for v in rw.values()) + F(r.choice([1, 2, 3]), r.choice([1, 2]))
            if r.random() < 0.3: rw[i] = -rw[i]
        rows.append([(j, rw[j]) for j in cols])
    return rows

def pat_from_bits(bits, n, diag=None):
    """pattern rows from an n*n bit mask; diag=True forces the diagonal"""
    rows = []
    for i in range(n):
        cols = [j for j in range(n) if ((bits >> (i * n + j)) & 1) or (diag and i == j)]
        rows.append(cols)
    return rows

def offdiag_masks(n):
    pos = [(i, j) for i in range(n) for j in range(n) if i != j]
    for m in range(1 << len(pos)):
        bits = 0
        for k, (i, j) in enumerate(pos):
            if (m >> k) & 1: bits |= 1 << (i * n + j)
        yield bits

def disconnected(r, n):
    """two or three components with interleaved numbering, dd values"""
    comp = [r.randrange(r.choice([2, 3])) for _ in range(n)]
    pat = [[i] for i in range(n)]
    for i in range(n):
        for j in range(n):
            if i != j and comp[i] == comp[j] and r.random() < 0.35: pat[i].append(j)
    for p in pat: r.shuffle(p)
    return dd_values(r, n, pat, "frac")

def rhs_block(r, n, k):
    parts = [str(k)]
    for _ in range(k):
        parts += [fmt_vec(gen.rvec(r, n)), fmt_vec(gen.rvec(r, n))]
    return " ".join(parts)

def sky_cases(r, tier, add):
    quick = tier == "quick"
    # exhaustive: all off-diagonal patterns with full diagonal, n <= 3 (quick) / 4 (thorough)
    for n in (1, 2, 3) if quick else (1, 2, 3, 4):
        masks = list(offdiag_masks(n))
        for bits in masks:
            for style in (("int", "zeros") if n < 4 else ("int",)):
                rows = dd_values(r, n, pat_from_bits(bits, n, diag=True), style)
                rev = r.randrange(2)
                add("sky", "%d %s %s" % (rev, fmt_crs(n, n, rows), rhs_block(r, n, 2)))
    if quick:
        for bits in r.sample(list(offdiag_masks(4)), 250):
            rows = dd_values(r, 4, pat_from_bits(bits, 4, diag=True), r.choice(["int", "frac", "zeros"]))
            add("sky", "%d %s %s" % (r.randrange(2), fmt_crs(4, 4, rows), rhs_block(r, 4, 2)))
    # all n x n patterns including missing diagonals (zero pivots, pivots created by fill-in): outcome classes
    for n in (2, 3):
        allb = range(1 << (n * n))
        for bits in (allb if (n == 2 or not quick) else r.sample(list(allb), 200)):
            rows = dd_values(r, n, pat_from_bits(bits, n), "int")
            add("sky", "%d %s %s" % (r.randrange(2), fmt_crs(n, n, rows), rhs_block(r, n, 1)))
    # zero pivots appearing during the factorisation (singular leading minors), and singular matrices
    zp = [
        [[(0, F(1)), (1, F(1))], [(0, F(1)), (1, F(1))]],
        [[(0, F(2)), (1, F(1))], [(0, F(4)), (1, F(2))]],
        [[(0, F(0))]], [[]], [[(0, F(3))]],
        [[(0, F(1)), (1, F(2)), (2, F(3))], [(0, F(2)), (1, F(4)), (2, F(1))], [(0, F(1)), (1, F(1)), (2, F(1))]],
        [[(0, F(1)), (2, F(1))], [(1, F(1))], [(0, F(1)), (2, F(1))]],
        [[(1, F(1))], [(0, F(1))]],
    ]
    for rows in zp:
        n = len(rows)
        for rev in (0, 1):
            add("sky", "%d %s %s" % (rev, fmt_crs(n, n, rows), rhs_block(r, n, 1)))
    # random: SPD M-matrices, non-symmetric dominant, disconnected, arrow, unsorted rows
    N = 120 if quick else 900
    for it in range(N):
        kind = r.choice(["spd", "spd", "nonsym", "nonsym", "disc", "arrow", "tri"])
        n = r.choice([1, 2, 3, 4, 5, 6, 8, 10, 13]) if it % 6 else r.randint(14, 30 if quick else 45)
        if kind == "spd": rows = gen.spd_mmatrix(r, n)
        elif kind == "nonsym": rows = gen.nonsym_dd(r, n, density=r.choice([0.1, 0.25, 0.5]))
        elif kind == "disc": rows = disconnected(r, n)
        elif kind == "arrow": rows = arrow(r, n)
        else: rows = tridiag(r, n)
        if r.random() < 0.5: rows = gen.shuffle_rows(r, rows)
        op = "sky_t" if it % 5 == 0 else "sky"
        add(op, "%d %s %s" % (r.randrange(2), fmt_crs(n, n, rows), rhs_block(r, n, r.choice([1, 2, 3]))))

def skyb_cases(r, tier, add):
    N = 30 if tier == "quick" else 200
    for it in range(N):
        b = r.choice([1, 2, 2, 3, 4]); nb = r.choice([1, 2, 3, 4, 6])
        n = nb * b
        rows = gen.spd_mmatrix(r, n, extra_diag=F(r.choice([1, 2]), 1))
        add("skyb", "%d %s %s" % (b, fmt_crs(n, n, rows), fmt_vec(gen.rvec(r, n))))

def cm_cases(r, tier, add):
    quick = tier == "quick"
    one = F(1)
    def emit(rev, n, pat):
        add("cm", "%d %s" % (rev, fmt_crs(n, n, [[(c, one) for c in cols] for cols in pat])))
    for n in (1, 2, 3):
        for bits in range(1 << (n * n)):
            for rev in (0, 1): emit(rev, n, pat_from_bits(bits, n))
    if quick:
        # all 4-node patterns: 65536; quick takes every pattern with rev alternating
        for bits in range(1 << 16): emit(bits & 1 ^ ((bits >> 7) & 1), 4, pat_from_bits(bits, 4))
    else:
        for bits in range(1 << 16):
            for rev in (0, 1): emit(rev, 4, pat_from_bits(bits, 4))
        # 5 nodes: all off-diagonal patterns with full diagonal (2^20), and a sample of general ones
        for bits in offdiag_masks(5): emit((bits >> 3) & 1, 5, pat_from_bits(bits, 5, diag=True))
        for _ in range(200000): emit(r.randrange(2), 5, pat_from_bits(r.getrandbits(25), 5))
    N = 400 if quick else 4000
    for it in range(N):
        n = r.choice([5, 6, 7, 9, 12, 16]) if it % 8 else r.randint(17, 40 if quick else 80)
        dens = r.choice([0.05, 0.1, 0.2, 0.4])
        kind = r.choice(["any", "sym", "comps", "star"])
        pat = [[] for _ in range(n)]
        if kind == "comps":
            comp = [r.randrange(r.randint(2, 5)) for _ in range(n)]
        for i in range(n):
            for j in range(n):
                if kind == "comps" and comp[i] != comp[j]: continue
                if r.random() < dens:
                    pat[i].append(j)
                    if kind == "sym" and i != j: pat[j].append(i)
        if kind == "star":
            hub = r.randrange(n)
            for j in range(n):
                if j != hub: pat[hub].append(j)
        if r.random() < 0.3:
            for i in range(n):
                if pat[i] and r.random() < 0.3: pat[i].append(r.choice(pat[i]))   # duplicate entries
        for p in pat:
            if r.random() < 0.5: p.sort()
            else: r.shuffle(p)
        emit(r.randrange(2), n, pat)

def rmat(r, n, kind):
    """row-major n x n matrix values"""
    if kind == "generic": return [gen.rq(r) for _ in range(n * n)]
    if kind == "int": return [F(r.randint(-3, 3)) for _ in range(n * n)]
    if kind == "perm":
        p = list(range(n)); r.shuffle(p)
        return [gen.rq(r, nz=True) if p[i] == j else F(0) for i in range(n) for j in range(n)]
    if kind == "ties":   # equal magnitudes, both signs: first maximum must win, |.| must be used
        return [F(r.choice([-2, 2, -2, 2, 1, -1, 0])) for _ in range(n * n)]
    if kind == "negbig": # large negative entries: a signed comparison would choose differently
        return [F(r.choice([-9, -7, -5, 1, 2, 0, 1, 3])) for _ in range(n * n)]
    if kind == "rank1":
        u = [gen.rq(r, nz=True) for _ in range(n)]; v = [gen.rq(r) for _ in range(n)]
        return [u[i] * v[j] for i in range(n) for j in range(n)]
    if kind == "duprow":
        a = [gen.rq(r) for _ in range(n * n)]
        if n > 1:
            i, j = r.sample(range(n), 2)
            for k in range(n): a[i * n + k] = a[j * n + k] * F(2)
        return a
    if kind == "zerocol":
        a = [gen.rq(r, nz=True) for _ in range(n * n)]; j = r.randrange(n)
        for i in range(n): a[i * n + j] = F(0)
        return a
    raise ValueError(kind)

def inv_cases(r, tier, add):
    quick = tier == "quick"
    kinds = ["generic", "generic", "int", "perm", "ties", "negbig", "rank1", "duprow", "zerocol"]
    bmax_s = 6
    N = 500 if quick else 5000
    for it in range(N):
        n = r.choice([1, 2, 2, 3, 3, 4, 4, 5, 6] if quick else [1, 2, 2, 3, 3, 4, 4, 5, 5, 6, 6])
        a = rmat(r, n, r.choice(kinds))
        junk = [gen.rq(r) for _ in range(n * n)]
        add("inv", "%d %s %s" % (n, fmt_vec(a), fmt_vec(junk)))
        if n <= bmax_s: add("sminv", "%d %s" % (n, fmt_vec(a)))
    # exhaustive small palettes: all 2x2 over {-2..2}; 3x3 over {-1,0,1} (sampled in quick)
    for vals in itertools.product([-2, -1, 0, 1, 2], repeat=4):
        add("inv", "2 %s %s" % (fmt_vec([F(v) for v in vals]), fmt_vec([F(7)] * 4)))
    all3 = list(itertools.product([-1, 0, 1], repeat=9))
    for vals in (r.sample(all3, 1500) if quick else all3):
        add("sminv", "3 %s" % fmt_vec([F(v) for v in vals]))

def sm_cases(r, tier, add):
    N = 150 if tier == "quick" else 1500
    bs = [1, 2, 3, 4, 5, 6]
    for it in range(N):
        b = r.choice(bs)
        A = lambda: fmt_vec([gen.rq(r) for _ in range(b * b)])
        V = lambda: fmt_vec([gen.rq(r) for _ in range(b)])
        for op in ("add", "sub", "mul", "inner", "lt"): add("sm", "%d %s %s %s" % (b, op, A(), A()))
        add("sm", "%d mulv %s %s" % (b, A(), V()))
        add("sm", "%d innerv %s %s" % (b, V(), V()))
        add("sm", "%d scale %s %s" % (b, fmt_q(gen.rq(r)), A()))
        add("sm", "%d const %s" % (b, fmt_q(gen.rq(r))))
        for op in ("neg", "adj", "norm"): add("sm", "%d %s %s" % (b, op, A()))
        add("sm", "%d adjv %s" % (b, V()))
        add("sm", "%d iszero %s" % (b, fmt_vec([F(0)] * (b * b)) if it % 3 == 0 else A()))
        add("sm", "%d id" % b); add("sm", "%d zero" % b)
        add("smident", "%d %s %s %s %s" % (b, A(), A(), A(), fmt_q(gen.rq(r))))
        R = lambda k: fmt_vec([gen.rq(r) for _ in range(k)])
        N_, K_, M_ = r.choice([(2, 3, 2), (3, 2, 4), (1, 3, 2), (2, 1, 3), (3, 4, 3), (4, 2, 1)])
        add("smr", "mul %d %d %d %s %s" % (N_, K_, M_, R(N_ * K_), R(K_ * M_)))
        N_, M_ = r.choice([(2, 3), (3, 2), (1, 4), (3, 4)])
        add("smr", "adj %d 0 %d %s" % (N_, M_, R(N_ * M_)))
        N_, M_ = r.choice([(3, 2), (2, 3), (4, 2)])
        add("smr", "inner %d 0 %d %s %s" % (N_, M_, R(N_ * M_), R(N_ * M_)))

def dense(r, m, n, kind, dy=False):
    q = (lambda nz=False: dyq(r, nz)) if dy else (lambda nz=False: gen.rq(r, nz))
    if kind == "full": a = [[q(True) if r.random() < 0.85 else q() for _ in range(n)] for _ in range(m)]
    elif kind == "zerocol":
        a = [[q(True) for _ in range(n)] for _ in range(m)]
        for j in r.sample(range(n), max(1, n // 3)):
            for i in range(m): a[i][j] = F(0)
    elif kind == "rankdef":
        rk = max(1, min(m, n) - r.randint(1, 2))
        u = [[F(r.randint(-2, 2)) for _ in range(rk)] for _ in range(m)]
        v = [[F(r.randint(-2, 2)) for _ in range(n)] for _ in range(rk)]
        a = [[sum(u[i][k] * v[k][j] for k in range(rk)) for j in range(n)] for i in range(m)]
    elif kind == "upper":
        a = [[(q(True) if j >= i else F(0)) for j in range(n)] for i in range(m)]
    elif kind == "zero": a = [[F(0)] * n for _ in range(m)]
    else: raise ValueError(kind)
    return a

def flat(a, order):
    m = len(a); n = len(a[0]) if m else 0
    return [a[i][j] for i in range(m) for j in range(n)] if order == 0 else [a[i][j] for j in range(n) for i in range(m)]

def qr_cases(r, tier, add, exact):
    quick = tier == "quick"
    pfx = "" if exact else "d."
    mx = (5 if quick else 7) if exact else (6 if quick else 12)
    N = (60 if quick else 300) if exact else (250 if quick else 2500)
    kinds = ["full", "full", "full", "zerocol", "rankdef", "upper", "zero"]
    for it in range(N):
        m = r.randint(1, mx); n = r.randint(1, mx)
        if exact and m * n > 25 and quick: m = min(m, 4)
        order = r.randrange(2)
        kind = r.choice(kinds)
        a = dense(r, m, n, kind, dy=not exact)
        add(pfx + "qr", "%d %d %d %s" % (order, m, n, fmt_vec(flat(a, order))), meta=dict(a=a, kind=kind))
        if it % 3 == 0:
            m1 = r.randint(1, mx); n1 = r.randint(1, mx)
            if exact and quick: m1 = min(m1, 4); n1 = min(n1, 4)
            o1 = r.randrange(2); a1 = dense(r, m1, n1, "full", dy=not exact)
            add(pfx + "qr2", "%d %d %d %s %d %d %d %s" % (o1, m1, n1, fmt_vec(flat(a1, o1)), order, m, n, fmt_vec(flat(a, order))),
                meta=dict(a=a, kind=kind))
        b = [dyq(r) if not exact else gen.rq(r) for _ in range(m)]
        add(pfx + "qrsolve", "%d %d %d %s %s" % (order, m, n, fmt_vec(flat(a, order)), fmt_vec(b)), meta=dict(a=a, b=b, kind=kind))
        if m >= n:
            add(pfx + "qrsolvec", "%d %d %d %s %s" % (order, m, n, fmt_vec(flat(a, order)), fmt_vec(b)), meta=dict(a=a, b=b, kind=kind))

# ---- "perfect square" QR family: every square root met by QR<vq::Q> is exact ---------------------
def _eye(m): return [[F(1) if i == j else F(0) for j in range(m)] for i in range(m)]
def _mm(a, b):
    return [[sum((a[i][l] * b[l][j] for l in range(len(b))), F(0)) for j in range(len(b[0]))] for i in range(len(a))]
def _tr(a): return [list(c) for c in zip(*a)] if a else []

def rat_orth(r, m, nrefl=None):
    """rational orthogonal m x m matrix: product of rational Householder reflections I - 2uu'/u'u (small integer u)
    and a signed permutation"""
    q = _eye(m)
    for _ in range(r.randint(0, 2) if nrefl is None else nrefl):
        u = [F(r.randint(-2, 2)) for _ in range(m)]
        uu = sum(x * x for x in u)
        if uu == 0: continue
        h = [[(F(1) if i == j else F(0)) - 2 * u[i] * u[j] / uu for j in range(m)] for i in range(m)]
        q = _mm(q, h)
    perm = list(range(m)); r.shuffle(perm)
    sg = [r.choice([1, -1]) for _ in range(m)]
    return [[q[i][perm[j]] * sg[j] for j in range(m)] for i in range(m)]

def sq_matrix(r, m, n, kind):
    """m x n matrix A = Q0 R0, Q0 rational orthogonal, R0 upper triangular/trapezoidal with a dyadic non-zero diagonal:
    by uniqueness of QR the norms met by Householder QR are |R0_ii|, whose squares have exact roots in vq::Q.
    kinds: full | lastzero (R0[k-1][k-1] = 0: tau = 0 branch in the last column) | upper (Q0 = I: tau = 0 everywhere)
           | zero"""
    k = min(m, n)
    if kind == "zero": return [[F(0)] * n for _ in range(m)]
    r0 = [[F(0)] * n for _ in range(m)]
    for i in range(k):
        for j in range(i, n):
            if i == j: r0[i][j] = F(r.choice([1, 2, 3, 5, -1, -2, -3, 7]), r.choice([1, 1, 2, 4, 8]))
            else: r0[i][j] = F(r.randint(-4, 4), r.choice([1, 1, 2, 3]))
    if kind == "lastzero": r0[k - 1][k - 1] = F(0)
    q0 = _eye(m) if kind == "upper" else rat_orth(r, m, nrefl=r.choice([1, 1, 2]))
    return _mm(q0, r0)

def sq_cases(r, tier, add):
    quick = tier == "quick"
    N = 70 if quick else 500
    mx = 5 if quick else 6
    for it in range(N):
        m = r.randint(1, mx); n = r.randint(1, mx)
        order = r.randrange(2)
        kind = r.choice(["full", "full", "full", "full", "lastzero", "upper", "zero"])
        a = sq_matrix(r, m, n, kind)
        add("qr", "%d %d %d %s" % (order, m, n, fmt_vec(flat(a, order))), dict(a=a, kind=kind, sq=True))
        if it % 4 == 0:
            m1 = r.randint(1, 4); n1 = r.randint(1, 4); o1 = r.randrange(2)
            a1 = dense(r, m1, n1, "full")
            add("qr2", "%d %d %d %s %d %d %d %s" % (o1, m1, n1, fmt_vec(flat(a1, o1)), order, m, n, fmt_vec(flat(a, order))),
                dict(a=a, kind=kind, sq=True))
        # solve: full rank only; wide systems factorise A', so A' must be of the form Q0 R0
        m2 = r.randint(1, mx); n2 = r.randint(1, mx); o2 = r.randrange(2)
        a2 = sq_matrix(r, m2, n2, "full") if m2 >= n2 else _tr(sq_matrix(r, n2, m2, "full"))
        b2 = [gen.rq(r) for _ in range(m2)]
        add("qrsolve", "%d %d %d %s %s" % (o2, m2, n2, fmt_vec(flat(a2, o2)), fmt_vec(b2)), dict(a=a2, b=b2, kind="full", sq=True))
        if m2 >= n2 and it % 2 == 0:
            add("qrsolvec", "%d %d %d %s %s" % (o2, m2, n2, fmt_vec(flat(a2, o2)), fmt_vec(b2)), dict(a=a2, b=b2, kind="full", sq=True))

# ---- QR object reuse: sequences of compute / factorize / solve calls on ONE QR object ----------------------------
# model: coq/QrObj.v (every data member of detail::QR is part of the object state); theorems C16_qr_solve_any_object,
# C16_qr_solve_junk_independent, C16_qr_solve_computed, C16_qr_solve_again, C16_qr_factorize_any_object.
# ops qrseq / d.qrseq (one object) and qrseqf / d.qrseqf (a fresh object per call), same payload:
#   <ncalls> ( F ord m n A | C ord m n A | W ord m n A | S ord m n A b | T b )*      (see harness/drv_direct.cpp)
def _seq_matrix(r, mode, m, n, for_solve):
    """(matrix, kind) of shape m x n for a call of a sequence"""
    if mode == "sq":
        kind = "full" if for_solve else r.choice(["full", "full", "lastzero", "upper"])
        if m >= n or not for_solve: return sq_matrix(r, m, n, kind), kind
        return _tr(sq_matrix(r, n, m, "full")), "full"      # wide systems: solve factorises A', so A' must be Q0 R0
    kind = r.choice(["full", "full", "full", "full", "zerocol", "rankdef"]) if mode == "exact" else "full"
    return dense(r, m, n, kind, dy=(mode == "dbl")), kind

def _seq_shape(r, mx, want=None):
    want = want or r.choice(["wide", "wide", "tall", "square", "any"])
    m = r.randint(1, mx); n = r.randint(1, mx)
    if want == "wide":
        if mx < 2: return 1, 1
        m = r.randint(1, mx - 1); n = r.randint(m + 1, mx)
    elif want == "tall": m, n = max(m, n), min(m, n)
    elif want == "square": n = m
    return m, n

def qrseq_plan(r, mx):
    """list of (kind, m, n) with kind in F C W S T; T refers to the last non-T call and is only planned where
    solve(..., computed = true) is a legal use: after S (any shape), after C / F with m >= n, after W (m < n)"""
    tpl = r.random()
    plan = []
    if tpl < 0.15:      # wide after something with a longer work vector (larger tall / square / wide system)
        m, n = _seq_shape(r, mx, "wide")
        big = max(m, n) + r.randint(0, max(0, mx - max(m, n)))
        m0, n0 = r.choice([(big, r.randint(1, big)), (big, big), (r.randint(1, big), big)])
        plan = [("S", m0, n0), ("S", m, n)]
    elif tpl < 0.3:     # the same wide shape again: with and without computed = true
        m, n = _seq_shape(r, mx, "wide")
        plan = [("S", m, n), r.choice([("S", m, n), ("T", m, n)]), r.choice([("S", m, n), ("T", m, n)])]
    elif tpl < 0.4:     # the caller's own factorisation of a wide system, then solves with computed = true
        m, n = _seq_shape(r, mx, "wide")
        plan = [("S",) + _seq_shape(r, mx), ("W", m, n), ("T", m, n), ("T", m, n)]
    elif tpl < 0.5:     # compute / factorize, then computed = true
        m, n = _seq_shape(r, mx, r.choice(["tall", "square"]))
        plan = [("S",) + _seq_shape(r, mx, "wide"), (r.choice(["C", "F"]), m, n), ("T", m, n), ("S",) + _seq_shape(r, mx, "wide"), ("T", 0, 0)]
    else:
        for _ in range(r.randint(2, 5)):
            last = next((c for c in reversed(plan) if c[0] != "T"), None)
            can_t = last is not None and (last[0] == "S" or (last[0] in ("C", "F") and last[1] >= last[2]) or last[0] == "W")
            k = r.choices(["S", "T", "F", "C", "W"], [50, 25 if can_t else 0, 12, 7, 8])[0]
            if k == "T": plan.append(("T", 0, 0))
            elif k == "W": plan.append(("W",) + _seq_shape(r, mx, "wide"))
            else: plan.append((k,) + _seq_shape(r, mx))
    return plan

def qrseq_cases(r, tier, add):
    quick = tier == "quick"
    for mode in ("exact", "sq", "dbl"):
        N = {"exact": 40 if quick else 300, "sq": 60 if quick else 400, "dbl": 150 if quick else 1500}[mode]
        mx = {"exact": 4 if quick else 5, "sq": 5 if quick else 6, "dbl": 6 if quick else 10}[mode]
        for it in range(N):
            toks = []; seq = []; est = None
            plan = qrseq_plan(r, mx)
            for (k, m, n) in plan:
                if k == "T":
                    b = [dyq(r) if mode == "dbl" else gen.rq(r) for _ in range(est["m"])]
                    toks.append("T %s" % fmt_vec(b)); seq.append(dict(k="T", a=est["a"], b=b, kind=est["kind"]))
                    continue
                order = r.randrange(2)
                a, kind = _seq_matrix(r, mode, m, n, for_solve=(k in "SW"))
                est = dict(k=k, a=a, m=m, n=n, kind=kind)
                c = "%s %d %d %d %s" % (k, order, m, n, fmt_vec(flat(a, order)))
                b = None
                if k == "S":
                    b = [dyq(r) if mode == "dbl" else gen.rq(r) for _ in range(m)]
                    c += " " + fmt_vec(b)
                toks.append(c); seq.append(dict(k=k, a=a, b=b, kind=kind))
            payload = "%d %s" % (len(toks), " ".join(toks))
            pfx = "d." if mode == "dbl" else ""
            add(pfx + "qrseq", payload, dict(seq=seq, sq=(mode == "sq"), mode=mode))
            add(pfx + "qrseqf", payload, dict(seq=seq, sq=(mode == "sq"), mode=mode, fresh_twin=True))


def dbl_cases(r, tier, add):
    quick = tier == "quick"
    for it in range(100 if quick else 800):
        n = r.choice([1, 2, 3, 4, 5, 6])
        a = [dyq(r) for _ in range(n * n)]
        add("d.inv", "%d %s %s" % (n, fmt_vec(a), " ".join([str(n * n)] + [r.choice(["nan", "inf", "3", "-1"]) for _ in range(n * n)])),
            meta=dict(n=n, a=a))
    for it in range(40 if quick else 300):
        n = r.choice([1, 2, 3, 5, 8, 12, 20])
        rows = gen.spd_mmatrix(r, n) if it % 2 else gen.nonsym_dd(r, n, 0.3)
        rows = [[(c, F(int(v * 8), 8)) for c, v in rw] for rw in rows]
        rows = [[(c, v) for c, v in rw if v != 0 or c == i] for i, rw in enumerate(rows)]
        for i, rw in enumerate(rows):   # keep dominance after rounding to dyadics
            off = sum(abs(v) for c, v in rw if c != i)
            rows[i] = [(c, (off + 1 if c == i else v)) for c, v in rw]
        f = dyvec(r, n)
        add("d.sky", "0 %s 1 %s %s" % (fmt_crs(n, n, rows), fmt_vec(f), fmt_vec([F(0)] * n)), meta=dict(rows=rows, f=f, n=n))

def cases(tier, seed):
    r = random.Random(seed * 1000 + 16)
    out = []; meta = {}
    k = [0]
    def add(op, payload, meta_=None):
        cid = "c%d" % k[0]; k[0] += 1
        out.append("%s %s %s" % (cid, op, payload))
        if meta_ is not None: meta[cid] = meta_
    def addm(op, payload, meta=None): add(op, payload, meta)
    sky_cases(r, tier, add); skyb_cases(r, tier, add); cm_cases(r, tier, add); inv_cases(r, tier, add)
    sm_cases(r, tier, add); qr_cases(r, tier, addm, True); qr_cases(r, tier, addm, False); dbl_cases(r, tier, addm)
    sq_cases(random.Random(seed * 1000 + 1616), tier, addm)     # own stream: the older families keep their cases
    qrseq_cases(random.Random(seed * 1000 + 161616), tier, addm)
    return out, meta

# ------------------------------------------------------------------ double-build oracles (exact rational arithmetic)
def pv(s):
    if "nan" in s or "inf" in s: return None
    return parse_out_vec(s)

def mat(v, m, n): return [[v[i * n + j] for j in range(n)] for i in range(m)]
def maxabs(a): return max([abs(x) for rw in a for x in rw] + [F(0)])

def solve_exact(a, b):
    """Gaussian elimination over Fractions; returns None if singular"""
    n = len(a); M = [list(a[i]) + [b[i]] for i in range(n)]
    for c in range(n):
        p = next((i for i in range(c, n) if M[i][c] != 0), None)
        if p is None: return None
        M[c], M[p] = M[p], M[c]
        for i in range(n):
            if i != c and M[i][c] != 0:
                f = M[i][c] / M[c][c]
                M[i] = [x - f * y for x, y in zip(M[i], M[c])]
    return [M[i][n] / M[i][i] for i in range(n)]

def rank(a):
    M = [list(rw) for rw in a]; rk = 0; m = len(M); n = len(M[0]) if m else 0
    for c in range(n):
        p = next((i for i in range(rk, m) if M[i][c] != 0), None)
        if p is None: continue
        M[rk], M[p] = M[p], M[rk]
        for i in range(m):
            if i != rk and M[i][c] != 0:
                f = M[i][c] / M[rk][c]; M[i] = [x - f * y for x, y in zip(M[i], M[rk])]
        rk += 1
    return rk

def check_dqr(line, out, meta):
    a = meta["a"]; m = len(a); n = len(a[0]); k = min(m, n)
    items = split_top(out)
    if len(items) != 3: return "malformed output"
    Qv, Rv = pv(items[0]), pv(items[1])
    if Qv is None or Rv is None: return "non-finite value in Q or R"
    Qm = mat(Qv, m, n); Rm = mat(Rv, k, n)
    scale = max(F(1), maxabs(a)) * max(m, n)
    for i in range(k):
        for j in range(min(i, n)):
            if Rm[i][j] != 0: return "R not upper triangular at (%d,%d)" % (i, j)
    for i in range(m):
        for j in range(n):
            s = sum(Qm[i][l] * Rm[l][j] for l in range(k))
            if abs(s - a[i][j]) > TOL * scale: return "|A - QR| at (%d,%d) = %.3e" % (i, j, float(abs(s - a[i][j])))
    for i in range(k):
        for j in range(k):
            s = sum(Qm[l][i] * Qm[l][j] for l in range(m))
            if abs(s - (1 if i == j else 0)) > TOL * max(m, n): return "|Q'Q - I| at (%d,%d) = %.3e" % (i, j, float(abs(s - (1 if i == j else 0))))
    for i in range(m):
        for j in range(k, n):
            if Qm[i][j] != 0: return "Q column beyond min(m,n) not zero"
    return None

def check_dqrsolve(line, out, meta):
    a = meta["a"]; b = meta["b"]; m = len(a); n = len(a[0])
    x = pv(out)
    if rank(a) < min(m, n): return None            # solve is specified for full-rank systems only
    if x is None: return "non-finite value in x"
    if len(x) != n: return "wrong length"
    scale = max(F(1), maxabs(a)) ** 2 * max(F(1), max(abs(v) for v in b)) * max(m, n) ** 2
    if m >= n:
        # least squares: normal equations  A'A x = A'b
        ata = [[sum(a[l][i] * a[l][j] for l in range(m)) for j in range(n)] for i in range(n)]
        atb = [sum(a[l][i] * b[l] for l in range(m)) for i in range(n)]
        xe = solve_exact(ata, atb)
    else:
        # minimum norm: x = A'(AA')^-1 b
        aat = [[sum(a[i][l] * a[j][l] for l in range(n)) for j in range(m)] for i in range(m)]
        w = solve_exact(aat, b)
        xe = None if w is None else [sum(a[i][j] * w[i] for i in range(m)) for j in range(n)]
    if xe is None: return None
    # conditioning: compare relative to the size of the exact solution and a crude condition estimate
    xs = max([abs(v) for v in xe] + [F(1)])
    err = max(abs(u - v) for u, v in zip(x, xe))
    if err > F(1, 10 ** 7) * xs * scale: return "solve differs from least-squares/minimum-norm solution by %.3e" % float(err)
    return None

def check_dinv(line, out, meta):
    n = meta["n"]; a = meta["a"]
    A = mat(a, n, n)
    sing = rank(A) < n
    if out.startswith("EXC"): return None if sing else "assert on a non-singular matrix"
    b = pv(out)
    if sing: return None      # binary64: 1/0 = inf passes the assert; outcome class 'non-finite or garbage' is not specified
    if b is None: return "non-finite value in the inverse of a non-singular matrix"
    B = mat(b, n, n)
    be = [solve_exact(A, [F(1) if i == j else F(0) for i in range(n)]) for j in range(n)]   # columns of the exact inverse
    sc = max([abs(v) for col in be for v in col] + [F(1)]) * max(F(1), maxabs(A)) * n
    for i in range(n):
        for j in range(n):
            s = sum(A[i][l] * B[l][j] for l in range(n))
            if abs(s - (1 if i == j else 0)) > F(1, 10 ** 9) * sc: return "|A inv(A) - I| at (%d,%d) = %.3e" % (i, j, float(abs(s - (1 if i == j else 0))))
    return None

def check_dsky(line, out, meta):
    rows = meta["rows"]; f = meta["f"]; n = meta["n"]
    x = pv(out)
    if x is None: return "non-finite value"
    ax = matvec(rows, x)
    sc = max([abs(v) for rw in rows for _, v in rw] + [F(1)]) * max([abs(v) for v in x] + [F(1)]) * n
    for i in range(n):
        if abs(ax[i] - f[i]) > TOL * sc: return "|A x - b| in row %d = %.3e" % (i, float(abs(ax[i] - f[i])))
    return None

# ------------------------------------------------------------------ exact QR oracles (perfect-square family)
def check_sq_qr(line, out, meta):
    """exact: R upper triangular, Q R = A, Q'Q = I_k, Q columns >= k zero, R'R = A'A   (C16_qr_factorize_correct)"""
    a = meta["a"]; m = len(a); n = len(a[0]); k = min(m, n)
    items = split_top(out)
    if len(items) != 3: return "malformed output"
    Qv, Rv = pv(items[0]), pv(items[1])
    if Qv is None or Rv is None or len(Qv) != m * n or len(Rv) != k * n: return "malformed Q or R"
    Qm = mat(Qv, m, n); Rm = mat(Rv, k, n)
    for i in range(k):
        for j in range(min(i, n)):
            if Rm[i][j] != 0: return "R not upper triangular at (%d,%d)" % (i, j)
    for i in range(m):
        for j in range(n):
            if sum(Qm[i][l] * Rm[l][j] for l in range(k)) != a[i][j]: return "Q R != A at (%d,%d) (exact)" % (i, j)
    for i in range(k):
        for j in range(k):
            if sum(Qm[l][i] * Qm[l][j] for l in range(m)) != (1 if i == j else 0): return "Q'Q != I at (%d,%d) (exact)" % (i, j)
    for i in range(m):
        for j in range(k, n):
            if Qm[i][j] != 0: return "Q column beyond min(m,n) not zero"
    for i in range(n):
        for j in range(n):
            if sum(Rm[l][i] * Rm[l][j] for l in range(k)) != sum(a[l][i] * a[l][j] for l in range(m)):
                return "R'R != A'A at (%d,%d) (exact)" % (i, j)
    return None

def check_sq_solve(line, out, meta):
    """exact: rows >= cols: A'(A x - b) = 0; rows < cols: A x = b and x = A'(AA')^-1 b   (C16_qr_solve_*)"""
    a = meta["a"]; b = meta["b"]; m = len(a); n = len(a[0])
    x = pv(out)
    if x is None or len(x) != n: return "malformed solution"
    ax = [sum(a[i][j] * x[j] for j in range(n)) for i in range(m)]
    if m >= n:
        for c in range(n):
            if sum(a[i][c] * (ax[i] - b[i]) for i in range(m)) != 0: return "normal equations violated in column %d (exact)" % c
    else:
        for i in range(m):
            if ax[i] != b[i]: return "A x != b in row %d (exact)" % i
        aat = [[sum(a[i][l] * a[j][l] for l in range(n)) for j in range(m)] for i in range(m)]
        w = solve_exact(aat, b)
        if w is None: return "generator error: A A' singular"
        xe = [sum(a[i][j] * w[i] for i in range(m)) for j in range(n)]
        if xe != x: return "x is not the minimum-norm solution A'(AA')^-1 b (exact)"
    return None

SQCHECK = {"qr": check_sq_qr, "qr2": check_sq_qr, "qrsolve": check_sq_solve, "qrsolvec": check_sq_solve}

DCHECK = {"d.qr": check_dqr, "d.qr2": check_dqr, "d.qrsolve": check_dqrsolve, "d.qrsolvec": check_dqrsolve, "d.inv": check_dinv, "d.sky": check_dsky}

# ------------------------------------------------------------------ run
def crs_of_line(tok, p):
    """parse a crs starting at token index p; returns (n, m, rows, next index)"""
    n = int(tok[p]); m = int(tok[p + 1]); p += 2; rows = []
    for _ in range(n):
        k = int(tok[p]); p += 1; rw = []
        for _ in range(k): rw.append((int(tok[p]), F(tok[p + 1]))); p += 2
        rows.append(rw)
    return n, m, rows, p

def vec_of_line(tok, p):
    k = int(tok[p]); return tok[p + 1:p + 1 + k], p + 1 + k

def run(ctx, cases_override=None):
    meta = {}
    if cases_override: lines = cases_override
    else: lines, meta = cases(ctx["tier"], ctx["seed"])
    if cases_override:
        # replay: regenerate meta for double cases from the line itself is not possible -> re-derive by id from a fresh generation
        _, meta = cases(ctx["tier"], ctx["seed"])
    fails = []
    exact = [l for l in lines if not l.split(" ", 2)[1].startswith("d.") and l.split(" ", 2)[1] != "skyb"]
    implonly = [l for l in lines if l.split(" ", 2)[1].startswith("d.") or l.split(" ", 2)[1] == "skyb"]
    byid = {l.split(" ", 1)[0]: l for l in lines}

    # 1. exact correspondence
    # one driver run per op family: a crash (memory corruption) in one kernel does not take the others down
    FAM = {"sky": "Direct.v", "sky_t": "Direct.v", "cm": "CuthillMcKee.v", "inv": "Inverse.v", "sminv": "Inverse.v/StaticMat.v",
           "sm": "StaticMat.v", "smident": "StaticMat.v", "qr": "Qr.v", "qr2": "Qr.v", "qrsolve": "Qr.v", "qrsolvec": "Qr.v", "smr": "StaticMat.v",
           "qrseq": "QrObj.v", "qrseqf": "QrObj.v"}
    impl = {}; model = {}
    for fam in sorted(set(FAM.values())):
        sub = [l for l in exact if FAM.get(l.split(" ", 2)[1]) == fam]
        if not sub: continue
        f, i_, m_ = diff_run(ctx, "direct", sub, shards=16)
        # a crash (e.g. memory corruption under a defect) loses the rest of its shard: re-run the unanswered cases
        for _round in range(80):
            missing = [l for l in sub if i_.get(l.split(" ", 1)[0]) is None]
            if not missing: break
            more = ctx["run_driver"](ctx["cpp"]["direct"], missing, shards=min(64, len(missing)))
            if not more: break
            i_.update(more)
        f = [x for x in f if x["impl"] is not None]
        known = set(x["case"].split(" ", 1)[0] for x in f)
        for l in sub:
            cid, op = l.split(" ", 2)[:2]
            if cid in known: continue
            a, b = i_.get(cid), m_.get(cid)
            if a != b:
                f.append(dict(kind="counterexample", case=l, impl=a, model=b, op=op, size=len(l), env=None,
                              theorem="correspondence"))
        impl.update(i_); model.update(m_)
        for x in f:
            x["theorem"] = "correspondence drv_direct (%s) vs Coq model %s" % (x["op"], fam)
        fails += f
    # model artefacts must never show up
    for l in exact:
        cid = l.split(" ", 1)[0]
        if (model.get(cid) or "").startswith("EXC MODEL-"):
            fails.append(dict(kind="counterexample", case=l, impl=impl.get(cid), model=model.get(cid), op=l.split(" ", 2)[1], size=len(l),
                              theorem="model artefact reached (%s): fuel bound / ordering assumption violated" % model.get(cid)))

    # implementation-only ops
    impl2 = ctx["run_driver"](ctx["cpp"]["direct"], implonly, shards=16) if implonly else {}
    for _round in range(80):
        missing = [l for l in implonly if impl2.get(l.split(" ", 1)[0]) is None]
        if not missing: break
        more = ctx["run_driver"](ctx["cpp"]["direct"], missing, shards=min(64, len(missing)))
        if not more: break
        impl2.update(more)
    account(ctx, implonly, impl2)

    for l in exact + implonly:
        cid, op = l.split(" ", 2)[:2]
        o = impl.get(cid) if cid in impl else impl2.get(cid)
        if o is not None and o.startswith("EXC"):
            key = op + ":" + o.replace(" ", "_")
            ctx["stats"]["by_op"][key] = ctx["stats"]["by_op"].get(key, 0) + 1
    # 2. specification oracles on implementation outputs
    olines = []
    def oadd(cid, k, op, payload): olines.append("%s.%d %s %s" % (cid, k, op, payload))
    for l in exact + implonly:
        cid, op, payload = l.split(" ", 2)
        out = impl.get(cid) if cid in impl else impl2.get(cid)
        if out is None or out.startswith(("EXC", "CRASH", "UNSUPPORTED")):
            if out is None or out.startswith(("CRASH", "UNSUPPORTED")) or (op in ("cm", "skyb") and out.startswith("EXC")):
                fails.append(dict(kind="counterexample", case=l, impl=out, model=model.get(cid), op=op, size=len(l),
                                  theorem="C16: %s must terminate normally on valid input" % op))
            continue
        if len(out) > MAXOUT and op in ("sky", "sky_t", "skyb", "cm", "inv", "sminv"):
            # garbage (e.g. values read out of bounds): do not feed megabyte rationals to the oracle stage
            fails.append(dict(kind="counterexample", case=l, impl=out[:300] + "...", model=(model.get(cid) or "")[:300], op=op, size=len(l),
                              theorem="C16: %s output is absurdly large (%d characters): garbage values" % (op, len(out))))
            continue
        tok = payload.split()
        if op in ("sky", "sky_t"):
            n, m, rows, p = crs_of_line(tok, 1)
            nr = int(tok[p]); p += 1
            xs = split_top(out)
            if len(xs) != nr:
                fails.append(dict(kind="counterexample", case=l, impl=out, model=model.get(cid), op=op, size=len(l), theorem="C16 sky: one solution per rhs")); continue
            A = fmt_crs(n, m, rows)
            for k in range(nr):
                rhs, p = vec_of_line(tok, p); _, p = vec_of_line(tok, p)
                x = xs[k][1:-1].split()
                oadd(cid, k, "o.solves", "%s %d %s %d %s" % (A, len(x), " ".join(x), len(rhs), " ".join(rhs)))
        elif op == "skyb":
            n, m, rows, p = crs_of_line(tok, 1)
            rhs, p = vec_of_line(tok, p)
            x = out[1:-1].split()
            oadd(cid, 0, "o.solves", "%s %d %s %d %s" % (fmt_crs(n, m, rows), len(x), " ".join(x), len(rhs), " ".join(rhs)))
        elif op == "cm":
            n = int(tok[1]); pm = out[1:-1].split()
            oadd(cid, 0, "o.perm", "%d %d %s" % (n, len(pm), " ".join(pm)))
        elif op in ("inv", "sminv"):
            n = int(tok[0]); a, p = vec_of_line(tok, 1); b = out[1:-1].split()
            oadd(cid, 0, "o.inverse", "%d %d %s %d %s" % (n, len(a), " ".join(a), len(b), " ".join(b)))
        elif op == "smident":
            if "0" in out[1:-1].split():
                fails.append(dict(kind="counterexample", case=l, impl=out, model=model.get(cid), op=op, size=len(l),
                                  theorem="C16 static_matrix algebra identity violated on the implementation (flags %s)" % out))
            ctx["stats"]["oracle_checks"] += 1
    fails += oracle_run(ctx, olines, "C16 oracle on implementation output (spec functions DirectSpec.v / Kernels.spmv): A x = b, permutation, A inv(A) = I",
                        lambda oid: byid[oid.rsplit(".", 1)[0]])

    # 2a. A3-B on the implementation: inverse() asserts exactly on the singular matrices (exact rank, python)
    for l in exact:
        cid, op, payload = l.split(" ", 2)
        if op not in ("inv", "sminv"): continue
        out = impl.get(cid)
        if out is None or out.startswith(("CRASH", "UNSUPPORTED")): continue     # reported above
        tok = payload.split(); n_ = int(tok[0]); av, _p = vec_of_line(tok, 1)
        sing = rank(mat([F(v) for v in av], n_, n_)) < n_
        ctx["stats"]["oracle_checks"] += 1
        msg = None
        if out.startswith("EXC") and not sing: msg = "assertion / exception (%s) on a NON-singular matrix: a zero pivot was chosen" % out
        elif not out.startswith("EXC") and sing: msg = "inverse() returned normally on a singular matrix"
        if msg:
            fails.append(dict(kind="counterexample", case=l, impl=out[:2000], model=(model.get(cid) or "")[:2000], op=op, size=len(l),
                              oracle=dict(op="rank." + op, result=msg),
                              theorem="C16 A3-B on the implementation (C16_inverse_nonsingular): %s" % msg))

    # 2b. exact QR oracles on the perfect-square family (implementation output, no tolerance)
    for l in exact:
        cid, op, payload = l.split(" ", 2)
        mt = meta.get(cid)
        if not mt or not mt.get("sq") or op not in SQCHECK: continue
        out = impl.get(cid)
        if out is None or out.startswith(("CRASH", "UNSUPPORTED", "EXC")): continue   # reported above
        ctx["stats"]["oracle_checks"] += 1
        msg = SQCHECK[op](l, out, mt)
        if msg:
            fails.append(dict(kind="counterexample", case=l, impl=out[:2000], model=(model.get(cid) or "")[:2000], op=op, size=len(l),
                              oracle=dict(op="sq." + op, result=msg),
                              theorem="C16 exact QR oracle on QR<vq::Q> output (perfect-square input, %s): %s" % (op, msg)))

    # 2c. QR object reuse: every call of a sequence on ONE object gives what a fresh object gives (implementation vs
    #     implementation, exact: digit for digit; double: bit for bit), and each factorize / solve of a sequence satisfies
    #     the proved identities (perfect-square family: exactly; double build: tolerance of stage 3)
    def seq_items(out): return [x.strip() for x in out.split(" ; ")]
    for l in exact + implonly:
        cid, op, payload = l.split(" ", 2)
        if op not in ("qrseq", "d.qrseq", "qrseqf", "d.qrseqf"): continue
        mt = meta.get(cid)
        out = impl.get(cid) if cid in impl else impl2.get(cid)
        if out is None or mt is None or out.startswith(("CRASH", "UNSUPPORTED", "EXC")): continue      # reported above
        dbl = op.startswith("d.")
        if mt.get("fresh_twin"):
            tid = "c%d" % (int(cid[1:]) - 1)
            tout = impl.get(tid) if tid in impl else impl2.get(tid)
            ctx["stats"]["oracle_checks"] += 1
            if tout is not None and not tout.startswith(("CRASH", "UNSUPPORTED", "EXC")) and tout != out:
                a_, b_ = seq_items(tout), seq_items(out)
                k_ = next((i for i in range(min(len(a_), len(b_))) if a_[i] != b_[i]), min(len(a_), len(b_)))
                msg = "call %d (%s) of the sequence on ONE object differs from the same call on a fresh object" % (k_, mt["seq"][k_]["k"] if k_ < len(mt["seq"]) else "?")
                fails.append(dict(kind="counterexample", case=byid.get(tid, l), impl=tout[:3000], model=out[:3000], op=op[:-1], size=len(l),
                                  oracle=dict(op="reuse." + op, result=msg),
                                  theorem="C16 QR object reuse (C16_qr_solve_junk_independent / C16_qr_solve_computed / C16_qr_factorize_any_object): %s" % msg))
        if not (dbl or mt.get("sq")): continue
        items = seq_items(out)
        if len(items) != len(mt["seq"]):
            fails.append(dict(kind="counterexample", case=l, impl=out[:2000], model=(model.get(cid) or "")[:2000], op=op, size=len(l),
                              theorem="C16 QR sequence: one result per call")); continue
        for k_, (c, o_) in enumerate(zip(mt["seq"], items)):
            if c["k"] in ("C", "W"): continue
            msg = None
            ctx["stats"]["oracle_checks"] += 1
            if c["k"] == "F":
                msg = (check_dqr if dbl else check_sq_qr)(l, o_, dict(a=c["a"]))
            else:
                x_ = split_top(o_)[0] if c["k"] == "S" else o_
                if dbl: msg = check_dqrsolve(l, x_, dict(a=c["a"], b=c["b"]))
                elif c["kind"] == "full": msg = check_sq_solve(l, x_, dict(a=c["a"], b=c["b"]))
            if msg:
                fails.append(dict(kind="counterexample", case=l, impl=out[:3000], model=(model.get(cid) or "")[:3000] if not dbl else None, op=op, size=len(l),
                                  oracle=dict(op=("d." if dbl else "sq.") + "qrseq", result="call %d (%s): %s" % (k_, c["k"], msg)),
                                  theorem="C16 QR oracle on call %d (%s) of a sequence on %s: %s" % (k_, c["k"], "a fresh object per call" if mt.get("fresh_twin") else "ONE object", msg)))

    # 3. double build: residual oracles
    for l in implonly:
        cid, op, payload = l.split(" ", 2)
        if op not in DCHECK: continue
        out = impl2.get(cid)
        if out is None or cid not in meta: continue
        if out.startswith(("CRASH", "UNSUPPORTED")) or (out.startswith("EXC") and op != "d.inv"):
            continue  # reported above
        ctx["stats"]["oracle_checks"] += 1
        msg = DCHECK[op](l, out, meta[cid])
        if msg:
            fails.append(dict(kind="counterexample", case=l, impl=out[:2000], model=None, op=op, size=len(l),
                              oracle=dict(op=op, result=msg), theorem="C16 double-build residual oracle (%s): %s" % (op, msg)))
    return fails
